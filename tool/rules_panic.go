package main

import (
	"fmt"
	"go/constant"
	"go/token"
	"go/types"
	"math"
	"os"
	"regexp"
	"regexp/syntax"
	"sort"
	"strings"

	"golang.org/x/tools/go/ssa"
)

// ---------------------------------------------------------------------------------------
// P1-P7: closed inventory of panic-capable constructs (C04)
// ---------------------------------------------------------------------------------------

type panicSite struct {
	fn     *ssa.Function
	instr  ssa.Instruction
	kind   string // index slice assert panic mapupdate divide
	rule   string
	ok     bool
	why    string
	detail string
}

func fnPkg(fn *ssa.Function) *ssa.Package {
	for fn != nil {
		if fn.Pkg != nil {
			return fn.Pkg
		}
		if fn.Parent() != nil {
			fn = fn.Parent()
			continue
		}
		if o := fn.Origin(); o != nil {
			fn = o
			continue
		}
		// the wrapper of a method expression or method value (T.m, v.m) belongs to the method's package
		if fn.Synthetic != "" && fn.Object() != nil && fn.Object().Pkg() != nil && fn.Prog != nil {
			return fn.Prog.Package(fn.Object().Pkg())
		}
		break
	}
	return nil
}

// lenBounds: interval of len(base) implied by the branch conditions that dominate blk.
func lenBounds(blk *ssa.BasicBlock, base ssa.Value) IntervalSet {
	cur := IntervalSet{{0, math.MaxInt64}}
	same := func(v ssa.Value) bool {
		if v == base {
			return true
		}
		// loads of the same address
		a, ok1 := v.(*ssa.UnOp)
		b, ok2 := base.(*ssa.UnOp)
		if ok1 && ok2 && a.Op == token.MUL && b.Op == token.MUL && a.X == b.X {
			return true
		}
		return false
	}
	child := blk
	for d := blk.Idom(); d != nil; child, d = d, d.Idom() {
		ifi, ok := d.Instrs[len(d.Instrs)-1].(*ssa.If)
		if !ok {
			continue
		}
		// which branch leads (exclusively) to child?
		branch := -1
		if d.Succs[0] == child && len(child.Preds) == 1 {
			branch = 0
		} else if d.Succs[1] == child && len(child.Preds) == 1 {
			branch = 1
		} else {
			// child may be reached through a chain; accept when exactly one successor dominates child
			dom0, dom1 := dominates(d.Succs[0], child) && len(d.Succs[0].Preds) == 1, dominates(d.Succs[1], child) && len(d.Succs[1].Preds) == 1
			if dom0 && !dom1 {
				branch = 0
			} else if dom1 && !dom0 {
				branch = 1
			}
		}
		if branch < 0 {
			continue
		}
		cur = applyLenCond(cur, ifi.Cond, branch == 0, same)
	}
	return cur
}

// valBounds: interval of an integer value implied by the branch conditions that dominate blk.
func valBounds(blk *ssa.BasicBlock, v ssa.Value) IntervalSet {
	strip := func(x ssa.Value) ssa.Value {
		for {
			switch y := x.(type) {
			case *ssa.Convert:
				if isIntType(y.X.Type()) {
					x = y.X
					continue
				}
			case *ssa.ChangeType:
				x = y.X
				continue
			}
			return x
		}
	}
	base := strip(v)
	cur := fullSet(v.Type())
	child := blk
	for d := blk.Idom(); d != nil; child, d = d, d.Idom() {
		ifi, ok := d.Instrs[len(d.Instrs)-1].(*ssa.If)
		if !ok {
			continue
		}
		branch := -1
		dom0 := (d.Succs[0] == child || dominates(d.Succs[0], child)) && len(d.Succs[0].Preds) == 1
		dom1 := (d.Succs[1] == child || dominates(d.Succs[1], child)) && len(d.Succs[1].Preds) == 1
		if dom0 && !dom1 {
			branch = 0
		} else if dom1 && !dom0 {
			branch = 1
		}
		if branch < 0 {
			continue
		}
		bo, ok := ifi.Cond.(*ssa.BinOp)
		if !ok {
			continue
		}
		op := bo.Op
		var k int64
		var okc bool
		switch {
		case strip(bo.X) == base:
			k, okc = constInt(bo.Y)
		case strip(bo.Y) == base:
			k, okc = constInt(bo.X)
			op = flipOp(op)
		}
		if !okc {
			continue
		}
		if branch == 1 {
			op = negOp(op)
		}
		cur = cur.Intersect(satisfying(op, k))
	}
	return cur
}

func dominates(a, b *ssa.BasicBlock) bool {
	for x := b; x != nil; x = x.Idom() {
		if x == a {
			return true
		}
	}
	return false
}

func applyLenCond(cur IntervalSet, cond ssa.Value, truth bool, same func(ssa.Value) bool) IntervalSet {
	switch c := cond.(type) {
	case *ssa.UnOp:
		if c.Op == token.NOT {
			return applyLenCond(cur, c.X, !truth, same)
		}
	case *ssa.Call:
		// a length test written as a predicate of the module (func isMessageLength(p []byte) bool { return len(p) == 64 })
		if f := c.Call.StaticCallee(); f != nil && !c.Call.IsInvoke() && inModule(f) {
			for ai, a := range c.Call.Args {
				if same(a) {
					reg, ok := predicateLenRegion(f, ai, truth)
					if os.Getenv("UHLINT_DEBUG") == "PLR" {
						fmt.Fprintf(os.Stderr, "PLR apply %s truth=%v -> %v %v\n", f.Name(), truth, reg, ok)
					}
					if ok {
						return cur.Intersect(reg)
					}
				}
			}
		}
	case *ssa.BinOp:
		// if err := check(x); err != nil { return }  —  a validation helper whose success implies a length
		if c.Op == token.EQL || c.Op == token.NEQ {
			var other ssa.Value
			if isNilConst(c.Y) {
				other = c.X
			} else if isNilConst(c.X) {
				other = c.Y
			}
			if other != nil {
				if call, ok := other.(*ssa.Call); ok {
					if f := call.Call.StaticCallee(); f != nil && inModule(f) {
						for ai, a := range call.Call.Args {
							if same(a) {
								if reg, ok := successLenRegion(f, ai); ok {
									success := (c.Op == token.EQL) == truth
									if success {
										return cur.Intersect(reg)
									}
								}
							}
						}
					}
				}
			}
		}
		isLen := func(v ssa.Value) bool {
			call, ok := v.(*ssa.Call)
			if !ok {
				return false
			}
			b, ok := call.Call.Value.(*ssa.Builtin)
			return ok && b.Name() == "len" && same(call.Call.Args[0])
		}
		op := c.Op
		var k int64
		var okc bool
		switch {
		case isLen(c.X):
			k, okc = constInt(c.Y)
		case isLen(c.Y):
			k, okc = constInt(c.X)
			op = flipOp(op)
		default:
			return cur
		}
		if !okc {
			return cur
		}
		if !truth {
			op = negOp(op)
		}
		return cur.Intersect(satisfying(op, k))
	}
	return cur
}

func minOf(s IntervalSet) int64 {
	if len(s) == 0 {
		return math.MaxInt64 // unreachable: vacuous
	}
	return s[0].Lo
}

// regexpGroups: number of capture groups of the regexp value v, if its source is a constant.
func regexpGroups(p *Program, v ssa.Value) (int, bool) {
	var src string
	found := false
	switch x := v.(type) {
	case *ssa.Call:
		if f := x.Call.StaticCallee(); f != nil && calleeName(f) == "regexp.MustCompile" {
			src, found = constStr(x.Call.Args[0])
		}
	case *ssa.UnOp:
		if g, ok := x.X.(*ssa.Global); ok {
			pk := p.ByPath[g.Pkg.Pkg.Path()]
			if pk != nil {
				if s := globalRegexpSource(p, pk.PkgPath, g.Name()); s != "" {
					src, found = s, true
				}
			}
		}
	}
	if !found {
		return 0, false
	}
	re, err := syntax.Parse(src, syntax.Perl)
	if err != nil {
		return 0, false
	}
	return re.MaxCap(), true
}

func globalRegexpSource(p *Program, pkgPath, name string) string {
	sp := p.SSAPkgs[pkgPath]
	if sp == nil {
		return ""
	}
	init := sp.Func("init")
	if init == nil {
		return ""
	}
	for _, b := range init.Blocks {
		for _, in := range b.Instrs {
			st, ok := in.(*ssa.Store)
			if !ok {
				continue
			}
			g, ok := st.Addr.(*ssa.Global)
			if !ok || g.Name() != name {
				continue
			}
			if call, ok := st.Val.(*ssa.Call); ok {
				if f := call.Call.StaticCallee(); f != nil && calleeName(f) == "regexp.MustCompile" {
					if s, ok := constStr(call.Call.Args[0]); ok {
						return s
					}
				}
			}
		}
	}
	return ""
}

// sprintfMinLen: minimum length of fmt.Sprintf(const format, ...) when the format is a single %0Nv / %0Nd verb.
func sprintfMinLen(v ssa.Value) (int64, bool) {
	call, ok := v.(*ssa.Call)
	if !ok {
		return 0, false
	}
	f := call.Call.StaticCallee()
	if f == nil || calleeName(f) != "fmt.Sprintf" {
		return 0, false
	}
	s, ok := constStr(call.Call.Args[0])
	if !ok {
		return 0, false
	}
	m := regexp.MustCompile(`^%0([0-9]+)[vd]$`).FindStringSubmatch(s)
	if m == nil {
		return 0, false
	}
	var n int64
	fmt.Sscanf(m[1], "%d", &n)
	return n, true
}

// isFieldWalker: an unexported function of the codec package that is handed the message buffer together with
// a reflect.Value (the struct or field being (un)marshalled): the field codec itself and helpers split off it.
// The accesses of all of them are derived and bounded by rule K1, which inlines the helpers.
func isFieldWalker(fn *ssa.Function) bool {
	pk := fnPkg(fn)
	if pk == nil || !strings.HasSuffix(pk.Pkg.Path(), codecRel) || fn.Object() == nil || fn.Object().Exported() {
		return false
	}
	hasBuf, hasVal := false, false
	ps := fn.Signature.Params()
	for i := 0; i < ps.Len(); i++ {
		t := ps.At(i).Type()
		if sl, ok := t.Underlying().(*types.Slice); ok {
			if b, ok := sl.Elem().Underlying().(*types.Basic); ok && b.Kind() == types.Uint8 {
				hasBuf = true
			}
		}
		if t.String() == "reflect.Value" {
			hasVal = true
		}
	}
	return hasBuf && hasVal
}

func isMessageReader(p *Program, fn *ssa.Function) bool {
	if fn == nil {
		return false
	}
	// a closure inside a message reader (loop body of a range-over-func, local helper) is part of it
	if fn.Parent() != nil {
		if isFieldHelper(p, fn) {
			return true // an entry of a dispatch table of the field walk
		}
		return isMessageReader(p, fn.Parent())
	}
	if fn.Name() == "UnmarshalUT0311L0x" || fn.Name() == "MarshalUT0311L0x" {
		return true
	}
	return isFieldWalker(fn) || isFieldHelper(p, fn)
}

// isFieldHelper: an unexported function of the codec package with a byte-slice parameter that is used only by
// static calls from field walkers (or other field helpers) which hand it their own message buffer: a piece of
// the field codec split off into a function of its own (putBool(buffer, offset, v), decodeUint32(bytes, offset)).
// Rule K1 inlines such helpers into the walk of the field codec, so their accesses are derived and bounded
// there exactly as if they were written in line.
var fieldHelperMemo = map[*ssa.Function]int{} // 1 yes, 2 no, 3 in progress

// sameOrInstanceOf: callee is fn, or an instantiation of the generic function fn (generic bodies are analysed
// once, at their origin; their callers call the instantiations).
func sameOrInstanceOf(callee, fn *ssa.Function) bool {
	return callee != nil && (callee == fn || callee.Origin() == fn)
}

func isFieldHelper(p *Program, fn *ssa.Function) bool {
	switch fieldHelperMemo[fn] {
	case 1:
		return true
	case 2, 3:
		return false
	}
	fieldHelperMemo[fn] = 3
	res := func() bool {
		pk := fnPkg(fn)
		if pk != nil && strings.HasSuffix(pk.Pkg.Path(), codecRel) && fn.Parent() != nil && tableEntryOfFieldWalk(p, fn) {
			return true // an entry of a dispatch table (per-type encoder/decoder) that only the field walk consults
		}
		if pk == nil || !strings.HasSuffix(pk.Pkg.Path(), codecRel) || fn.Object() == nil || fn.Object().Exported() {
			return false
		}
		if recv := fn.Signature.Recv(); recv != nil && !isLocatorType(p, recv.Type()) {
			return false
		}
		bufIdx := []int{}
		locator := false
		for i, prm := range fn.Params {
			// the message buffer is a plain []byte; named byte-slice types (net.IP, net.HardwareAddr) are field values
			if sl, ok := types.Unalias(prm.Type()).(*types.Slice); ok {
				if b, ok := sl.Elem().Underlying().(*types.Basic); ok && b.Kind() == types.Uint8 {
					bufIdx = append(bufIdx, i)
				}
			}
			if isLocatorType(p, prm.Type()) {
				locator = true // the buffer travels inside a small struct {buffer, offset, ..} built by the field walk
			}
		}
		if len(bufIdx) == 0 && !locator {
			return false
		}
		calls := 0
		for _, caller := range p.AllFuncs {
			for _, b := range caller.Blocks {
				for _, in := range b.Instrs {
					if c, ok := in.(ssa.CallInstruction); ok && sameOrInstanceOf(c.Common().StaticCallee(), fn) {
						if _, isGo := in.(*ssa.Go); isGo {
							return false
						}
						if !isFieldWalker(caller) && !isFieldHelper(p, caller) {
							return false
						}
						for _, i := range bufIdx {
							if !isBufParam(c.Common().Args[i]) {
								return false
							}
						}
						calls++
						continue
					}
					// any other mention of the function (a function value) is not a static call
					for _, op := range in.Operands(nil) {
						if *op == ssa.Value(fn) {
							if c, ok := in.(ssa.CallInstruction); !ok || c.Common().Value != ssa.Value(fn) {
								return false
							}
						}
					}
				}
			}
		}
		return calls > 0
	}()
	if res {
		fieldHelperMemo[fn] = 1
	} else {
		fieldHelperMemo[fn] = 2
	}
	return res
}

func isBufParam(v ssa.Value) bool {
	for i := 0; i < 8; i++ {
		switch x := v.(type) {
		case *ssa.Parameter:
			_, ok := x.Type().Underlying().(*types.Slice)
			return ok
		case *ssa.Field:
			return locatorBufferField(x.X, x.Field)
		case *ssa.Slice:
			v = x.X
		case *ssa.UnOp:
			// inside a closure (the body of a range-over-func loop, a local helper): the enclosing function's
			// parameter, captured by reference
			if x.Op != token.MUL {
				return false
			}
			if spilledLocatorField(x) {
				return true
			}
			o := capturedParam(x.X)
			if o == nil {
				return false
			}
			v = o
		default:
			return false
		}
	}
	return false
}

// A "locator" is an unexported struct type of the codec package with exactly one []byte field, every value of
// which is built by the field walk (or one of its helpers) with the message buffer in that field:
// type field struct{ bytes []byte; offset int; tag string }. Its []byte field is the message buffer.
var locatorMemo = map[types.Type]int{}

func isLocatorType(p *Program, t types.Type) bool {
	if pt, ok := t.Underlying().(*types.Pointer); ok {
		t = pt.Elem()
	}
	nt, ok := types.Unalias(t).(*types.Named)
	if !ok || nt.Obj().Pkg() == nil || nt.Obj().Exported() || !strings.HasSuffix(nt.Obj().Pkg().Path(), codecRel) {
		return false
	}
	switch locatorMemo[nt] {
	case 1:
		return true
	case 2, 3:
		return false
	}
	locatorMemo[nt] = 3
	st, ok := nt.Underlying().(*types.Struct)
	if !ok {
		locatorMemo[nt] = 2
		return false
	}
	bufField := -1
	for i := 0; i < st.NumFields(); i++ {
		if sl, ok := types.Unalias(st.Field(i).Type()).(*types.Slice); ok {
			if b, ok := sl.Elem().Underlying().(*types.Basic); ok && b.Kind() == types.Uint8 {
				if bufField >= 0 {
					locatorMemo[nt] = 2
					return false
				}
				bufField = i
			}
		}
	}
	if bufField < 0 || p == nil {
		locatorMemo[nt] = 2
		return false
	}
	// every store into the buffer field of a value of this type: the message buffer, inside the field walk
	built := 0
	for _, fn := range p.AllFuncs {
		for _, b := range fn.Blocks {
			for _, in := range b.Instrs {
				st2, ok := in.(*ssa.Store)
				if !ok {
					continue
				}
				fa, ok := st2.Addr.(*ssa.FieldAddr)
				if !ok || fa.Field != bufField {
					continue
				}
				pt, ok := fa.X.Type().Underlying().(*types.Pointer)
				if !ok || !types.Identical(pt.Elem(), nt) {
					continue
				}
				if !isBufParam(st2.Val) || !(isFieldWalker(fn) || isFieldHelper(p, fn)) {
					locatorMemo[nt] = 2
					return false
				}
				built++
			}
		}
	}
	if built == 0 {
		locatorMemo[nt] = 2
		return false
	}
	locatorMemo[nt] = 1
	return true
}

// spilledLocatorField: ld loads the buffer field of a locator parameter that go/ssa keeps in a local
// (t0 = local T (b); *t0 = b; t1 = &t0.bytes; t2 = *t1), the local being written by that one store only.
func spilledLocatorField(ld *ssa.UnOp) bool {
	if ld.Op != token.MUL {
		return false
	}
	fa, ok := ld.X.(*ssa.FieldAddr)
	if !ok {
		return false
	}
	al, ok := fa.X.(*ssa.Alloc)
	if !ok || al.Referrers() == nil {
		return false
	}
	var prm *ssa.Parameter
	for _, ref := range *al.Referrers() {
		switch r := ref.(type) {
		case *ssa.Store:
			if r.Addr != ssa.Value(al) {
				return false
			}
			p2, ok := r.Val.(*ssa.Parameter)
			if !ok || prm != nil {
				return false
			}
			prm = p2
		case *ssa.FieldAddr:
			// reads of its fields; a store through one of them would be a Store with that address
			if r.Referrers() != nil {
				for _, r2 := range *r.Referrers() {
					if st, ok := r2.(*ssa.Store); ok && st.Addr == ssa.Value(r) {
						return false
					}
				}
			}
		case *ssa.DebugRef:
		case *ssa.UnOp:
			// the whole value read back (passed on by value)
			if r.Op != token.MUL {
				return false
			}
		default:
			return false
		}
	}
	return prm != nil && locatorBufferField(prm, fa.Field)
}

// locatorBufferField: field number fi of x (a parameter of locator type) is the message buffer.
func locatorBufferField(x ssa.Value, fi int) bool {
	prm, ok := x.(*ssa.Parameter)
	if !ok || lintProgram == nil || !isLocatorType(lintProgram, prm.Type()) {
		return false
	}
	t := prm.Type()
	if pt, ok := t.Underlying().(*types.Pointer); ok {
		t = pt.Elem()
	}
	st, ok := t.Underlying().(*types.Struct)
	if !ok || fi >= st.NumFields() {
		return false
	}
	sl, ok := types.Unalias(st.Field(fi).Type()).(*types.Slice)
	if !ok {
		return false
	}
	b, ok := sl.Elem().Underlying().(*types.Basic)
	return ok && b.Kind() == types.Uint8
}

// tableEntryOfFieldWalk: fn is a function literal created by the package initialiser and stored into a
// package-level map or slice that is loaded only by the field walk and its helpers (a per-type dispatch table of
// encoders / decoders): called from there with the message buffer, it is part of the field walk.
func tableEntryOfFieldWalk(p *Program, fn *ssa.Function) bool {
	par := fn.Parent()
	if par == nil || !(par.Name() == "init" || strings.HasPrefix(par.Name(), "init#")) || len(fn.FreeVars) != 0 {
		return false
	}
	hasBuf := false
	for _, prm := range fn.Params {
		if sl, ok := types.Unalias(prm.Type()).(*types.Slice); ok {
			if b, ok := sl.Elem().Underlying().(*types.Basic); ok && b.Kind() == types.Uint8 {
				hasBuf = true
			}
		}
		if isLocatorType(p, prm.Type()) {
			hasBuf = true
		}
	}
	if !hasBuf {
		return false
	}
	// where does the literal go: the value of a MapUpdate / element store whose table is (stored into) a global
	var table *ssa.Global
	for _, b := range par.Blocks {
		for _, in := range b.Instrs {
			var holder ssa.Value
			switch x := in.(type) {
			case *ssa.MapUpdate:
				if v := stripFuncValue(x.Value); v == ssa.Value(fn) {
					holder = x.Map
				}
			case *ssa.Store:
				if v := stripFuncValue(x.Val); v == ssa.Value(fn) {
					if ia, ok := x.Addr.(*ssa.IndexAddr); ok {
						holder = ia.X
					}
				}
			}
			if holder == nil {
				continue
			}
			// the holder is stored into a global (directly, or it was loaded from one)
			if ld, ok := holder.(*ssa.UnOp); ok && ld.Op == token.MUL {
				if g, ok := ld.X.(*ssa.Global); ok {
					table = g
				}
			}
			if holder.Referrers() != nil {
				for _, ref := range *holder.Referrers() {
					if st, ok := ref.(*ssa.Store); ok && st.Val == holder {
						if g, ok := st.Addr.(*ssa.Global); ok {
							table = g
						}
					}
				}
			}
			if sl, ok := holder.(*ssa.Slice); ok && sl.Referrers() != nil {
				for _, ref := range *sl.Referrers() {
					if st, ok := ref.(*ssa.Store); ok && st.Val == ssa.Value(sl) {
						if g, ok := st.Addr.(*ssa.Global); ok {
							table = g
						}
					}
				}
			}
		}
	}
	if table == nil {
		return false
	}
	loads := 0
	for _, user := range p.AllFuncs {
		if user == par || p.initOnly(user) {
			continue
		}
		for _, b := range user.Blocks {
			for _, in := range b.Instrs {
				for _, op := range in.Operands(nil) {
					if *op == ssa.Value(table) {
						if !(isFieldWalker(user) || (user.Parent() != nil && isFieldWalker(user.Parent())) || (user != fn && isFieldHelper(p, user))) {
							return false
						}
						loads++
					}
				}
			}
		}
	}
	return loads > 0
}

func stripFuncValue(v ssa.Value) ssa.Value {
	for i := 0; i < 4; i++ {
		switch x := v.(type) {
		case *ssa.MakeClosure:
			return x.Fn
		case *ssa.ChangeType:
			v = x.X
		case *ssa.MakeInterface:
			v = x.X
		default:
			return v
		}
	}
	return v
}

// capturedParam: addr is a free variable bound to the spill slot of a parameter of the enclosing function
// (which is never reassigned): returns that parameter.
func capturedParam(addr ssa.Value) ssa.Value {
	fv, ok := addr.(*ssa.FreeVar)
	if !ok || fv.Parent() == nil || fv.Parent().Parent() == nil {
		return nil
	}
	fn := fv.Parent()
	idx := -1
	for i, f := range fn.FreeVars {
		if f == fv {
			idx = i
		}
	}
	for _, mc := range closuresOf(fn.Parent()) {
		if mc.Fn != ssa.Value(fn) || idx < 0 || idx >= len(mc.Bindings) {
			continue
		}
		switch b := mc.Bindings[idx].(type) {
		case *ssa.Alloc:
			var stored ssa.Value
			n := 0
			if b.Referrers() != nil {
				for _, ref := range *b.Referrers() {
					if st, ok := ref.(*ssa.Store); ok && st.Addr == ssa.Value(b) {
						stored = st.Val
						n++
					}
				}
			}
			if n == 1 {
				if prm, ok := stored.(*ssa.Parameter); ok {
					return prm
				}
			}
		case *ssa.FreeVar:
			return capturedParam(b)
		}
	}
	return nil
}

// isPlainBufParam: (a slice of) a parameter of the unnamed type []byte.
func isPlainBufParam(v ssa.Value) bool {
	for {
		switch x := v.(type) {
		case *ssa.Parameter:
			_, ok := types.Unalias(x.Type()).(*types.Slice)
			return ok
		case *ssa.Field:
			return locatorBufferField(x.X, x.Field)
		case *ssa.UnOp:
			return spilledLocatorField(x)
		case *ssa.Slice:
			v = x.X
		default:
			return false
		}
	}
}

// RulePanicIn: the panic inventory restricted to the sites of one package (the codec, for the property that says
// encoding and decoding never panic for any declarable layout).
func RulePanicIn(r *Report, p *Program, tier string, rel string, mins map[string]int) {
	tmp := NewReport(r.Property, r.Tier)
	RulePanic(tmp, p, "quick", wireReachableTypes(p))
	for id, doc := range tmp.ruleDoc {
		if m, ok := mins[id]; ok {
			r.Rule(id, doc+" [sites of "+rel+"]", m)
		}
	}
	for _, o := range tmp.Obs {
		inPkg := strings.HasPrefix(o.Pos, rel+"/")
		if rel == codecRel && strings.HasPrefix(o.Construct, "codec.") {
			inPkg = true // sites without a source position (compiler-introduced conversions) are named by construct
		}
		if _, ok := mins[o.Rule]; ok && inPkg {
			r.add(o)
		}
	}
	r.fatal = append(r.fatal, tmp.fatal...)
}

func RulePanic(r *Report, p *Program, tier string, wireTypes map[string]bool) {
	lintProgram = p
	r.Rule("P1", "every index/slice expression is discharged: constant index inside a constant length, dominating length guard, loop bound, message-buffer access under the 64-byte/offset rules, read count of the same buffer, or minimum text width", 60)
	r.Rule("P2", "a table (array/slice literal) indexed by a value that can come from the wire is guarded by a bound check", 1)
	r.Rule("P3", "every unchecked type assertion is justified by the origin of the asserted value", 2)
	r.Rule("P4", "explicit panics are reachable only through documented Must* helpers, codec defaults excluded by the layout rules, or type switches whose callers pass only handled types", 4)
	r.Rule("P5", "no division by a value that can be zero; constant regular expressions compile", 2)
	r.Rule("P6", "a channel is closed by code that runs once for it: in the function that made it, in a goroutine or deferred call started by that function, or under a sync.Once - not in a callback that is invoked repeatedly", 1)
	var sites []panicSite
	add := func(s panicSite) { sites = append(sites, s) }
	originHasBody := map[*ssa.Function]bool{}
	instanceTaken := map[*ssa.Function]bool{}
	for _, fn := range p.AllFuncs {
		if fn.Origin() == nil && fn.Blocks != nil {
			originHasBody[fn] = true
		}
	}
	for _, fn := range p.AllFuncs {
		pk := fnPkg(fn)
		if pk == nil || !strings.HasPrefix(pk.Pkg.Path(), modPath) {
			continue
		}
		// the body of a range-over-func loop is compiled into a synthetic yield closure: it is source code
		if fn.Synthetic != "" && !strings.Contains(fn.Synthetic, "instantiation") && !strings.HasPrefix(fn.Synthetic, "instance of") && !strings.Contains(fn.Synthetic, "range-over-func") {
			continue
		}
		if o := fn.Origin(); o != nil {
			// generic bodies are analysed once: at their origin when it has a body of its own (functions), else
			// (methods of generic types exist only as instantiations) at the first instantiation
			if originHasBody[o] || instanceTaken[o] {
				continue
			}
			instanceTaken[o] = true
		}
		for _, b := range fn.Blocks {
			for _, in := range b.Instrs {
				switch x := in.(type) {
				case *ssa.Panic:
					add(classifyPanic(p, fn, x))
				case *ssa.TypeAssert:
					if !x.CommaOk {
						add(classifyAssert(p, fn, x))
					}
				case *ssa.IndexAddr:
					add(classifyIndex(p, fn, x, x.X, x.Index, wireTypes))
				case *ssa.Index:
					add(classifyIndex(p, fn, x, x.X, x.Index, wireTypes))
				case *ssa.Lookup:
					if isStringType(x.X.Type()) {
						add(classifyIndex(p, fn, x, x.X, x.Index, wireTypes))
					}
				case *ssa.Slice:
					add(classifySlice(p, fn, x))
				case *ssa.SliceToArrayPointer:
					// [N]T(s) panics when len(s) < N
					st := panicSite{fn: fn, instr: x, kind: "slice", rule: "P1"}
					n := x.Type().Underlying().(*types.Pointer).Elem().Underlying().(*types.Array).Len()
					have := minOf(lenBounds(x.Block(), x.X))
					if sl, ok := x.X.(*ssa.Slice); ok {
						lo, okl := constIntOrNil(sl.Low)
						hi, okh := constIntOrNil(sl.High)
						if okl && okh && sl.High != nil && hi-lo > have {
							have = hi - lo
						}
					}
					if k, ok := makeSliceLen(x.X); ok && k > have {
						have = k
					}
					if have < n && proveLenAtLeast(p, x, x.X, n) {
						have = n // x[e:e+c] with c >= n, or a length established by the dominating comparisons
					}
					// ip.To4() / ip.To16() is nil or exactly 4 / 16 bytes long (documented): non-nil here means that long
					if call, ok := x.X.(*ssa.Call); ok && have < n {
						if f := call.Call.StaticCallee(); f != nil && knownNonNilAt(x.X, x.Block()) {
							switch calleeName(f) {
							case "(net.IP).To4":
								have = 4
							case "(net.IP).To16":
								have = 16
							}
						}
					}
					if have >= n {
						st.ok, st.why = true, "slice of at least the array length converted to an array"
					} else {
						st.detail = fmt.Sprintf("conversion of %s to an array of %d elements without an established length", x.X.Name(), n)
					}
					add(st)
				case *ssa.BinOp:
					if x.Op == token.QUO || x.Op == token.REM {
						if isIntType(x.Type()) {
							c, ok := constInt(x.Y)
							add(panicSite{fn: fn, instr: x, kind: "divide", rule: "P5", ok: ok && c != 0, why: "constant non-zero divisor", detail: "integer division by a value not known to be non-zero"})
						}
					}
				case *ssa.Call:
					// standard functions that panic on a negative count: Repeat, Grow
					if g := x.Call.StaticCallee(); g != nil {
						idx := -1
						switch calleeName(g) {
						case "strings.Repeat", "bytes.Repeat", "(*strings.Builder).Grow", "(*bytes.Buffer).Grow":
							idx = 1
						}
						if idx >= 0 && idx < len(x.Call.Args) {
							st := panicSite{fn: fn, instr: x, kind: "count", rule: "P1"}
							if proveNonNeg(p, x, x.Call.Args[idx]) {
								st.ok, st.why = true, "count argument of "+calleeName(g)+" is non-negative on every path"
							} else {
								st.detail = "the count handed to " + calleeName(g) + " is not known to be non-negative (it panics on a negative count)"
							}
							add(st)
						}
					}
					// Addr.As4 panics unless the address is IPv4 or IPv4-mapped (documented)
					if g := x.Call.StaticCallee(); g != nil && calleeName(g) == "(netip.Addr).As4" && len(x.Call.Args) == 1 {
						st := panicSite{fn: fn, instr: x, kind: "as4", rule: "P5"}
						if as4Safe(p, fn, x.Block(), x.Call.Args[0], 0) {
							st.ok, st.why = true, "the address is known to be IPv4 (Is4/Is4In6 test, AddrFrom4) where As4 is called"
						} else {
							st.detail = "As4 is called on an address that is not known to be IPv4: it panics on an IPv6 address and on the zero Addr"
						}
						add(st)
					}
					if bi, ok := x.Call.Value.(*ssa.Builtin); ok && bi.Name() == "close" && len(x.Call.Args) == 1 {
						okc, why := closeRunsOnce(fn, x)
						add(panicSite{fn: fn, instr: x, kind: "close", rule: "P6", ok: okc, why: why, detail: "close of a channel made outside a function literal that is handed on as a callback: the callback can run again (the next datagram, the next event) and closing a closed channel panics"})
					}
					if f := x.Call.StaticCallee(); f != nil {
						// Time.In, time.Date and time.ParseInLocation panic on a nil *Location (documented / "missing
						// Location in call to Date")
						li := -1
						switch calleeName(f) {
						case "(time.Time).In":
							li = 1
						case "time.Date":
							li = 7
						case "time.ParseInLocation":
							li = 2
						}
						if li >= 0 && li < len(x.Call.Args) {
							loc := x.Call.Args[li]
							var okVal func(v ssa.Value, depth int) bool
							okVal = func(v ssa.Value, depth int) bool {
								if depth > 4 {
									return false
								}
								if u, isLoad := v.(*ssa.UnOp); isLoad {
									if g, isG := u.X.(*ssa.Global); isG && g.Pkg != nil && g.Pkg.Pkg.Path() == "time" {
										return true // time.Local, time.UTC
									}
								}
								if c, isCall := v.(*ssa.Call); isCall {
									if cf := c.Call.StaticCallee(); cf != nil && (calleeName(cf) == "time.FixedZone" || calleeName(cf) == "(time.Time).Location") {
										return true
									}
								}
								if ph, isPhi := v.(*ssa.Phi); isPhi {
									for _, e := range ph.Edges {
										if !okVal(e, depth+1) {
											return false
										}
									}
									return len(ph.Edges) > 0
								}
								return false
							}
							okLoc := okVal(loc, 0) || nonNilDominates(x.Block(), loc)
							add(panicSite{fn: fn, instr: x, kind: "nil-location", rule: "P5", ok: okLoc, why: "location is time.Local/time.UTC, a fixed zone, or checked for nil", detail: calleeName(f) + " is called with a *time.Location that may be nil (e.g. a configured controller's unset time zone): it panics"})
						}
					}
					if f := x.Call.StaticCallee(); f != nil && calleeName(f) == "regexp.MustCompile" {
						s, ok := constStr(x.Call.Args[0])
						okc := false
						if ok {
							_, err := regexp.Compile(s)
							okc = err == nil
						}
						add(panicSite{fn: fn, instr: x, kind: "mustcompile", rule: "P5", ok: okc, why: "constant pattern compiles", detail: "regexp.MustCompile of a pattern that is not a valid constant"})
					}
				}
			}
		}
	}
	r.Count("panic_capable_sites", len(sites))
	// group per function+rule+kind to keep constructs stable
	type agg struct {
		n     int
		bad   []string
		pos   string
		whys  map[string]int
		first ssa.Instruction
	}
	groups := map[string]*agg{}
	keys := []string{}
	for _, s := range sites {
		key := s.rule + "|" + calleeName(s.fn) + ":" + s.kind
		g := groups[key]
		if g == nil {
			g = &agg{whys: map[string]int{}, pos: p.Pos(s.fn.Pos())}
			groups[key] = g
			keys = append(keys, key)
		}
		g.n++
		if s.ok {
			g.whys[s.why]++
		} else {
			g.bad = append(g.bad, fmt.Sprintf("%s: %s", p.Pos(s.instr.Pos()), s.detail))
			g.pos = p.Pos(s.instr.Pos())
		}
	}
	sort.Strings(keys)
	for _, key := range keys {
		g := groups[key]
		parts := strings.SplitN(key, "|", 2)
		if len(g.bad) == 0 {
			ws := []string{}
			for w, n := range g.whys {
				ws = append(ws, fmt.Sprintf("%d× %s", n, w))
			}
			sort.Strings(ws)
			r.OK(parts[0], parts[1], g.pos, strings.Join(ws, "; "), true)
		} else {
			r.Bad(parts[0], parts[1], g.pos, strings.Join(uniq(g.bad), " | "))
		}
	}
	if tier == "thorough" {
		crossCheckBCE(r, p, sites)
	}
}

// closeRunsOnce: the close(ch) at call runs at most once per channel. Accepted shapes: the channel was made in
// the same function (or is a parameter/field: whoever hands it over owns that question, and LS/T rules cover the
// library's own channels); or the function is a literal that its parent starts with `go`, defers, or calls on the
// spot; or the close is inside the function passed to (*sync.Once).Do. Not accepted: a literal that captured the
// channel and is passed on as a value (a handler, a callback) - it may be invoked any number of times.
func closeRunsOnce(fn *ssa.Function, call *ssa.Call) (bool, string) {
	ch := call.Call.Args[0]
	if ld, ok := ch.(*ssa.UnOp); ok && ld.Op == token.MUL {
		ch = ld.X
	}
	if _, captured := ch.(*ssa.FreeVar); !captured || fn.Parent() == nil {
		return true, "closed by the function that holds the channel as its own variable, parameter or field"
	}
	// how is this literal used by its parent?
	par := fn.Parent()
	uses := 0
	for _, b := range par.Blocks {
		for _, in := range b.Instrs {
			mc, ok := in.(*ssa.MakeClosure)
			if !ok || mc.Fn != ssa.Value(fn) || mc.Referrers() == nil {
				continue
			}
			for _, ref := range *mc.Referrers() {
				switch r := ref.(type) {
				case *ssa.Go:
					if r.Call.Value == ssa.Value(mc) && !inLoop(r.Block()) {
						uses++
						continue
					}
					return false, ""
				case *ssa.Defer:
					if r.Call.Value == ssa.Value(mc) && !inLoop(r.Block()) {
						uses++
						continue
					}
					return false, ""
				case *ssa.Call:
					if r.Call.Value == ssa.Value(mc) && !inLoop(r.Block()) {
						uses++
						continue
					}
					// handed to sync.Once.Do
					if f := r.Call.StaticCallee(); f != nil && calleeName(f) == "(*sync.Once).Do" {
						uses++
						continue
					}
					return false, ""
				case *ssa.DebugRef:
				default:
					return false, ""
				}
			}
		}
	}
	if uses == 0 {
		return false, ""
	}
	return true, "the literal runs once: started by go / defer / an immediate call outside any loop, or under sync.Once"
}

// isSelectFallthrough: the panic go/ssa synthesises behind the case dispatch of a blocking select (no source
// position, a fixed message, reached only when the select index equals none of the case numbers).
func isSelectFallthrough(x *ssa.Panic) bool {
	if x.Pos().IsValid() {
		return false
	}
	mi, ok := x.X.(*ssa.MakeInterface)
	if !ok {
		return false
	}
	k, ok := mi.X.(*ssa.Const)
	if !ok || k.Value == nil || k.Value.Kind() != constant.String || constant.StringVal(k.Value) != "blocking select matched no case" {
		return false
	}
	// every way into the block is the false branch of a comparison of a select's index
	for _, pr := range x.Block().Preds {
		ifi, ok := pr.Instrs[len(pr.Instrs)-1].(*ssa.If)
		if !ok || pr.Succs[1] != x.Block() {
			return false
		}
		bo, ok := ifi.Cond.(*ssa.BinOp)
		if !ok || bo.Op != token.EQL {
			return false
		}
		ex, ok := bo.X.(*ssa.Extract)
		if !ok || ex.Index != 0 {
			return false
		}
		if sel, ok := ex.Tuple.(*ssa.Select); !ok || !sel.Blocking {
			return false
		}
	}
	return len(x.Block().Preds) > 0
}

func classifyPanic(p *Program, fn *ssa.Function, x *ssa.Panic) panicSite {
	s := panicSite{fn: fn, instr: x, kind: "panic", rule: "P4"}
	name := fn.Name()
	switch {
	case isSelectFallthrough(x):
		s.ok, s.why = true, "the no-case-matched arm the compiler puts after a blocking select: a blocking select returns the index of one of its cases"
	case isRangeFuncPanic(x):
		if ok, why := moduleIteratorsKeepProtocol(p); ok {
			s.ok, s.why = true, "range-over-func protocol check inserted by the compiler: every iterator of the module calls yield only while all earlier calls returned true, keeps no copy of it and recovers nothing"
		} else {
			s.detail = "range-over-func protocol check can fire: iterator " + why
		}
	case userLockMethod(p, fn) == "Unlock":
		s.ok, s.why = true, "unlock-of-unlocked check of a hand-written one-slot lock: every Unlock follows a Lock of the same call (rule T3: lock taken, released by a deferred unlock)"
	case strings.HasPrefix(name, "Must"):
		s.ok, s.why = true, "documented Must* helper (panics by contract on its own argument)"
	case isFieldWalker(fn) || (fn.Parent() != nil && isFieldWalker(fn.Parent())):
		s.ok, s.why = true, "codec default for unsupported kinds: excluded for every declared layout by rule L2"
	case p.initOnly(fn) && pkgOf(fn) != nil && p.initStateOf(pkgOf(fn)).ok:
		s.ok, s.why = true, "runs only during package initialisation, which was evaluated: its single path returns without reaching this panic"
	default:
		// a type-switch default: all static callers must pass one of the handled types
		handled := map[string]bool{}
		for _, b := range fn.Blocks {
			for _, in := range b.Instrs {
				if ta, ok := in.(*ssa.TypeAssert); ok && ta.CommaOk {
					handled[ta.AssertedType.String()] = true
				}
			}
		}
		if len(handled) == 0 {
			s.detail = "explicit panic outside a Must* helper"
			return s
		}
		okAll := true
		n := 0
		var check func(target *ssa.Function, only int, depth int)
		seenT := map[*ssa.Function]bool{}
		check = func(target *ssa.Function, only int, depth int) {
			if depth > 3 || seenT[target] {
				return
			}
			seenT[target] = true
			for _, caller := range p.AllFuncs {
				for _, b := range caller.Blocks {
					for _, in := range b.Instrs {
						c, ok := in.(ssa.CallInstruction)
						if !ok || c.Common().StaticCallee() != target {
							continue
						}
						n++
						for ai, a := range c.Common().Args {
							if only >= 0 && ai != only {
								continue
							}
							if mi, ok := a.(*ssa.MakeInterface); ok {
								if !handled[mi.X.Type().String()] {
									okAll = false
									s.detail = fmt.Sprintf("caller %s passes a %s, which the type switch does not handle", calleeName(caller), mi.X.Type())
								}
							} else if types.IsInterface(a.Type()) {
								// the caller hands on its own parameter: its callers decide (an unexported helper chain)
								if prm, ok := a.(*ssa.Parameter); ok && caller.Object() != nil && !caller.Object().Exported() {
									idx := -1
									for pi, cp := range caller.Params {
										if cp == prm {
											idx = pi
										}
									}
									if idx >= 0 {
										check(caller, idx, depth+1)
										continue
									}
								}
								okAll = false
								s.detail = "caller " + calleeName(caller) + " passes a value of unknown dynamic type"
							}
						}
					}
				}
			}
		}
		check(fn, -1, 0)
		if fn.Object() != nil && fn.Object().Exported() {
			okAll = false
			s.detail = "exported function panics on unhandled argument types"
		}
		s.ok = okAll && n > 0
		s.why = fmt.Sprintf("type-switch default: all %d static callers pass handled types", n)
		if n == 0 && s.detail == "" && okAll && unreferenced(p, fn) {
			// nothing calls the function, nothing takes it as a value and no interface of the module asks for a method
			// of its name: what was its only caller now does the work itself, the function is dead code
			s.ok = true
			s.why = "unreachable: an unexported function that nothing calls or refers to"
		} else if n == 0 && s.detail == "" {
			s.detail = "type-switch default with no static callers to justify it"
		}
	}
	return s
}

func classifyAssert(p *Program, fn *ssa.Function, x *ssa.TypeAssert) panicSite {
	s := panicSite{fn: fn, instr: x, kind: "assert", rule: "P3"}
	// value origin
	v := x.X
	if ex, ok := v.(*ssa.Extract); ok {
		if call, ok := ex.Tuple.(*ssa.Call); ok {
			if f := call.Call.StaticCallee(); f != nil {
				n := calleeName(f)
				if n == "codec.UnmarshalAs" && ex.Index == 0 && len(call.Call.Args) == 2 {
					// UnmarshalAs returns a value of the dynamic type of its second argument (checked by P3u)
					arg := call.Call.Args[1]
					at := dynTypeOf(arg)
					if at != nil && types.Identical(at, x.AssertedType) {
						s.ok, s.why = true, "asserted type is the type handed to UnmarshalAs, which returns a value of that type"
						return s
					}
					s.detail = fmt.Sprintf("asserts %s on the result of UnmarshalAs called with a %v", x.AssertedType, at)
					return s
				}
			}
		}
	}
	// the result of an in-module helper that returns a value of the dynamic type of one of its parameters
	// (the parameter itself, or what UnmarshalAs decoded into a value of its type): asserted to the static type
	// of the argument passed for that parameter
	if ex, ok := v.(*ssa.Extract); ok && ex.Index == 0 {
		if call, ok := ex.Tuple.(*ssa.Call); ok {
			if f := call.Call.StaticCallee(); f != nil && inModule(f) {
				if k := returnsTypeOfParam(f); k >= 0 && k < len(call.Call.Args) {
					if at := dynTypeOf(call.Call.Args[k]); at != nil && types.Identical(at, x.AssertedType) {
						s.ok, s.why = true, "asserted type is the type of the prototype handed to the helper, which returns a value of that type"
						return s
					}
				}
			}
		}
	}
	// the value found in a memo table (memo.go): every value stored there has the asserted type
	if ex, ok := v.(*ssa.Extract); ok && ex.Index == 0 {
		if call, ok := ex.Tuple.(*ssa.Call); ok {
			if f := call.Call.StaticCallee(); f != nil && strings.HasPrefix(calleeName(f), "(*sync.Map).Load") && len(call.Call.Args) > 0 {
				if g, ok := call.Call.Args[0].(*ssa.Global); ok {
					if mi := p.memoTable(g); mi.ok && mi.valueType != nil && types.Identical(mi.valueType, x.AssertedType) {
						s.ok, s.why = true, "value of a memo table into which only values of the asserted type are stored"
						return s
					}
				}
			}
		}
	}
	// parameter of a callback that is handed, together with a prototype of the asserted type, to an in-module
	// helper which calls it with the values it decoded into that type (push-style reply list; the wiring is
	// decided by rules A6/B11)
	if prm, ok := v.(*ssa.Parameter); ok && fn.Parent() != nil && types.IsInterface(prm.Type()) {
		for _, b := range fn.Parent().Blocks {
			for _, in := range b.Instrs {
				ci, ok := in.(ssa.CallInstruction)
				if !ok {
					continue
				}
				cc := ci.Common()
				if f := cc.StaticCallee(); f == nil || !inModule(f) {
					continue
				}
				passes, proto := false, false
				for _, a := range cc.Args {
					if mc, ok := a.(*ssa.MakeClosure); ok && mc.Fn == ssa.Value(fn) {
						passes = true
					}
					if at := dynTypeOf(a); at != nil && types.Identical(at, x.AssertedType) {
						proto = true
					}
				}
				if passes && proto {
					s.ok, s.why = true, "callback parameter: the helper it is passed to receives a prototype of the asserted type and hands the callback values of that type"
					return s
				}
			}
		}
	}
	// element of the broadcast helper's result list: decided by the API walk (type known statically there)
	if isIfaceElemOfCall(v) {
		s.ok, s.why = true, "element of the reply list whose element type is fixed by the reply prototype passed to the helper (resolved statically in rule A6)"
		return s
	}
	// reflect error extraction: v[1].Interface().(error) after !IsNil
	if call, ok := v.(*ssa.Call); ok {
		if f := call.Call.StaticCallee(); f != nil && calleeName(f) == "(reflect.Value).Interface" && types.IsInterface(x.AssertedType) {
			s.ok, s.why = true, "second result of netip MarshalBinary (declared type error), non-nil on this branch"
			return s
		}
	}
	// field value of a kind the codec has just identified: f.Interface().(T) in the branch taken when the
	// field's reflect.Type equals the package-level reflect.TypeOf(T) variable
	if call, ok := v.(*ssa.Call); ok {
		if f := call.Call.StaticCallee(); f != nil && calleeName(f) == "(reflect.Value).Interface" {
			if gt := reflectTypeGuard(x.Block()); gt != nil && types.Identical(gt, x.AssertedType) {
				s.ok, s.why = true, "asserted type is the field type established by the dominating reflect.Type comparison"
				return s
			}
			// ... or by the key under which this function is registered in the field walk's per-type table
			if kt := tableKeyType(p, fn); kt != nil && types.Identical(kt, x.AssertedType) {
				s.ok, s.why = true, "asserted type is the reflect.Type key under which this entry of the field walk's dispatch table is registered"
				return s
			}
		}
	}
	s.detail = "unchecked type assertion " + x.AssertedType.String() + " on " + v.String()
	return s
}

// tableKeyType: fn is an entry of a dispatch table of the field walk keyed by reflect.Type (a map written by
// the package initialiser): the Go type its key denotes.
func tableKeyType(p *Program, fn *ssa.Function) types.Type {
	if fn.Parent() == nil || !tableEntryOfFieldWalk(p, fn) {
		return nil
	}
	var out types.Type
	n := 0
	for _, b := range fn.Parent().Blocks {
		for _, in := range b.Instrs {
			mu, ok := in.(*ssa.MapUpdate)
			if !ok || stripFuncValue(mu.Value) != ssa.Value(fn) {
				continue
			}
			n++
			if ld, ok := mu.Key.(*ssa.UnOp); ok && ld.Op == token.MUL {
				if g, ok := ld.X.(*ssa.Global); ok {
					out = reflectTypeOfGlobal(g)
				}
			} else {
				out = reflectTypeOfValue(mu.Key, 0)
			}
		}
	}
	if n != 1 {
		return nil
	}
	return out
}

// reflectTypeOfGlobal: the Go type T of a package-level variable initialised with reflect.TypeOf(T{...}).
func reflectTypeOfGlobal(g *ssa.Global) types.Type {
	for _, sv := range storedInto(initFn(g), g) {
		if t := reflectTypeOfValue(sv, 0); t != nil {
			return t
		}
	}
	return nil
}

// reflectTypeOfValue: the Go type a reflect.Type-valued expression of the initialiser denotes:
// reflect.TypeOf(x), reflect.TypeFor[T](), reflect.TypeOf((*T)(nil)).Elem(), reflect.PointerTo(t).
func reflectTypeOfValue(v ssa.Value, depth int) types.Type {
	call, ok := v.(*ssa.Call)
	if !ok || depth > 3 {
		return nil
	}
	if call.Call.IsInvoke() {
		if call.Call.Method.Name() == "Elem" {
			if inner := reflectTypeOfValue(call.Call.Value, depth+1); inner != nil {
				switch u := inner.Underlying().(type) {
				case *types.Pointer:
					return u.Elem()
				case *types.Slice:
					return u.Elem()
				case *types.Array:
					return u.Elem()
				}
			}
		}
		return nil
	}
	f := call.Call.StaticCallee()
	if f == nil {
		return nil
	}
	switch {
	case calleeName(f) == "reflect.TypeOf" && len(call.Call.Args) == 1:
		if mi, ok := call.Call.Args[0].(*ssa.MakeInterface); ok {
			return mi.X.Type()
		}
	case f.Origin() != nil && f.Origin().Name() == "TypeFor" && f.Origin().Pkg != nil && f.Origin().Pkg.Pkg.Path() == "reflect" && len(f.TypeArgs()) == 1:
		return f.TypeArgs()[0]
	case (calleeName(f) == "reflect.PointerTo" || calleeName(f) == "reflect.PtrTo") && len(call.Call.Args) == 1:
		if inner := reflectTypeOfValue(call.Call.Args[0], depth+1); inner != nil {
			return types.NewPointer(inner)
		}
	}
	return nil
}

// reflectTypeGuard: blk is dominated by the true branch of `t == tX` (a reflect.Type compared with a
// package-level reflect.TypeOf variable): returns the Go type of tX.
func reflectTypeGuard(blk *ssa.BasicBlock) types.Type {
	child := blk
	for d := blk.Idom(); d != nil; child, d = d, d.Idom() {
		ifi, ok := d.Instrs[len(d.Instrs)-1].(*ssa.If)
		if !ok {
			continue
		}
		if !((d.Succs[0] == child || dominates(d.Succs[0], child)) && len(d.Succs[0].Preds) == 1) {
			continue
		}
		if d.Succs[1] == child || (dominates(d.Succs[1], child) && len(d.Succs[1].Preds) == 1) {
			continue
		}
		bo, ok := ifi.Cond.(*ssa.BinOp)
		if !ok || bo.Op != token.EQL {
			continue
		}
		for _, side := range []ssa.Value{bo.X, bo.Y} {
			if u, ok := side.(*ssa.UnOp); ok && u.Op == token.MUL {
				if g, ok := u.X.(*ssa.Global); ok {
					if t := reflectTypeOfGlobal(g); t != nil {
						return t
					}
				}
			}
		}
	}
	return nil
}

func dynTypeOf(v ssa.Value) types.Type {
	switch x := v.(type) {
	case *ssa.MakeInterface:
		return x.X.Type()
	case *ssa.ChangeType:
		return x.X.Type()
	case *ssa.ChangeInterface:
		return dynTypeOf(x.X)
	}
	return nil
}

func isIfaceElemOfCall(v ssa.Value) bool {
	// load of &slice[i] where slice is (an extract of) a call result
	u, ok := v.(*ssa.UnOp)
	if !ok {
		return false
	}
	ia, ok := u.X.(*ssa.IndexAddr)
	if !ok {
		return false
	}
	base := ia.X
	if ex, ok := base.(*ssa.Extract); ok {
		_, isCall := ex.Tuple.(*ssa.Call)
		return isCall
	}
	return false
}

func classifyIndex(p *Program, fn *ssa.Function, in ssa.Instruction, base, idx ssa.Value, wireTypes map[string]bool) panicSite {
	s := panicSite{fn: fn, instr: in, kind: "index", rule: "P1"}
	bt := base.Type().Underlying()
	if pt, ok := bt.(*types.Pointer); ok {
		bt = pt.Elem().Underlying()
	}
	ci, isConst := constInt(idx)
	// (a) arrays
	if at, ok := bt.(*types.Array); ok {
		if isConst && ci >= 0 && ci < at.Len() {
			s.ok, s.why = true, "constant index inside a fixed-size array"
			return s
		}
		if loopBounded(in.Block(), idx, at.Len(), nil) {
			s.ok, s.why = true, "index bounded by the loop condition"
			return s
		}
		// a table indexed by a run-time value
		s.rule, s.kind = "P2", "table"
		it := idx.Type()
		if cv, ok := idx.(*ssa.Convert); ok {
			it = cv.X.Type()
		}
		if ct, ok := idx.(*ssa.ChangeType); ok {
			it = ct.X.Type()
		}
		if vb := valBounds(in.Block(), idx); vb.Intersect(complement(IntervalSet{{0, at.Len() - 1}})).Empty() {
			s.ok, s.why = true, "index inside the table by a dominating range check"
			return s
		}
		if callersPassConstantsInRange(p, fn, idx, at.Len()) {
			s.ok, s.why = true, "every static caller passes a constant inside the table"
			return s
		}
		if proveIndexInBounds(p, in, base, idx) {
			s.ok, s.why = true, "0 <= index < length entailed by the dominating conditions (linear bound domain)"
			return s
		}
		tn := typeName(it)
		_, enumLike := types.Unalias(it).(*types.Named)
		switch {
		case wireTypes[tn]:
			s.detail = fmt.Sprintf("%d-entry table indexed by a %s without a bound check; values of this type are produced from reply bytes by the API, so rendering a returned value can panic", at.Len(), tn)
		case enumLike:
			s.ok, s.why = true, fmt.Sprintf("table indexed by %s: never produced from wire bytes by the API (caller-domain only)", tn)
		default:
			s.rule, s.kind = "P1", "index"
			s.detail = fmt.Sprintf("%d-entry array indexed by an unbounded %s", at.Len(), tn)
		}
		return s
	}
	// slices and strings
	if isMessageReader(p, fn) && isBufParam(base) && (!isFieldHelper(p, fn) || isPlainBufParam(base)) {
		s.ok, s.why = true, "message buffer inside the field codec: bounded by len==64 (F4) and offset+width<=64 (L3, K1)"
		return s
	}
	if k, ok := base.(*ssa.Const); ok && k.Value != nil && isStringType(k.Type()) {
		// a constant string used as a table
		if str, err := unquote(k.Value.ExactString()); err == nil {
			n := int64(len(str))
			if (isConst && ci >= 0 && ci < n) || (n > 0 && valBounds(in.Block(), idx).Intersect(complement(IntervalSet{{0, n - 1}})).Empty()) {
				s.ok, s.why = true, "index inside a constant string by a dominating range check"
				return s
			}
		}
	}
	lb := lenBounds(in.Block(), base)
	if isConst && ci >= 0 && ci < minOf(lb) {
		s.ok, s.why = true, "constant index below a dominating length guard"
		return s
	}
	if isConst && ci >= 0 && ci < callerMinLen(p, fn, base, 0) {
		s.ok, s.why = true, "constant index below the length every caller of this helper has established"
		return s
	}
	if n, ok := makeSliceLen(base); ok && isConst && ci >= 0 && ci < n {
		s.ok, s.why = true, "constant index inside a buffer made with a constant length"
		return s
	}
	if isConst && ci >= 0 && ci < 64 && originIsMarshal(p, base, 0, map[ssa.Value]bool{}) {
		s.ok, s.why = true, "request buffer: every caller passes the 64-byte result of codec.Marshal (K8)"
		return s
	}
	if bcdPackingIdiom(base, idx) {
		s.ok, s.why = true, "BCD packing: buffer of (len+1)/2 bytes indexed by (len%2+k)/2 for the k-th of at most len symbols"
		return s
	}
	if n, ok := reflectCallResults(p, base); ok && isConst && ci >= 0 && int(ci) < n {
		s.ok, s.why = true, "result list of a reflected method call with a fixed number of results"
		return s
	}
	if loopBounded(in.Block(), idx, -1, base) {
		s.ok, s.why = true, "index bounded by the loop condition i < len(x)"
		return s
	}
	// literal slices: slice of a local array
	if sl, ok := base.(*ssa.Slice); ok {
		if al, ok := sl.X.(*ssa.Alloc); ok {
			if at, ok := al.Type().Underlying().(*types.Pointer).Elem().Underlying().(*types.Array); ok && sl.Low == nil && sl.High == nil {
				if isConst && ci >= 0 && ci < at.Len() {
					s.ok, s.why = true, "constant index inside a slice literal"
					return s
				}
				if loopBounded(in.Block(), idx, at.Len(), nil) || valBounds(in.Block(), idx).Intersect(complement(IntervalSet{{0, at.Len() - 1}})).Empty() {
					s.ok, s.why = true, "index inside the slice literal by a dominating bound"
					return s
				}
				if proveIndexInBounds(p, in, base, idx) {
					s.ok, s.why = true, "0 <= index < length entailed by the dominating conditions (linear bound domain)"
					return s
				}
				s.rule, s.kind = "P2", "table"
				it := idx.Type()
				if cv, ok := idx.(*ssa.Convert); ok {
					it = cv.X.Type()
				}
				tn := typeName(it)
				_, enumLike := types.Unalias(it).(*types.Named)
				switch {
				case wireTypes[tn]:
					s.detail = fmt.Sprintf("%d-entry table indexed by a %s without a bound check", at.Len(), tn)
				case enumLike:
					s.ok, s.why = true, fmt.Sprintf("table indexed by %s: never produced from wire bytes by the API (caller-domain only)", tn)
				default:
					s.rule, s.kind = "P1", "index"
					s.detail = fmt.Sprintf("%d-entry slice literal indexed by an unbounded %s", at.Len(), tn)
				}
				return s
			}
		}
	}
	// regexp submatch results
	if call, ok := base.(*ssa.Call); ok {
		if f := call.Call.StaticCallee(); f != nil && calleeName(f) == "(*regexp.Regexp).FindStringSubmatch" {
			if g, ok := regexpGroups(p, call.Call.Args[0]); ok && isConst && int(ci) <= g && nonNilDominates(in.Block(), base) {
				s.ok, s.why = true, "submatch index within the pattern's capture groups, after the nil check"
				return s
			}
		}
	}
	if proveIndexInBounds(p, in, base, idx) {
		s.ok, s.why = true, "0 <= index < length entailed by the dominating conditions (linear bound domain)"
		return s
	}
	s.detail = fmt.Sprintf("index %s of %s is not bounded by any recognised guard", idx.Name(), base.Name())
	return s
}

func nonNilDominates(blk *ssa.BasicBlock, v ssa.Value) bool {
	child := blk
	for d := blk.Idom(); d != nil; child, d = d, d.Idom() {
		ifi, ok := d.Instrs[len(d.Instrs)-1].(*ssa.If)
		if !ok {
			continue
		}
		bo, ok := ifi.Cond.(*ssa.BinOp)
		if !ok {
			continue
		}
		isNilCmp := false
		if (bo.X == v || sameLoad(bo.X, v)) && isNilConst(bo.Y) || (bo.Y == v || sameLoad(bo.Y, v)) && isNilConst(bo.X) {
			isNilCmp = true
		}
		if !isNilCmp {
			continue
		}
		// EQL: false branch; NEQ: true branch
		want := 1
		if bo.Op == token.NEQ {
			want = 0
		}
		// the block is reached only through the non-nil edge: that successor dominates it and is entered by this
		// edge alone (the other successor may be a loop header that dominates everything - `continue`)
		if dominates(d.Succs[want], child) && (len(d.Succs[want].Preds) == 1 || !dominates(d.Succs[1-want], child)) && d.Succs[0] != d.Succs[1] {
			return true
		}
	}
	return false
}

func sameLoad(a, b ssa.Value) bool {
	x, ok1 := a.(*ssa.UnOp)
	y, ok2 := b.(*ssa.UnOp)
	return ok1 && ok2 && x.Op == token.MUL && y.Op == token.MUL && x.X == y.X
}

func isNilConst(v ssa.Value) bool {
	c, ok := v.(*ssa.Const)
	return ok && c.Value == nil
}

// loopBounded: idx is compared with < against n (or len(base)) by the branch that dominates blk.
func loopBounded(blk *ssa.BasicBlock, idx ssa.Value, n int64, base ssa.Value) bool {
	child := blk
	for d := blk; d != nil; child, d = d, d.Idom() {
		if d == blk {
			continue
		}
		ifi, ok := d.Instrs[len(d.Instrs)-1].(*ssa.If)
		if !ok {
			continue
		}
		bo, ok := ifi.Cond.(*ssa.BinOp)
		if !ok || bo.Op != token.LSS || bo.X != idx {
			continue
		}
		if !(dominates(d.Succs[0], child) || d.Succs[0] == child) {
			continue
		}
		if c, ok := constInt(bo.Y); ok && n >= 0 && c <= n {
			return true
		}
		if call, ok := bo.Y.(*ssa.Call); ok {
			if b, ok := call.Call.Value.(*ssa.Builtin); ok && b.Name() == "len" {
				arg := call.Call.Args[0]
				if base != nil && (arg == base || sameLoad(arg, base)) {
					return true
				}
				if n >= 0 {
					// len of a slice of the fixed array
					if sl, ok := arg.(*ssa.Slice); ok {
						if al, ok := sl.X.(*ssa.Alloc); ok {
							if at, ok := al.Type().Underlying().(*types.Pointer).Elem().Underlying().(*types.Array); ok && at.Len() <= n {
								return true
							}
						}
					}
				}
			}
		}
	}
	return false
}

func callersPassConstantsInRange(p *Program, fn *ssa.Function, idx ssa.Value, n int64) bool {
	// idx must be (a conversion of) a parameter
	v := idx
	for {
		switch x := v.(type) {
		case *ssa.Convert:
			v = x.X
			continue
		case *ssa.ChangeType:
			v = x.X
			continue
		}
		break
	}
	prm, ok := v.(*ssa.Parameter)
	if !ok {
		return false
	}
	pi := -1
	for i, q := range fn.Params {
		if q == prm {
			pi = i
		}
	}
	if pi < 0 || (fn.Object() != nil && fn.Object().Exported()) {
		return false
	}
	calls := 0
	for _, caller := range p.AllFuncs {
		for _, b := range caller.Blocks {
			for _, in := range b.Instrs {
				c, ok := in.(ssa.CallInstruction)
				if !ok || c.Common().StaticCallee() != fn {
					continue
				}
				calls++
				arg := c.Common().Args[pi]
				if k, ok := constInt(arg); ok && k >= 0 && k < n {
					continue
				}
				// element of a constant literal being ranged over
				if ld, ok := arg.(*ssa.UnOp); ok {
					if ia, ok := ld.X.(*ssa.IndexAddr); ok {
						if literalElemsInRange(ia.X, n) {
							continue
						}
					}
				}
				return false
			}
		}
	}
	return calls > 0
}

func literalElemsInRange(base ssa.Value, n int64) bool {
	var al *ssa.Alloc
	switch x := base.(type) {
	case *ssa.Slice:
		al, _ = x.X.(*ssa.Alloc)
	case *ssa.Alloc:
		al = x
	}
	if al == nil {
		return false
	}
	stores := 0
	for _, ref := range *al.Referrers() {
		if ia, ok := ref.(*ssa.IndexAddr); ok {
			for _, r2 := range *ia.Referrers() {
				if st, ok := r2.(*ssa.Store); ok {
					k, ok := constInt(st.Val)
					if !ok || k < 0 || k >= n {
						return false
					}
					stores++
				}
			}
		}
	}
	return stores > 0
}

func classifySlice(p *Program, fn *ssa.Function, x *ssa.Slice) panicSite {
	s := panicSite{fn: fn, instr: x, kind: "slice", rule: "P1"}
	bt := x.X.Type().Underlying()
	if pt, ok := bt.(*types.Pointer); ok {
		if at, ok := pt.Elem().Underlying().(*types.Array); ok {
			lo, hi := int64(0), at.Len()
			okc := true
			if x.Low != nil {
				lo, okc = constInt(x.Low)
			}
			if x.High != nil {
				var ok2 bool
				hi, ok2 = constInt(x.High)
				okc = okc && ok2
			}
			if okc && 0 <= lo && lo <= hi && hi <= at.Len() {
				s.ok, s.why = true, "constant bounds inside a fixed-size array"
				return s
			}
		}
	}
	if x.Low == nil && x.High == nil {
		s.ok, s.why = true, "full slice"
		return s
	}
	if isMessageReader(p, fn) && isBufParam(x.X) && (!isFieldHelper(p, fn) || isPlainBufParam(x.X)) {
		s.ok, s.why = true, "message buffer inside the field codec: bounded by len==64 (F4) and offset+width<=64 (L3, K1)"
		return s
	}
	// x[:n] / x[0:n] with n the count returned by a read into x
	if x.High != nil {
		if ex, ok := x.High.(*ssa.Extract); ok && ex.Index == 0 {
			if call, ok := ex.Tuple.(*ssa.Call); ok {
				if f := call.Call.StaticCallee(); f != nil && strings.HasPrefix(f.Name(), "Read") {
					for _, a := range call.Call.Args {
						if sl, ok := a.(*ssa.Slice); ok && sl.X == x.X {
							a = x.X
						}
						if a == x.X {
							if lo, ok := constIntOrNil(x.Low); ok && lo == 0 {
								s.ok, s.why = true, "upper bound is the count returned by the read into the same buffer (0 <= n <= len, io contract)"
								return s
							}
						}
					}
				}
				if call.Call.IsInvoke() && strings.HasPrefix(call.Call.Method.Name(), "Read") {
					for _, a := range call.Call.Args {
						if a == x.X {
							s.ok, s.why = true, "upper bound is the count returned by the read into the same buffer (0 <= n <= len, io contract)"
							return s
						}
					}
				}
			}
		}
	}
	// x[lo:min(.., len(x))]: the upper bound cannot exceed the length; the lower bound is nil/0, or the loop
	// variable kept below len(x) with the other operand of min being lo+c (so lo <= hi)
	if x.High != nil {
		if call, ok := x.High.(*ssa.Call); ok {
			if b, ok := call.Call.Value.(*ssa.Builtin); ok && b.Name() == "min" {
				hasLen := false
				var others []ssa.Value
				for _, a := range call.Call.Args {
					if isLenOf(a, x.X) {
						hasLen = true
					} else {
						others = append(others, a)
					}
				}
				if hasLen {
					lo0 := x.Low == nil
					if c, ok := constIntOrNil(x.Low); ok && c == 0 {
						lo0 = true
					}
					okLo := lo0
					if !lo0 && loopBounded(x.Block(), x.Low, -1, x.X) {
						okLo = true
						for _, o := range others {
							bo, ok := o.(*ssa.BinOp)
							if !ok || bo.Op != token.ADD || bo.X != x.Low {
								okLo = false
								continue
							}
							if c, ok := constInt(bo.Y); !ok || c < 0 {
								okLo = false
							}
						}
					}
					if lo0 {
						for _, o := range others {
							if c, ok := constInt(o); !ok || c < 0 {
								okLo = false
							}
						}
					}
					if okLo {
						s.ok, s.why = true, "upper bound is min(.., len(x)); lower bound is 0 or a loop variable below len(x)"
						return s
					}
				}
			}
		}
	}
	// x[len(y):] where y is a prefix x[:k] of x: len(y) <= len(x)
	if x.High == nil && x.Low != nil {
		if call, ok := x.Low.(*ssa.Call); ok {
			if b, ok := call.Call.Value.(*ssa.Builtin); ok && b.Name() == "len" && len(call.Call.Args) == 1 {
				if pre, ok := call.Call.Args[0].(*ssa.Slice); ok && pre.X == x.X && pre.Low == nil {
					s.ok, s.why = true, "lower bound is the length of a prefix of the same slice"
					return s
				}
			}
		}
	}
	lb := lenBounds(x.Block(), x.X)
	min := minOf(lb)
	if n, ok := sprintfMinLen(x.X); ok && n > min {
		min = n
	}
	if n, ok := makeSliceLen(x.X); ok && n > min {
		min = n
	}
	if n, ok := bcdDecodeLen(x.X); ok && n > min {
		min = n
	}
	if n := callerMinLen(p, fn, x.X, 0); n > min {
		min = n
	}
	if x.High == nil && x.Low != nil {
		if _, isc := constInt(x.Low); !isc && loopBounded(x.Block(), x.Low, -1, x.X) {
			s.ok, s.why = true, "lower bound is the loop variable, kept below len(x) by the loop condition"
			return s
		}
	}
	lo, okl := constIntOrNil(x.Low)
	hi, okh := constIntOrNil(x.High)
	if okl && okh {
		if x.High == nil {
			if lo <= min {
				s.ok, s.why = true, "constant lower bound within the guaranteed minimum length"
				return s
			}
		} else if lo <= hi && hi <= min {
			s.ok, s.why = true, "constant bounds within the guaranteed minimum length"
			return s
		}
	}
	if proveSliceInBounds(p, x) {
		s.ok, s.why = true, "0 <= low <= high <= capacity entailed by the dominating conditions (linear bound domain)"
		return s
	}
	s.detail = fmt.Sprintf("slice bounds of %s are not covered by any recognised guard (guaranteed length >= %d)", x.X.Name(), min)
	return s
}

// resolveLocal sees through a local variable that is assigned exactly once.
func resolveLocal(v ssa.Value) ssa.Value {
	if u, ok := v.(*ssa.UnOp); ok && u.Op == token.MUL {
		if al, ok := u.X.(*ssa.Alloc); ok {
			var stored ssa.Value
			n := 0
			for _, ref := range *al.Referrers() {
				if st, ok := ref.(*ssa.Store); ok && st.Addr == al {
					n++
					stored = st.Val
				}
			}
			if n == 1 {
				return stored
			}
		}
	}
	return v
}

// bcdDecodeLen: the text returned by bcd.Decode(x[a:b]) has exactly 2*(b-a) characters.
func bcdDecodeLen(v ssa.Value) (int64, bool) {
	v = resolveLocal(v)
	ex, ok := v.(*ssa.Extract)
	if !ok || ex.Index != 0 {
		return 0, false
	}
	call, ok := ex.Tuple.(*ssa.Call)
	if !ok {
		return 0, false
	}
	f := call.Call.StaticCallee()
	if f == nil || calleeName(f) != "bcd.Decode" {
		return 0, false
	}
	if sl, ok := call.Call.Args[0].(*ssa.Slice); ok {
		lo, ok1 := constIntOrNil(sl.Low)
		hi, ok2 := constInt(sl.High)
		if ok1 && ok2 && sl.High != nil {
			return 2 * (hi - lo), true
		}
	}
	return 0, false
}

func makeSliceLen(v ssa.Value) (int64, bool) {
	v = resolveLocal(v)
	if ms, ok := v.(*ssa.MakeSlice); ok {
		return constInt(ms.Len)
	}
	if sl, ok := v.(*ssa.Slice); ok {
		if pt, ok := sl.X.Type().Underlying().(*types.Pointer); ok {
			if at, ok := pt.Elem().Underlying().(*types.Array); ok {
				lo, ok1 := constIntOrNil(sl.Low)
				hi := at.Len()
				ok2 := true
				if sl.High != nil {
					hi, ok2 = constInt(sl.High)
				}
				if ok1 && ok2 && lo <= hi && hi <= at.Len() {
					return hi - lo, true
				}
			}
		}
	}
	return 0, false
}

// originIsMarshal: the slice value comes, through parameters, closures and local variables, only from codec.Marshal.
func originIsMarshal(p *Program, v ssa.Value, depth int, seen map[ssa.Value]bool) bool {
	if depth > 6 || seen[v] {
		return depth <= 6
	}
	seen[v] = true
	switch x := v.(type) {
	case *ssa.Extract:
		if call, ok := x.Tuple.(*ssa.Call); ok && x.Index == 0 {
			if f := call.Call.StaticCallee(); f != nil && calleeName(f) == "codec.Marshal" {
				return true
			}
		}
		return false
	case *ssa.UnOp:
		if x.Op != token.MUL {
			return false
		}
		switch a := x.X.(type) {
		case *ssa.Alloc:
			n := 0
			for _, ref := range *a.Referrers() {
				if st, ok := ref.(*ssa.Store); ok && st.Addr == a {
					n++
					if !originIsMarshal(p, st.Val, depth+1, seen) {
						return false
					}
				}
			}
			return n > 0
		case *ssa.FreeVar:
			fn := a.Parent()
			idx := -1
			for i, fv := range fn.FreeVars {
				if fv == a {
					idx = i
				}
			}
			n := 0
			for _, caller := range p.AllFuncs {
				for _, b := range caller.Blocks {
					for _, in := range b.Instrs {
						if mc, ok := in.(*ssa.MakeClosure); ok && mc.Fn == fn {
							n++
							bv := mc.Bindings[idx]
							if al, ok := bv.(*ssa.Alloc); ok {
								for _, ref := range *al.Referrers() {
									if st, ok := ref.(*ssa.Store); ok && st.Addr == al {
										if !originIsMarshal(p, st.Val, depth+1, seen) {
											return false
										}
									}
								}
							} else {
								return false
							}
						}
					}
				}
			}
			return n > 0
		}
		return false
	case *ssa.Parameter:
		fn := x.Parent()
		if fn.Object() != nil && fn.Object().Exported() && fn.Signature.Recv() == nil {
			return false
		}
		pi := -1
		for i, q := range fn.Params {
			if q == x {
				pi = i
			}
		}
		n := 0
		for _, caller := range p.AllFuncs {
			for _, b := range caller.Blocks {
				for _, in := range b.Instrs {
					c, ok := in.(ssa.CallInstruction)
					if !ok {
						continue
					}
					cc := c.Common()
					var arg ssa.Value
					if cc.StaticCallee() == fn {
						arg = cc.Args[pi]
					} else if cc.IsInvoke() && fn.Signature.Recv() != nil && cc.Method.Name() == fn.Name() && types.Identical(cc.Method.Type().(*types.Signature).Params(), fn.Signature.Params()) {
						// interface call that can dispatch to fn: the receiver is not in Args
						if pi-1 >= 0 && pi-1 < len(cc.Args) {
							arg = cc.Args[pi-1]
						}
					}
					if arg == nil {
						continue
					}
					n++
					if !originIsMarshal(p, arg, depth+1, seen) {
						return false
					}
				}
			}
		}
		return n > 0
	}
	return false
}

// bcdPackingIdiom recognises  buf := make([]byte,(len(s)+1)/2); ix := len(s)%2; for range s { buf[ix/2]...; ix++ }.
func bcdPackingIdiom(base, idx ssa.Value) bool {
	ms, ok := resolveLocal(base).(*ssa.MakeSlice)
	if !ok {
		return false
	}
	strOfLen := func(v ssa.Value) ssa.Value {
		call, ok := v.(*ssa.Call)
		if !ok {
			return nil
		}
		if b, ok := call.Call.Value.(*ssa.Builtin); ok && b.Name() == "len" {
			return call.Call.Args[0]
		}
		return nil
	}
	// len = (len(s)+1)/2, written in place or as a size helper of the module called with len(s)
	// (func EncodedLen(n int) int { return (n + 1) / 2 })
	halfUp := func(v ssa.Value) ssa.Value {
		q, ok := v.(*ssa.BinOp)
		if !ok || q.Op != token.QUO {
			return nil
		}
		if c, ok := constInt(q.Y); !ok || c != 2 {
			return nil
		}
		add, ok := q.X.(*ssa.BinOp)
		if !ok || add.Op != token.ADD {
			return nil
		}
		if c, ok := constInt(add.Y); !ok || c != 1 {
			return nil
		}
		return add.X
	}
	var s ssa.Value
	if x := halfUp(ms.Len); x != nil {
		s = strOfLen(x)
	} else if call, ok := ms.Len.(*ssa.Call); ok && !call.Call.IsInvoke() {
		if g := call.Call.StaticCallee(); g != nil && inModule(g) && len(g.Blocks) == 1 && len(g.FreeVars) == 0 {
			ins := g.Blocks[0].Instrs
			if ret, ok := ins[len(ins)-1].(*ssa.Return); ok && len(ret.Results) == 1 {
				if prm, ok := halfUp(ret.Results[0]).(*ssa.Parameter); ok {
					for i, q := range g.Params {
						if q == prm && i < len(call.Call.Args) {
							s = strOfLen(call.Call.Args[i])
						}
					}
				}
			}
		}
	}
	if s == nil {
		return false
	}
	// idx = phi/2 with phi = [len(s)%2, phi+1]
	d, ok := idx.(*ssa.BinOp)
	if !ok || d.Op != token.QUO {
		return false
	}
	if c, ok := constInt(d.Y); !ok || c != 2 {
		return false
	}
	// form (b): (i + len(s)%2)/2 with i the counter of a loop  for i := 0; i < len(s); i++
	if add2, ok := d.X.(*ssa.BinOp); ok && add2.Op == token.ADD {
		isPad := func(v ssa.Value) bool {
			bo, ok := resolveLocal(v).(*ssa.BinOp)
			if !ok || bo.Op != token.REM || strOfLen(bo.X) != s {
				return false
			}
			c, ok := constInt(bo.Y)
			return ok && c == 2
		}
		isCounter := func(v ssa.Value) bool {
			cnt, ok := v.(*ssa.Phi)
			if !ok || len(cnt.Edges) != 2 {
				return false
			}
			zero, inc := false, false
			for _, e := range cnt.Edges {
				if k, ok := constInt(e); ok && k == 0 {
					zero = true
				}
				if bo, ok := e.(*ssa.BinOp); ok && bo.Op == token.ADD && bo.X == cnt {
					if k, ok := constInt(bo.Y); ok && k == 1 {
						inc = true
					}
				}
			}
			if !zero || !inc {
				return false
			}
			ifi, ok := cnt.Block().Instrs[len(cnt.Block().Instrs)-1].(*ssa.If)
			if !ok {
				return false
			}
			c, ok := ifi.Cond.(*ssa.BinOp)
			return ok && c.Op == token.LSS && c.X == cnt && strOfLen(c.Y) == s && dominates(cnt.Block().Succs[0], d.Block())
		}
		if (isPad(add2.X) && isCounter(add2.Y)) || (isPad(add2.Y) && isCounter(add2.X)) {
			return true
		}
		return false
	}
	ph, ok := d.X.(*ssa.Phi)
	if !ok || len(ph.Edges) != 2 {
		return false
	}
	okInit, okInc := false, false
	for _, e := range ph.Edges {
		if bo, ok := e.(*ssa.BinOp); ok {
			if bo.Op == token.REM && strOfLen(bo.X) == s {
				if c, ok := constInt(bo.Y); ok && c == 2 {
					okInit = true
				}
			}
			if bo.Op == token.ADD && bo.X == ph {
				if c, ok := constInt(bo.Y); ok && c == 1 {
					okInc = true
				}
			}
		}
	}
	if !okInit || !okInc {
		return false
	}
	// the loop must run once per symbol of s (one increment per symbol, symbols <= bytes): either it ranges
	// over s itself, or it counts i = 0, 1, .. while i < len(s)
	for _, b := range ph.Block().Instrs {
		if nx, ok := b.(*ssa.Next); ok {
			if rg, ok := nx.Iter.(*ssa.Range); ok && rg.X == s {
				return true
			}
		}
	}
	if ifi, ok := ph.Block().Instrs[len(ph.Block().Instrs)-1].(*ssa.If); ok {
		if c, ok := ifi.Cond.(*ssa.BinOp); ok && c.Op == token.LSS && strOfLen(c.Y) == s {
			if cnt, ok := c.X.(*ssa.Phi); ok && cnt.Block() == ph.Block() && len(cnt.Edges) == 2 {
				zero, inc := false, false
				for _, e := range cnt.Edges {
					if k, ok := constInt(e); ok && k == 0 {
						zero = true
					}
					if bo, ok := e.(*ssa.BinOp); ok && bo.Op == token.ADD && bo.X == cnt {
						if k, ok := constInt(bo.Y); ok && k == 1 {
							inc = true
						}
					}
				}
				// the packing index is used only in the loop body (the true branch of the bound test)
				if zero && inc && dominates(ph.Block().Succs[0], idx.(*ssa.BinOp).Block()) {
					return true
				}
			}
		}
	}
	return false
}

// reflectCallResults: number of results of  v.MethodByName("M").Call(..)  over the codec's field types.
func reflectCallResults(p *Program, base ssa.Value) (int, bool) {
	call, ok := base.(*ssa.Call)
	if !ok {
		return 0, false
	}
	f := call.Call.StaticCallee()
	if f == nil || calleeName(f) != "(reflect.Value).Call" {
		return 0, false
	}
	mb, ok := call.Call.Args[0].(*ssa.Call)
	if !ok {
		return 0, false
	}
	g := mb.Call.StaticCallee()
	if g == nil || calleeName(g) != "(reflect.Value).MethodByName" {
		return 0, false
	}
	name, ok := constStr(mb.Call.Args[1])
	if !ok {
		return 0, false
	}
	min := -1
	for _, tname := range []struct{ pkg, typ string }{{"net", "IP"}, {"net/netip", "AddrPort"}, {"net", "HardwareAddr"}} {
		for _, pk := range p.SSA.AllPackages() {
			if pk.Pkg.Path() != tname.pkg {
				continue
			}
			obj := pk.Pkg.Scope().Lookup(tname.typ)
			if obj == nil {
				continue
			}
			for _, t := range []types.Type{obj.Type(), types.NewPointer(obj.Type())} {
				if sel := p.SSA.MethodSets.MethodSet(t).Lookup(pk.Pkg, name); sel != nil {
					n := sel.Type().(*types.Signature).Results().Len()
					if min < 0 || n < min {
						min = n
					}
				}
			}
		}
	}
	if min < 0 {
		return 0, false
	}
	return min, true
}

// unreferenced: an unexported function or method that no instruction of the program mentions (as callee or as a
// value) and, for a method, whose name no interface type declared in the module contains.
func unreferenced(p *Program, fn *ssa.Function) bool {
	if fn.Object() == nil || fn.Object().Exported() || fn.Parent() != nil {
		return false
	}
	for _, g := range p.AllFuncs {
		for _, b := range g.Blocks {
			for _, in := range b.Instrs {
				for _, op := range in.Operands(nil) {
					if f, ok := (*op).(*ssa.Function); ok && (f == fn || f.Origin() == fn) {
						return false
					}
				}
				// a bound method value or an interface call by name
				if ci, ok := in.(ssa.CallInstruction); ok && ci.Common().IsInvoke() && ci.Common().Method.Name() == fn.Name() {
					return false
				}
			}
		}
	}
	if fn.Signature.Recv() != nil {
		for _, pk := range p.Pkgs {
			sc := pk.Types.Scope()
			for _, name := range sc.Names() {
				tn, ok := sc.Lookup(name).(*types.TypeName)
				if !ok {
					continue
				}
				if it, ok := tn.Type().Underlying().(*types.Interface); ok {
					for i := 0; i < it.NumMethods(); i++ {
						if it.Method(i).Name() == fn.Name() {
							return false
						}
					}
				}
			}
		}
		// wrappers and bound-method thunks of the method
		for _, g := range p.AllFuncs {
			if g.Synthetic != "" && g.Object() == fn.Object() && g != fn {
				for _, h := range p.AllFuncs {
					for _, b := range h.Blocks {
						for _, in := range b.Instrs {
							for _, op := range in.Operands(nil) {
								if f, ok := (*op).(*ssa.Function); ok && f == g {
									return false
								}
							}
						}
					}
				}
			}
		}
	}
	return true
}

// sameAddrValue: the same SSA value, or the same pure accessor of package netip applied to the same value
// (addr.Addr() written twice).
func sameAddrValue(a, b ssa.Value, depth int) bool {
	if a == b {
		return true
	}
	if depth > 3 {
		return false
	}
	ca, ok1 := a.(*ssa.Call)
	cb, ok2 := b.(*ssa.Call)
	if !ok1 || !ok2 || len(ca.Call.Args) != 1 || len(cb.Call.Args) != 1 {
		return false
	}
	fa, fb := ca.Call.StaticCallee(), cb.Call.StaticCallee()
	if fa == nil || fa != fb {
		return false
	}
	switch calleeName(fa) {
	case "(netip.AddrPort).Addr", "(netip.Addr).Unmap", "(netip.Addr).WithZone":
		return sameAddrValue(ca.Call.Args[0], cb.Call.Args[0], depth+1)
	}
	return false
}

// as4Safe: v is an IPv4 (or IPv4-mapped) address at blk: built by AddrFrom4, or a dominating Is4()/Is4In6() test of
// it came out true; for a parameter of an unexported function, at every call site.
func as4Safe(p *Program, fn *ssa.Function, blk *ssa.BasicBlock, v ssa.Value, depth int) bool {
	if depth > 3 {
		return false
	}
	if c, ok := v.(*ssa.Call); ok {
		if g := c.Call.StaticCallee(); g != nil {
			switch calleeName(g) {
			case "netip.AddrFrom4", "netip.IPv4Unspecified":
				return true
			}
		}
	}
	for _, b := range fn.Blocks {
		if len(b.Succs) != 2 || len(b.Instrs) == 0 {
			continue
		}
		ifi, ok := b.Instrs[len(b.Instrs)-1].(*ssa.If)
		if !ok {
			continue
		}
		cond, truth := ifi.Cond, true
		if u, ok := cond.(*ssa.UnOp); ok && u.Op == token.NOT {
			cond, truth = u.X, false
		}
		c, ok := cond.(*ssa.Call)
		if !ok || len(c.Call.Args) != 1 || !sameAddrValue(c.Call.Args[0], v, 0) {
			continue
		}
		g := c.Call.StaticCallee()
		if g == nil || (calleeName(g) != "(netip.Addr).Is4" && calleeName(g) != "(netip.Addr).Is4In6") {
			continue
		}
		succ := b.Succs[0]
		if !truth {
			succ = b.Succs[1]
		}
		if len(succ.Preds) == 1 && succ.Dominates(blk) {
			return true
		}
	}
	prm, ok := v.(*ssa.Parameter)
	if !ok || fn.Object() == nil || fn.Object().Exported() {
		return false
	}
	idx := -1
	for i, q := range fn.Params {
		if q == prm {
			idx = i
		}
	}
	calls := 0
	for _, caller := range p.AllFuncs {
		for _, b := range caller.Blocks {
			for _, in := range b.Instrs {
				for _, op := range in.Operands(nil) {
					if *op == ssa.Value(fn) {
						if ci, isCall := in.(ssa.CallInstruction); !isCall || ci.Common().Value != ssa.Value(fn) {
							return false
						}
					}
				}
				ci, ok := in.(ssa.CallInstruction)
				if !ok || ci.Common().StaticCallee() != fn || idx < 0 || idx >= len(ci.Common().Args) {
					continue
				}
				calls++
				if !as4Safe(p, caller, b, ci.Common().Args[idx], depth+1) {
					return false
				}
			}
		}
	}
	return calls > 0
}

// knownNonNilAt: a comparison of v with nil that came out "not nil" dominates the block.
func knownNonNilAt(v ssa.Value, at *ssa.BasicBlock) bool {
	for _, b := range at.Parent().Blocks {
		if len(b.Instrs) == 0 || len(b.Succs) != 2 {
			continue
		}
		ifi, ok := b.Instrs[len(b.Instrs)-1].(*ssa.If)
		if !ok {
			continue
		}
		bo, ok := ifi.Cond.(*ssa.BinOp)
		if !ok || (bo.Op != token.NEQ && bo.Op != token.EQL) {
			continue
		}
		isNil := func(x ssa.Value) bool {
			c, ok := x.(*ssa.Const)
			return ok && c.IsNil()
		}
		if !((bo.X == v && isNil(bo.Y)) || (bo.Y == v && isNil(bo.X))) {
			continue
		}
		succ := b.Succs[0]
		if bo.Op == token.EQL {
			succ = b.Succs[1]
		}
		if len(succ.Preds) == 1 && succ.Dominates(at) {
			return true
		}
	}
	return false
}

func constIntOrNil(v ssa.Value) (int64, bool) {
	if v == nil {
		return 0, true
	}
	return constInt(v)
}

// wireReachableTypes: named integer types of result leaves that carry reply bytes.
func wireReachableTypes(p *Program) map[string]bool {
	out := map[string]bool{}
	l, err := NewLayoutEngine(p)
	if err != nil {
		return out
	}
	a, err := NewAPI(p, l)
	if err != nil {
		return out
	}
	for _, name := range a.OpNames {
		fn := a.Ops[name]
		// conversions of reply fields to named integer types inside the operation
		for _, b := range fn.Blocks {
			for _, in := range b.Instrs {
				var from ssa.Value
				var to types.Type
				switch x := in.(type) {
				case *ssa.Convert:
					from, to = x.X, x.Type()
				case *ssa.ChangeType:
					from, to = x.X, x.Type()
				default:
					continue
				}
				if _, ok := types.Unalias(to).(*types.Named); !ok || !isIntType(to) {
					continue
				}
				// from a field of the reply struct?
				if ld, ok := from.(*ssa.UnOp); ok {
					if fa, ok := ld.X.(*ssa.FieldAddr); ok {
						if strings.Contains(typeName(fa.X.Type()), "messages.") {
							out[typeName(to)] = true
						}
					}
				}
				if f, ok := from.(*ssa.Field); ok && strings.Contains(typeName(f.X.Type()), "messages.") {
					out[typeName(to)] = true
				}
			}
		}
	}
	return out
}

// crossCheckBCE: every bounds check the compiler could not prove must be a site of the inventory.
func crossCheckBCE(r *Report, p *Program, sites []panicSite) {
	r.Rule("P1x", "compiler cross-reference: every bounds check the Go compiler leaves in the binary corresponds to a site of the inventory", 1)
	lines, err := compilerBCE(p)
	if err != nil {
		r.Fatal("P1x", "compiler", err.Error())
		return
	}
	have := map[string]bool{}
	for _, s := range sites {
		ps := p.Fset.Position(s.instr.Pos())
		have[fmt.Sprintf("%s:%d", strings.TrimPrefix(ps.Filename, p.Dir+"/"), ps.Line)] = true
	}
	missing := []string{}
	for _, l := range lines {
		if !have[l] {
			missing = append(missing, l)
		}
	}
	r.Count("compiler_unproven_bounds_checks", len(lines))
	r.Check(len(missing) == 0 && len(lines) > 0, "P1x", "bce-list", "", fmt.Sprintf("%d compiler-reported checks all inventoried", len(lines)),
		"bounds checks reported by the compiler but absent from the inventory: "+strings.Join(missing, ", "))
}

var lintProgram *Program

var successLenMemo = map[string]IntervalSet{}

// successLenRegion: for a validation helper f(.., buf, ..) error, the lengths of buf for which it returns nil.
// predicateLenRegion: the lengths of argument argIdx for which the boolean function f returns the given truth value
// (every path that returns it, with what the path knows about the length; a path whose result is not a constant
// makes the answer unknown).
func predicateLenRegion(f *ssa.Function, argIdx int, truth bool) (IntervalSet, bool) {
	if lintProgram == nil || f.Blocks == nil || argIdx >= len(f.Params) {
		return nil, false
	}
	res := f.Signature.Results()
	if res.Len() != 1 || !isBoolType(res.At(0).Type()) {
		return nil, false
	}
	key := fmt.Sprintf("%s#%d#%v", f.String(), argIdx, truth)
	if r, ok := successLenMemo[key]; ok {
		return r, r != nil
	}
	successLenMemo[key] = nil
	w := NewWalker(lintProgram)
	w.Inline = inlineHelpers(nil, nil)
	w.LoopFuel = 4
	args := symbolicArgs(f)
	name := args[argIdx].Name
	var out IntervalSet
	for _, pa := range w.Walk(f, args, nil) {
		if os.Getenv("UHLINT_DEBUG") == "PLR" {
			fmt.Fprintf(os.Stderr, "PLR %s %s %v [%s]\n", f.Name(), pa.Outcome, pa.Results, pa.State.Describe())
		}
		if pa.Outcome != "return" || len(pa.Results) != 1 {
			return nil, false
		}
		reg, ok := pa.State.Ints["len("+name+")"]
		if !ok {
			reg = IntervalSet{{0, math.MaxInt64}}
		}
		v, isConst := pa.Results[0].BoolVal()
		if !isConst {
			// the comparison itself is the result (return len(p) == 64)
			r0 := pa.Results[0]
			if (r0.Op != "bin" && r0.Op != "cmp") || len(r0.Args) != 2 || r0.Args[0].String() != "len("+name+")" {
				return nil, false
			}
			k, okk := r0.Args[1].Int64()
			var op token.Token
			switch r0.Name {
			case "==":
				op = token.EQL
			case "!=":
				op = token.NEQ
			case "<":
				op = token.LSS
			case "<=":
				op = token.LEQ
			case ">":
				op = token.GTR
			case ">=":
				op = token.GEQ
			default:
				return nil, false
			}
			if !okk {
				return nil, false
			}
			if !truth {
				op = negOp(op)
			}
			out = append(out, reg.Intersect(satisfying(op, k))...)
			continue
		}
		if v != truth {
			continue
		}
		out = append(out, reg...)
	}
	if len(out) == 0 {
		return nil, false
	}
	out = normalise(out)
	successLenMemo[key] = out
	return out, true
}

func successLenRegion(f *ssa.Function, argIdx int) (IntervalSet, bool) {
	if lintProgram == nil || f.Blocks == nil || argIdx >= len(f.Params) {
		return nil, false
	}
	res := f.Signature.Results()
	if res.Len() != 1 || !isErrorType(res.At(0).Type()) {
		return nil, false
	}
	key := fmt.Sprintf("%s#%d", f.String(), argIdx)
	if r, ok := successLenMemo[key]; ok {
		return r, r != nil
	}
	successLenMemo[key] = nil
	w := NewWalker(lintProgram)
	w.Inline = inlineHelpers(nil, nil)
	args := symbolicArgs(f)
	name := args[argIdx].Name
	var out IntervalSet
	for _, pa := range w.Walk(f, args, nil) {
		if pa.Outcome != "return" || len(pa.Results) != 1 {
			return nil, false
		}
		switch errNilness(pa, pa.Results[0]) {
		case 1:
			reg, ok := pa.State.Ints["len("+name+")"]
			if !ok {
				return nil, false
			}
			out = append(out, reg...)
		case -1:
			return nil, false
		}
	}
	if len(out) == 0 {
		return nil, false
	}
	out = normalise(out)
	successLenMemo[key] = out
	return out, true
}

// callerMinLen: v is a slice parameter of an unexported function: the minimum length that every static call
// site has established for the corresponding argument (dominating guards, or the caller's own callers).
func callerMinLen(p *Program, fn *ssa.Function, v ssa.Value, depth int) int64 {
	prm, ok := v.(*ssa.Parameter)
	if !ok || depth > 3 || fn.Object() == nil || fn.Object().Exported() {
		return 0
	}
	if _, isSlice := prm.Type().Underlying().(*types.Slice); !isSlice {
		return 0
	}
	idx := -1
	for i, q := range fn.Params {
		if q == prm {
			idx = i
		}
	}
	if idx < 0 {
		return 0
	}
	min := int64(math.MaxInt64)
	n := 0
	for _, caller := range p.AllFuncs {
		for _, b := range caller.Blocks {
			for _, in := range b.Instrs {
				// the function used as a value (stored, passed on): callers unknown
				for _, op := range in.Operands(nil) {
					if *op == ssa.Value(fn) {
						if ci, isCall := in.(ssa.CallInstruction); !isCall || ci.Common().Value != ssa.Value(fn) {
							return 0
						}
					}
				}
				ci, ok := in.(ssa.CallInstruction)
				if !ok || ci.Common().StaticCallee() != fn || idx >= len(ci.Common().Args) {
					continue
				}
				n++
				arg := ci.Common().Args[idx]
				m := minOf(lenBounds(b, arg))
				if k := callerMinLen(p, caller, arg, depth+1); k > m {
					m = k
				}
				if os.Getenv("UHLINT_DEBUG") == "PLR" {
					fmt.Fprintf(os.Stderr, "PLR caller %s of %s: min %d\n", calleeName(caller), fn.Name(), m)
				}
				if m < min {
					min = m
				}
			}
		}
	}
	if n == 0 {
		return 0
	}
	return min
}

// returnsTypeOfParam: every non-nil first result of fn is its interface parameter k itself or the value
// codec.UnmarshalAs decoded with parameter k as prototype. Returns k, or -1.
func returnsTypeOfParam(fn *ssa.Function) int {
	if fn.Blocks == nil || fn.Signature.Results().Len() == 0 || !types.IsInterface(fn.Signature.Results().At(0).Type()) {
		return -1
	}
	k := -1
	paramIdx := func(v ssa.Value) int {
		for i, p := range fn.Params {
			if p == v {
				return i
			}
		}
		return -1
	}
	var classify func(v ssa.Value, depth int) bool
	classify = func(v ssa.Value, depth int) bool {
		if depth > 4 {
			return false
		}
		if isNilConst(v) {
			return true
		}
		if i := paramIdx(v); i >= 0 {
			if k >= 0 && k != i {
				return false
			}
			k = i
			return true
		}
		switch x := v.(type) {
		case *ssa.Phi:
			for _, e := range x.Edges {
				if !classify(e, depth+1) {
					return false
				}
			}
			return true
		case *ssa.Extract:
			if call, ok := x.Tuple.(*ssa.Call); ok && x.Index == 0 {
				if f := call.Call.StaticCallee(); f != nil && calleeName(f) == "codec.UnmarshalAs" && len(call.Call.Args) == 2 {
					if i := paramIdx(call.Call.Args[1]); i >= 0 {
						if k >= 0 && k != i {
							return false
						}
						k = i
						return true
					}
				}
			}
		}
		return false
	}
	for _, b := range fn.Blocks {
		for _, in := range b.Instrs {
			if ret, ok := in.(*ssa.Return); ok {
				// `return codec.UnmarshalAs(x, reply)` returns the call's tuple
				if len(ret.Results) >= 1 {
					if !classify(ret.Results[0], 0) {
						return -1
					}
				}
			}
		}
	}
	return k
}

// isLenOf: v is len(base).
func isLenOf(v ssa.Value, base ssa.Value) bool {
	call, ok := v.(*ssa.Call)
	if !ok {
		return false
	}
	b, ok := call.Call.Value.(*ssa.Builtin)
	return ok && b.Name() == "len" && len(call.Call.Args) == 1 && call.Call.Args[0] == base
}
