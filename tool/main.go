package main

import (
	"fmt"
	"os"
)

func main() {
	if len(os.Args) < 2 {
		fmt.Fprintln(os.Stderr, "usage: uhlint check <property> [--tier quick|thorough] | dump <what>")
		os.Exit(2)
	}
	switch os.Args[1] {
	case "check":
		tier := os.Getenv("VERIF_TIER")
		if tier == "" {
			tier = "quick"
		}
		for i := 3; i+1 < len(os.Args); i++ {
			if os.Args[i] == "--tier" {
				tier = os.Args[i+1]
			}
		}
		os.Exit(runCheck(os.Args[2], tier))
	case "explain":
		os.Exit(explain(os.Args[2]))
	case "load":
		p, err := Load("/repo", nil)
		if err != nil {
			fmt.Fprintln(os.Stderr, err)
			os.Exit(2)
		}
		fmt.Printf("packages=%d functions=%d\n", len(p.Pkgs), len(p.AllFuncs))
	case "dump-layouts":
		p, err := Load("/repo", nil)
		if err != nil {
			fmt.Fprintln(os.Stderr, err)
			os.Exit(2)
		}
		dumpLayouts(p)
	case "dump-wire":
		p, err := Load("/repo", nil)
		if err != nil {
			fmt.Fprintln(os.Stderr, err)
			os.Exit(2)
		}
		dumpWire(p)
	case "walk":
		p, err := Load("/repo", nil)
		if err != nil {
			fmt.Fprintln(os.Stderr, err)
			os.Exit(2)
		}
		dumpWalk(p, os.Args[2], os.Args[3], len(os.Args) > 4)
	case "dump-kinds":
		p, err := Load("/repo", nil)
		if err != nil {
			fmt.Fprintln(os.Stderr, err)
			os.Exit(2)
		}
		dumpKinds(p)
	case "dump-ops":
		p, err := Load("/repo", nil)
		if err != nil {
			fmt.Fprintln(os.Stderr, err)
			os.Exit(2)
		}
		only := ""
		if len(os.Args) > 2 {
			only = os.Args[2]
		}
		dumpOps(p, only)
	default:
		os.Exit(2)
	}
}
