package main

import (
	"fmt"
	"os"
)

func main() {
	if len(os.Args) < 2 {
		fmt.Fprintln(os.Stderr, "usage: uhlint check <property> [--tier quick|thorough] | dump <what>")
		os.Exit(2)
	}
	switch os.Args[1] {
	case "check":
		tier := os.Getenv("VERIF_TIER")
		if tier == "" {
			tier = "quick"
		}
		for i := 3; i+1 < len(os.Args); i++ {
			if os.Args[i] == "--tier" {
				tier = os.Args[i+1]
			}
		}
		if os.Args[2] == "ALL" {
			os.Exit(runAll(tier))
		}
		os.Exit(runCheck(os.Args[2], tier))
	case "explain":
		os.Exit(explain(os.Args[2]))
	case "load":
		p, err := Load(repoDir(), nil)
		if err != nil {
			fmt.Fprintln(os.Stderr, err)
			os.Exit(2)
		}
		fmt.Printf("packages=%d functions=%d\n", len(p.Pkgs), len(p.AllFuncs))
	case "dump-layouts":
		p, err := Load(repoDir(), nil)
		if err != nil {
			fmt.Fprintln(os.Stderr, err)
			os.Exit(2)
		}
		dumpLayouts(p)
	case "dump-wire":
		p, err := Load(repoDir(), nil)
		if err != nil {
			fmt.Fprintln(os.Stderr, err)
			os.Exit(2)
		}
		dumpWire(p)
	case "walk":
		p, err := Load(repoDir(), nil)
		if err != nil {
			fmt.Fprintln(os.Stderr, err)
			os.Exit(2)
		}
		dumpWalk(p, os.Args[2], os.Args[3], len(os.Args) > 4)
	case "dump-init":
		p, err := Load(repoDir(), nil)
		if err != nil {
			fmt.Fprintln(os.Stderr, err)
			os.Exit(2)
		}
		dumpInit(p, os.Args[2])
	case "dump-kinds":
		p, err := Load(repoDir(), nil)
		if err != nil {
			fmt.Fprintln(os.Stderr, err)
			os.Exit(2)
		}
		dumpKinds(p)
	case "dump-ops":
		p, err := Load(repoDir(), nil)
		if err != nil {
			fmt.Fprintln(os.Stderr, err)
			os.Exit(2)
		}
		only := ""
		if len(os.Args) > 2 {
			only = os.Args[2]
		}
		dumpOps(p, only)
	default:
		os.Exit(2)
	}
}

// repoDir is /repo. The self-test scripts, which run the checks on deliberately modified copies of the
// repository in parallel, point UHLINT_REPO at a scratch worktree; the registered checks never set it.
func repoDir() string {
	if d := os.Getenv("UHLINT_REPO"); d != "" {
		return d
	}
	return "/repo"
}
