package main

import (
	"fmt"
	"os"
)

func main() {
	if len(os.Args) < 2 {
		fmt.Fprintln(os.Stderr, "usage: uhlint check <property> [--tier quick|thorough] | dump <what>")
		os.Exit(2)
	}
	switch os.Args[1] {
	case "load":
		p, err := Load("/repo", nil)
		if err != nil {
			fmt.Fprintln(os.Stderr, err)
			os.Exit(2)
		}
		fmt.Printf("packages=%d functions=%d\n", len(p.Pkgs), len(p.AllFuncs))
	default:
		os.Exit(2)
	}
}
