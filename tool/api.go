package main

import (
	"fmt"
	"go/types"
	"sort"
	"strings"

	"golang.org/x/tools/go/ssa"
)

// ---------------------------------------------------------------------------------------
// API operation extraction: every path of an operation as (condition, request wiring, result).
// ---------------------------------------------------------------------------------------

type API struct {
	P           *Program
	L           *LayoutEngine
	Iface       *types.Interface
	Impl        *types.Named // the concrete client type behind NewUHPPOTE
	Ops         map[string]*ssa.Function
	OpNames     []string
	Senders     map[*ssa.Function]string // functions that marshal a request: "directed" | "broadcast"
	Marshal     *ssa.Function
	UnmarshalAs *ssa.Function
}

func NewAPI(p *Program, l *LayoutEngine) (*API, error) {
	a := &API{P: p, L: l, Ops: map[string]*ssa.Function{}, Senders: map[*ssa.Function]string{}}
	up := p.Pkg("uhppote")
	if up == nil {
		return nil, fmt.Errorf("package uhppote not found")
	}
	obj := up.Types.Scope().Lookup("IUHPPOTE")
	if obj == nil {
		return nil, fmt.Errorf("interface IUHPPOTE not found")
	}
	a.Iface = obj.Type().Underlying().(*types.Interface)
	ctor := p.Func("uhppote", "NewUHPPOTE")
	if ctor == nil {
		return nil, fmt.Errorf("NewUHPPOTE not found")
	}
	for _, b := range ctor.Blocks {
		for _, in := range b.Instrs {
			if mi, ok := in.(*ssa.MakeInterface); ok && types.Identical(mi.Type(), obj.Type()) {
				t := mi.X.Type()
				if pt, ok := t.(*types.Pointer); ok {
					t = pt.Elem()
				}
				a.Impl, _ = t.(*types.Named)
			}
		}
	}
	if a.Impl == nil {
		return nil, fmt.Errorf("cannot find the concrete type NewUHPPOTE returns")
	}
	ms := p.SSA.MethodSets.MethodSet(types.NewPointer(a.Impl))
	for i := 0; i < a.Iface.NumMethods(); i++ {
		m := a.Iface.Method(i)
		sel := ms.Lookup(m.Pkg(), m.Name())
		if sel == nil {
			return nil, fmt.Errorf("%s does not implement %s", a.Impl, m.Name())
		}
		a.Ops[m.Name()] = p.SSA.MethodValue(sel)
		a.OpNames = append(a.OpNames, m.Name())
	}
	sort.Strings(a.OpNames)
	a.Marshal = p.Func(codecRel, "Marshal")
	a.UnmarshalAs = p.Func(codecRel, "UnmarshalAs")
	if a.Marshal == nil || a.UnmarshalAs == nil {
		return nil, fmt.Errorf("codec.Marshal/UnmarshalAs not found")
	}
	// senders: functions of package uhppote that call codec.Marshal directly
	for _, fn := range p.AllFuncs {
		base := fn
		if fn.Origin() != nil {
			continue // consider generic origins once
		}
		if base.Pkg == nil || base.Pkg != p.SSAPkg("uhppote") {
			continue
		}
		for _, b := range base.Blocks {
			for _, in := range b.Instrs {
				if c, ok := in.(ssa.CallInstruction); ok {
					if c.Common().StaticCallee() == a.Marshal {
						kind := "broadcast"
						sig := base.Signature
						for i := 0; i < sig.Params().Len(); i++ {
							if types.Identical(sig.Params().At(i).Type(), types.Typ[types.Uint32]) {
								kind = "directed"
							}
						}
						a.Senders[base] = kind
					}
				}
			}
		}
	}
	// a type-erased helper (result of interface type) behind a thin typed wrapper: the wrapper is what the
	// operations call and what fixes the reply type, so the wrapper is the send helper
	isOp := map[*ssa.Function]bool{}
	for _, f := range a.Ops {
		isOp[f] = true
	}
	for round := 0; round < 3; round++ {
		for s, kind := range a.Senders {
			res := s.Signature.Results()
			if res.Len() == 0 || !types.IsInterface(res.At(0).Type()) {
				continue
			}
			callers := map[*ssa.Function]bool{}
			for _, fn := range p.AllFuncs {
				for _, b := range fn.Blocks {
					for _, in := range b.Instrs {
						if c, ok := in.(ssa.CallInstruction); ok {
							callee := c.Common().StaticCallee()
							if callee == nil {
								continue
							}
							if callee == s || callee.Origin() == s {
								base := fn
								for base.Parent() != nil {
									base = base.Parent()
								}
								if base.Origin() != nil {
									base = base.Origin()
								}
								callers[base] = true
							}
						}
					}
				}
			}
			if len(callers) != 1 {
				continue
			}
			for c := range callers {
				if !isOp[c] && pkgOf(c) == p.SSAPkg("uhppote") {
					delete(a.Senders, s)
					a.Senders[c] = kind
				}
			}
		}
	}
	if len(a.Senders) < 2 {
		return nil, fmt.Errorf("expected a directed and a broadcast send helper calling codec.Marshal, found %d", len(a.Senders))
	}
	return a, nil
}

type OpPath struct {
	Cond    string
	State   *PathState
	Outcome string
	Detail  string
	Sends   []SendRec
	Results map[string]*Term
	ErrNil  int // 1 nil, 0 non-nil, -1 unknown
	ErrTerm string
	Events  []Event
	SendErr int // 1 nil, 0 non-nil, -1 n/a
	Stores  []Event
}

type SendRec struct {
	Kind      string // directed | broadcast
	Serial    string
	ReqType   string
	ReplyType string
	Fields    map[int]string // offset -> value term
	Extra     []string       // non-zero fields without an offset tag
	Pos       string
}

func flatten(prefix string, t *Term, out map[string]*Term, top bool) {
	if t == nil {
		return
	}
	switch t.Op {
	case "const":
		if t.Nil {
			if top {
				out[prefix] = marker("nil")
			}
			return
		}
		if !top {
			if n, ok := t.Int64(); ok && n == 0 {
				return
			}
			if b, ok := t.BoolVal(); ok && !b {
				return
			}
			if s, ok := t.StrVal(); ok && s == "" {
				return
			}
		}
		out[prefix] = t
	case "zero":
		if top {
			out[prefix] = marker("zero")
		}
	case "ptr":
		if t.Cell.Sym {
			out[prefix] = t
			return
		}
		v := t.Cell.Val
		for _, s := range t.Path {
			v = project(v, s)
		}
		flatten(prefix, v, out, top)
	case "struct":
		any := false
		for i, n := range t.FNames {
			before := len(out)
			flatten(prefix+"."+n, t.Args[i], out, false)
			if len(out) > before {
				any = true
			}
		}
		if !any && top {
			out[prefix] = marker("zero")
		}
	case "mapv":
		for i := 0; i+1 < len(t.Args); i += 2 {
			flatten(prefix+"["+t.Args[i].String()+"]", t.Args[i+1], out, true)
		}
		if len(t.Args) == 0 {
			out[prefix] = marker("map{}")
		}
	case "sref":
		els := srefElems(t)
		for i, e := range els {
			flatten(fmt.Sprintf("%s[%d]", prefix, i), e, out, true)
		}
		if len(els) == 0 {
			out[prefix] = marker("[]")
		}
	case "slicev":
		for i, e := range t.Args {
			flatten(fmt.Sprintf("%s[%d]", prefix, i), e, out, true)
		}
	case "iface":
		flatten(prefix, t.Args[0], out, top)
	default:
		out[prefix] = t
	}
}

func marker(s string) *Term { return &Term{Op: "fresh", Name: s} }

// termLeaves collects the origins a value depends on: parameter/global/reply chains and constants.
func termLeaves(t *Term, out map[string]bool) {
	if t == nil {
		return
	}
	if isChain(t) {
		out[t.String()] = true
		return
	}
	switch t.Op {
	case "const":
		if t.Nil {
			return
		}
		if _, ok := t.BoolVal(); ok {
			return
		}
		out[t.String()] = true
	case "ptr":
		if t.Cell.Sym {
			out[t.String()] = true
			return
		}
		v := t.Cell.Val
		for _, s := range t.Path {
			v = project(v, s)
		}
		termLeaves(v, out)
	case "sref":
		for _, e := range srefElems(t) {
			termLeaves(e, out)
		}
	case "fresh", "zero", "closure":
		if t.Op == "fresh" {
			out[t.String()] = true
		}
	default:
		for _, a := range t.Args {
			termLeaves(a, out)
		}
	}
}

func isChain(t *Term) bool {
	switch t.Op {
	case "param", "global", "fresh":
		return true
	case "field", "deref":
		return isChain(t.Args[0])
	case "index", "lookup":
		return isChain(t.Args[0])
	}
	return false
}

func leafSet(t *Term) string {
	if d, c, loc, ok := civilRecombination(t); ok {
		// time.Date(civil fields of D, clock fields of T, 0, loc) is, for every four-digit year, the instant
		// ParseInLocation("2006-01-02 15:04:05", D.Format("2006-01-02")+" "+T.Format("15:04:05"), loc) denotes
		// (package time builds the parsed instant with the same Date call): it is given that term's origins
		ks := []string{`" "`, `"15:04:05"`, `"2006-01-02 15:04:05"`, `"2006-01-02"`, c, d, loc}
		sort.Strings(ks)
		return strings.Join(ks, ",")
	}
	m := map[string]bool{}
	termLeaves(t, m)
	ks := []string{}
	for k := range m {
		ks = append(ks, k)
	}
	sort.Strings(ks)
	return strings.Join(ks, ",")
}

// civilRecombination: t is time.Date(y, mo, d, h, mi, s, 0, loc) where y/mo/d are the three results of
// D.Date() (or D.Year(), D.Month(), D.Day()) of one leaf D, and h/mi/s the three results of T.Clock() (or
// T.Hour(), T.Minute(), T.Second()) of one leaf T, in exactly that order. Returns the leaves D, T and loc.
func civilRecombination(t *Term) (string, string, string, bool) {
	for t != nil && t.Op == "conv" && len(t.Args) == 1 {
		t = t.Args[0]
	}
	if t == nil || t.Op != "call" || t.Name != "time.Date" || len(t.Args) != 8 {
		return "", "", "", false
	}
	if n, ok := t.Args[6].Int64(); !ok || n != 0 {
		return "", "", "", false
	}
	comp := func(x *Term, multi string, idx int, single string) (string, bool) {
		for x != nil && x.Op == "conv" && len(x.Args) == 1 {
			x = x.Args[0]
		}
		if x == nil {
			return "", false
		}
		if x.Op == "extract" && x.Name == fmt.Sprint(idx) && len(x.Args) == 1 && x.Args[0].Op == "call" && x.Args[0].Name == multi && len(x.Args[0].Args) == 1 {
			return stripConvsAny(x.Args[0].Args[0]).String(), true
		}
		if x.Op == "call" && x.Name == single && len(x.Args) == 1 {
			return stripConvsAny(x.Args[0]).String(), true
		}
		return "", false
	}
	var d, c string
	for i, single := range []string{"(time.Time).Year", "(time.Time).Month", "(time.Time).Day"} {
		v, ok := comp(t.Args[i], "(time.Time).Date", i, single)
		if !ok || (i > 0 && v != d) {
			return "", "", "", false
		}
		d = v
	}
	for i, single := range []string{"(time.Time).Hour", "(time.Time).Minute", "(time.Time).Second"} {
		v, ok := comp(t.Args[3+i], "(time.Time).Clock", i, single)
		if !ok || (i > 0 && v != c) {
			return "", "", "", false
		}
		c = v
	}
	if d == "" || c == "" || d == c {
		return "", "", "", false
	}
	return d, c, t.Args[7].String(), true
}

func stripConvsAny(t *Term) *Term {
	for t != nil && t.Op == "conv" && len(t.Args) == 1 {
		t = t.Args[0]
	}
	return t
}

// replyTerm builds the symbolic reply of layout type t: every tagged field is the leaf reply@<offset>.
func (a *API) replyTerm(t types.Type, root string) *Term {
	n, ok := types.Unalias(t).(*types.Named)
	if !ok {
		return &Term{Op: "param", Name: root, Typ: t}
	}
	st, ok := n.Underlying().(*types.Struct)
	if !ok {
		return &Term{Op: "param", Name: root, Typ: t}
	}
	name := relPkg(n.Obj().Pkg().Path()) + "." + n.Obj().Name()
	l := a.L.Layouts[name]
	out := &Term{Op: "struct", Typ: t}
	for i := 0; i < st.NumFields(); i++ {
		f := st.Field(i)
		out.FNames = append(out.FNames, f.Name())
		leaf := root + "." + f.Name()
		if l != nil {
			for _, lf := range l.Fields {
				if lf.Path == f.Name() {
					if lf.HasOff {
						leaf = fmt.Sprintf("%s@%d", root, lf.Offset)
					} else if lf.Kind == "msgtype" {
						leaf = root + "@code"
					}
				}
			}
		}
		out.Args = append(out.Args, &Term{Op: "param", Name: leaf, Typ: f.Type()})
	}
	return out
}

func (a *API) requestFields(req *Term) (typ string, fields map[int]string, extra []string) {
	fields = map[int]string{}
	inner := req
	var dyn types.Type
	if req.Op == "iface" {
		inner = req.Args[0]
		dyn = req.Dyn
	} else {
		dyn = req.Typ
	}
	if inner.Op == "ptr" && !inner.Cell.Sym {
		v := inner.Cell.Val
		for _, s := range inner.Path {
			v = project(v, s)
		}
		inner = v
		if pt, ok := dyn.(*types.Pointer); ok {
			dyn = pt.Elem()
		}
	}
	n, ok := types.Unalias(dyn).(*types.Named)
	if !ok {
		return "?" + typeName(dyn), fields, []string{"request is not a named struct: " + req.String()}
	}
	typ = relPkg(n.Obj().Pkg().Path()) + "." + n.Obj().Name()
	l := a.L.Layouts[typ]
	if l == nil {
		return typ, fields, []string{"request type has no uhppote layout"}
	}
	for _, lf := range l.Fields {
		v := inner
		for _, seg := range strings.Split(lf.Path, ".") {
			v = project(v, seg)
		}
		m := map[string]*Term{}
		flatten("v", v, m, false)
		if len(m) == 0 {
			continue
		}
		s := v.String()
		if lf.HasOff {
			fields[lf.Offset] = s
		} else {
			extra = append(extra, lf.Path+"="+s)
		}
	}
	return typ, fields, extra
}

// WalkOp walks one API operation with the send helpers intercepted.
// nReplies is the number of datagrams a broadcast helper is assumed to return.
func (a *API) WalkOp(name string, nReplies int) ([]OpPath, *Walker, error) {
	fn := a.Ops[name]
	if fn == nil {
		return nil, nil, fmt.Errorf("operation %s not found", name)
	}
	w := NewWalker(a.P)
	w.LoopFuel = 6
	// an operation that takes a list (passcodes, formats) is explored for lists of up to five elements: one more
	// than the four slots a request has room for
	for _, prm := range fn.Params {
		if _, isSlice := prm.Type().Underlying().(*types.Slice); isSlice {
			w.RangeCap = 5
		}
	}
	up := a.P.SSAPkg("uhppote")
	w.Inline = func(f *ssa.Function, d int) bool {
		if f.Parent() != nil {
			return true
		}
		if stdTransparent(f) {
			return true // slices.Contains / Index / BinarySearch ... over a table: walked from their own source
		}
		// unexported in-package helpers are part of the operation; boolean predicates stay opaque ("pred")
		obj := f.Object()
		if obj == nil && f.Origin() != nil {
			obj = f.Origin().Object() // an instantiation of a generic helper
		}
		// a validator of package types (func (t TimeProfile) Validate() error): its verdict is the conditions it
		// checks, which the contract states for the operation that asks it
		if pkgOf(f) == a.P.SSAPkg("types") && f.Blocks != nil && len(f.Blocks) <= 60 {
			if res := f.Signature.Results(); res.Len() == 1 && isErrorType(res.At(0).Type()) {
				return true
			}
		}
		// (an exported accessor of the client — BroadcastAddr(), a few lines without loops or sends — is a helper that
		// happens to be public)
		if pkgOf(f) == up && obj != nil && (!obj.Exported() || publicHelper(f, nil)) && a.Senders[f] == "" && (f.Origin() == nil || a.Senders[f.Origin()] == "") {
			res := f.Signature.Results()
			if res.Len() == 1 && isBoolType(res.At(0).Type()) {
				return simplePredicate(f) || purePredicate(f) // a condition written as a function; anything richer is an opaque predicate
			}
			return !inertFn(f)
		}
		return false
	}
	// in-module unexported predicates are named structurally, never by identifier
	w.CallName = func(callee *ssa.Function, name string) (string, bool, bool) {
		if callee != nil && fnPkg(callee) != nil && fnPkg(callee) == a.P.SSAPkg("uhppote") && callee.Object() != nil && !callee.Object().Exported() {
			if callee.Signature.Results().Len() == 1 && isBoolType(callee.Signature.Results().At(0).Type()) && !simplePredicate(callee) && !purePredicate(callee) {
				return "pred", true, true
			}
		}
		return "", false, false
	}
	// pointer-typed reply fields are nil when their bytes did not decode
	w.Nullable = func(t *Term) bool {
		if t.Op != "param" || !strings.HasPrefix(t.Name, "reply") || t.Typ == nil {
			return false
		}
		_, ok := t.Typ.Underlying().(*types.Pointer)
		return ok
	}
	var sends []SendRec
	var sendErrs []*Term
	w.OnCall = func(w *Walker, cname string, args []*Term, c *ssa.CallCommon, in ssa.Instruction) (*Term, bool) {
		callee := c.StaticCallee()
		if callee == nil {
			return nil, false
		}
		base := callee
		if o := callee.Origin(); o != nil {
			base = o
		}
		kind, ok := a.Senders[base]
		if !ok {
			return nil, false
		}
		rec := SendRec{Kind: kind, Pos: a.P.Pos(in.Pos())}
		var req *Term
		sig := callee.Signature
		var ifaceArgs []*Term
		shift := 0
		if sig.Recv() != nil {
			shift = 1
		}
		for i := 0; i < sig.Params().Len() && i+shift < len(args); i++ {
			pt := sig.Params().At(i).Type()
			if types.Identical(pt, types.Typ[types.Uint32]) {
				rec.Serial = args[i+shift].String()
			} else if types.IsInterface(pt) {
				ifaceArgs = append(ifaceArgs, args[i+shift])
			}
		}
		if len(ifaceArgs) > 0 {
			req = ifaceArgs[0]
		}
		if req == nil {
			return nil, false
		}
		rec.ReqType, rec.Fields, rec.Extra = a.requestFields(req)
		n := len(sends) + 1
		errT := &Term{Op: "fresh", Name: fmt.Sprintf("senderr%d", n), Typ: types.Universe.Lookup("error").Type()}
		sendErrs = append(sendErrs, errT)
		var replyT types.Type
		var res *Term
		if kind == "directed" {
			replyT = sig.Results().At(0).Type()
			rec.ReplyType = typeName(replyT)
			root := "reply"
			if n > 1 {
				root = fmt.Sprintf("reply%d", n)
			}
			res = &Term{Op: "tuple", Args: []*Term{a.replyTerm(replyT, root), errT}}
		} else {
			if len(ifaceArgs) > 1 && ifaceArgs[1].Op == "iface" {
				replyT = ifaceArgs[1].Dyn
				rec.ReplyType = typeName(replyT)
			}
			resT := sig.Results().At(0).Type()
			var elemT types.Type
			var sink *Term
			if sl, ok := resT.Underlying().(*types.Slice); ok {
				elemT = sl.Elem()
			} else {
				// push style: the helper returns only an error and hands each reply to a callback argument
				for i := 0; i < sig.Params().Len() && i+shift < len(args); i++ {
					if fs, ok := sig.Params().At(i).Type().Underlying().(*types.Signature); ok && fs.Params().Len() == 1 && args[i+shift].Op == "closure" {
						elemT = fs.Params().At(0).Type()
						sink = args[i+shift]
					}
				}
				if sink == nil {
					return nil, false
				}
			}
			concrete := !types.IsInterface(elemT)
			if concrete {
				// a generic helper instantiated with the reply type: the elements are replies, not interfaces holding them
				replyT = elemT
				rec.ReplyType = typeName(replyT)
			}
			at := types.NewArray(elemT, int64(nReplies))
			cell := w.newCell("replies", at, true)
			els := make([]*Term, nReplies)
			for i := range els {
				if concrete {
					els[i] = a.replyTerm(replyT, fmt.Sprintf("reply[%d]", i))
				} else {
					els[i] = &Term{Op: "iface", Args: []*Term{a.replyTerm(replyT, fmt.Sprintf("reply[%d]", i))}, Dyn: replyT}
				}
			}
			cell.Val = &Term{Op: "slicev", Args: els, Typ: at}
			if sink != nil {
				sends = append(sends, rec)
				w.event(Event{Kind: "send", Name: cname, Args: args, Pos: in.Pos(), Instr: in})
				// the callback runs once per reply, in arrival order, when the transport succeeded
				if w.boolAtom("isnil("+errT.String()+")", errT) {
					for _, el := range els {
						w.exec(sink.Fn, []*Term{el}, sink.Args, 1)
					}
				}
				return errT, true
			}
			sl := &Term{Op: "sref", Cell: cell, Typ: sig.Results().At(0).Type(), Args: []*Term{mkInt(0, types.Typ[types.Int]), mkInt(int64(nReplies), types.Typ[types.Int])}}
			res = &Term{Op: "tuple", Args: []*Term{sl, errT}}
		}
		sends = append(sends, rec)
		w.event(Event{Kind: "send", Name: cname, Args: args, Pos: in.Pos(), Instr: in})
		return res, true
	}
	args := make([]*Term, len(fn.Params))
	for i, p := range fn.Params {
		if i == 0 {
			args[i] = &Term{Op: "param", Name: "u", Typ: p.Type()}
			// an operation is invoked on the client its caller obtained from the constructor: a nil-receiver branch
			// of an accessor it calls (`if u != nil && ..`) is not a path of the operation
			if _, isPtr := p.Type().Underlying().(*types.Pointer); isPtr {
				if w.AssumeBool == nil {
					w.AssumeBool = map[string]bool{}
				}
				w.AssumeBool["isnil(u)"] = false
			}
		} else {
			args[i] = &Term{Op: "param", Name: fmt.Sprintf("arg%d", i-1), Typ: p.Type()}
		}
	}
	var out []OpPath
	// the walker re-runs from scratch per path: reset the send log at the start of each path
	// by wrapping Walk manually
	w.script = nil
	for {
		sends = nil
		sendErrs = nil
		paths := w.walkOne(fn, args)
		p := paths
		op := OpPath{Cond: p.State.Describe(), State: p.State, Outcome: p.Outcome, Detail: p.Detail, Sends: sends, Results: map[string]*Term{}, Events: p.Events, ErrNil: -1, SendErr: -1}
		for i, r := range p.Results {
			if i == len(p.Results)-1 && r.Typ != nil && types.Identical(r.Typ, types.Universe.Lookup("error").Type()) {
				op.ErrTerm = r.String()
				switch nilness(r) {
				case 1:
					op.ErrNil = 1
				case 0:
					op.ErrNil = 0
				default:
					if v, ok := p.State.Bools["isnil("+r.String()+")"]; ok {
						if v {
							op.ErrNil = 1
						} else {
							op.ErrNil = 0
						}
					}
				}
				continue
			}
			flatten(fmt.Sprintf("r%d", i), r, op.Results, true)
		}
		for _, e := range sendErrs {
			if v, ok := p.State.Bools["isnil("+e.String()+")"]; ok {
				if v {
					op.SendErr = 1
				} else {
					op.SendErr = 0
				}
			}
		}
		for _, e := range p.Events {
			if e.Kind == "store" || e.Kind == "mapupdate" {
				op.Stores = append(op.Stores, e)
			}
		}
		out = append(out, op)
		if !w.backtrack() || len(out) > w.MaxPaths {
			break
		}
	}
	return out, w, nil
}

// walkOne runs a single path with the current script.
func (w *Walker) walkOne(fn *ssa.Function, args []*Term) Path {
	w.pos = 0
	w.alts = w.alts[:0]
	w.state = w.initialState()
	w.events = nil
	w.decisions = nil
	w.cellN = 0
	w.cells = nil
	w.freshN = map[string]int{}
	w.symCells = map[string]*Cell{}
	w.defers = nil
	p := Path{}
	func() {
		defer func() {
			if r := recover(); r != nil {
				if a, ok := r.(abortPath); ok {
					p.Outcome = a.kind
					p.Detail = a.detail
					return
				}
				panic(r)
			}
		}()
		res, out := w.exec(fn, args, nil, 0)
		p.Results = res
		p.Outcome = out
	}()
	p.State = w.state
	p.Events = w.events
	p.Decisions = w.decisions
	p.Cells = w.cells
	for _, c := range w.symCells {
		p.SymCells = append(p.SymCells, c)
	}
	return p
}

func (w *Walker) backtrack() bool {
	i := len(w.script) - 1
	for i >= 0 && w.script[i]+1 >= w.alts[i] {
		i--
	}
	if i < 0 {
		return false
	}
	w.script = append(w.script[:i:i], w.script[i]+1)
	return true
}
