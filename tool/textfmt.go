package main

import (
	"strings"
)

// ---------------------------------------------------------------------------------------
// Decimal text in canonical form. An encoder may build the digits it hands to the BCD coder with
// fmt.Sprintf("%02d%02d", h, m), or by hand: strconv.Itoa / AppendInt, a conditional leading '0', append and
// string conversion. Both are reduced to one format string over the same verbs plus its argument terms:
//   literal text                       itself ('%' doubled)
//   strconv.Itoa(n), FormatInt(n,10)   %d
//   strconv.AppendInt(b, n, 10)        text(b) %d
//   append(b, x...), a + b             concatenation
//   fmt.Sprintf(f, args...)            f, args
// and then, using the region the path gives each argument,
//   "0%d" with n within 0..9           %02d   (a padded single digit)
//   "%d"  with n outside 0..9          %02d   (two or more characters need no padding)
// which is exactly the definition of %02d split over its two cases; a path that pads the wrong region keeps a
// %d and its signature differs from the protocol's. No string is ever built or executed.
// ---------------------------------------------------------------------------------------

func textOf(t *Term, depth int) (string, []*Term, bool) {
	if t == nil || depth > 12 {
		return "", nil, false
	}
	if s, ok := t.StrVal(); ok {
		return strings.ReplaceAll(s, "%", "%%"), nil, true
	}
	switch t.Op {
	case "conv", "iface", "deref":
		if len(t.Args) == 1 && (isStringType(t.Typ) || isByteSlice(t.Typ)) {
			return textOf(t.Args[0], depth+1)
		}
	case "un":
		if t.Name == "..." {
			return textOf(t.Args[0], depth+1)
		}
	case "sref", "slicev":
		els := t.Args
		if t.Op == "sref" {
			els = srefElems(t)
		}
		var sb strings.Builder
		for _, e := range els {
			c, ok := e.Int64()
			if !ok || c < 0 || c > 255 {
				return "", nil, false
			}
			sb.WriteByte(byte(c))
		}
		return strings.ReplaceAll(sb.String(), "%", "%%"), nil, true
	case "append":
		f := ""
		var args []*Term
		for _, a := range t.Args {
			var pf string
			var pa []*Term
			ok := false
			if c, isInt := a.Int64(); isInt && c >= 0 && c <= 255 {
				pf, ok = strings.ReplaceAll(string([]byte{byte(c)}), "%", "%%"), true
			} else {
				pf, pa, ok = textOf(a, depth+1)
			}
			if !ok {
				return "", nil, false
			}
			f += pf
			args = append(args, pa...)
		}
		return f, args, true
	case "bin":
		if t.Name == "+" && isStringType(t.Typ) {
			f1, a1, ok1 := textOf(t.Args[0], depth+1)
			f2, a2, ok2 := textOf(t.Args[1], depth+1)
			if ok1 && ok2 {
				return f1 + f2, append(append([]*Term{}, a1...), a2...), true
			}
		}
	case "call":
		switch t.Name {
		case "strconv.Itoa":
			return "%d", []*Term{t.Args[0]}, true
		case "strconv.FormatInt", "strconv.FormatUint":
			if b, ok := t.Args[1].Int64(); ok && b == 10 {
				return "%d", []*Term{t.Args[0]}, true
			}
		case "strconv.AppendInt", "strconv.AppendUint":
			if b, ok := t.Args[2].Int64(); ok && b == 10 {
				f, a, ok := textOf(t.Args[0], depth+1)
				if ok {
					return f + "%d", append(append([]*Term{}, a...), t.Args[1]), true
				}
			}
		case "fmt.Sprintf":
			if f, ok := t.Args[0].StrVal(); ok && len(t.Args) == 2 {
				var args []*Term
				switch t.Args[1].Op {
				case "sref":
					args = srefElems(t.Args[1])
				default:
					if !t.Args[1].IsNilConst() {
						return "", nil, false
					}
				}
				return f, args, true
			}
		}
	}
	return "", nil, false
}

func isByteSlice(t interface{ String() string }) bool {
	return t != nil && (t.String() == "[]byte" || t.String() == "[]uint8")
}

// canonicalDecimal rewrites the hand-padded forms of a two-digit field into %02d using the argument regions of
// the path (see above). Only plain %d verbs are touched.
func canonicalDecimal(f string, args []*Term, pa Path) string {
	var out strings.Builder
	ai := 0
	for i := 0; i < len(f); {
		if f[i] != '%' {
			out.WriteByte(f[i])
			i++
			continue
		}
		// a verb: up to and including its letter
		j := i + 1
		for j < len(f) && !((f[j] >= 'a' && f[j] <= 'z') || (f[j] >= 'A' && f[j] <= 'Z') || f[j] == '%') {
			j++
		}
		if j >= len(f) {
			out.WriteString(f[i:])
			break
		}
		verb := f[i : j+1]
		if verb == "%%" {
			out.WriteString(verb)
			i = j + 1
			continue
		}
		if verb == "%d" && ai < len(args) {
			reg, known := regionOfArg(args[ai], pa)
			cur := out.String()
			single := IntervalSet{{0, 9}}
			switch {
			case known && strings.HasSuffix(cur, "0") && !strings.HasSuffix(cur, "%0") && reg.Intersect(complement(single)).Empty() && !reg.Empty():
				out.Reset()
				out.WriteString(cur[:len(cur)-1])
				verb = "%02d"
			case known && reg.Intersect(single).Empty() && !reg.Empty():
				verb = "%02d"
			}
		}
		out.WriteString(verb)
		ai++
		i = j + 1
	}
	return out.String()
}

func regionOfArg(a *Term, pa Path) (IntervalSet, bool) {
	x := a
	for x != nil && (x.Op == "conv" || x.Op == "iface") && len(x.Args) == 1 {
		if r, ok := pa.State.Ints[x.String()]; ok {
			return r, true
		}
		x = x.Args[0]
	}
	if x == nil {
		return nil, false
	}
	if r, ok := pa.State.Ints[x.String()]; ok {
		return r, true
	}
	return nil, false
}
