package main

import (
	"fmt"
	"go/constant"
	"go/token"
	"go/types"
	"math/big"
	"sort"

	"golang.org/x/tools/go/ssa"
)

// ---------------------------------------------------------------------------------------
// A relational bound domain for index and slice expressions (rule P1, last resort after the idiom table).
//
// Every integer SSA value is rewritten as a linear expression over atoms (parameters, lengths, call results,
// quotients, loop variables): additions, subtractions, multiplications by constants, widening conversions
// and  len(x[a:b]) = b-a  are expanded, so two textually separate computations of `ix+n` denote the same
// expression. The facts that hold at a program point are linear inequalities:
//   * the branch conditions that dominate it (both operands linear),
//   * what the atoms are: len/cap >= 0, cap >= len, unsigned values >= 0, q = e/c  ==>  c*q <= e <= c*q+c-1
//     (e >= 0), r = e%c ==> 0 <= r <= c-1, min(a,b) <= a, <= b (the other direction by case split),
//   * loop variables: v = phi(init, v+d) with d >= 0 provable where it is added  ==>  v >= init,
//   * parameters of unexported functions: p >= 0 when every static call site passes an argument that is
//     provably >= 0 there (two levels; calls from the function itself are assumed, which is the induction
//     step of the same argument).
// A bound  e <= 0  holds if facts ∧ (e >= 1) has no rational solution, decided by Fourier-Motzkin elimination
// (sound for the integers; exact rational arithmetic; the system is abandoned beyond 400 inequalities).
// Machine-integer wrap-around of int arithmetic is not modelled (lengths and indexes are far below 2^63);
// arithmetic in types narrower than 64 bits is never expanded (an atom), since it does wrap.
// ---------------------------------------------------------------------------------------

type linExpr struct {
	c     *big.Rat
	terms map[string]*big.Rat // atom key -> coefficient
}

func newLin(c int64) *linExpr { return &linExpr{c: big.NewRat(c, 1), terms: map[string]*big.Rat{}} }

func (l *linExpr) clone() *linExpr {
	o := &linExpr{c: new(big.Rat).Set(l.c), terms: map[string]*big.Rat{}}
	for k, v := range l.terms {
		o.terms[k] = new(big.Rat).Set(v)
	}
	return o
}

func (l *linExpr) addScaled(m *linExpr, k *big.Rat) *linExpr {
	o := l.clone()
	o.c.Add(o.c, new(big.Rat).Mul(m.c, k))
	for a, v := range m.terms {
		cur, ok := o.terms[a]
		if !ok {
			cur = new(big.Rat)
		}
		cur = new(big.Rat).Add(cur, new(big.Rat).Mul(v, k))
		if cur.Sign() == 0 {
			delete(o.terms, a)
		} else {
			o.terms[a] = cur
		}
	}
	return o
}

func (l *linExpr) add(m *linExpr) *linExpr { return l.addScaled(m, big.NewRat(1, 1)) }
func (l *linExpr) sub(m *linExpr) *linExpr { return l.addScaled(m, big.NewRat(-1, 1)) }
func (l *linExpr) addConst(c int64) *linExpr {
	o := l.clone()
	o.c.Add(o.c, big.NewRat(c, 1))
	return o
}

func (l *linExpr) String() string {
	keys := []string{}
	for k := range l.terms {
		keys = append(keys, k)
	}
	sort.Strings(keys)
	s := l.c.RatString()
	for _, k := range keys {
		s += " + " + l.terms[k].RatString() + "*" + k
	}
	return s
}

type linCtx struct {
	p      *Program
	fn     *ssa.Function
	atoms  map[string]ssa.Value
	facts  []*linExpr // each: expr <= 0
	seenAt map[string]bool
	depth  int
	mins   []*ssa.Call // min/max builtin atoms met (for case splits)
	noPhi  *ssa.Phi    // the loop variable whose step is being examined (no induction fact about itself)
	// atoms that stand for a value inside a callee (the quotient of a size helper): their facts were stated when
	// the call was met, over the arguments of that call
	foreign map[string]bool
}

func wideInt(t types.Type) bool {
	b, ok := t.Underlying().(*types.Basic)
	if !ok {
		return false
	}
	switch b.Kind() {
	case types.Int, types.Int64, types.Uint, types.Uint64, types.Uintptr, types.UntypedInt:
		return true
	}
	return false
}

func unsignedInt(t types.Type) bool {
	b, ok := t.Underlying().(*types.Basic)
	return ok && b.Info()&types.IsUnsigned != 0
}

// valueKey: a canonical name for an atom. Pure builtin results over the same operand share a key.
func (c *linCtx) valueKey(v ssa.Value) string {
	switch x := v.(type) {
	case *ssa.Parameter:
		return "p:" + x.Name()
	case *ssa.FreeVar:
		return "fv:" + x.Name()
	case *ssa.Call:
		if b, ok := x.Call.Value.(*ssa.Builtin); ok && (b.Name() == "len" || b.Name() == "cap") && len(x.Call.Args) == 1 {
			return b.Name() + "(" + c.valueKey(x.Call.Args[0]) + ")"
		}
	case *ssa.Const:
		if x.Value != nil {
			return "k:" + x.Value.ExactString()
		}
	case *ssa.ChangeType:
		return c.valueKey(x.X)
	case *ssa.UnOp:
		// the value of a package-level variable that nothing writes after initialisation is one value everywhere
		if g, ok := x.X.(*ssa.Global); ok && x.Op == token.MUL && g.Pkg != nil && inModule(g.Pkg.Func("init")) && c.p.initFrozen(g) {
			return "g:" + g.Pkg.Pkg.Path() + "." + g.Name()
		}
	}
	return fmt.Sprintf("%s@%p", v.Name(), v)
}

func (c *linCtx) atom(v ssa.Value) *linExpr {
	k := c.valueKey(v)
	c.atoms[k] = v
	l := newLin(0)
	l.terms[k] = big.NewRat(1, 1)
	return l
}

// lin: the linear form of an integer value.
func (c *linCtx) lin(v ssa.Value, depth int) *linExpr {
	if depth > 10 {
		return c.atom(v)
	}
	switch x := v.(type) {
	case *ssa.Const:
		if x.Value != nil && x.Value.Kind() == constant.Int {
			if n, ok := constant.Int64Val(x.Value); ok {
				return newLin(n)
			}
		}
	case *ssa.BinOp:
		if !wideInt(x.Type()) {
			break
		}
		switch x.Op {
		case token.ADD:
			return c.lin(x.X, depth+1).add(c.lin(x.Y, depth+1))
		case token.SUB:
			return c.lin(x.X, depth+1).sub(c.lin(x.Y, depth+1))
		case token.MUL:
			if k, ok := constInt(x.Y); ok {
				return newLin(0).addScaled(c.lin(x.X, depth+1), big.NewRat(k, 1))
			}
			if k, ok := constInt(x.X); ok {
				return newLin(0).addScaled(c.lin(x.Y, depth+1), big.NewRat(k, 1))
			}
		case token.SHL:
			if k, ok := constInt(x.Y); ok && k >= 0 && k < 31 {
				return newLin(0).addScaled(c.lin(x.X, depth+1), big.NewRat(1<<uint(k), 1))
			}
		}
	case *ssa.Convert:
		// a conversion that preserves the numeric value: from any integer type into a wide signed type, or
		// between types of the same signedness where the target is at least as wide
		if isIntType(x.X.Type()) && isIntType(x.Type()) {
			from, to := x.X.Type(), x.Type()
			fl, fh := intRange(from)
			tl, th := intRange(to)
			if tl <= fl && fh <= th {
				return c.lin(x.X, depth+1)
			}
		}
	case *ssa.ChangeType:
		return c.lin(x.X, depth+1)
	case *ssa.Call:
		if b, ok := x.Call.Value.(*ssa.Builtin); ok && b.Name() == "len" && len(x.Call.Args) == 1 {
			a := x.Call.Args[0]
			if sl, ok := a.(*ssa.Slice); ok {
				var hi *linExpr
				if sl.High != nil {
					hi = c.lin(sl.High, depth+1)
				} else {
					hi = c.lenOf(sl.X, depth+1)
				}
				if hi != nil {
					lo := newLin(0)
					if sl.Low != nil {
						lo = c.lin(sl.Low, depth+1)
					}
					return hi.sub(lo)
				}
			}
			if l := c.lenOf(a, depth+1); l != nil {
				return l
			}
		}
	}
	return c.atom(v)
}

// lenOf: the length of a sliceable value as a linear expression.
func (c *linCtx) lenOf(v ssa.Value, depth int) *linExpr {
	t := v.Type().Underlying()
	if pt, ok := t.(*types.Pointer); ok {
		if at, ok := pt.Elem().Underlying().(*types.Array); ok {
			return newLin(at.Len())
		}
	}
	if at, ok := t.(*types.Array); ok {
		return newLin(at.Len())
	}
	switch x := v.(type) {
	case *ssa.Const:
		if s, ok := constStr(x); ok {
			return newLin(int64(len(s)))
		}
	case *ssa.MakeSlice:
		return c.lin(x.Len, depth+1)
	case *ssa.Slice:
		var hi *linExpr
		if x.High != nil {
			hi = c.lin(x.High, depth+1)
		} else {
			hi = c.lenOf(x.X, depth+1)
		}
		if hi == nil {
			return nil
		}
		lo := newLin(0)
		if x.Low != nil {
			lo = c.lin(x.Low, depth+1)
		}
		return hi.sub(lo)
	case *ssa.ChangeType:
		return c.lenOf(x.X, depth)
	case *ssa.UnOp:
		// a local variable that is assigned once, before this load, and whose address goes nowhere a write
		// could come from: the length is the length of what was stored
		if st := soleStoreBefore(x); st != nil && depth < 8 {
			return c.lenOf(st.Val, depth+1)
		}
	}
	k := "len(" + c.valueKey(v) + ")"
	c.atoms[k] = v
	l := newLin(0)
	l.terms[k] = big.NewRat(1, 1)
	return l
}

// soleStoreBefore: ld loads a local variable (an Alloc, on the stack or escaping through a return only) that
// has exactly one store, which dominates the load; every other use of the variable's address is a load, a
// return or a debug reference.
func soleStoreBefore(ld *ssa.UnOp) *ssa.Store {
	if ld.Op != token.MUL {
		return nil
	}
	al, ok := ld.X.(*ssa.Alloc)
	if !ok || al.Referrers() == nil {
		return nil
	}
	var st *ssa.Store
	for _, ref := range *al.Referrers() {
		switch r := ref.(type) {
		case *ssa.Store:
			if r.Addr != al || st != nil {
				return nil
			}
			st = r
		case *ssa.UnOp:
			if r.Op != token.MUL {
				return nil
			}
		case *ssa.Return, *ssa.DebugRef:
		default:
			return nil
		}
	}
	if st == nil {
		return nil
	}
	if st.Block() == ld.Block() {
		for _, in := range st.Block().Instrs {
			if in == ssa.Instruction(st) {
				return st
			}
			if in == ssa.Instruction(ld) {
				return nil
			}
		}
		return nil
	}
	if dominates(st.Block(), ld.Block()) {
		return st
	}
	return nil
}

func (c *linCtx) capOf(v ssa.Value, depth int) *linExpr {
	t := v.Type().Underlying()
	if pt, ok := t.(*types.Pointer); ok {
		if at, ok := pt.Elem().Underlying().(*types.Array); ok {
			return newLin(at.Len())
		}
	}
	if _, ok := t.(*types.Slice); !ok {
		return c.lenOf(v, depth) // strings and arrays: no capacity beyond the length
	}
	k := "cap(" + c.valueKey(v) + ")"
	c.atoms[k] = v
	l := newLin(0)
	l.terms[k] = big.NewRat(1, 1)
	// cap >= len
	if ln := c.lenOf(v, depth); ln != nil {
		c.fact(ln.sub(l))
	}
	return l
}

func (c *linCtx) fact(e *linExpr) {
	if len(e.terms) == 0 {
		return
	}
	k := e.String()
	if c.seenAt[k] {
		return
	}
	c.seenAt[k] = true
	c.facts = append(c.facts, e)
}

// condFacts adds the inequalities of one branch condition taken with the given truth.
func (c *linCtx) condFacts(cond ssa.Value, truth bool) {
	switch x := cond.(type) {
	case *ssa.UnOp:
		if x.Op == token.NOT {
			c.condFacts(x.X, !truth)
		}
	case *ssa.BinOp:
		c.cmpFacts(x.Op, x.X, x.Y, truth)
	case *ssa.Call:
		// a condition written as a function of the module (func between(v, lo, hi) bool { return lo <= v && v <= hi }):
		// the comparisons of its parameters that hold on every path returning this truth value
		g := x.Call.StaticCallee()
		if g == nil || x.Call.IsInvoke() || !inModule(g) || !simplePredicate(g) {
			return
		}
		for _, lit := range predicateLiterals(g, truth) {
			bo, ok := lit.cond.(*ssa.BinOp)
			if !ok {
				continue
			}
			a, okA := calleeOperand(g, bo.X, x.Call.Args)
			b, okB := calleeOperand(g, bo.Y, x.Call.Args)
			if okA && okB {
				c.cmpFacts(bo.Op, a, b, lit.truth)
			}
		}
	}
}

func (c *linCtx) cmpFacts(op token.Token, X, Y ssa.Value, truth bool) {
	if !isIntType(X.Type()) || !isIntType(Y.Type()) {
		return
	}
	if !truth {
		op = negOp(op)
	}
	a, b := c.lin(X, 0), c.lin(Y, 0)
	d := a.sub(b) // a - b
	switch op {
	case token.LSS: // a < b : a-b+1 <= 0
		c.fact(d.addConst(1))
	case token.LEQ:
		c.fact(d)
	case token.GTR: // a > b : b-a+1 <= 0
		c.fact(b.sub(a).addConst(1))
	case token.GEQ:
		c.fact(b.sub(a))
	case token.EQL:
		c.fact(d)
		c.fact(b.sub(a))
	}
}

// calleeOperand: an operand of a comparison inside a simple predicate, as a value of the caller: a parameter is
// the argument of the call, a constant is itself.
func calleeOperand(g *ssa.Function, v ssa.Value, args []ssa.Value) (ssa.Value, bool) {
	switch y := v.(type) {
	case *ssa.Const:
		return y, true
	case *ssa.Parameter:
		for i, prm := range g.Params {
			if prm == y && i < len(args) {
				return args[i], true
			}
		}
	}
	return nil, false
}

type predLiteral struct {
	cond  ssa.Value
	truth bool
}

// predicateLiterals: the branch conditions (with their truth) that hold on every path through the acyclic
// body of g that returns want; the returned value itself is one of them when it is not a constant.
func predicateLiterals(g *ssa.Function, want bool) []predLiteral {
	var common map[predLiteral]bool
	paths := 0
	var walk func(b *ssa.BasicBlock, from *ssa.BasicBlock, lits []predLiteral, depth int)
	walk = func(b *ssa.BasicBlock, from *ssa.BasicBlock, lits []predLiteral, depth int) {
		if depth > 32 || paths > 64 {
			paths = 1 << 20
			return
		}
		switch t := b.Instrs[len(b.Instrs)-1].(type) {
		case *ssa.If:
			walk(b.Succs[0], b, append(append([]predLiteral{}, lits...), predLiteral{t.Cond, true}), depth+1)
			walk(b.Succs[1], b, append(append([]predLiteral{}, lits...), predLiteral{t.Cond, false}), depth+1)
		case *ssa.Jump:
			walk(b.Succs[0], b, lits, depth+1)
		case *ssa.Return:
			if len(t.Results) != 1 {
				paths = 1 << 20
				return
			}
			v := t.Results[0]
			if ph, ok := v.(*ssa.Phi); ok && ph.Block() == b && from != nil {
				for i, pr := range b.Preds {
					if pr == from {
						v = ph.Edges[i]
					}
				}
			}
			if un, ok := v.(*ssa.UnOp); ok && un.Op == token.NOT {
				lits = append(append([]predLiteral{}, lits...), predLiteral{un.X, !want})
			} else if k, ok := v.(*ssa.Const); ok {
				if k.Value == nil || constant.BoolVal(k.Value) != want {
					return // this path returns the other value
				}
			} else {
				lits = append(append([]predLiteral{}, lits...), predLiteral{v, want})
			}
			paths++
			set := map[predLiteral]bool{}
			for _, l := range lits {
				set[l] = true
			}
			if common == nil {
				common = set
			} else {
				for l := range common {
					if !set[l] {
						delete(common, l)
					}
				}
			}
		}
	}
	walk(g.Blocks[0], nil, nil, 0)
	if paths == 0 || paths >= 1<<20 {
		return nil
	}
	var out []predLiteral
	for l := range common {
		out = append(out, l)
	}
	sort.Slice(out, func(i, j int) bool { return out[i].cond.Name() < out[j].cond.Name() })
	return out
}

// dominatingFacts: the branch conditions that dominate blk (in fn).
func (c *linCtx) dominatingFacts(blk *ssa.BasicBlock) {
	child := blk
	for d := blk.Idom(); d != nil; child, d = d, d.Idom() {
		ifi, ok := d.Instrs[len(d.Instrs)-1].(*ssa.If)
		if !ok {
			continue
		}
		dom0 := (d.Succs[0] == child || dominates(d.Succs[0], child)) && len(d.Succs[0].Preds) == 1
		dom1 := (d.Succs[1] == child || dominates(d.Succs[1], child)) && len(d.Succs[1].Preds) == 1
		if dom0 && !dom1 {
			c.condFacts(ifi.Cond, true)
		} else if dom1 && !dom0 {
			c.condFacts(ifi.Cond, false)
		}
	}
}

// atomFacts adds what is known about the atoms themselves. Called repeatedly until no new atom appears.
func (c *linCtx) atomFacts(done map[string]bool) bool {
	added := false
	keys := []string{}
	for k := range c.atoms {
		keys = append(keys, k)
	}
	sort.Strings(keys)
	for _, k := range keys {
		if done[k] {
			continue
		}
		done[k] = true
		if c.foreign[k] {
			continue
		}
		added = true
		v := c.atoms[k]
		self := newLin(0)
		self.terms[k] = big.NewRat(1, 1)
		nonneg := func() { c.fact(newLin(0).sub(self)) }
		if len(k) > 4 && (k[:4] == "len(" || k[:4] == "cap(") {
			nonneg()
			continue
		}
		if isIntType(v.Type()) {
			lo, hi := intRange(v.Type())
			if unsignedInt(v.Type()) {
				nonneg()
			}
			if !wideInt(v.Type()) {
				c.fact(self.addConst(-hi))   // v <= hi
				c.fact(newLin(lo).sub(self)) // lo <= v
			}
		}
		switch x := v.(type) {
		case *ssa.BinOp:
			if !wideInt(x.Type()) {
				break
			}
			switch x.Op {
			case token.QUO, token.REM:
				k2, ok := constInt(x.Y)
				if !ok || k2 <= 0 {
					break
				}
				e := c.lin(x.X, 0)
				if !c.entailsWith(newLin(0).sub(e), nil) { // e >= 0 ?
					break
				}
				if x.Op == token.QUO {
					cq := newLin(0).addScaled(self, big.NewRat(k2, 1))
					c.fact(cq.sub(e))                     // c*q <= e
					c.fact(e.sub(cq).addConst(-(k2 - 1))) // e <= c*q + c-1
					nonneg()
				} else {
					nonneg()
					c.fact(self.addConst(-(k2 - 1)))
					c.fact(self.sub(e)) // r <= e
				}
			case token.AND:
				// x & mask with a constant non-negative mask: 0 <= r <= mask
				for _, o := range []ssa.Value{x.X, x.Y} {
					if m, ok := constInt(o); ok && m >= 0 {
						nonneg()
						c.fact(self.addConst(-m))
					}
				}
			case token.SHR:
				e := c.lin(x.X, 0)
				if c.entailsWith(newLin(0).sub(e), nil) {
					nonneg()
					c.fact(self.sub(e))
				}
			}
		case *ssa.Call:
			if b, ok := x.Call.Value.(*ssa.Builtin); ok && (b.Name() == "min" || b.Name() == "max") {
				for _, a := range x.Call.Args {
					if !isIntType(a.Type()) {
						continue
					}
					if b.Name() == "min" {
						c.fact(self.sub(c.lin(a, 0))) // m <= a
					} else {
						c.fact(c.lin(a, 0).sub(self)) // a <= m
					}
				}
				c.mins = append(c.mins, x)
			}
		case *ssa.Phi:
			if x != c.noPhi {
				c.phiFacts(x, self)
				c.phiEdgeFacts(x, self)
			}
		case *ssa.UnOp:
			// an element of a local array of constants (for _, ix := range [...]int{0, 1, 3, 4}): between the
			// smallest and the largest of them
			if lo, hi, ok := localConstElemRange(x); ok {
				c.fact(self.addConst(-hi))
				c.fact(newLin(lo).sub(self))
			}
		case *ssa.Index:
			// ... the same through a copy of the whole array (range over an array value)
			if ld, ok := x.X.(*ssa.UnOp); ok && ld.Op == token.MUL && isIntType(x.Type()) {
				if al, ok := ld.X.(*ssa.Alloc); ok {
					if lo, hi, ok := constArrayRange(al); ok {
						c.fact(self.addConst(-hi))
						c.fact(newLin(lo).sub(self))
					}
				}
			}
		case *ssa.Parameter:
			c.paramFacts(x, self)
		case *ssa.Extract:
			// the count returned by a read or copy-like call is between 0 and the length of its buffer argument
			if call, ok := x.Tuple.(*ssa.Call); ok && x.Index == 0 && isIntType(x.Type()) {
				name := ""
				if call.Call.IsInvoke() {
					name = call.Call.Method.Name()
				} else if f := call.Call.StaticCallee(); f != nil {
					name = f.Name()
				}
				if len(name) >= 4 && name[:4] == "Read" {
					nonneg()
					for _, a := range call.Call.Args {
						if _, isSl := a.Type().Underlying().(*types.Slice); isSl {
							if ln := c.lenOf(a, 0); ln != nil {
								c.fact(self.sub(ln))
							}
						}
					}
				}
			}
		}
		if call, ok := v.(*ssa.Call); ok {
			// a size written as a function of the module (func EncodedLen(n int) int { return (n + 1) / 2 }): one
			// straight-line block of integer arithmetic over its parameters, called once in this function
			if g := call.Call.StaticCallee(); g != nil && !call.Call.IsInvoke() && inModule(g) && len(g.Blocks) == 1 && len(g.FreeVars) == 0 && wideInt(call.Type()) && soleCallIn(call.Parent(), g) {
				ins := g.Blocks[0].Instrs
				if ret, ok := ins[len(ins)-1].(*ssa.Return); ok && len(ret.Results) == 1 && len(call.Call.Args) == len(g.Params) {
					if e := c.linSubst(ret.Results[0], g, call.Call.Args, 0); e != nil {
						c.fact(self.sub(e))
						c.fact(e.sub(self))
					}
				}
			}
			// sort.Search(n, f) returns an index in 0..n (documented)
			if f := call.Call.StaticCallee(); f != nil && calleeName(f) == "sort.Search" && len(call.Call.Args) == 2 {
				nonneg()
				c.fact(self.sub(c.lin(call.Call.Args[0], 0)))
			}
			if b, ok := call.Call.Value.(*ssa.Builtin); ok && b.Name() == "copy" {
				nonneg()
				for _, a := range call.Call.Args {
					if ln := c.lenOf(a, 0); ln != nil {
						c.fact(self.sub(ln))
					}
				}
			}
		}
	}
	return added
}

// localConstElemRange: ld loads an element of a local array (or of a slice of a local array) every element of which
// is stored exactly once, with an integer constant, and whose address goes nowhere else: the range of the constants.
func localConstElemRange(ld *ssa.UnOp) (int64, int64, bool) {
	if ld.Op != token.MUL || !isIntType(ld.Type()) {
		return 0, 0, false
	}
	ia, ok := ld.X.(*ssa.IndexAddr)
	if !ok {
		return 0, 0, false
	}
	base := ia.X
	if sl, ok := base.(*ssa.Slice); ok {
		base = sl.X
	}
	al, ok := base.(*ssa.Alloc)
	if !ok {
		return 0, 0, false
	}
	return constArrayRange(al)
}

// constArrayRange: every store into the local array is a constant at a constant index, once; nothing else can
// write it. The range of the constants (with 0 for elements not, or not yet, stored).
func constArrayRange(al *ssa.Alloc) (int64, int64, bool) {
	if al.Referrers() == nil {
		return 0, 0, false
	}
	if _, ok := al.Type().Underlying().(*types.Pointer).Elem().Underlying().(*types.Array); !ok {
		return 0, 0, false
	}
	lo, hi := int64(0), int64(0)
	n := 0
	seenIdx := map[int64]bool{}
	for _, ref := range *al.Referrers() {
		switch r := ref.(type) {
		case *ssa.DebugRef:
		case *ssa.Slice:
			// s := arr[:]: only element reads through the view
			if r.Referrers() != nil {
				for _, r2 := range *r.Referrers() {
					switch y := r2.(type) {
					case *ssa.IndexAddr:
						if !onlyLoaded(y) {
							return 0, 0, false
						}
					case *ssa.DebugRef:
					case ssa.CallInstruction:
						if b, ok := y.Common().Value.(*ssa.Builtin); !ok || b.Name() != "len" {
							return 0, 0, false
						}
					default:
						return 0, 0, false
					}
				}
			}
		case *ssa.IndexAddr:
			if onlyLoaded(r) {
				continue
			}
			// the initialising store: constant index, constant value, once
			k, okk := constInt(r.Index)
			if !okk || seenIdx[k] || r.Referrers() == nil || len(*r.Referrers()) != 1 {
				return 0, 0, false
			}
			st, ok := (*r.Referrers())[0].(*ssa.Store)
			if !ok || st.Addr != ssa.Value(r) {
				return 0, 0, false
			}
			v, okv := constInt(st.Val)
			if !okv {
				return 0, 0, false
			}
			seenIdx[k] = true
			if v < lo {
				lo = v
			}
			if v > hi {
				hi = v
			}
			n++
		case *ssa.UnOp:
			// the whole array copied (range over an array value): a copy cannot change the original
			if r.Op != token.MUL {
				return 0, 0, false
			}
		default:
			return 0, 0, false
		}
	}
	return lo, hi, n > 0
}

func onlyLoaded(ia *ssa.IndexAddr) bool {
	if ia.Referrers() == nil {
		return true
	}
	for _, r := range *ia.Referrers() {
		switch y := r.(type) {
		case *ssa.UnOp:
			if y.Op != token.MUL {
				return false
			}
		case *ssa.DebugRef:
		default:
			return false
		}
	}
	return true
}

// soleCallIn: fn calls g at exactly one place.
func soleCallIn(fn, g *ssa.Function) bool {
	if fn == nil {
		return false
	}
	n := 0
	for _, b := range fn.Blocks {
		for _, in := range b.Instrs {
			if ci, ok := in.(ssa.CallInstruction); ok && ci.Common().StaticCallee() == g {
				n++
			}
		}
	}
	return n == 1
}

// linSubst: the value v of the straight-line function g as a linear expression over the arguments of one call.
// A quotient by a positive constant of a non-negative numerator becomes an atom of its own with the two facts
// that define it. nil: not integer arithmetic of this kind.
func (c *linCtx) linSubst(v ssa.Value, g *ssa.Function, args []ssa.Value, depth int) *linExpr {
	if depth > 8 {
		return nil
	}
	switch x := v.(type) {
	case *ssa.Const:
		if n, ok := constInt(x); ok {
			return newLin(n)
		}
	case *ssa.Parameter:
		for i, p := range g.Params {
			if p == x && wideInt(x.Type()) {
				return c.lin(args[i], 0)
			}
		}
	case *ssa.ChangeType:
		return c.linSubst(x.X, g, args, depth+1)
	case *ssa.BinOp:
		if !wideInt(x.Type()) {
			return nil
		}
		switch x.Op {
		case token.ADD, token.SUB:
			a, b := c.linSubst(x.X, g, args, depth+1), c.linSubst(x.Y, g, args, depth+1)
			if a == nil || b == nil {
				return nil
			}
			if x.Op == token.ADD {
				return a.addScaled(b, big.NewRat(1, 1))
			}
			return a.sub(b)
		case token.MUL:
			for _, pr := range [][2]ssa.Value{{x.X, x.Y}, {x.Y, x.X}} {
				if k, ok := constInt(pr[0]); ok {
					if b := c.linSubst(pr[1], g, args, depth+1); b != nil {
						return newLin(0).addScaled(b, big.NewRat(k, 1))
					}
				}
			}
		case token.QUO:
			k, ok := constInt(x.Y)
			if !ok || k <= 0 {
				return nil
			}
			e := c.linSubst(x.X, g, args, depth+1)
			if e == nil || !c.entailsWith(newLin(0).sub(e), nil) {
				return nil
			}
			q := c.atom(x)
			if c.foreign == nil {
				c.foreign = map[string]bool{}
			}
			c.foreign[c.valueKey(x)] = true
			kq := newLin(0).addScaled(q, big.NewRat(k, 1))
			c.fact(kq.sub(e))                    // k*q <= e
			c.fact(e.sub(kq).addConst(-(k - 1))) // e <= k*q + k-1
			c.fact(newLin(0).sub(q))
			return q
		}
	}
	return nil
}

// phiFacts: a loop variable that only grows (shrinks) stays above (below) its initial value.
func (c *linCtx) phiFacts(ph *ssa.Phi, self *linExpr) {
	if !isIntType(ph.Type()) || len(ph.Edges) < 2 {
		return
	}
	if c.depth > 2 {
		return
	}
	var inits []ssa.Value
	grows, shrinks := true, true
	for _, e := range ph.Edges {
		// an edge that is the variable plus something
		le := c.lin(e, 0)
		if co, dependsOnSelf := le.terms[c.valueKey(ph)]; dependsOnSelf && co.Cmp(big.NewRat(1, 1)) == 0 {
			var at *ssa.BasicBlock
			if in, ok := e.(ssa.Instruction); ok {
				at = in.Block()
			}
			if at == nil {
				grows, shrinks = false, false
				continue
			}
			// the step, evaluated where it is added (with the conditions that hold there)
			sub := c.sub(at)
			sub.noPhi = ph
			d := sub.lin(e, 0).sub(sub.atom(ph))
			if !sub.entails(newLin(0).sub(d)) { // d >= 0
				grows = false
			}
			if !sub.entails(d) { // d <= 0
				shrinks = false
			}
			continue
		}
		inits = append(inits, e)
	}
	if len(inits) == 0 || len(inits) == len(ph.Edges) {
		return
	}
	for _, in := range inits {
		li := c.lin(in, 0)
		if len(inits) > 1 {
			// several entry values: only constants are combined
			continue
		}
		if grows {
			c.fact(li.sub(self)) // init <= v
		}
		if shrinks {
			c.fact(self.sub(li)) // v <= init
		}
	}
	if len(inits) > 1 && grows {
		// lower bound: the least constant entry value
		var least *int64
		for _, in := range inits {
			k, ok := constInt(in)
			if !ok {
				return
			}
			if least == nil || k < *least {
				kk := k
				least = &kk
			}
		}
		if least != nil {
			c.fact(newLin(*least).sub(self))
		}
	}
}

// phiEdgeFacts: a variable merged from several edges, each taken under a condition that bounds the value
// arriving on it (the rotated loop  `if 0 < n { do { .. i++ } while i < n }`  has no single dominating test):
// if the condition of every edge, written  g_i <= 0, becomes the same inequality c(V) <= 0 once the arriving
// value e_i is replaced by V  (c(V) = g_i - e_i + V, or g_i + e_i - V), then c(v) <= 0 holds for the merged
// variable: on whichever edge control arrived, c(e_i) = g_i <= 0.
func (c *linCtx) phiEdgeFacts(ph *ssa.Phi, self *linExpr) {
	blk := ph.Block()
	if len(blk.Preds) != len(ph.Edges) || len(ph.Edges) < 2 {
		return
	}
	var cands [2]map[string]*linExpr
	for i, pred := range blk.Preds {
		ifi, ok := pred.Instrs[len(pred.Instrs)-1].(*ssa.If)
		if !ok || pred.Succs[0] == pred.Succs[1] {
			return
		}
		truth := pred.Succs[0] == blk
		tmp := &linCtx{p: c.p, fn: c.fn, atoms: map[string]ssa.Value{}, seenAt: map[string]bool{}, depth: c.depth + 1}
		tmp.condFacts(ifi.Cond, truth)
		// the variable's own (previous) value inside the edge value or the condition is another quantity than
		// the merged value: it must cancel out
		selfKey := c.valueKey(ph)
		old := func(l *linExpr) *linExpr {
			o := l.clone()
			if co, ok := o.terms[selfKey]; ok {
				delete(o.terms, selfKey)
				o.terms[selfKey+"'old"] = co
			}
			return o
		}
		e := old(tmp.lin(ph.Edges[i], 0))
		here := [2]map[string]*linExpr{{}, {}}
		for _, g0 := range tmp.facts {
			g := old(g0)
			up := g.sub(e).add(self)
			dn := g.add(e).sub(self)
			if _, has := up.terms[selfKey+"'old"]; !has {
				here[0][up.String()] = up
			}
			if _, has := dn.terms[selfKey+"'old"]; !has {
				here[1][dn.String()] = dn
			}
		}
		for k := 0; k < 2; k++ {
			if i == 0 {
				cands[k] = here[k]
				continue
			}
			for key := range cands[k] {
				if _, ok := here[k][key]; !ok {
					delete(cands[k], key)
				}
			}
		}
		for k, a := range tmp.atoms {
			c.atoms[k] = a
		}
	}
	for k := 0; k < 2; k++ {
		for _, cand := range cands[k] {
			// every atom must be available at the merge point
			ok := true
			for a := range cand.terms {
				v := c.atoms[a]
				if in, isIn := v.(ssa.Instruction); isIn && v != ssa.Value(ph) {
					if in.Block() != blk && !dominates(in.Block(), blk) {
						// len(x)/cap(x) of an available x is itself available
						if call, isCall := v.(*ssa.Call); isCall {
							if _, isB := call.Call.Value.(*ssa.Builtin); isB && len(call.Call.Args) == 1 {
								if ai, isI := call.Call.Args[0].(ssa.Instruction); !isI || ai.Block() == blk || dominates(ai.Block(), blk) {
									continue
								}
							}
						}
						ok = false
					}
				}
			}
			if ok {
				c.fact(cand)
			}
		}
	}
}

// sub: a fresh context at another block of the same function (used for side conditions).
func (c *linCtx) sub(blk *ssa.BasicBlock) *linCtx {
	s := &linCtx{p: c.p, fn: blk.Parent(), atoms: map[string]ssa.Value{}, seenAt: map[string]bool{}, depth: c.depth + 1}
	if s.depth <= 3 {
		s.dominatingFacts(blk)
	}
	return s
}

var paramNonNegMemo = map[*ssa.Parameter]int{} // 1 yes 2 no 3 in progress (assumed)

// paramFacts: p >= 0 when every static call site of the (unexported) function passes a provably non-negative
// argument. Calls from inside the function itself (and cycles) are assumed: together with the proof for the
// outside callers this is an induction over the call depth.
func (c *linCtx) paramFacts(prm *ssa.Parameter, self *linExpr) {
	if !isIntType(prm.Type()) {
		return
	}
	// the predicate handed to sort.Search(n, f) is called with 0 <= i < n only (documented)
	if fn := prm.Parent(); fn != nil && fn.Parent() != nil && len(fn.Params) == 1 {
		for _, b := range fn.Parent().Blocks {
			for _, in := range b.Instrs {
				call, ok := in.(*ssa.Call)
				if !ok || len(call.Call.Args) != 2 {
					continue
				}
				if f := call.Call.StaticCallee(); f == nil || calleeName(f) != "sort.Search" {
					continue
				}
				if mc, ok := call.Call.Args[1].(*ssa.MakeClosure); ok && mc.Fn == ssa.Value(fn) {
					c.fact(newLin(0).sub(self))
					// n as seen from inside the closure: only when it is expressed over values available there
					n := call.Call.Args[0]
					if nc, ok := n.(*ssa.Call); ok {
						if bi, ok := nc.Call.Value.(*ssa.Builtin); ok && bi.Name() == "len" {
							if ld, ok := nc.Call.Args[0].(*ssa.UnOp); ok {
								if _, isG := ld.X.(*ssa.Global); isG {
									c.fact(self.sub(c.lin(n, 0)).addConst(1))
								}
							}
						}
					}
					if k, ok := constInt(n); ok {
						c.fact(self.addConst(1 - k))
					}
				}
			}
		}
	}
	if unsignedInt(prm.Type()) {
		return
	}
	if c.paramNonNeg(prm) {
		c.fact(newLin(0).sub(self))
	}
}

func (c *linCtx) paramNonNeg(prm *ssa.Parameter) bool {
	switch paramNonNegMemo[prm] {
	case 1, 3:
		return true
	case 2:
		return false
	}
	fn := prm.Parent()
	if fn == nil || fn.Object() == nil || fn.Object().Exported() {
		paramNonNegMemo[prm] = 2
		return false
	}
	if c.depth > 3 {
		return false
	}
	pi := -1
	for i, q := range fn.Params {
		if q == prm {
			pi = i
		}
	}
	if pi < 0 {
		return false
	}
	paramNonNegMemo[prm] = 3
	calls := 0
	ok := true
scan:
	for _, caller := range c.p.AllFuncs {
		for _, b := range caller.Blocks {
			for _, in := range b.Instrs {
				// the function used as a value: unknown callers
				for _, op := range in.Operands(nil) {
					if *op == ssa.Value(fn) {
						if ci, isCall := in.(ssa.CallInstruction); !isCall || ci.Common().Value != ssa.Value(fn) {
							ok = false
							break scan
						}
					}
				}
				ci, isCall := in.(ssa.CallInstruction)
				if !isCall || ci.Common().StaticCallee() != fn {
					continue
				}
				calls++
				arg := ci.Common().Args[pi]
				sub := c.sub(b)
				if !sub.entails(newLin(0).sub(sub.lin(arg, 0))) {
					ok = false
					break scan
				}
			}
		}
	}
	if ok && calls > 0 {
		paramNonNegMemo[prm] = 1
		return true
	}
	paramNonNegMemo[prm] = 2
	return false
}

// entails: goal <= 0 follows from the facts of this context (atom facts are completed first).
func (c *linCtx) entails(goal *linExpr) bool {
	return c.entailsWith(goal, nil)
}

func (c *linCtx) entailsWith(goal *linExpr, extra []*linExpr) bool {
	if len(goal.terms) == 0 {
		return goal.c.Sign() <= 0
	}
	// register the goal's atoms
	done := map[string]bool{}
	for i := 0; i < 6; i++ {
		if !c.atomFactsGuarded(done) {
			break
		}
	}
	facts := append(append([]*linExpr{}, c.facts...), extra...)
	if infeasible(facts, goal) {
		return true
	}
	// case split on min/max atoms of the goal: min(a,b) = a (with a <= b) or = b (with b <= a)
	for _, m := range c.mins {
		mk := c.valueKey(m)
		if _, inGoal := goal.terms[mk]; !inGoal {
			continue
		}
		b := m.Call.Value.(*ssa.Builtin)
		all := true
		for i, a := range m.Call.Args {
			var ex []*linExpr
			la := c.lin(a, 0)
			self := newLin(0)
			self.terms[mk] = big.NewRat(1, 1)
			ex = append(ex, self.sub(la), la.sub(self)) // m == a
			for j, o := range m.Call.Args {
				if j == i {
					continue
				}
				lo := c.lin(o, 0)
				if b.Name() == "min" {
					ex = append(ex, la.sub(lo))
				} else {
					ex = append(ex, lo.sub(la))
				}
			}
			for k := 0; k < 3; k++ {
				if !c.atomFactsGuarded(done) {
					break
				}
			}
			facts := append(append([]*linExpr{}, c.facts...), extra...)
			if !infeasible(append(facts, ex...), goal) {
				all = false
				break
			}
		}
		if all {
			return true
		}
	}
	return false
}

var linBusy = 0

// linSteps bounds the work of one top-level proof (nested entailment questions asked while collecting facts can
// multiply): past the budget no further facts are collected, the goal stays unproven and the site is reported.
var linSteps = 0

const linBudget = 600

func (c *linCtx) atomFactsGuarded(done map[string]bool) bool {
	if linBusy > 24 || linSteps > linBudget {
		return false
	}
	linSteps++
	linBusy++
	defer func() { linBusy-- }()
	return c.atomFacts(done)
}

// infeasible: facts (each <= 0) together with goal >= 1 have no rational solution.
func infeasible(facts []*linExpr, goal *linExpr) bool {
	sys := []*linExpr{}
	for _, f := range facts {
		sys = append(sys, f)
	}
	// not(goal <= 0) over the integers: goal >= 1, i.e. 1 - goal <= 0
	sys = append(sys, newLin(1).sub(goal))
	// only variables connected to the goal matter, but elimination handles the rest cheaply
	vars := map[string]bool{}
	for _, e := range sys {
		for k := range e.terms {
			vars[k] = true
		}
	}
	order := []string{}
	for k := range vars {
		order = append(order, k)
	}
	sort.Strings(order)
	for _, v := range order {
		var pos, neg, rest []*linExpr
		for _, e := range sys {
			co, ok := e.terms[v]
			switch {
			case !ok:
				rest = append(rest, e)
			case co.Sign() > 0:
				pos = append(pos, e)
			default:
				neg = append(neg, e)
			}
		}
		if len(pos)*len(neg)+len(rest) > 400 {
			return false
		}
		for _, a := range pos {
			for _, b := range neg {
				// a: ca*v + A <= 0 (ca>0), b: cb*v + B <= 0 (cb<0):  (-cb)*a + ca*b eliminates v
				ca := a.terms[v]
				cb := b.terms[v]
				n := newLin(0).addScaled(a, new(big.Rat).Neg(cb)).addScaled(b, ca)
				delete(n.terms, v)
				if len(n.terms) == 0 {
					if n.c.Sign() > 0 {
						return true
					}
					continue
				}
				rest = append(rest, n)
			}
		}
		// deduplicate
		seen := map[string]bool{}
		sys = sys[:0]
		for _, e := range rest {
			if len(e.terms) == 0 {
				if e.c.Sign() > 0 {
					return true
				}
				continue
			}
			k := e.String()
			if !seen[k] {
				seen[k] = true
				sys = append(sys, e)
			}
		}
	}
	for _, e := range sys {
		if len(e.terms) == 0 && e.c.Sign() > 0 {
			return true
		}
	}
	return false
}

// proveIndexInBounds: 0 <= idx < len(base) at instruction in.
func proveIndexInBounds(p *Program, in ssa.Instruction, base, idx ssa.Value) bool {
	linSteps = 0
	defer func() { recover() }()
	c := &linCtx{p: p, fn: in.Parent(), atoms: map[string]ssa.Value{}, seenAt: map[string]bool{}}
	c.dominatingFacts(in.Block())
	li := c.lin(idx, 0)
	ln := c.lenOf(base, 0)
	if ln == nil {
		return false
	}
	return c.entails(newLin(0).sub(li)) && c.entails(li.sub(ln).addConst(1))
}

// proveSliceInBounds: 0 <= lo <= hi <= max <= cap(x) at the slice instruction.
// proveLenAtLeast: len(v) >= n at instruction in.
func proveLenAtLeast(p *Program, in ssa.Instruction, v ssa.Value, n int64) bool {
	linSteps = 0
	defer func() { recover() }()
	c := &linCtx{p: p, fn: in.Parent(), atoms: map[string]ssa.Value{}, seenAt: map[string]bool{}}
	c.dominatingFacts(in.Block())
	ln := c.lenOf(v, 0)
	if ln == nil {
		return false
	}
	return c.entails(newLin(n).sub(ln))
}

// proveNonNeg: v >= 0 follows from the conditions that dominate the instruction.
func proveNonNeg(p *Program, in ssa.Instruction, v ssa.Value) bool {
	linSteps = 0
	defer func() { recover() }()
	c := &linCtx{p: p, fn: in.Parent(), atoms: map[string]ssa.Value{}, seenAt: map[string]bool{}}
	c.dominatingFacts(in.Block())
	return c.entails(newLin(0).sub(c.lin(v, 0)))
}

func proveSliceInBounds(p *Program, x *ssa.Slice) bool {
	linSteps = 0
	defer func() { recover() }()
	c := &linCtx{p: p, fn: x.Parent(), atoms: map[string]ssa.Value{}, seenAt: map[string]bool{}}
	c.dominatingFacts(x.Block())
	lo := newLin(0)
	if x.Low != nil {
		lo = c.lin(x.Low, 0)
	}
	var hi *linExpr
	if x.High != nil {
		hi = c.lin(x.High, 0)
	} else {
		hi = c.lenOf(x.X, 0)
	}
	top := c.capOf(x.X, 0)
	if hi == nil || top == nil {
		return false
	}
	if x.Max != nil {
		mx := c.lin(x.Max, 0)
		if !c.entails(hi.sub(mx)) || !c.entails(mx.sub(top)) {
			return false
		}
	}
	return c.entails(newLin(0).sub(lo)) && c.entails(lo.sub(hi)) && c.entails(hi.sub(top))
}
