package main

import (
	"fmt"
	"go/token"
	"go/types"
	"os"
	"sort"
	"strings"

	"golang.org/x/tools/go/ssa"
)

// ---------------------------------------------------------------------------------------
// LS1-LS6: the event listener; IM1-IM3: insulation of the client from caller data
// ---------------------------------------------------------------------------------------

// closuresOf: closures created inside fn, in order.
func closuresOf(fn *ssa.Function) []*ssa.MakeClosure {
	var out []*ssa.MakeClosure
	for _, b := range fn.Blocks {
		for _, in := range b.Instrs {
			if mc, ok := in.(*ssa.MakeClosure); ok {
				out = append(out, mc)
			}
		}
	}
	return out
}

func hasMutableRef(t types.Type, seen map[types.Type]bool, path string) string {
	if seen[t] {
		return ""
	}
	seen[t] = true
	if n, ok := types.Unalias(t).(*types.Named); ok && n.Obj().Pkg() != nil {
		if n.Obj().Pkg().Path() == "time" && (n.Obj().Name() == "Time" || n.Obj().Name() == "Location") {
			return "" // immutable by the library's contract
		}
		if n.Obj().Pkg().Path() == "net/netip" {
			return ""
		}
	}
	switch u := t.Underlying().(type) {
	case *types.Slice:
		return path + " is a slice"
	case *types.Map:
		return path + " is a map"
	case *types.Chan, *types.Signature:
		return path + " is a reference type"
	case *types.Pointer:
		return hasMutableRef(u.Elem(), seen, path+".*")
	case *types.Struct:
		for i := 0; i < u.NumFields(); i++ {
			if d := hasMutableRef(u.Field(i).Type(), seen, path+"."+u.Field(i).Name()); d != "" {
				return d
			}
		}
	case *types.Array:
		return hasMutableRef(u.Elem(), seen, path+"[]")
	}
	return ""
}

// doneSignal: the other way of ending the consumer goroutine. The listen function signals "done" on every
// return - a deferred cancel() of a context it created, or a deferred close of a signal channel it made - and
// the consumer, which captured that context / channel, receives from it (ctx.Done(), the channel) in a select.
// Returns the instruction in the consumer that receives the signal.
func doneSignal(blocks []*ssa.BasicBlock, consumer *goTarget) ssa.Instruction {
	in, _ := doneSignalChan(blocks, consumer)
	return in
}

// doneSignalChan: as doneSignal, with the channel expression (in the consumer) the signal is received from.
func doneSignalChan(blocks []*ssa.BasicBlock, consumer *goTarget) (ssa.Instruction, ssa.Value) {
	if consumer == nil {
		return nil, nil
	}
	// what the consumer receives from, as values of the parent
	outerOf := func(v ssa.Value) ssa.Value {
		if ld, ok := v.(*ssa.UnOp); ok && ld.Op == token.MUL {
			v = ld.X
		}
		for i, in := range consumer.Inner {
			if in == v {
				return consumer.Outer[i]
			}
		}
		return nil
	}
	resolve := func(v ssa.Value) ssa.Value {
		// a captured variable: the single value stored into it
		if al, ok := v.(*ssa.Alloc); ok && al.Referrers() != nil {
			var st *ssa.Store
			for _, ref := range *al.Referrers() {
				if s2, ok := ref.(*ssa.Store); ok && s2.Addr == ssa.Value(al) {
					if st != nil {
						return nil
					}
					st = s2
				}
			}
			if st != nil {
				return st.Val
			}
			return nil
		}
		return v
	}
	type recvSite struct {
		in  ssa.Instruction
		src ssa.Value // parent value: the context or the channel
		ctx bool
		ch  ssa.Value // the channel expression in the consumer
	}
	var sites []recvSite
	addChan := func(in ssa.Instruction, ch ssa.Value) {
		if call, ok := ch.(*ssa.Call); ok && call.Call.IsInvoke() && call.Call.Method.Name() == "Done" {
			if o := outerOf(call.Call.Value); o != nil {
				if v := resolve(o); v != nil {
					sites = append(sites, recvSite{in, v, true, ch})
				}
			}
			return
		}
		if o := outerOf(ch); o != nil {
			if v := resolve(o); v != nil {
				sites = append(sites, recvSite{in, v, false, ch})
			}
		}
	}
	for _, b := range consumer.Fn.Blocks {
		for _, in := range b.Instrs {
			switch x := in.(type) {
			case *ssa.Select:
				for _, st := range x.States {
					if st.Dir == types.RecvOnly {
						addChan(x, st.Chan)
					}
				}
			case *ssa.UnOp:
				if x.Op == token.ARROW {
					addChan(x, x.X)
				}
			}
		}
	}
	// what the listen function signals on every return
	for _, b := range blocks {
		for _, in := range b.Instrs {
			df, ok := in.(*ssa.Defer)
			if !ok {
				continue
			}
			if bi, ok := df.Call.Value.(*ssa.Builtin); ok && bi.Name() == "close" && len(df.Call.Args) == 1 {
				ch := resolve(df.Call.Args[0])
				if ld, ok := df.Call.Args[0].(*ssa.UnOp); ok && ld.Op == token.MUL {
					ch = resolve(ld.X)
				}
				for _, s := range sites {
					if !s.ctx && ch != nil && s.src == ch {
						if _, isMake := ch.(*ssa.MakeChan); isMake && !sentTo(blocks, consumer, ch) {
							return s.in, s.ch
						}
					}
				}
				continue
			}
			// defer cancel()
			cv := df.Call.Value
			if ld, ok := cv.(*ssa.UnOp); ok && ld.Op == token.MUL {
				cv = resolve(ld.X)
			}
			ex, ok := cv.(*ssa.Extract)
			if !ok || ex.Index != 1 {
				continue
			}
			call, ok := ex.Tuple.(*ssa.Call)
			if !ok || call.Call.StaticCallee() == nil {
				continue
			}
			switch calleeName(call.Call.StaticCallee()) {
			case "context.WithCancel", "context.WithTimeout", "context.WithDeadline":
			default:
				continue
			}
			for _, s := range sites {
				if cx, ok := s.src.(*ssa.Extract); ok && s.ctx && cx.Index == 0 && cx.Tuple == ex.Tuple {
					return s.in, s.ch
				}
			}
		}
	}
	return nil, nil
}

// sentTo: something is sent on the channel made by mk, in the parent's blocks or in the goroutine (a channel
// that carries values is not a pure "closed means done" signal).
func sentTo(blocks []*ssa.BasicBlock, consumer *goTarget, mk ssa.Value) bool {
	isCh := func(v ssa.Value, inner bool) bool {
		if ld, ok := v.(*ssa.UnOp); ok && ld.Op == token.MUL {
			v = ld.X
		}
		if inner {
			for i, in := range consumer.Inner {
				if in == v {
					v = consumer.Outer[i]
				}
			}
		}
		if v == mk {
			return true
		}
		if al, ok := v.(*ssa.Alloc); ok && al.Referrers() != nil {
			for _, ref := range *al.Referrers() {
				if st, ok := ref.(*ssa.Store); ok && st.Addr == ssa.Value(al) && st.Val == mk {
					return true
				}
			}
		}
		return false
	}
	scan := func(bs []*ssa.BasicBlock, inner bool) bool {
		for _, b := range bs {
			for _, in := range b.Instrs {
				switch x := in.(type) {
				case *ssa.Send:
					if isCh(x.Chan, inner) {
						return true
					}
				case *ssa.Select:
					for _, st := range x.States {
						if st.Dir == types.SendOnly && isCh(st.Chan, inner) {
							return true
						}
					}
				}
			}
		}
		return false
	}
	return scan(blocks, false) || scan(consumer.Fn.Blocks, true)
}

func RuleListen(r *Report, p *Program) {
	r.Rule("LS1", "for every datagram the handler makes exactly one of {error callback, forward}; it forwards only a 64-byte datagram with a non-zero serial number that decoded without error, as a value freshly allocated for that datagram", 1)
	r.Rule("LS2", "the forwarded event holds no slice/map/pointer to mutable storage, so it cannot alias the reused receive buffer", 1)
	r.Rule("LS3", "one pipe, one consuming goroutine that calls the event callback exactly once per element and ends when the pipe is closed", 2)
	r.Rule("LS4", "the connected callback fires exactly once, after the driver has bound the socket and before waiting for the stop signal; on a bind error it never fires", 1)
	r.Rule("LS5", "shutdown order: signal the driver, wait for its loop to finish, then return nil", 1)
	r.Rule("LS6", "driver: the socket is closed after the stop signal; the read loop calls the handler with the bytes just read and closes 'done' after the loop", 2)
	r.Rule("A6s", "the status built for an event is wired exactly like the status GetStatus returns (sibling implementations agree)", 1)
	r.Rule("LS7", "every delivered status is built from storage allocated for that event alone (no map, slice or struct shared between consecutive deliveries)", 1)

	l, err := NewLayoutEngine(p)
	if err != nil {
		r.Fatal("LS1", "layout", err.Error())
		return
	}
	a, err := NewAPI(p, l)
	if err != nil {
		r.Fatal("LS1", "api", err.Error())
		return
	}
	lfn := a.Ops["Listen"]
	if lfn == nil {
		r.Fatal("LS1", "Listen", "operation not found")
		return
	}
	// the listen chain: Listen and the in-package functions it calls, down to the one that binds the socket through
	// the driver interface (today Listen -> listen; the two may be merged or split further). The datagram handler
	// is the function value handed to the driver in that call.
	upkL := p.SSAPkg("uhppote")
	var chain []*ssa.Function
	var bindCall ssa.CallInstruction
	var find func(f *ssa.Function, seen map[*ssa.Function]bool) bool
	find = func(f *ssa.Function, seen map[*ssa.Function]bool) bool {
		if f == nil || f.Blocks == nil || seen[f] {
			return false
		}
		seen[f] = true
		for _, b := range f.Blocks {
			for _, in := range b.Instrs {
				if c, ok := in.(ssa.CallInstruction); ok && c.Common().IsInvoke() && c.Common().Method.Name() == "Listen" {
					if n, ok := types.Unalias(c.Common().Value.Type()).(*types.Named); ok && n.Obj().Pkg() == upkL.Pkg {
						bindCall = c
						chain = append([]*ssa.Function{f}, chain...)
						return true
					}
				}
			}
		}
		for _, b := range f.Blocks {
			for _, in := range b.Instrs {
				if c, ok := in.(ssa.CallInstruction); ok {
					if _, isGo := in.(*ssa.Go); isGo {
						continue
					}
					if g := c.Common().StaticCallee(); g != nil && pkgOf(g) == upkL && g.Parent() == nil && find(g, seen) {
						chain = append([]*ssa.Function{f}, chain...)
						return true
					}
				}
			}
		}
		return false
	}
	if !find(lfn, map[*ssa.Function]bool{}) || bindCall == nil {
		r.Fatal("LS1", "listen", "no call of the driver's Listen method reachable from the Listen operation")
		return
	}
	inner := chain[len(chain)-1]
	inChain := map[*ssa.Function]bool{}
	for _, f := range chain {
		inChain[f] = true
	}
	// ---- LS1: the handler (the function value with a []byte parameter handed to the driver)
	var handler *ssa.Function
	for _, a := range bindCall.Common().Args {
		v := a
		if al, ok := v.(*ssa.UnOp); ok { // a closure stored in a local variable
			if alloc, ok := al.X.(*ssa.Alloc); ok && alloc.Referrers() != nil {
				for _, ref := range *alloc.Referrers() {
					if st, ok := ref.(*ssa.Store); ok && st.Addr == ssa.Value(alloc) {
						v = st.Val
					}
				}
			}
		}
		var f *ssa.Function
		switch x := v.(type) {
		case *ssa.MakeClosure:
			f = x.Fn.(*ssa.Function)
		case *ssa.Function:
			f = x
		}
		if f != nil && f.Signature.Params().Len() == 1 {
			if _, ok := f.Signature.Params().At(0).Type().Underlying().(*types.Slice); ok {
				handler = f
			}
		}
	}
	if handler == nil {
		// a bound method or a handler built by another function: any closure of the binding function taking []byte
		for _, mc := range closuresOf(inner) {
			f := mc.Fn.(*ssa.Function)
			if f.Signature.Params().Len() == 1 {
				if _, ok := f.Signature.Params().At(0).Type().Underlying().(*types.Slice); ok {
					handler = f
				}
			}
		}
	}
	if handler == nil {
		r.Fatal("LS1", "handler", "no datagram handler closure found")
		return
	}
	{
		w := NewWalker(p)
		w.Inline = inlineHelpers([]*ssa.Package{p.SSAPkg("uhppote")}, nil)
		paths := w.Walk(handler, []*Term{{Op: "param", Name: "dg", Typ: handler.Params[0].Type()}}, nil)
		bad := ""
		nFwd := 0
		var evType types.Type
		for _, pa := range paths {
			if pa.Outcome != "return" {
				bad = "handler path ends in " + pa.Outcome + ": " + pa.Detail
				continue
			}
			nErr, nSend := 0, 0
			var sent *Term
			for _, e := range pa.Events {
				if e.Kind == "call" && strings.HasSuffix(e.Name, ".OnError") {
					nErr++
				}
				if e.Kind == "send" {
					nSend++
					sent = e.Args[1]
				}
			}
			if nErr+nSend != 1 {
				bad = fmt.Sprintf("a datagram produces %d error callbacks and %d forwarded events under [%s]", nErr, nSend, cut(pa.State.Describe(), 160))
				continue
			}
			// ... and it refuses a datagram only for a reason the protocol gives it: wrong length, serial number zero,
			// or the decoder's verdict (the decoder decides what a well-formed event is: F4, the codec rules)
			if nErr == 1 {
				justified := false
				if ln, ok := pa.State.Ints["len(dg)"]; ok && ln.Intersect(IntervalSet{{64, 64}}).Empty() {
					justified = true
				}
				for k, v := range pa.State.Ints {
					if strings.Contains(k, "Uint32") && strings.Contains(k, "dg[4:8") && v.String() == "{0}" {
						justified = true
					}
				}
				for k, v := range pa.State.Bools {
					if strings.HasPrefix(k, "isnil(") && !v && (strings.Contains(k, "codec.") || strings.Contains(k, "decode")) {
						justified = true
					}
				}
				if !justified {
					bad = "the handler refuses a datagram under [" + cut(pa.State.Describe(), 200) + "]: neither its length, nor a zero serial number, nor the decoder rejects it"
					continue
				}
			}
			if nSend == 1 {
				nFwd++
				ln := pa.State.Ints["len(dg)"]
				if ln.String() != "{64}" {
					bad = "an event is forwarded without a length==64 check"
				}
				serialOK := false
				for k, v := range pa.State.Ints {
					if strings.Contains(k, "Uint32") && strings.Contains(k, "dg[4:8") && v.Intersect(IntervalSet{{0, 0}}).Empty() {
						serialOK = true
					}
				}
				if !serialOK {
					bad = "an event is forwarded without checking that the serial number (bytes 4..7) is non-zero"
				}
				decoded := false
				for _, e := range pa.Events {
					if e.Kind == "call" && strings.HasPrefix(e.Name, "codec.Unmarshal") && len(e.Args) >= 2 && e.Args[0].String() == "dg" {
						if v, ok := pa.State.Bools["isnil("+e.Result.String()+")"]; ok && v {
							if sent != nil && sent.Op == "ptr" && e.Args[1].Op == "iface" && e.Args[1].Args[0].Op == "ptr" && e.Args[1].Args[0].Cell == sent.Cell {
								decoded = true
							}
						}
					}
				}
				if !decoded {
					bad = "the forwarded value is not the struct this datagram was decoded into (after a successful decode)"
				}
				if sent == nil || sent.Op != "ptr" || sent.Cell.Sym || !sent.Cell.Heap {
					bad = "the forwarded event is not freshly allocated per datagram: " + sent.String()
				} else {
					evType = sent.Cell.Typ
				}
			}
		}
		r.Check(bad == "" && nFwd >= 1 && len(paths) >= 4, "LS1", "handler", p.Pos(handler.Pos()), fmt.Sprintf("%d paths, %d forwarding", len(paths), nFwd), bad)
		if evType != nil {
			d := hasMutableRef(evType, map[types.Type]bool{}, typeName(evType))
			r.Check(d == "", "LS2", typeName(evType), p.Pos(handler.Pos()), "no reference to mutable storage", "forwarded event type: "+d)
		}
	}
	// ---- LS4 / LS5: the listen chain as one sequence (Listen with the chain's functions in line)
	{
		w := NewWalker(p)
		w.Inline = func(f *ssa.Function, d int) bool { return inChain[f] }
		paths := w.Walk(lfn, symbolicArgs(lfn), nil)
		bad4, bad5 := "", ""
		nOK := 0
		for _, pa := range paths {
			if pa.Outcome != "return" {
				bad5 = "path ends in " + pa.Outcome
				continue
			}
			// the channels handed to the driver: only they take part in the shutdown protocol (the event pipe, closed
			// by a deferred call when Listen returns, belongs to LS3)
			driverChans := map[string]bool{}
			for _, e := range pa.Events {
				if e.Kind == "call" && strings.HasPrefix(e.Name, "invoke:") && strings.HasSuffix(e.Name, ".Listen") {
					for _, a := range e.Args[1:] {
						if a.Typ != nil {
							if _, isCh := a.Typ.Underlying().(*types.Chan); isCh {
								driverChans[a.String()] = true
							}
						}
					}
				}
			}
			seq := []string{}
			for _, e := range pa.Events {
				switch {
				case e.Kind == "call" && strings.HasPrefix(e.Name, "invoke:") && strings.HasSuffix(e.Name, ".Listen"):
					seq = append(seq, "bind")
				case e.Kind == "call" && strings.HasSuffix(e.Name, ".OnConnected"):
					seq = append(seq, "connected")
				case e.Kind == "recv":
					seq = append(seq, "recv:"+e.Name)
				case e.Kind == "close":
					if driverChans[e.Name] || len(driverChans) == 0 {
						seq = append(seq, "close:"+e.Name)
					}
				case e.Kind == "send" && driverChans[e.Name]:
					// one value sent on the stop channel signals its single receiver (the driver's stop goroutine)
					// exactly as closing it does
					seq = append(seq, "close:"+e.Name)
				}
			}
			s := strings.Join(seq, " ")
			en := errNilness(pa, pa.Results[0])
			bindFailed := false
			for k, v := range pa.State.Bools {
				if strings.HasPrefix(k, "isnil(invoke:") && strings.Contains(k, ".Listen") && !v {
					bindFailed = true
				}
			}
			if bindFailed {
				if strings.Contains(s, "connected") || en != 0 {
					bad4 = "a failed bind still reports 'connected' or returns nil: " + s
				}
				continue
			}
			nOK++
			// expected: bind connected recv:q close:<signal> recv:<closed>
			parts := strings.Fields(s)
			if len(parts) != 5 || parts[0] != "bind" || parts[1] != "connected" || !strings.HasPrefix(parts[2], "recv:") || !strings.HasPrefix(parts[3], "close:") || !strings.HasPrefix(parts[4], "recv:") {
				if strings.Count(s, "connected") != 1 || strings.Index(s, "connected") < strings.Index(s, "bind") {
					bad4 = "connected callback misplaced: " + s
				}
				bad5 = "shutdown sequence is [" + s + "], expected [bind connected wait-for-stop signal-driver wait-for-driver]"
			} else {
				sig := strings.TrimPrefix(parts[3], "close:")
				done := strings.TrimPrefix(parts[4], "recv:")
				// the channel closed must be the first channel handed to the driver, the one awaited the second
				for _, e := range pa.Events {
					if e.Kind == "call" && strings.HasSuffix(e.Name, ".Listen") && len(e.Args) >= 3 {
						if e.Args[1].String() != sig || e.Args[2].String() != done {
							bad5 = "the stop/done channels are not the ones handed to the driver"
						}
					}
				}
				if sig == done {
					bad5 = "the same channel is used to signal and to await the driver"
				}
			}
			if en != 1 {
				bad5 = "listen does not return nil after an orderly shutdown"
			}
		}
		// the result must not be something the datagram handler can write: the handler runs on the driver's
		// goroutine for every datagram, so a variable of the listen function that it assigns (a named result, a
		// shared err) makes the value returned after an orderly shutdown depend on the last datagram
		if handler.Parent() != nil {
			for i, fv := range handler.FreeVars {
				written := false
				for _, b := range handler.Blocks {
					for _, in := range b.Instrs {
						if st, ok := in.(*ssa.Store); ok && rootOf(st.Addr) == ssa.Value(fv) {
							written = true
						}
					}
				}
				if !written {
					continue
				}
				// the variable in the parent: read there (returned, tested) after the handler exists?
				for _, mc := range closuresOf(handler.Parent()) {
					if mc.Fn != ssa.Value(handler) || i >= len(mc.Bindings) {
						continue
					}
					al, ok := mc.Bindings[i].(*ssa.Alloc)
					if !ok || al.Referrers() == nil {
						continue
					}
					for _, ref := range *al.Referrers() {
						if ld, ok := ref.(*ssa.UnOp); ok && ld.Op.String() == "*" && ld.Referrers() != nil {
							for _, use := range *ld.Referrers() {
								if _, isRet := use.(*ssa.Return); isRet {
									bad5 = "the value " + calleeName(handler.Parent()) + " returns is the variable '" + fv.Name() + "' which the datagram handler assigns: after an orderly shutdown the result is the outcome of the last datagram, not nil"
								}
							}
						}
					}
				}
			}
		}
		r.Check(bad4 == "" && nOK >= 1, "LS4", calleeName(inner), p.Pos(inner.Pos()), "connected once, after bind", bad4)
		r.Check(bad5 == "" && nOK >= 1, "LS5", calleeName(inner), p.Pos(inner.Pos()), "signal -> await -> return nil", bad5)
	}
	// ---- LS3 + A6s: the API-level Listen and its consumer goroutine
	{
		nChan, nGo := 0, 0
		unbuffered := true
		var consumer *goTarget
		deferClose := false
		var chainBlocks []*ssa.BasicBlock
		for _, f := range chain {
			chainBlocks = append(chainBlocks, f.Blocks...)
		}
		for _, b := range chainBlocks {
			for _, in := range b.Instrs {
				switch x := in.(type) {
				case *ssa.MakeChan:
					// the pipe carries events (pointers); the driver's stop/done channels carry no data
					if _, isPtr := x.Type().Underlying().(*types.Chan).Elem().Underlying().(*types.Pointer); !isPtr {
						continue
					}
					nChan++
					if c, ok := constInt(x.Size); !ok || c != 0 {
						unbuffered = false
					}
				case *ssa.Go:
					nGo++
					consumer = goTargetOf(x)
				case *ssa.Defer:
					if bi, ok := x.Call.Value.(*ssa.Builtin); ok && bi.Name() == "close" {
						if _, isPtr := x.Call.Args[0].Type().Underlying().(*types.Chan).Elem().Underlying().(*types.Pointer); isPtr {
							deferClose = true
						}
					}
				}
			}
		}
		d := ""
		switch {
		case nChan != 1:
			d = fmt.Sprintf("%d pipes: delivery order needs exactly one pipe between the receive loop and the consumer", nChan)
		case nGo != 1 || consumer == nil:
			d = fmt.Sprintf("%d consumer goroutines", nGo)
		case !deferClose && doneSignal(chainBlocks, consumer) == nil:
			d = "the pipe is not closed when listening ends, so the consumer goroutine never ends"
		}
		pipeClosed := deferClose
		_ = unbuffered
		r.Check(d == "", "LS3", "Listen:pipe", p.Pos(lfn.Pos()), "one pipe, one consumer, closed on return", d)
		if consumer != nil {
			cf := consumer.Fn
			w := NewWalker(p)
			w.LoopFuel = bound(2, 3)
			upk := p.SSAPkg("uhppote")
			helpers := inlineHelpers([]*ssa.Package{upk}, func(f *ssa.Function) bool { return a.Senders[f] != "" })
			w.Inline = func(f *ssa.Function, d int) bool {
				if f.Parent() != nil {
					return true
				}
				if f.Object() != nil && f.Object().Exported() {
					return false
				}
				res := f.Signature.Results()
				if res.Len() == 1 && isBoolType(res.At(0).Type()) {
					return simplePredicate(f)
				}
				return helpers(f, d)
			}
			var evT types.Type
			w.OnRecv = func(w *Walker, ch *Term, t types.Type, id int) (*Term, bool) {
				pt, ok := t.Underlying().(*types.Pointer)
				if !ok {
					return nil, false
				}
				evT = pt.Elem()
				cell := w.newCell("event", pt.Elem(), true)
				cell.Val = a.replyTerm(namedUnderlyingLayout(a, pt.Elem()), "reply")
				cell.Val.Typ = pt.Elem()
				// nil element = closed pipe: decided by an atom (a pipe that is never closed never yields nil: the
				// consumer is then ended by the done signal, a case of its select)
				if pipeClosed && !w.boolAtom(fmt.Sprintf("pipe-open#%d", id), nil) {
					return mkNil(t), true
				}
				return &Term{Op: "ptr", Cell: cell, Typ: t}, true
			}
			// bind free variables to the closures captured from Listen (sysdatetime helper)
			var bindings []ssa.Value
			if mc, ok := consumer.Go.Call.Value.(*ssa.MakeClosure); ok {
				bindings = mc.Bindings
			}
			binds := make([]*Term, len(bindings))
			for i, bv := range bindings {
				if mc, ok := bv.(*ssa.MakeClosure); ok {
					binds[i] = &Term{Op: "closure", Fn: mc.Fn.(*ssa.Function), Typ: mc.Type()}
				} else if al, ok := bv.(*ssa.Alloc); ok {
					// a captured variable holding a closure: find the closure stored into it
					for _, ref := range *al.Referrers() {
						if st, ok := ref.(*ssa.Store); ok {
							var cfn *ssa.Function
							if mc, ok := st.Val.(*ssa.MakeClosure); ok {
								cfn = mc.Fn.(*ssa.Function)
							} else if f, ok := st.Val.(*ssa.Function); ok {
								cfn = f
							}
							if cfn != nil {
								c := w.newCellStatic(al.Comment, al.Type().Underlying().(*types.Pointer).Elem())
								c.Val = &Term{Op: "closure", Fn: cfn, Typ: st.Val.Type()}
								binds[i] = &Term{Op: "ptr", Cell: c, Typ: al.Type()}
							}
						}
					}
				}
			}
			paths := w.Walk(cf, symbolicArgs(cf), binds)
			if os.Getenv("UHLINT_DEBUG") != "" {
				for _, pa := range paths {
					fmt.Println("CONSUMER:", pa.Outcome, pa.Detail, pa.State.Describe())
				}
			}
			bad := ""
			sigs := map[string]bool{}
			nEnd := 0
			for _, pa := range paths {
				if pa.Outcome == "truncated" {
					continue
				}
				if pa.Outcome != "return" {
					bad = "consumer path ends in " + pa.Outcome + ": " + pa.Detail
					continue
				}
				nEnd++
				nRecv, nEv := 0, 0
				for _, e := range pa.Events {
					if e.Kind == "recv" {
						nRecv++
					}
					if e.Kind == "call" && strings.HasSuffix(e.Name, ".OnEvent") {
						nEv++
						m := map[string]*Term{}
						flatten("r0", e.Snap[len(e.Snap)-1], m, true)
						keys := []string{}
						for k, v := range m {
							keys = append(keys, k+"="+v.String())
						}
						sort.Strings(keys)
						sigs[strings.Join(keys, ";")] = true
					}
				}
				if nEv != nRecv-1 {
					bad = fmt.Sprintf("%d elements received but %d event callbacks on a path that ends with the closed pipe", nRecv-1, nEv)
				}
			}
			r.Check(bad == "" && nEnd >= 1, "LS3", "Listen:consumer", p.Pos(cf.Pos()), fmt.Sprintf("%d terminating paths", nEnd), bad)
			// LS7: consecutive events share no storage
			bad7 := ""
			n7 := 0
			for _, pa := range paths {
				var evs []Event
				for _, e := range pa.Events {
					if e.Kind == "call" && strings.HasSuffix(e.Name, ".OnEvent") {
						evs = append(evs, e)
					}
				}
				if len(evs) < 2 {
					continue
				}
				n7++
				a, b := storageIDs(evs[0].Snap[len(evs[0].Snap)-1]), storageIDs(evs[1].Snap[len(evs[1].Snap)-1])
				for id := range a {
					if b[id] {
						bad7 = "two consecutive events are delivered with shared storage (" + id + "): a status already handed to the callback changes when the next event is decoded"
					}
				}
			}
			r.Check(bad7 == "" && n7 >= 1, "LS7", "Listen:consumer", p.Pos(cf.Pos()), fmt.Sprintf("%d two-event paths", n7), bad7)
			// sibling: GetStatus success results
			gs := map[string]bool{}
			if ops, _, err := a.WalkOp("GetStatus", 1); err == nil {
				for _, op := range ops {
					if op.SendErr == 1 && op.ErrNil == 1 {
						keys := []string{}
						for k, v := range op.Results {
							keys = append(keys, k+"="+v.String())
						}
						sort.Strings(keys)
						gs[strings.Join(keys, ";")] = true
					}
				}
			}
			d := ""
			if os.Getenv("UHLINT_DEBUG") != "" {
				for k := range gs {
					fmt.Println("GS:", k)
				}
				for k := range sigs {
					fmt.Println("LS:", k)
				}
			}
			if keysOf(gs) != keysOf(sigs) {
				d = "the status delivered to the event callback is wired differently from the status GetStatus returns: " + firstDiff(gs, sigs)
			}
			r.Check(d == "" && len(gs) > 0, "A6s", "Listen~GetStatus", p.Pos(cf.Pos()), fmt.Sprintf("%d result shapes agree", len(gs)), d)
			_ = evT
		}
	}
	// ---- LS6: the driver's listen goroutines
	for _, sf := range SocketFns(p) {
		if !sf.Listen {
			continue
		}
		var waiter, reader *ssa.Function
		for _, gt := range goTargetsIn(sf.Fn) {
			if readsSocket(gt.Fn) {
				reader = gt.Fn
			} else {
				waiter = gt.Fn
			}
		}
		if waiter == nil || reader == nil {
			r.Bad("LS6", sf.Name, p.Pos(sf.Fn.Pos()), "expected a stop-signal goroutine and a read-loop goroutine")
			continue
		}
		// waiter: recv(signal) precedes Close
		{
			w := NewWalker(p)
			w.Inline = inlineHelpers([]*ssa.Package{p.SSAPkg("uhppote")}, nil)
			bad := ""
			for _, pa := range w.Walk(waiter, symbolicArgs(waiter), nil) {
				ri, ci := -1, -1
				for i, e := range pa.Events {
					if e.Kind == "recv" && ri < 0 {
						ri = i
					}
					if e.Kind == "call" && strings.HasSuffix(e.Name, ".Close") {
						ci = i
					}
				}
				if ri < 0 || ci < 0 || ci < ri {
					bad = "the socket is not closed after (and only after) the stop signal"
				}
			}
			r.Check(bad == "", "LS6", calleeName(waiter), p.Pos(waiter.Pos()), "recv(signal) -> Close", bad)
		}
		{
			w := NewWalker(p)
			w.LoopFuel = 2
			w.Inline = inlineHelpers([]*ssa.Package{p.SSAPkg("uhppote")}, nil)
			bad := ""
			nRet := 0
			for _, pa := range w.Walk(reader, symbolicArgs(reader), nil) {
				for i, e := range pa.Events {
					if e.Kind == "call" && strings.HasPrefix(e.Name, "dyn:") && len(e.Args) == 1 && e.Args[0] != nil && e.Args[0].Typ != nil && isByteSlice(e.Args[0].Typ) {
						// handler call: its argument must be a slice of the buffer just read into, bounded by the read count
						arg := e.Args[0].String()
						okArg := false
						for j := i - 1; j >= 0; j-- {
							pe := pa.Events[j]
							if isReadCall(pe) {
								okArg = strings.Contains(arg, pe.Result.String()+"#0") && len(pe.Args) >= 2 && (strings.HasPrefix(arg, pe.Args[1].String()) || viewOfReadBuffer(e.Args[0], pe))
								break
							}
						}
						if !okArg {
							bad = "the handler is not given exactly the bytes just read: " + cut(arg, 80)
						}
					}
				}
				if pa.Outcome == "return" {
					nRet++
					last := ""
					for _, e := range pa.Events {
						if e.Kind == "close" {
							last = "close"
						} else if isReadCall(e) {
							last = "read"
						}
					}
					if last != "close" {
						bad = "the read loop can end without closing the 'done' channel"
					}
				}
			}
			r.Check(bad == "" && nRet >= 1, "LS6", calleeName(reader), p.Pos(reader.Pos()), "handler gets m[:N]; done closed after the loop", bad)
		}
	}
}

func firstDiff(a, b map[string]bool) string {
	for k := range a {
		if !b[k] {
			return "GetStatus shape without counterpart: " + cut(k, 300)
		}
	}
	for k := range b {
		if !a[k] {
			return "listener shape without counterpart: " + cut(k, 300)
		}
	}
	return ""
}

// namedUnderlyingLayout: the event type is a defined type over a message struct; find a named type with a layout.
func namedUnderlyingLayout(a *API, t types.Type) types.Type {
	if n, ok := types.Unalias(t).(*types.Named); ok {
		name := relPkg(n.Obj().Pkg().Path()) + "." + n.Obj().Name()
		if a.L.Layouts[name] != nil {
			return t
		}
	}
	return t
}

func (w *Walker) newCellStatic(name string, t types.Type) *Cell {
	return w.newCell(name, t, true)
}

// CF1: the addresses the constructor is given are the addresses the client and its driver hold. Every store into an
// address-typed field (netip.AddrPort or one of the address types of package types) inside the constructor's
// package stores a value that is a parameter, a captured variable or a field of one - never something computed
// (a call, a choice between two values).
func RuleCF1(r *Report, p *Program) {
	r.Rule("CF1", "the bind, broadcast and listen addresses given to the constructor are stored as given into the client and its driver (no adjusted port, no substituted address)", 2)
	up := p.SSAPkg("uhppote")
	isAddr := func(t types.Type) bool {
		tn := typeName(t)
		return tn == "netip.AddrPort" || strings.HasSuffix(tn, "types.BindAddr") || strings.HasSuffix(tn, "types.BroadcastAddr") || strings.HasSuffix(tn, "types.ListenAddr")
	}
	var asGiven func(v ssa.Value, depth int) bool
	asGiven = func(v ssa.Value, depth int) bool {
		if depth > 8 {
			return false
		}
		switch x := v.(type) {
		case *ssa.Parameter, *ssa.FreeVar:
			return true
		case *ssa.Field:
			return asGiven(x.X, depth+1)
		case *ssa.FieldAddr:
			return asGiven(x.X, depth+1)
		case *ssa.UnOp:
			return x.Op == token.MUL && asGiven(x.X, depth+1)
		case *ssa.ChangeType:
			return asGiven(x.X, depth+1)
		case *ssa.Alloc:
			// a local holding a copy of a parameter (go/ssa spills struct parameters): stored once
			var st *ssa.Store
			if x.Referrers() == nil {
				return false
			}
			for _, ref := range *x.Referrers() {
				if s, ok := ref.(*ssa.Store); ok && s.Addr == ssa.Value(x) {
					if st != nil {
						return false
					}
					st = s
				}
			}
			return st != nil && asGiven(st.Val, depth+1)
		}
		return false
	}
	// construction: the constructor, the functions only it (or such functions) calls, and their function literals
	ctor := p.Func("uhppote", "NewUHPPOTE")
	memo := map[*ssa.Function]int{}
	var partOfCtor func(f *ssa.Function, depth int) bool
	partOfCtor = func(f *ssa.Function, depth int) bool {
		if f == nil || depth > 4 {
			return false
		}
		if f == ctor {
			return true
		}
		if f.Parent() != nil {
			return partOfCtor(f.Parent(), depth+1)
		}
		switch memo[f] {
		case 1:
			return true
		case 2, 3:
			return false
		}
		memo[f] = 3
		if f.Object() == nil || f.Object().Exported() {
			memo[f] = 2
			return false
		}
		callers := 0
		for _, g := range p.AllFuncs {
			for _, b := range g.Blocks {
				for _, in := range b.Instrs {
					for _, op := range in.Operands(nil) {
						if *op != ssa.Value(f) {
							continue
						}
						ci, isCall := in.(ssa.CallInstruction)
						if !isCall || ci.Common().Value != ssa.Value(f) || !partOfCtor(g, depth+1) {
							memo[f] = 2
							return false
						}
						callers++
					}
				}
			}
		}
		if callers == 0 {
			memo[f] = 2
			return false
		}
		memo[f] = 1
		return true
	}
	n := 0
	for _, fn := range p.AllFuncs {
		if pkgOf(fn) != up || ctor == nil || !partOfCtor(fn, 0) {
			continue
		}
		for _, b := range fn.Blocks {
			for _, in := range b.Instrs {
				st, ok := in.(*ssa.Store)
				if !ok {
					continue
				}
				fa, ok := st.Addr.(*ssa.FieldAddr)
				if !ok || !isAddr(st.Val.Type()) {
					continue
				}
				pt, ok := fa.X.Type().Underlying().(*types.Pointer)
				if !ok {
					continue
				}
				nt, ok := types.Unalias(pt.Elem()).(*types.Named)
				if !ok || nt.Obj().Pkg() == nil || nt.Obj().Pkg() != up.Pkg {
					continue
				}
				stt, ok := nt.Underlying().(*types.Struct)
				if !ok {
					continue
				}
				// the client and its driver: structs of the package with a bind/listen/broadcast address field
				fname := stt.Field(fa.Field).Name()
				if c, isC := st.Val.(*ssa.Const); isC && c.Value == nil {
					continue // the zero value of a literal's unset field
				}
				n++
				key := nt.Obj().Name() + "." + fname + " in " + calleeName(fn)
				if asGiven(st.Val, 0) {
					r.OK("CF1", key, p.Pos(st.Pos()), "stored as given", true)
				} else {
					r.Bad("CF1", key, p.Pos(st.Pos()), "the address stored into "+nt.Obj().Name()+"."+fname+" is computed ("+st.Val.String()+"), not the value the constructor was given")
				}
			}
		}
	}
}

// ---- IM rules ----------------------------------------------------------------------------

func RuleImmutable(r *Report, p *Program) {
	r.Rule("IM1", "fields of the client and its controller table are written only inside the constructor", 1)
	r.Rule("IM2", "Clone of a configured controller / of a card shares no slice or map with the original; the constructor stores clones", 3)
	r.Rule("IM3", "DeviceList returns a map allocated in the call", 1)
	l, _ := NewLayoutEngine(p)
	a, err := NewAPI(p, l)
	if err != nil {
		r.Fatal("IM1", "api", err.Error())
		return
	}
	ctor := p.Func("uhppote", "NewUHPPOTE")
	implPtr := types.NewPointer(a.Impl)
	// IM1: SSA scan for stores through *client or map updates on maps loaded from it
	n := 0
	// construction may be spread over helpers: an internal constructor, functional options. A function takes part
	// in construction when every use of it is a static call from the constructor or from such a function; a
	// function literal made by such a function (an option) does too, unless it is stored somewhere (then it
	// could run later).
	ctorOnly := map[*ssa.Function]int{}
	var isCtorOnly func(f *ssa.Function) bool
	isCtorOnly = func(f *ssa.Function) bool {
		if f == nil {
			return false
		}
		if f == ctor {
			return true
		}
		switch ctorOnly[f] {
		case 1, 3:
			return true
		case 2:
			return false
		}
		ctorOnly[f] = 3
		res := false
		if f.Parent() != nil {
			res = isCtorOnly(f.Parent())
			if res {
				for _, mc := range closuresOf(f.Parent()) {
					if mc.Fn == ssa.Value(f) && mc.Referrers() != nil {
						for _, ref := range *mc.Referrers() {
							if st, ok := ref.(*ssa.Store); ok && st.Val == ssa.Value(mc) {
								if _, isLocal := rootOf(st.Addr).(*ssa.Alloc); !isLocal {
									res = false
								}
							}
							if _, isGo := ref.(*ssa.Go); isGo {
								res = false
							}
						}
					}
				}
			}
		} else if f.Object() != nil && !f.Object().Exported() && pkgOf(f) == p.SSAPkg("uhppote") {
			calls := 0
			res = true
			for _, caller := range p.AllFuncs {
				for _, b := range caller.Blocks {
					for _, in := range b.Instrs {
						for _, op := range in.Operands(nil) {
							if *op != ssa.Value(f) {
								continue
							}
							ci, isCall := in.(ssa.CallInstruction)
							if !isCall || ci.Common().Value != ssa.Value(f) {
								res = false
								continue
							}
							if _, isGo := in.(*ssa.Go); isGo {
								res = false
							}
							calls++
							if !isCtorOnly(caller) {
								res = false
							}
						}
					}
				}
			}
			if calls == 0 {
				res = false
			}
		}
		if res {
			ctorOnly[f] = 1
		} else {
			ctorOnly[f] = 2
		}
		return res
	}
	for _, fn := range p.AllFuncs {
		if fn == ctor || isCtorOnly(fn) {
			continue
		}
		for _, b := range fn.Blocks {
			for _, in := range b.Instrs {
				n++
				switch x := in.(type) {
				case *ssa.Store:
					root := x.Addr
					for {
						if fa, ok := root.(*ssa.FieldAddr); ok {
							if types.Identical(fa.X.Type(), implPtr) {
								r.Bad("IM1", calleeName(fn), p.Pos(x.Pos()), "writes a field of the client after construction")
							}
							root = fa.X
							continue
						}
						if ia, ok := root.(*ssa.IndexAddr); ok {
							root = ia.X
							continue
						}
						break
					}
				case *ssa.MapUpdate:
					if ld, ok := x.Map.(*ssa.UnOp); ok {
						if fa, ok := ld.X.(*ssa.FieldAddr); ok && types.Identical(fa.X.Type(), implPtr) {
							r.Bad("IM1", calleeName(fn), p.Pos(x.Pos()), "writes the client's controller table after construction")
						}
					}
				}
			}
		}
	}
	r.OK("IM1", "all-functions", "", fmt.Sprintf("%d instructions scanned", n), true)
	// IM2: Clone methods
	for _, cl := range []struct{ rel, name string }{{"uhppote", "Device.Clone"}, {"types", "(*Card).Clone"}} {
		fn := p.Func(cl.rel, cl.name)
		if fn == nil {
			r.Fatal("IM2", cl.name, "not found")
			continue
		}
		bad := ""
		paths := walkSimple(p, fn, []string{"src"}, nil)
		for _, pa := range paths {
			if pa.Outcome != "return" {
				bad = "path ends in " + pa.Outcome
				continue
			}
			res := pa.Results[0]
			st := materialiseStruct(stripPtr(res))
			if st == nil {
				bad = "result is not a struct value"
				continue
			}
			for i, f := range st.FNames {
				ft := fieldType(st.Typ, f)
				if ft == nil {
					continue
				}
				v := st.Args[i]
				switch ft.Underlying().(type) {
				case *types.Slice:
					if !(v.Op == "sref" && !v.Cell.Sym) && !v.IsNilConst() && !(v.Op == "fresh" && strings.HasPrefix(v.Name, "make(")) {
						bad = "field " + f + " of the clone is " + cut(v.String(), 60) + ": it shares the original's backing array"
					}
				case *types.Map:
					if v.Op != "mapv" && !v.IsNilConst() {
						bad = "field " + f + " of the clone is " + cut(v.String(), 60) + ": it shares the original's map"
					}
				}
			}
		}
		r.Check(bad == "" && len(paths) > 0, "IM2", cl.rel+"."+cl.name, p.Pos(fn.Pos()), "slices and maps freshly allocated", bad)
	}
	// constructor stores clones
	{
		bad := "constructor never stores a controller"
		// the constructor and the in-module helpers it calls (a clone-into-map loop may live in a helper)
		var fns []*ssa.Function
		seenFn := map[*ssa.Function]bool{}
		var gather func(f *ssa.Function, depth int)
		gather = func(f *ssa.Function, depth int) {
			if f == nil || f.Blocks == nil || seenFn[f] || depth > 3 {
				return
			}
			seenFn[f] = true
			fns = append(fns, f)
			for _, c := range staticCallees(f) {
				if inModule(c) && c.Name() != "Clone" {
					gather(c, depth+1)
				}
			}
		}
		gather(ctor, 0)
		for _, f := range fns {
			for _, b := range f.Blocks {
				for _, in := range b.Instrs {
					mu, ok := in.(*ssa.MapUpdate)
					if !ok {
						continue
					}
					// only maps of controllers (value type with a Clone method)
					mt, ok := mu.Map.Type().Underlying().(*types.Map)
					if !ok || methodOfType(p, mt.Elem(), "Clone") == nil {
						continue
					}
					if call, ok := mu.Value.(*ssa.Call); ok {
						if cf := call.Call.StaticCallee(); cf != nil && cf.Name() == "Clone" {
							if bad == "constructor never stores a controller" {
								bad = ""
							}
							continue
						}
					}
					bad = "the constructor stores the caller's controller value itself, not a clone (at " + p.Pos(mu.Pos()) + ")"
				}
			}
		}
		r.Check(bad == "", "IM2", "constructor", p.Pos(ctor.Pos()), "stores Clone() results", bad)
	}
	// IM3
	if fn := a.Ops["DeviceList"]; fn != nil {
		bad := ""
		for _, b := range fn.Blocks {
			for _, in := range b.Instrs {
				if ret, ok := in.(*ssa.Return); ok {
					v := ret.Results[0]
					if ld, ok := v.(*ssa.UnOp); ok {
						if al, ok := ld.X.(*ssa.Alloc); ok {
							for _, ref := range *al.Referrers() {
								if st, ok := ref.(*ssa.Store); ok {
									v = st.Val
								}
							}
						}
					}
					if _, ok := v.(*ssa.MakeMap); !ok {
						bad = "returns a map that is not allocated in the call (" + v.String() + ")"
					}
				}
			}
		}
		r.Check(bad == "", "IM3", "DeviceList", p.Pos(fn.Pos()), "fresh map", bad)
	}
}

func stripPtr(t *Term) *Term {
	if t.Op == "ptr" && t.Cell != nil && !t.Cell.Sym {
		v := t.Cell.Val
		for _, s := range t.Path {
			v = project(v, s)
		}
		return v
	}
	return t
}

// RuleListenSibling runs only the GetStatus ~ listener agreement (A6s).
// RuleListenOnly: the listener rules named in ids, for properties that need only some of them.
func RuleListenOnly(r *Report, p *Program, ids map[string]bool) {
	tmp := NewReport(r.Property, r.Tier)
	RuleListen(tmp, p)
	for id, doc := range tmp.ruleDoc {
		if ids[id] {
			r.Rule(id, doc, tmp.minCount[id])
		}
	}
	for _, o := range tmp.Obs {
		if ids[o.Rule] {
			r.add(o)
		}
	}
	for _, f := range tmp.fatal {
		r.Fatal("LS5", "listener", f)
	}
}

func RuleListenSibling(r *Report, p *Program) {
	tmp := NewReport(r.Property, r.Tier)
	RuleListen(tmp, p)
	r.Rule("A6s", "the status built for an event is wired exactly like the status GetStatus returns (sibling implementations agree)", 1)
	for _, o := range tmp.Obs {
		if o.Rule == "A6s" {
			r.add(o)
		}
	}
	for _, f := range tmp.fatal {
		r.Fatal("A6s", "listener", f)
	}
}

// storageIDs: identities of the mutable storage (local cells, maps) reachable from a value.
func storageIDs(t *Term) map[string]bool {
	out := map[string]bool{}
	seen := map[*Term]bool{}
	var walk func(x *Term)
	walk = func(x *Term) {
		if x == nil || seen[x] {
			return
		}
		seen[x] = true
		switch x.Op {
		case "ptr", "sref":
			if x.Cell != nil && !x.Cell.Sym {
				out["cell "+x.Cell.Name] = true
				walk(x.Cell.Val)
			}
		case "mapv":
			out[fmt.Sprintf("map#%d", x.ID)] = true
		}
		for _, a := range x.Args {
			walk(a)
		}
	}
	walk(t)
	return out
}

// methodOfType: the method `name` of t or *t, if any.
func methodOfType(p *Program, t types.Type, name string) *ssa.Function {
	for _, typ := range []types.Type{t, types.NewPointer(t)} {
		ms := p.SSA.MethodSets.MethodSet(typ)
		for i := 0; i < ms.Len(); i++ {
			if ms.At(i).Obj().Name() == name {
				return p.SSA.MethodValue(ms.At(i))
			}
		}
	}
	return nil
}

// viewOfReadBuffer: t is buf[0:n] (or buf[:n]) of the storage the read wrote into, n being the count it returned.
func viewOfReadBuffer(t *Term, read Event) bool {
	if t == nil || t.Op != "slice" || len(t.Args) < 3 || len(read.Args) < 2 || read.Result == nil {
		return false
	}
	cellOf := func(x *Term) *Cell {
		for x != nil {
			switch x.Op {
			case "sref", "ptr":
				return x.Cell
			case "slice":
				x = x.Args[0]
			default:
				return nil
			}
		}
		return nil
	}
	bc, rc := cellOf(t.Args[0]), cellOf(read.Args[1])
	if bc == nil || bc != rc {
		return false
	}
	if t.Args[1] != nil {
		if v, ok := t.Args[1].Int64(); !ok || v != 0 {
			return false
		}
	}
	return t.Args[2] != nil && t.Args[2].String() == read.Result.String()+"#0"
}
