package main

import (
	"go/types"

	"golang.org/x/tools/go/ssa"
)

// ---------------------------------------------------------------------------------------
// Callee summaries for "does not modify its arguments". An operation may hand an argument (a card with its
// map of doors, a profile, a slice) to a function that is not walked in line (an exported method of package
// types, say). mutatesParam(fn, i) holds when fn can write storage reachable from its i-th parameter: a map
// update, an element or field store, copy/delete/clear, on a value derived from the parameter (fields,
// elements, loads, slices, conversions, copies into locals, phis), or handing such a value to another
// in-module function that does. Values, not identities: a struct passed by value still shares its maps and
// slices with the caller.
// ---------------------------------------------------------------------------------------

var mutatesMemo = map[*ssa.Function]map[int]int{}

func hasRefContent(t types.Type, depth int) bool {
	if depth > 4 {
		return false
	}
	switch u := t.Underlying().(type) {
	case *types.Map, *types.Slice, *types.Pointer:
		return true
	case *types.Struct:
		for i := 0; i < u.NumFields(); i++ {
			if hasRefContent(u.Field(i).Type(), depth+1) {
				return true
			}
		}
	case *types.Array:
		return hasRefContent(u.Elem(), depth+1)
	}
	return false
}

func mutatesParam(fn *ssa.Function, pi int, depth int) bool {
	if fn == nil || fn.Blocks == nil || pi >= len(fn.Params) || depth > 4 {
		return false
	}
	if !hasRefContent(fn.Params[pi].Type(), 0) {
		return false
	}
	if m, ok := mutatesMemo[fn]; ok {
		switch m[pi] {
		case 1:
			return true
		case 2, 3:
			return false
		}
	} else {
		mutatesMemo[fn] = map[int]int{}
	}
	mutatesMemo[fn][pi] = 3
	derived := map[ssa.Value]bool{fn.Params[pi]: true}
	// ownCopy: local storage holding a copy of (part of) the parameter: writing the local itself is not a write
	// to the caller's storage, but what is loaded from it still aliases the caller's maps and slices
	changed := true
	for changed {
		changed = false
		mark := func(v ssa.Value) {
			if v != nil && !derived[v] {
				derived[v] = true
				changed = true
			}
		}
		for _, b := range fn.Blocks {
			for _, in := range b.Instrs {
				switch x := in.(type) {
				case *ssa.Field:
					if derived[x.X] && hasRefContent(x.Type(), 0) {
						mark(x)
					}
				case *ssa.FieldAddr:
					if derived[x.X] {
						mark(x)
					}
				case *ssa.IndexAddr:
					if derived[x.X] {
						mark(x)
					}
				case *ssa.Index:
					if derived[x.X] && hasRefContent(x.Type(), 0) {
						mark(x)
					}
				case *ssa.Lookup:
					if derived[x.X] && hasRefContent(x.Type(), 0) {
						mark(x)
					}
				case *ssa.UnOp:
					if x.Op.String() == "*" && derived[x.X] && hasRefContent(x.Type(), 0) {
						mark(x)
					}
				case *ssa.Slice:
					if derived[x.X] {
						mark(x)
					}
				case *ssa.ChangeType:
					if derived[x.X] {
						mark(x)
					}
				case *ssa.Convert:
					if derived[x.X] && hasRefContent(x.Type(), 0) {
						mark(x)
					}
				case *ssa.MakeInterface:
					if derived[x.X] {
						mark(x)
					}
				case *ssa.Phi:
					for _, e := range x.Edges {
						if derived[e] {
							mark(x)
						}
					}
				case *ssa.Extract:
					if derived[x.Tuple] && hasRefContent(x.Type(), 0) {
						mark(x)
					}
				case *ssa.Next:
					if derived[x.Iter] {
						mark(x)
					}
				case *ssa.Range:
					if derived[x.X] {
						mark(x)
					}
				case *ssa.Store:
					// a copy into a local: the local now holds references into the caller's storage
					if derived[x.Val] {
						if al, ok := rootOf(x.Addr).(*ssa.Alloc); ok {
							mark(al)
						}
					}
				}
			}
		}
	}
	res := false
	localCopy := func(addr ssa.Value) bool {
		// the address is inside a local variable of this function (the copy itself), not behind a reference
		// loaded from it
		for {
			switch a := addr.(type) {
			case *ssa.Alloc:
				return true
			case *ssa.FieldAddr:
				addr = a.X
			case *ssa.IndexAddr:
				if _, isPtrToArray := a.X.Type().Underlying().(*types.Pointer); isPtrToArray {
					addr = a.X
				} else {
					return false
				}
			default:
				return false
			}
		}
	}
scan:
	for _, b := range fn.Blocks {
		for _, in := range b.Instrs {
			switch x := in.(type) {
			case *ssa.MapUpdate:
				if derived[x.Map] {
					res = true
					break scan
				}
			case *ssa.Store:
				if derived[x.Addr] && !localCopy(x.Addr) {
					res = true
					break scan
				}
			case ssa.CallInstruction:
				c := x.Common()
				if bi, ok := c.Value.(*ssa.Builtin); ok {
					switch bi.Name() {
					case "copy", "delete", "clear":
						if len(c.Args) > 0 && derived[c.Args[0]] {
							res = true
							break scan
						}
					}
					continue
				}
				callee := c.StaticCallee()
				if callee == nil || !inModule(callee) {
					continue
				}
				for i, a := range c.Args {
					if derived[a] && mutatesParam(callee, i, depth+1) {
						res = true
						break scan
					}
				}
			}
		}
	}
	if res {
		mutatesMemo[fn][pi] = 1
	} else {
		mutatesMemo[fn][pi] = 2
	}
	return res
}
