package main

import (
	"fmt"
	"sort"
	"strings"

	"golang.org/x/tools/go/ssa"
)

type RoleSpec struct {
	Parser    string  `json:"parser"`
	Type      string  `json:"type"`
	Default   *int64  `json:"default_port"`
	Forbidden []int64 `json:"forbidden_ports"`
}

type RolesSpec struct {
	Roles map[string]*RoleSpec `json:"roles"`
}

func inlineTypesSmall(p *Program) func(f *ssa.Function, d int) bool {
	tp := p.SSAPkg("types")
	return func(f *ssa.Function, d int) bool {
		return f.Parent() != nil || (f.Pkg == tp && len(f.Blocks) <= 2)
	}
}

// AD1 / AD2: port rules and default/omit agreement of the four address roles.
func RuleAddr(r *Report, p *Program) {
	r.Rule("AD1", "per role: text with a port is accepted iff the port is not forbidden and yields exactly the parsed address:port; text without a port gets the role's default port, or is rejected when the port is mandatory", 4)
	r.Rule("AD2", "the port that String() omits is the parser's default port, and the default is not a forbidden port", 4)
	r.Rule("AD0", "all parsing entry points of a role (Set, UnmarshalJSON) delegate to the role's parser", 8)
	var spec RolesSpec
	if err := loadJSON("/verif/spec/roles.json", &spec); err != nil {
		r.Fatal("AD1", "roles.json", err.Error())
		return
	}
	names := []string{}
	for n := range spec.Roles {
		names = append(names, n)
	}
	sort.Strings(names)
	for _, role := range names {
		rs := spec.Roles[role]
		fn := p.Func("types", rs.Parser)
		if fn == nil {
			r.Fatal("AD1", role, "parser "+rs.Parser+" not found")
			continue
		}
		w := NewWalker(p)
		w.Inline = inlineTypesSmall(p)
		paths := w.Walk(fn, []*Term{{Op: "param", Name: "s", Typ: fn.Params[0].Type()}}, nil)
		forb := IntervalSet{}
		for _, f := range rs.Forbidden {
			forb = append(forb, Interval{f, f})
		}
		forb = normalise(forb)
		bad := ""
		nWith, nWithout := 0, 0
		okRegion := IntervalSet{}
		for _, pa := range paths {
			if pa.Outcome != "return" || len(pa.Results) != 2 {
				bad = "path ends in " + pa.Outcome
				continue
			}
			en := errNilness(pa, pa.Results[1])
			withPort, ok1 := pa.State.Bools["isnil(netip.ParseAddrPort(s)#1)"]
			noPort, ok2 := pa.State.Bools["isnil(netip.ParseAddr(s)#1)"]
			switch {
			case ok1 && withPort:
				nWith++
				key := "(netip.AddrPort).Port(netip.ParseAddrPort(s)#0)"
				reg, has := pa.State.Ints[key]
				if !has {
					reg = IntervalSet{{0, 65535}}
				}
				inForb := reg.Intersect(forb)
				switch {
				case en == 1:
					if !inForb.Empty() {
						bad = fmt.Sprintf("%s accepts port(s) %s which the %s role forbids", rs.Parser, inForb.String(), role)
					}
					okRegion = append(okRegion, reg...)
					res := termDeepVal(pa.Results[0])
					if !strings.Contains(res, "netip.ParseAddrPort(s)#0") || strings.Contains(res, "AddrPortFrom") {
						bad = "accepted address is not exactly the parsed address:port: " + cut(res, 100)
					}
				case en == 0:
					if !inForb.Equal(reg) {
						bad = fmt.Sprintf("%s rejects port(s) %s which the %s role allows", rs.Parser, reg.Intersect(complement(forb)).String(), role)
					}
				default:
					bad = "error result of unknown nilness"
				}
			case ok2 && noPort:
				nWithout++
				if rs.Default == nil {
					if en != 0 {
						bad = "the port is mandatory for the " + role + " role but text without a port is accepted"
					}
					continue
				}
				if en != 1 {
					bad = "a valid dotted quad without a port is rejected"
					continue
				}
				res := termDeepVal(pa.Results[0])
				want := fmt.Sprintf("netip.AddrPortFrom(netip.ParseAddr(s)#0,%d)", *rs.Default)
				if !strings.Contains(res, want) {
					bad = fmt.Sprintf("default port of the %s role must be %d: result is %s", role, *rs.Default, cut(res, 100))
				}
			default:
				if en == 1 {
					bad = "text that netip did not parse is accepted under [" + cut(pa.State.Describe(), 160) + "]"
				}
			}
		}
		if rs.Default != nil && nWithout == 0 && bad == "" {
			bad = "no path accepts text without a port although the role has a default port"
		}
		if rs.Default == nil && nWithout > 0 && bad == "" {
			// handled above: those paths must all be errors
		}
		if bad == "" {
			allowed := IntervalSet{{0, 65535}}.Intersect(complement(forb))
			got := normaliseUnion(okRegion)
			if !got.Equal(allowed) {
				bad = fmt.Sprintf("accepted ports are %s, the %s role allows %s", got.String(), role, allowed.String())
			}
		}
		r.Check(bad == "" && nWith >= 2, "AD1", role, p.Pos(fn.Pos()), fmt.Sprintf("%d paths (%d with port, %d without)", len(paths), nWith, nWithout), bad)

		// AD2 String()
		sfn := p.Func("types", rs.Type+".String")
		if sfn == nil {
			r.Fatal("AD2", role, rs.Type+".String not found")
			continue
		}
		w2 := NewWalker(p)
		w2.Inline = inlineTypesSmall(p)
		omitted := IntervalSet{}
		bad2 := ""
		for _, pa := range w2.Walk(sfn, []*Term{{Op: "param", Name: "a", Typ: sfn.Params[0].Type()}}, nil) {
			if pa.Outcome != "return" {
				continue
			}
			res := pa.Results[0].String()
			if strings.Contains(res, "Addr(") && !strings.Contains(res, "[a.AddrPort]") && !strings.Contains(res, "a.AddrPort]") {
				// formats the address only: which ports?
				for k, v := range pa.State.Ints {
					if strings.Contains(k, "Port(") {
						omitted = append(omitted, v...)
					}
				}
				if len(pa.State.Ints) == 0 {
					omitted = append(omitted, Interval{0, 65535})
				}
			}
		}
		om := normaliseUnion(omitted)
		switch {
		case rs.Default == nil:
			if !om.Empty() {
				bad2 = "String() omits port(s) " + om.String() + " although the port is mandatory for this role"
			}
		default:
			want := IntervalSet{{*rs.Default, *rs.Default}}
			if !om.Equal(want) {
				bad2 = fmt.Sprintf("String() omits port(s) %s, the parser's default is %d", om.String(), *rs.Default)
			}
			for _, f := range rs.Forbidden {
				if f == *rs.Default {
					bad2 = "the default port is a forbidden port"
				}
			}
		}
		r.Check(bad2 == "", "AD2", role, p.Pos(sfn.Pos()), "omitted port == default", bad2)

		// AD0 delegation
		for _, m := range []string{"Set", "UnmarshalJSON"} {
			mf := p.Func("types", "(*"+rs.Type+")."+m)
			if mf == nil {
				r.Bad("AD0", role+":"+m, "", "method not found")
				continue
			}
			calls := false
			for _, b := range mf.Blocks {
				for _, in := range b.Instrs {
					if c, ok := in.(ssa.CallInstruction); ok && c.Common().StaticCallee() == fn {
						calls = true
					}
				}
			}
			r.Check(calls, "AD0", role+":"+m, p.Pos(mf.Pos()), "calls "+rs.Parser, m+" does not go through "+rs.Parser)
		}
	}
}

func normaliseUnion(s IntervalSet) IntervalSet {
	if len(s) == 0 {
		return nil
	}
	c := append(IntervalSet{}, s...)
	sort.Slice(c, func(i, j int) bool { return c[i].Lo < c[j].Lo })
	out := IntervalSet{c[0]}
	for _, i := range c[1:] {
		last := &out[len(out)-1]
		if i.Lo <= last.Hi+1 {
			if i.Hi > last.Hi {
				last.Hi = i.Hi
			}
		} else {
			out = append(out, i)
		}
	}
	return out
}
