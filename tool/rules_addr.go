package main

import (
	"fmt"
	"os"
	"regexp/syntax"
	"sort"
	"strings"

	"golang.org/x/tools/go/ssa"
)

type RoleSpec struct {
	Parser    string  `json:"parser"`
	Type      string  `json:"type"`
	Default   *int64  `json:"default_port"`
	Forbidden []int64 `json:"forbidden_ports"`
}

type RolesSpec struct {
	Roles map[string]*RoleSpec `json:"roles"`
}

func inlineTypesSmall(p *Program) func(f *ssa.Function, d int) bool {
	tp := p.SSAPkg("types")
	th := typesHelpers(p)
	return func(f *ssa.Function, d int) bool {
		// a pre-filter written as a function (a scanner with loops instead of a regular expression) is a
		// predicate of the text like MatchString: it stays an atom, both outcomes are explored
		if f.Parent() == nil && fnPkg(f) == tp {
			if res := f.Signature.Results(); res.Len() == 1 && isBoolType(res.At(0).Type()) && !simplePredicate(f) && len(f.Blocks) > 2 {
				return false
			}
		}
		return f.Parent() != nil || (fnPkg(f) == tp && len(f.Blocks) <= 2) || th(f, d)
	}
}

// AD1 / AD2: port rules and default/omit agreement of the four address roles.
func RuleAddr(r *Report, p *Program) {
	r.Rule("AD1", "per role: text with a port is accepted iff the port is not forbidden and yields exactly the parsed address:port; text without a port gets the role's default port, or is rejected when the port is mandatory", 4)
	r.Rule("AD2", "the port that String() omits is the parser's default port, and the default is not a forbidden port", 4)
	r.Rule("AD0", "all parsing entry points of a role (Set, UnmarshalJSON) delegate to the role's parser and, when they report success, have stored exactly what it returned", 16)
	var spec RolesSpec
	if err := loadJSON("/verif/spec/roles.json", &spec); err != nil {
		r.Fatal("AD1", "roles.json", err.Error())
		return
	}
	names := []string{}
	for n := range spec.Roles {
		names = append(names, n)
	}
	sort.Strings(names)
	for _, role := range names {
		rs := spec.Roles[role]
		fn := p.Func("types", rs.Parser)
		if fn == nil {
			r.Fatal("AD1", role, "parser "+rs.Parser+" not found")
			continue
		}
		w := NewWalker(p)
		w.Inline = inlineTypesSmall(p)
		paths := w.Walk(fn, []*Term{{Op: "param", Name: "s", Typ: fn.Params[0].Type()}}, nil)
		forb := IntervalSet{}
		for _, f := range rs.Forbidden {
			forb = append(forb, Interval{f, f})
		}
		forb = normalise(forb)
		bad := ""
		nWith, nWithout := 0, 0
		okRegion := IntervalSet{}
		for _, pa := range paths {
			if pa.Outcome != "return" || len(pa.Results) != 2 {
				bad = "path ends in " + pa.Outcome
				continue
			}
			en := errNilness(pa, pa.Results[1])
			withPort, ok1 := pa.State.Bools["isnil(netip.ParseAddrPort(s)#1)"]
			noPort, ok2 := pa.State.Bools["isnil(netip.ParseAddr(s)#1)"]
			switch {
			case ok1 && withPort:
				nWith++
				key := "(netip.AddrPort).Port(netip.ParseAddrPort(s)#0)"
				reg, has := pa.State.Ints[key]
				if !has {
					reg = IntervalSet{{0, 65535}}
				}
				inForb := reg.Intersect(forb)
				switch {
				case en == 1:
					if !inForb.Empty() {
						bad = fmt.Sprintf("%s accepts port(s) %s which the %s role forbids", rs.Parser, inForb.String(), role)
					}
					okRegion = append(okRegion, reg...)
					res := termDeepVal(pa.Results[0])
					if !strings.Contains(res, "netip.ParseAddrPort(s)#0") || strings.Contains(res, "AddrPortFrom") {
						bad = "accepted address is not exactly the parsed address:port: " + cut(res, 100)
					}
				case en == 0:
					if !inForb.Equal(reg) {
						bad = fmt.Sprintf("%s rejects port(s) %s which the %s role allows", rs.Parser, reg.Intersect(complement(forb)).String(), role)
					}
				default:
					bad = "error result of unknown nilness"
				}
			case ok2 && noPort:
				nWithout++
				if rs.Default == nil {
					if en != 0 {
						bad = "the port is mandatory for the " + role + " role but text without a port is accepted"
					}
					continue
				}
				if en != 1 {
					bad = "a valid dotted quad without a port is rejected"
					continue
				}
				res := termDeepVal(pa.Results[0])
				want := fmt.Sprintf("netip.AddrPortFrom(netip.ParseAddr(s)#0,%d)", *rs.Default)
				if !strings.Contains(res, want) {
					bad = fmt.Sprintf("default port of the %s role must be %d: result is %s", role, *rs.Default, cut(res, 100))
				}
			default:
				if en == 1 {
					bad = "text that netip did not parse is accepted under [" + cut(pa.State.Describe(), 160) + "]"
				}
				if en == 0 {
					// a rejection that no recogniser justifies (no failed netip parse, no pre-filter that said no): the
					// only other ground the parsers may have is one no valid address meets - a length outside 7..21
					// ("0.0.0.0" .. "255.255.255.255:65535")
					justified := false
					for k, v := range pa.State.Bools {
						if !v && (strings.Contains(k, "netip.Parse") || strings.Contains(k, "Match") || strings.HasPrefix(k, "pred")) {
							justified = true
						}
						// a predicate of the text itself (a hand-written pre-filter) that said no
						if !v && !strings.HasPrefix(k, "isnil(") && (strings.Contains(k, "(s,") || strings.Contains(k, "(s)") || strings.Contains(k, ",s)") || strings.Contains(k, ",s,")) {
							justified = true
						}
					}
					if !justified {
						lr, has := pa.State.Ints["len(s)"]
						if !has {
							bad = "text is rejected without having been examined under [" + cut(pa.State.Describe(), 160) + "]"
						} else if v := lr.Intersect(IntervalSet{{7, 21}}); !v.Empty() {
							bad = fmt.Sprintf("text of length %s is rejected outright: valid addresses have 7 to 21 characters (255.255.255.255:65535 has 21)", v.String())
						}
					}
				}
				if os.Getenv("UHLINT_DEBUG") == "AD1" {
					fmt.Fprintf(os.Stderr, "AD1 %s unparsed en=%d: %s\n", role, en, pa.State.Describe())
				}
			}
		}
		if rs.Default != nil && nWithout == 0 && bad == "" {
			bad = "no path accepts text without a port although the role has a default port"
		}
		if rs.Default == nil && nWithout > 0 && bad == "" {
			// handled above: those paths must all be errors
		}
		if bad == "" {
			allowed := IntervalSet{{0, 65535}}.Intersect(complement(forb))
			got := normaliseUnion(okRegion)
			if !got.Equal(allowed) {
				bad = fmt.Sprintf("accepted ports are %s, the %s role allows %s", got.String(), role, allowed.String())
			}
		}
		r.Check(bad == "" && nWith >= 2, "AD1", role, p.Pos(fn.Pos()), fmt.Sprintf("%d paths (%d with port, %d without)", len(paths), nWith, nWithout), bad)

		// AD2 String()
		sfn := p.Func("types", rs.Type+".String")
		if sfn == nil {
			r.Fatal("AD2", role, rs.Type+".String not found")
			continue
		}
		w2 := NewWalker(p)
		w2.Inline = inlineTypesSmall(p)
		omitted := IntervalSet{}
		bad2 := ""
		for _, pa := range w2.Walk(sfn, []*Term{{Op: "param", Name: "a", Typ: sfn.Params[0].Type()}}, nil) {
			if pa.Outcome != "return" {
				continue
			}
			res := pa.Results[0].String()
			if strings.Contains(res, "Addr(") && !strings.Contains(res, "[a.AddrPort]") && !strings.Contains(res, "a.AddrPort]") {
				// formats the address only: which ports?
				for k, v := range pa.State.Ints {
					if strings.Contains(k, "Port(") {
						omitted = append(omitted, v...)
					}
				}
				if len(pa.State.Ints) == 0 {
					omitted = append(omitted, Interval{0, 65535})
				}
			}
		}
		// an address the parser accepts is never rendered as the empty text: "" is returned only for a value
		// that is not a valid address or whose port the role forbids
		{
			w3 := NewWalker(p)
			tpk := p.SSAPkg("types")
			w3.Inline = func(f *ssa.Function, d int) bool { return f.Parent() != nil || (pkgOf(f) == tpk && f != sfn) }
			for _, pa := range w3.Walk(sfn, []*Term{{Op: "param", Name: "a", Typ: sfn.Params[0].Type()}}, nil) {
				if pa.Outcome != "return" {
					continue
				}
				if txt, isConst := pa.Results[0].StrVal(); !isConst || txt != "" {
					continue
				}
				justified := false
				for k, v := range pa.State.Bools {
					if !v && strings.Contains(k, "IsValid(") && (strings.HasPrefix(k, "(netip.Addr).IsValid") || strings.HasPrefix(k, "(netip.AddrPort).IsValid")) {
						justified = true
					}
				}
				forb := IntervalSet{{0, 0}}
				for _, f := range rs.Forbidden {
					forb = append(forb, Interval{f, f})
				}
				for k, v := range pa.State.Ints {
					if strings.Contains(k, "Port(") && v.Intersect(complement(normaliseUnion(forb))).Empty() {
						justified = true
					}
				}
				if !justified {
					bad2 = "String() renders a value as the empty text under [" + cut(pa.State.Describe(), 160) + "] although the parser accepts such an address: it does not parse back"
				}
			}
		}
		om := normaliseUnion(omitted)
		switch {
		case bad2 != "":
		case rs.Default == nil:
			if !om.Empty() {
				bad2 = "String() omits port(s) " + om.String() + " although the port is mandatory for this role"
			}
		default:
			want := IntervalSet{{*rs.Default, *rs.Default}}
			if !om.Equal(want) {
				bad2 = fmt.Sprintf("String() omits port(s) %s, the parser's default is %d", om.String(), *rs.Default)
			}
			for _, f := range rs.Forbidden {
				if f == *rs.Default {
					bad2 = "the default port is a forbidden port"
				}
			}
		}
		r.Check(bad2 == "", "AD2", role, p.Pos(sfn.Pos()), "omitted port == default", bad2)

		// AD0 delegation
		for _, m := range []string{"Set", "UnmarshalJSON"} {
			mf := p.Func("types", "(*"+rs.Type+")."+m)
			if mf == nil {
				r.Bad("AD0", role+":"+m, "", "method not found")
				continue
			}
			// the method reaches the role's parser: by a static call (possibly through an in-package helper) or by
			// handing the parser, as a function value, to an in-package helper that calls it
			calls := false
			visitInstrs(mf, nil, 0, map[*ssa.Function]bool{}, func(in ssa.Instruction, env *cfEnv) {
				c, ok := in.(ssa.CallInstruction)
				if !ok {
					return
				}
				if c.Common().StaticCallee() == fn {
					calls = true
				}
				for _, a := range c.Common().Args {
					v := a
					if ct, ok := v.(*ssa.ChangeType); ok {
						v = ct.X
					}
					if f, ok := v.(*ssa.Function); ok && f == fn {
						if callee := c.Common().StaticCallee(); callee != nil && inModule(callee) {
							calls = true
						}
					}
				}
			})
			r.Check(calls, "AD0", role+":"+m, p.Pos(mf.Pos()), "calls "+rs.Parser, m+" does not go through "+rs.Parser)
			// ... and what the parser returned is what the receiver holds when the method reports success: every path
			// that returns a nil error has stored the parser's result through the receiver
			if calls {
				w := NewWalker(p)
				w.LoopFuel = 5
				w.Inline = inlineHelpers([]*ssa.Package{p.SSAPkg("types")}, func(f *ssa.Function) bool {
					return f == fn || (f.Object() != nil && f.Object().Exported())
				})
				args := make([]*Term, len(mf.Params))
				for i, prm := range mf.Params {
					args[i] = &Term{Op: "param", Name: prm.Name(), Typ: prm.Type()}
				}
				badStore := ""
				nOK := 0
				for _, pa := range w.Walk(mf, args, nil) {
					if pa.Outcome != "return" || len(pa.Results) != 1 || errNilness(pa, pa.Results[0]) != 1 {
						continue
					}
					stored := false
					for _, e := range pa.Events {
						if e.Kind != "store" || len(e.Args) != 2 {
							continue
						}
						// the result itself (or a field of it), not something rebuilt from parts of it
						v := termDeepVal(e.Args[1])
						if i := strings.LastIndex(v, ")#0"); i > 0 && strings.HasPrefix(v, calleeName(fn)+"(") && !strings.ContainsAny(v[i+3:], "(), ") {
							stored = true
						}
					}
					if os.Getenv("UHLINT_DEBUG") == "AD0" {
						fmt.Fprintf(os.Stderr, "AD0 %s:%s stored=%v [%s]\n", role, m, stored, pa.State.Describe())
						for _, e := range pa.Events {
							fmt.Fprintf(os.Stderr, "    %s\n", cut(e.String(), 200))
						}
					}
					if !stored {
						badStore = m + " reports success without storing the address " + rs.Parser + " returned under [" + cut(pa.State.Describe(), 200) + "]"
					} else {
						nOK++
					}
				}
				r.Check(badStore == "" && nOK > 0, "AD0", role+":"+m+":stores", p.Pos(mf.Pos()), fmt.Sprintf("%d successful paths store the parsed address", nOK), badStore)
			}
		}
	}
}

func normaliseUnion(s IntervalSet) IntervalSet {
	if len(s) == 0 {
		return nil
	}
	c := append(IntervalSet{}, s...)
	sort.Slice(c, func(i, j int) bool { return c[i].Lo < c[j].Lo })
	out := IntervalSet{c[0]}
	for _, i := range c[1:] {
		last := &out[len(out)-1]
		if i.Lo <= last.Hi+1 {
			if i.Hi > last.Hi {
				last.Hi = i.Hi
			}
		} else {
			out = append(out, i)
		}
	}
	return out
}

// ---------------------------------------------------------------------------------------
// AD3: language inclusion between constant regular expressions, decided on their automata
// (regexp/syntax programs) over the exact 4-class alphabet {digit, '.', ':', other}.
// No input text is run through the library.
// ---------------------------------------------------------------------------------------

type nfa struct {
	prog *syntax.Prog
}

var classReps = []rune{'5', '.', ':', 'x'}

func compileFull(pattern string) (*nfa, error) {
	re, err := syntax.Parse("(?s:.*)(?:"+pattern+")(?s:.*)", syntax.Perl)
	if err != nil {
		return nil, err
	}
	prog, err := syntax.Compile(re.Simplify())
	if err != nil {
		return nil, err
	}
	return &nfa{prog}, nil
}

func compileExact(pattern string) (*nfa, error) {
	re, err := syntax.Parse("(?:"+pattern+")", syntax.Perl)
	if err != nil {
		return nil, err
	}
	prog, err := syntax.Compile(re.Simplify())
	if err != nil {
		return nil, err
	}
	return &nfa{prog}, nil
}

// uniform: every rune instruction treats all members of each alphabet class alike.
func (n *nfa) uniform() bool {
	digits := []rune("0123456789")
	others := []rune{'a', 'Z', ' ', '/', ';', '-', '\n', '_', 0x100, '[', ',', '%'}
	for i := range n.prog.Inst {
		in := &n.prog.Inst[i]
		switch in.Op {
		case syntax.InstRune, syntax.InstRune1, syntax.InstRuneAny, syntax.InstRuneAnyNotNL:
			d0 := in.MatchRune(digits[0])
			for _, d := range digits {
				if in.MatchRune(d) != d0 {
					return false
				}
			}
			o0 := in.MatchRune(others[0])
			for _, o := range others {
				if in.MatchRune(o) != o0 {
					if in.Op == syntax.InstRuneAnyNotNL && o == '\n' {
						continue
					}
					return false
				}
			}
		case syntax.InstEmptyWidth:
			if syntax.EmptyOp(in.Arg)&(syntax.EmptyWordBoundary|syntax.EmptyNoWordBoundary) != 0 {
				return false
			}
		}
	}
	return true
}

func (n *nfa) closure(pcs []uint32, atStart, atEnd bool) []uint32 {
	seen := map[uint32]bool{}
	var out []uint32
	var visit func(pc uint32)
	visit = func(pc uint32) {
		if seen[pc] {
			return
		}
		seen[pc] = true
		in := &n.prog.Inst[pc]
		switch in.Op {
		case syntax.InstAlt, syntax.InstAltMatch:
			visit(in.Out)
			visit(in.Arg)
		case syntax.InstCapture, syntax.InstNop:
			visit(in.Out)
		case syntax.InstEmptyWidth:
			op := syntax.EmptyOp(in.Arg)
			ok := true
			if op&(syntax.EmptyBeginText|syntax.EmptyBeginLine) != 0 && !atStart {
				ok = false
			}
			if op&(syntax.EmptyEndText|syntax.EmptyEndLine) != 0 && !atEnd {
				ok = false
			}
			if ok {
				visit(in.Out)
			}
		default:
			out = append(out, pc)
		}
	}
	for _, pc := range pcs {
		visit(pc)
	}
	sort.Slice(out, func(i, j int) bool { return out[i] < out[j] })
	return out
}

func (n *nfa) step(state []uint32, r rune) []uint32 {
	var next []uint32
	for _, pc := range state {
		in := &n.prog.Inst[pc]
		switch in.Op {
		case syntax.InstRune, syntax.InstRune1, syntax.InstRuneAny, syntax.InstRuneAnyNotNL:
			if in.MatchRune(r) {
				next = append(next, in.Out)
			}
		}
	}
	return next
}

func (n *nfa) accepts(raw []uint32, atStart bool) bool {
	for _, pc := range n.closure(raw, atStart, true) {
		if n.prog.Inst[pc].Op == syntax.InstMatch {
			return true
		}
	}
	return false
}

func key(s []uint32) string { return fmt.Sprint(s) }

// includedIn decides L(a) ⊆ L(b); wantNot inverts b (L(a) ∩ L(b) = ∅). Returns a witness class string on failure.
func includedIn(a, b *nfa, disjoint bool) (bool, string) {
	type st struct {
		a, b  []uint32 // raw (pre-closure) pcs
		start bool
		w     string
	}
	init := st{[]uint32{uint32(a.prog.Start)}, []uint32{uint32(b.prog.Start)}, true, ""}
	queue := []st{init}
	seen := map[string]bool{}
	for len(queue) > 0 {
		cur := queue[0]
		queue = queue[1:]
		k := key(cur.a) + "|" + key(cur.b) + fmt.Sprint(cur.start)
		if seen[k] {
			continue
		}
		seen[k] = true
		if len(seen) > 200000 {
			return false, "state space too large"
		}
		accA, accB := a.accepts(cur.a, cur.start), b.accepts(cur.b, cur.start)
		if accA && (accB == disjoint) {
			return false, cur.w
		}
		ca := a.closure(cur.a, cur.start, false)
		if len(ca) == 0 {
			continue
		}
		cb := b.closure(cur.b, cur.start, false)
		for _, r := range classReps {
			na := a.step(ca, r)
			if len(na) == 0 {
				continue
			}
			nb := b.step(cb, r)
			queue = append(queue, st{na, nb, false, cur.w + string(r)})
		}
	}
	return true, ""
}

func RuleAddrPatterns(r *Report, p *Program) {
	r.Rule("AD3", "pre-filter patterns (constants): every a.b.c.d:port text reaches the with-port branch, every a.b.c.d text reaches the port-less branch and not the with-port one, and every text a pattern lets through contains a dotted quad (language inclusion on the patterns' automata)", 4)
	var spec RolesSpec
	if err := loadJSON("/verif/spec/roles.json", &spec); err != nil {
		r.Fatal("AD3", "roles.json", err.Error())
		return
	}
	canonPort, _ := compileExact(`[0-9]{1,3}\.[0-9]{1,3}\.[0-9]{1,3}\.[0-9]{1,3}:[0-9]{1,5}`)
	canonQuad, _ := compileExact(`[0-9]{1,3}\.[0-9]{1,3}\.[0-9]{1,3}\.[0-9]{1,3}`)
	hasQuad, _ := compileFull(`[0-9]+\.[0-9]+\.[0-9]+\.[0-9]+`)
	names := []string{}
	for n := range spec.Roles {
		names = append(names, n)
	}
	sort.Strings(names)
	for _, role := range names {
		rs := spec.Roles[role]
		fn := p.Func("types", rs.Parser)
		if fn == nil {
			r.Fatal("AD3", role, "parser not found")
			continue
		}
		// patterns in order of use
		pats := usedRegexPatterns(fn, p)
		bad := ""
		want := 2
		if rs.Default == nil {
			want = 1
		}
		if want == 1 && len(pats) == 2 {
			// a parser shared between the roles carries the port-less pattern too; whether this role can reach
			// that branch is AD1's question (text without a port must be rejected): the with-port pattern is decided here
			pats = pats[:1]
		}
		if len(pats) != want {
			bad = fmt.Sprintf("%d constant pre-filter patterns, expected %d", len(pats), want)
		} else {
			var ns []*nfa
			for _, s := range pats {
				n, err := compileFull(s)
				if err != nil || !n.uniform() {
					bad = "pattern " + s + " cannot be decided over the {digit . : other} alphabet"
					break
				}
				ns = append(ns, n)
			}
			if bad == "" {
				if ok, w := includedIn(canonPort, ns[0], false); !ok {
					bad = fmt.Sprintf("a valid address:port text of class shape %q is not matched by the with-port pattern %s", w, pats[0])
				}
				if ok, w := includedIn(ns[0], hasQuad, false); !ok && bad == "" {
					bad = fmt.Sprintf("the with-port pattern lets through text without a dotted quad (class shape %q)", w)
				}
				if want == 2 && bad == "" {
					if ok, w := includedIn(canonQuad, ns[1], false); !ok {
						bad = fmt.Sprintf("a valid dotted quad of class shape %q is not matched by the port-less pattern %s", w, pats[1])
					}
					if ok, w := includedIn(canonQuad, ns[0], true); !ok && bad == "" {
						bad = fmt.Sprintf("a port-less dotted quad (class shape %q) is caught by the with-port pattern", w)
					}
					if ok, w := includedIn(ns[1], hasQuad, false); !ok && bad == "" {
						bad = fmt.Sprintf("the port-less pattern lets through text without a dotted quad (class shape %q)", w)
					}
				}
			}
		}
		r.Check(bad == "", "AD3", role, p.Pos(fn.Pos()), fmt.Sprintf("%d patterns, inclusions hold", len(pats)), bad)
	}
}
