package main

import (
	"math"
	"regexp"
	"strconv"
)

// ---------------------------------------------------------------------------------------
// Interval evaluation of compound integer terms under a path condition: the region the path gives a term
// (if it was compared as a whole) intersected with the hull obtained from its operands by interval arithmetic
// (+ - * on hulls, conversions that cannot wrap, constants). `10*int(s[0]-'0') + int(s[1]-'0')` with both
// characters known to be digits is within 0..99 although no comparison ever mentions a lower bound.
// ---------------------------------------------------------------------------------------

func hull(s IntervalSet) (int64, int64, bool) {
	if len(s) == 0 {
		return 0, 0, false
	}
	return s[0].Lo, s[len(s)-1].Hi, true
}

func satAdd(a, b int64) int64 {
	if a == math.MinInt64 || b == math.MinInt64 {
		return math.MinInt64
	}
	if a == math.MaxInt64 || b == math.MaxInt64 {
		return math.MaxInt64
	}
	c := a + b
	if (a > 0 && b > 0 && c < 0) || c > math.MaxInt64/2 {
		return math.MaxInt64
	}
	if (a < 0 && b < 0 && c >= 0) || c < math.MinInt64/2 {
		return math.MinInt64
	}
	return c
}

func satMul(a, b int64) int64 {
	if a == 0 || b == 0 {
		return 0
	}
	inf := a == math.MinInt64 || a == math.MaxInt64 || b == math.MinInt64 || b == math.MaxInt64
	neg := (a < 0) != (b < 0)
	if !inf {
		c := a * b
		if c/b == a && c < math.MaxInt64/2 && c > math.MinInt64/2 {
			return c
		}
	}
	if neg {
		return math.MinInt64
	}
	return math.MaxInt64
}

func intervalOf(pa Path, t *Term, depth int) IntervalSet {
	if t == nil {
		return IntervalSet{{math.MinInt64, math.MaxInt64}}
	}
	if c, ok := t.Int64(); ok {
		return IntervalSet{{c, c}}
	}
	typed := IntervalSet{{math.MinInt64, math.MaxInt64}}
	if isIntType(t.Typ) {
		typed = fullSet(t.Typ)
	}
	res := typed
	if v, ok := pa.State.Ints[t.String()]; ok {
		res = res.Intersect(v)
	}
	if depth > 8 {
		return res
	}
	var lo, hi int64
	ok := false
	switch t.Op {
	case "bin":
		a, b := intervalOf(pa, t.Args[0], depth+1), intervalOf(pa, t.Args[1], depth+1)
		al, ah, ok1 := hull(a)
		bl, bh, ok2 := hull(b)
		if ok1 && ok2 {
			switch t.Name {
			case "+":
				lo, hi, ok = satAdd(al, bl), satAdd(ah, bh), true
			case "-":
				lo, hi, ok = satAdd(al, -clampNeg(bh)), satAdd(ah, -clampNeg(bl)), true
			case "*":
				c := []int64{satMul(al, bl), satMul(al, bh), satMul(ah, bl), satMul(ah, bh)}
				lo, hi, ok = c[0], c[0], true
				for _, x := range c[1:] {
					if x < lo {
						lo = x
					}
					if x > hi {
						hi = x
					}
				}
			}
		}
	case "conv":
		if len(t.Args) == 1 && isIntType(t.Typ) && isIntType(t.Args[0].Typ) {
			a := intervalOf(pa, t.Args[0], depth+1)
			if l, h, o := hull(a); o {
				lo, hi, ok = l, h, true
			}
		}
	}
	if ok {
		// a result outside the type's range wraps: then nothing is known beyond the type
		tl, th, _ := hull(typed)
		if lo >= tl && hi <= th {
			res = res.Intersect(IntervalSet{{lo, hi}})
		}
	}
	return res
}

func clampNeg(x int64) int64 {
	if x == math.MinInt64 {
		return math.MinInt64 + 1
	}
	return x
}

// sourceOrder: the position in the input text a parsed component comes from, as far as the term shows it:
// capture group k of a regexp match, element k of strings.Cut / Split / Fields, or the least constant index
// into the text. -1 when the term does not show it.
var srcOrderRes = []*regexp.Regexp{
	regexp.MustCompile(`FindStringSubmatch\([^#]*?\)\[(\d+)\]`),
	regexp.MustCompile(`strings\.Cut\([^#]*?\)#(\d+)`),
	regexp.MustCompile(`strings\.(?:Split|SplitN|Fields)\([^#]*?\)\[(\d+)\]`),
	regexp.MustCompile(`\[(\d+)\]`),
	regexp.MustCompile(`\[(\d+):`),
}

func sourceOrder(t *Term) int {
	s := t.String()
	for _, re := range srcOrderRes {
		best := -1
		for _, m := range re.FindAllStringSubmatch(s, -1) {
			if n, err := strconv.Atoi(m[1]); err == nil && (best < 0 || n < best) {
				best = n
			}
		}
		if best >= 0 {
			return best
		}
	}
	return -1
}
