package main

import (
	"go/types"
	"sort"
	"strings"

	"golang.org/x/tools/go/ssa"
)

// ---------------------------------------------------------------------------------------
// Constant flow: which string constants (time layouts, format strings, regular-expression patterns) can
// reach a given argument of a given callee from inside a function. The resolution is context sensitive
// (a helper called with a layout parameter contributes the constants of *this* caller only) and follows
//   parameters (bound at the in-module call sites on the way down), closure free variables,
//   phis, conversions,
//   loads from local or package-level tables (every constant stored into the aggregate; package-level
//   variables are read through the stores of their package initialiser — G1 separately shows that no
//   package-level variable of the library is written after initialisation),
//   *regexp.Regexp values back to the regexp.MustCompile(constant) that produced them.
// It never evaluates anything: it only follows def-use edges of the SSA form.
// ---------------------------------------------------------------------------------------

type cfBind struct {
	v   ssa.Value
	env *cfEnv
}

type cfEnv struct {
	params map[*ssa.Parameter]cfBind
	free   map[*ssa.FreeVar]cfBind
}

func (e *cfEnv) param(p *ssa.Parameter) (cfBind, bool) {
	if e == nil {
		return cfBind{}, false
	}
	b, ok := e.params[p]
	return b, ok
}

func (e *cfEnv) freeVar(f *ssa.FreeVar) (cfBind, bool) {
	if e == nil {
		return cfBind{}, false
	}
	b, ok := e.free[f]
	return b, ok
}

// initStoresTo: the values stored to a package-level variable (or into it) by its package's initialiser.
func initFn(g *ssa.Global) *ssa.Function {
	if g.Pkg == nil {
		return nil
	}
	return g.Pkg.Func("init")
}

// rootOf strips IndexAddr/FieldAddr/Slice/deref-of-slice layers and returns the aggregate an address or slice belongs to.
func rootOf(v ssa.Value) ssa.Value {
	for i := 0; i < 12; i++ {
		switch x := v.(type) {
		case *ssa.IndexAddr:
			v = x.X
		case *ssa.FieldAddr:
			v = x.X
		case *ssa.Slice:
			v = x.X
		case *ssa.ChangeType:
			v = x.X
		case *ssa.Convert:
			v = x.X
		case *ssa.MakeInterface:
			v = x.X
		default:
			return v
		}
	}
	return v
}

// storedInto: every value stored (in fn) through an address that belongs to the aggregate `root`.
func storedInto(fn *ssa.Function, root ssa.Value) []ssa.Value {
	var out []ssa.Value
	if fn == nil {
		return nil
	}
	for _, b := range fn.Blocks {
		for _, in := range b.Instrs {
			if st, ok := in.(*ssa.Store); ok {
				if rootOf(st.Addr) == root {
					out = append(out, st.Val)
				}
			}
		}
	}
	return out
}

type constFlow struct {
	p    *Program
	seen map[ssa.Value]bool
}

// strs resolves v to the set of string constants it may hold; ok=false if some source is not a constant.
func (c *constFlow) strs(v ssa.Value, env *cfEnv, depth int, out map[string]bool) bool {
	if depth > 10 {
		return false
	}
	switch x := v.(type) {
	case *ssa.Const:
		if x.Value != nil && isStringType(x.Type()) {
			if s, err := unquote(x.Value.ExactString()); err == nil {
				out[s] = true
				return true
			}
		}
		return false
	case *ssa.Parameter:
		if b, ok := env.param(x); ok {
			return c.strs(b.v, b.env, depth+1, out)
		}
		return false
	case *ssa.FreeVar:
		if b, ok := env.freeVar(x); ok {
			return c.strs(b.v, b.env, depth+1, out)
		}
		return false
	case *ssa.Phi:
		if c.seen[x] {
			return true
		}
		c.seen[x] = true
		ok := true
		for _, e := range x.Edges {
			if !c.strs(e, env, depth+1, out) {
				ok = false
			}
		}
		return ok
	case *ssa.ChangeType:
		return c.strs(x.X, env, depth+1, out)
	case *ssa.Convert:
		return c.strs(x.X, env, depth+1, out)
	case *ssa.MakeInterface:
		return c.strs(x.X, env, depth+1, out)
	case *ssa.Alloc:
		// a local variable: everything stored into it
		ok := false
		for _, sv := range storedInto(x.Parent(), x) {
			if c.strs(sv, env, depth+1, out) {
				ok = true
			}
		}
		return ok
	case *ssa.UnOp:
		if x.Op.String() != "*" {
			return false
		}
		return c.load(x.X, env, depth+1, out)
	case *ssa.Extract:
		// range over a table: (ok, key, value) of a Next over a constant aggregate
		if nx, ok := x.Tuple.(*ssa.Next); ok {
			if rg, ok := nx.Iter.(*ssa.Range); ok {
				return c.aggregate(rg.X, env, depth+1, out)
			}
		}
		return false
	case *ssa.Lookup:
		return c.aggregate(x.X, env, depth+1, out)
	case *ssa.Index:
		return c.aggregate(x.X, env, depth+1, out)
	case *ssa.Field:
		return c.aggregate(x.X, env, depth+1, out)
	}
	return false
}

// load: the string constants a load through addr may see.
func (c *constFlow) load(addr ssa.Value, env *cfEnv, depth int, out map[string]bool) bool {
	root := rootOf(addr)
	switch r := root.(type) {
	case *ssa.Global:
		ok := false
		for _, sv := range storedInto(initFn(r), r) {
			if c.valueOrAggregate(sv, nil, depth+1, out) {
				ok = true
			}
		}
		return ok
	case *ssa.Alloc:
		ok := false
		for _, sv := range storedInto(r.Parent(), r) {
			if c.valueOrAggregate(sv, env, depth+1, out) {
				ok = true
			}
		}
		return ok
	case *ssa.UnOp:
		// IndexAddr on a slice loaded from a variable: *g is a slice whose backing array was filled by init
		if r.Op.String() == "*" {
			return c.load(r.X, env, depth+1, out)
		}
	case *ssa.Parameter:
		if b, ok := env.param(r); ok {
			return c.aggregate(b.v, b.env, depth+1, out)
		}
	case *ssa.FreeVar:
		if b, ok := env.freeVar(r); ok {
			return c.load(b.v, b.env, depth+1, out)
		}
	case *ssa.Phi:
		if c.seen[r] {
			return true
		}
		c.seen[r] = true
		ok := false
		for _, e := range r.Edges {
			if c.aggregate(e, env, depth+1, out) {
				ok = true
			}
		}
		return ok
	}
	return false
}

// valueOrAggregate: sv is either a string value or (a slice of / pointer to) a table whose elements are wanted.
func (c *constFlow) valueOrAggregate(sv ssa.Value, env *cfEnv, depth int, out map[string]bool) bool {
	if isStringType(sv.Type()) {
		return c.strs(sv, env, depth, out)
	}
	return c.aggregate(sv, env, depth, out)
}

// aggregate: the string constants held anywhere in the table v (array, slice, map or struct value).
func (c *constFlow) aggregate(v ssa.Value, env *cfEnv, depth int, out map[string]bool) bool {
	if depth > 10 {
		return false
	}
	root := rootOf(v)
	switch r := root.(type) {
	case *ssa.Alloc, *ssa.Global:
		return c.load(r, env, depth+1, out)
	case *ssa.UnOp:
		if r.Op.String() == "*" {
			return c.load(r.X, env, depth+1, out)
		}
	case *ssa.Parameter:
		if b, ok := env.param(r); ok {
			return c.aggregate(b.v, b.env, depth+1, out)
		}
	case *ssa.MakeMap:
		ok := false
		if fn := r.Parent(); fn != nil {
			for _, b := range fn.Blocks {
				for _, in := range b.Instrs {
					if mu, isMU := in.(*ssa.MapUpdate); isMU && mu.Map == r {
						if c.valueOrAggregate(mu.Value, env, depth+1, out) {
							ok = true
						}
						if isStringType(mu.Key.Type()) {
							c.strs(mu.Key, env, depth+1, out)
						}
					}
				}
			}
		}
		return ok
	case *ssa.Const:
		return false
	case *ssa.Phi:
		if c.seen[r] {
			return true
		}
		c.seen[r] = true
		ok := false
		for _, e := range r.Edges {
			if c.aggregate(e, env, depth+1, out) {
				ok = true
			}
		}
		return ok
	}
	return false
}

// regexes resolves a *regexp.Regexp value to the constant pattern(s) it was compiled from.
func (c *constFlow) regexes(v ssa.Value, env *cfEnv, depth int, out map[string]bool) bool {
	if depth > 10 {
		return false
	}
	switch x := v.(type) {
	case *ssa.Call:
		if f := x.Call.StaticCallee(); f != nil && (calleeName(f) == "regexp.MustCompile" || calleeName(f) == "regexp.Compile") {
			return c.strs(x.Call.Args[0], env, depth+1, out)
		}
		return false
	case *ssa.Extract:
		return c.regexes(x.Tuple, env, depth+1, out)
	case *ssa.Parameter:
		if b, ok := env.param(x); ok {
			return c.regexes(b.v, b.env, depth+1, out)
		}
	case *ssa.FreeVar:
		if b, ok := env.freeVar(x); ok {
			return c.regexes(b.v, b.env, depth+1, out)
		}
	case *ssa.Phi:
		if c.seen[x] {
			return true
		}
		c.seen[x] = true
		ok := true
		for _, e := range x.Edges {
			if !c.regexes(e, env, depth+1, out) {
				ok = false
			}
		}
		return ok
	case *ssa.UnOp:
		if x.Op.String() != "*" {
			return false
		}
		root := rootOf(x.X)
		switch r := root.(type) {
		case *ssa.Global:
			ok := false
			for _, sv := range storedInto(initFn(r), r) {
				if c.regexes(sv, nil, depth+1, out) {
					ok = true
				}
			}
			return ok
		case *ssa.Alloc:
			ok := false
			for _, sv := range storedInto(r.Parent(), r) {
				if c.regexes(sv, env, depth+1, out) {
					ok = true
				}
			}
			return ok
		case *ssa.FreeVar:
			if b, ok := env.freeVar(r); ok {
				if a, isA := b.v.(*ssa.Alloc); isA {
					ok2 := false
					for _, sv := range storedInto(a.Parent(), a) {
						if c.regexes(sv, b.env, depth+1, out) {
							ok2 = true
						}
					}
					return ok2
				}
			}
		}
	}
	return false
}

// visitInstrs walks fn and, context-sensitively, its in-module static callees and closures, calling visit
// for every instruction with the environment that binds the enclosing function's parameters.
func visitInstrs(fn *ssa.Function, env *cfEnv, depth int, stack map[*ssa.Function]bool, visit func(in ssa.Instruction, env *cfEnv)) {
	if fn == nil || fn.Blocks == nil || depth > 5 || stack[fn] {
		return
	}
	stack[fn] = true
	defer delete(stack, fn)
	for _, b := range fn.DomPreorder() {
		for _, in := range b.Instrs {
			visit(in, env)
			if mc, ok := in.(*ssa.MakeClosure); ok {
				cf := mc.Fn.(*ssa.Function)
				ne := &cfEnv{params: map[*ssa.Parameter]cfBind{}, free: map[*ssa.FreeVar]cfBind{}}
				for i, fv := range cf.FreeVars {
					if i < len(mc.Bindings) {
						ne.free[fv] = cfBind{mc.Bindings[i], env}
					}
				}
				visitInstrs(cf, ne, depth+1, stack, visit)
				continue
			}
			ci, ok := in.(ssa.CallInstruction)
			if !ok {
				continue
			}
			cc := ci.Common()
			f := cc.StaticCallee()
			if f == nil || !inModule(f) || f.Blocks == nil {
				continue
			}
			if _, isClosure := cc.Value.(*ssa.MakeClosure); isClosure {
				continue // visited at its MakeClosure
			}
			ne := &cfEnv{params: map[*ssa.Parameter]cfBind{}, free: map[*ssa.FreeVar]cfBind{}}
			for i, prm := range f.Params {
				if i < len(cc.Args) {
					ne.params[prm] = cfBind{cc.Args[i], env}
				}
			}
			visitInstrs(f, ne, depth+1, stack, visit)
		}
	}
}

func visitCalls(fn *ssa.Function, env *cfEnv, depth int, stack map[*ssa.Function]bool, visit func(c *ssa.CallCommon, in ssa.Instruction, env *cfEnv)) {
	visitInstrs(fn, env, depth, stack, func(in ssa.Instruction, env *cfEnv) {
		if ci, ok := in.(ssa.CallInstruction); ok {
			visit(ci.Common(), in, env)
		}
	})
}

// globalLoaded: v is (through parameters, closures, phis and conversions) the value loaded from a package-level variable.
func globalLoaded(v ssa.Value, env *cfEnv, depth int) *ssa.Global {
	if depth > 8 {
		return nil
	}
	switch x := v.(type) {
	case *ssa.UnOp:
		if x.Op.String() == "*" {
			if g, ok := x.X.(*ssa.Global); ok {
				return g
			}
			if fv, ok := x.X.(*ssa.FreeVar); ok {
				if b, ok := env.freeVar(fv); ok {
					if g, ok := b.v.(*ssa.Global); ok {
						return g
					}
				}
			}
		}
	case *ssa.Parameter:
		if b, ok := env.param(x); ok {
			return globalLoaded(b.v, b.env, depth+1)
		}
	case *ssa.FreeVar:
		if b, ok := env.freeVar(x); ok {
			return globalLoaded(b.v, b.env, depth+1)
		}
	case *ssa.ChangeType:
		return globalLoaded(x.X, env, depth+1)
	case *ssa.Phi:
		var g *ssa.Global
		for _, e := range x.Edges {
			ge := globalLoaded(e, env, depth+1)
			if ge == nil || (g != nil && ge != g) {
				return nil
			}
			g = ge
		}
		return g
	}
	return nil
}

// collectCallConsts: string constants that reach argument `pos` of calls whose callee name ends in `suffix`,
// from fn (through helpers, parameters, tables and package-level variables).
func collectCallConsts(fn *ssa.Function, suffix string, pos int, out map[string]bool, _ int, p *Program) {
	visitCalls(fn, nil, 0, map[*ssa.Function]bool{}, func(c *ssa.CallCommon, in ssa.Instruction, env *cfEnv) {
		f := c.StaticCallee()
		if f == nil || !strings.HasSuffix(calleeName(f), suffix) || pos >= len(c.Args) {
			return
		}
		cf := &constFlow{p: p, seen: map[ssa.Value]bool{}}
		cf.strs(c.Args[pos], env, 0, out)
	})
}

// usedRegexPatterns: the constant patterns of every regular expression fn matches text against — compiled in
// place, compiled once into a package-level variable, passed in by a caller, or given to regexp.MatchString —
// in order of first use.
func usedRegexPatterns(fn *ssa.Function, p *Program) []string {
	var order []string
	have := map[string]bool{}
	add := func(m map[string]bool) {
		ks := []string{}
		for k := range m {
			ks = append(ks, k)
		}
		sortStrings(ks)
		for _, k := range ks {
			if !have[k] {
				have[k] = true
				order = append(order, k)
			}
		}
	}
	visitCalls(fn, nil, 0, map[*ssa.Function]bool{}, func(c *ssa.CallCommon, in ssa.Instruction, env *cfEnv) {
		f := c.StaticCallee()
		if f == nil {
			return
		}
		name := calleeName(f)
		cf := &constFlow{p: p, seen: map[ssa.Value]bool{}}
		m := map[string]bool{}
		switch {
		case name == "regexp.MatchString" || name == "regexp.Match":
			cf.strs(c.Args[0], env, 0, m)
		case strings.HasPrefix(name, "(*regexp.Regexp)."):
			cf.regexes(c.Args[0], env, 0, m)
		}
		add(m)
	})
	return order
}

func isRegexpPtr(t types.Type) bool {
	return strings.HasSuffix(t.String(), "regexp.Regexp")
}

func sortStrings(s []string) { sort.Strings(s) }
