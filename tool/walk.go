package main

import (
	"fmt"
	"go/constant"
	"go/token"
	"go/types"
	"math"
	"os"
	"strconv"
	"strings"

	"golang.org/x/tools/go/ssa"
)

// ---------------------------------------------------------------------------------------
// The path walker (DESIGN E3/E4/E5/E6): an abstract interpreter over go/ssa whose values are
// Terms (origins), never concrete data. Branches on symbolic conditions fork the path; the
// domain per symbolic integer is the set of regions cut by the constants it is compared with
// (interval refinement), per pair of symbolic integers the relation set {<,=,>}, per opaque
// boolean a truth value. For loop-free comparison code this domain is finite and exact.
// ---------------------------------------------------------------------------------------

type Event struct {
	Kind     string // call store mapupdate send recv go defer close panic typeassert index copy
	Name     string
	Args     []*Term
	Result   *Term
	Pos      token.Pos
	Instr    ssa.Instruction
	Deferred bool
	Depth    int
	Fn       *ssa.Function
	Seq      int
	Deep     []string // arguments rendered at event time with local storage expanded
	Snap     []*Term  // arguments with local storage frozen at event time
}

func (e Event) String() string {
	as := []string{}
	for _, a := range e.Args {
		as = append(as, a.String())
	}
	d := ""
	if e.Deferred {
		d = "deferred "
	}
	return fmt.Sprintf("%s%s %s(%s)", d, e.Kind, e.Name, strings.Join(as, ","))
}

type Path struct {
	State     *PathState
	Events    []Event
	Results   []*Term
	Outcome   string // return panic truncated unsupported
	Detail    string
	Decisions []string
	Cells     []*Cell
	SymCells  []*Cell
	Maps      []*Term // maps allocated on the path (mutated in place as entries are stored)
}

type Walker struct {
	P          *Program
	Inline     func(fn *ssa.Function, depth int) bool
	Opaque     map[string]bool // callee names never inlined
	LoopFuel   int
	MaxPaths   int
	MaxDepth   int
	ForceBool  bool                   // decide bool-typed results at return
	RangeCap   int                    // loops over collections of symbolic size are explored for 0..RangeCap elements, then assumed to end
	Assume     map[string]IntervalSet // initial regions of symbolic integers (e.g. one struct field per walk)
	AssumeBool map[string]bool
	AssumeFn   func(key string) (IntervalSet, bool) // regions of symbolic integers given by a rule (by rendering)
	// hooks
	CallName func(callee *ssa.Function, name string) (string, bool, bool)
	OnRecv   func(w *Walker, ch *Term, t types.Type, id int) (*Term, bool)
	Nullable func(t *Term) bool // symbolic pointers that may be nil unless the path has established otherwise
	OnCall   func(w *Walker, name string, args []*Term, call *ssa.CallCommon, instr ssa.Instruction) (*Term, bool)

	// per path
	script    []int
	pos       int
	alts      []int
	state     *PathState
	events    []Event
	decisions []string
	cellN     int
	cells     []*Cell
	freshN    map[string]int
	symCells  map[string]*Cell
	symIdx    map[string]*Term      // symbolic index selectors ("#b") -> the index term
	RTypes    map[string]types.Type // renderings of type descriptors met as table keys -> the Go type
	InitPkg   *ssa.Package          // set while evaluating a package initialiser: its variables are concrete cells
	defers    [][]deferred
	aborted   string
	abortKind string
	loopCond  bool
	maps      []*Term                  // maps allocated on this path
	Covered   map[*ssa.BasicBlock]bool // blocks entered on any path of the current Walk
	Exploded  bool
	Finite    bool // exact region splitting for compound expressions of one small-domain leaf (finite.go)
}

type deferred struct {
	name string
	args []*Term
	call *ssa.CallCommon
	pos  token.Pos
	inst ssa.Instruction
	clos *Term
	fn   *ssa.Function
}

func NewWalker(p *Program) *Walker {
	return &Walker{P: p, LoopFuel: 3, MaxPaths: 20000, MaxDepth: 4, Opaque: map[string]bool{}, RangeCap: 3}
}

type abortPath struct{ kind, detail string }

func (w *Walker) abort(kind, detail string) { panic(abortPath{kind, detail}) }

// Walk enumerates all paths of fn under the abstract domain.
func (w *Walker) Walk(fn *ssa.Function, args []*Term, bindings []*Term) []Path {
	var paths []Path
	w.script = nil
	w.Exploded = false
	if w.Covered == nil {
		w.Covered = map[*ssa.BasicBlock]bool{}
	}
	for {
		w.pos = 0
		w.alts = w.alts[:0]
		w.state = w.initialState()
		w.events = nil
		w.decisions = nil
		w.cellN = 0
		w.cells = nil
		w.freshN = map[string]int{}
		w.symCells = map[string]*Cell{}
		w.defers = nil
		w.maps = nil
		p := Path{}
		func() {
			defer func() {
				if r := recover(); r != nil {
					if a, ok := r.(abortPath); ok {
						p.Outcome = a.kind
						p.Detail = a.detail
						return
					}
					panic(r)
				}
			}()
			res, out := w.exec(fn, args, bindings, 0)
			p.Results = res
			p.Outcome = out
		}()
		p.State = w.state
		p.Events = w.events
		p.Decisions = w.decisions
		p.Cells = w.cells
		p.Maps = w.maps
		for _, c := range w.symCells {
			p.SymCells = append(p.SymCells, c)
		}
		paths = append(paths, p)
		if os.Getenv("UHLINT_DEBUG") == "WALK" {
			fmt.Fprintf(os.Stderr, "WALK %s #%d %s %s script=%v\n", fn.Name(), len(paths), p.Outcome, p.Detail, w.script)
		}
		if len(paths) >= w.MaxPaths {
			w.Exploded = true
			break
		}
		// backtrack
		i := len(w.script) - 1
		for i >= 0 && w.script[i]+1 >= w.alts[i] {
			i--
		}
		if i < 0 {
			break
		}
		w.script = append(w.script[:i:i], w.script[i]+1)
	}
	return paths
}

// freeze copies a term so that later writes to local cells do not show through.
func freeze(t *Term, memo map[*Cell]*Cell, depth int) *Term {
	if t == nil || depth > 12 {
		return t
	}
	switch t.Op {
	case "ptr", "sref":
		if t.Cell == nil || t.Cell.Sym {
			return t
		}
		c, ok := memo[t.Cell]
		if !ok {
			c = &Cell{ID: t.Cell.ID, Name: t.Cell.Name, Typ: t.Cell.Typ, Heap: t.Cell.Heap}
			memo[t.Cell] = c
			c.Val = freeze(t.Cell.Val, memo, depth+1)
		}
		n := *t
		n.Cell = c
		n.str = ""
		return &n
	case "struct", "mapv", "slicev", "iface", "tuple":
		n := *t
		n.str = ""
		n.Args = make([]*Term, len(t.Args))
		for i, a := range t.Args {
			n.Args[i] = freeze(a, memo, depth+1)
		}
		return &n
	}
	return t
}

func (w *Walker) initialState() *PathState {
	ps := newPathState()
	for k, v := range w.Assume {
		ps.Ints[k] = v
	}
	for k, v := range w.AssumeBool {
		ps.Bools[k] = v
	}
	return ps
}

func (w *Walker) choose(n int, desc string) int {
	if w.pos < len(w.script) {
		c := w.script[w.pos]
		if w.pos < len(w.alts) {
			w.alts[w.pos] = n
		} else {
			w.alts = append(w.alts, n)
		}
		w.pos++
		return c
	}
	w.script = append(w.script, 0)
	w.alts = append(w.alts, n)
	w.pos++
	return 0
}

func (w *Walker) fresh(kind string) int {
	w.freshN[kind]++
	return w.freshN[kind]
}

func (w *Walker) newCell(name string, t types.Type, heap bool) *Cell {
	w.cellN++
	c := &Cell{ID: w.cellN, Name: fmt.Sprintf("%s@%d", name, w.cellN), Typ: t, Heap: heap}
	c.Val = zeroOf(t)
	w.cells = append(w.cells, c)
	return c
}

func (w *Walker) symCell(t *Term) *Cell {
	k := t.String()
	if c, ok := w.symCells[k]; ok {
		return c
	}
	var et types.Type
	var v *Term
	if t.Typ != nil {
		switch u := t.Typ.Underlying().(type) {
		case *types.Pointer:
			et = u.Elem()
			v = &Term{Op: "deref", Args: []*Term{t}, Typ: et}
		case *types.Slice:
			et = t.Typ
			v = t
		default:
			et = t.Typ
			v = t
		}
	} else {
		v = t
	}
	c := &Cell{ID: -1, Name: k, Typ: et, Sym: true, Val: v}
	w.symCells[k] = c
	return c
}

func zeroOf(t types.Type) *Term {
	if t == nil {
		return &Term{Op: "zero"}
	}
	switch u := t.Underlying().(type) {
	case *types.Basic:
		switch {
		case u.Info()&types.IsBoolean != 0:
			return mkConst(constant.MakeBool(false), t)
		case u.Info()&types.IsInteger != 0:
			return mkInt(0, t)
		case u.Info()&types.IsString != 0:
			return mkConst(constant.MakeString(""), t)
		case u.Info()&types.IsFloat != 0:
			return mkConst(constant.MakeFloat64(0), t)
		case u.Kind() == types.UnsafePointer || u.Kind() == types.UntypedNil:
			return mkNil(t)
		}
	case *types.Pointer, *types.Slice, *types.Map, *types.Chan, *types.Signature, *types.Interface:
		return mkNil(t)
	case *types.Array:
		if u.Len() <= 4096 {
			els := make([]*Term, u.Len())
			for i := range els {
				els[i] = zeroOf(u.Elem())
			}
			return &Term{Op: "slicev", Args: els, Typ: t}
		}
	}
	return &Term{Op: "zero", Typ: t}
}

// ---- projection and update of aggregate terms -------------------------------------------

func fieldType(t types.Type, name string) types.Type {
	if t == nil {
		return nil
	}
	if st, ok := t.Underlying().(*types.Struct); ok {
		for i := 0; i < st.NumFields(); i++ {
			if st.Field(i).Name() == name {
				return st.Field(i).Type()
			}
		}
	}
	return nil
}

func elemType(t types.Type) types.Type {
	if t == nil {
		return nil
	}
	switch u := t.Underlying().(type) {
	case *types.Array:
		return u.Elem()
	case *types.Slice:
		return u.Elem()
	case *types.Pointer:
		return elemType(u.Elem())
	case *types.Map:
		return u.Elem()
	case *types.Basic:
		if u.Info()&types.IsString != 0 {
			return types.Typ[types.Uint8]
		}
	}
	return nil
}

func project(v *Term, sel string) *Term {
	if strings.HasPrefix(sel, "#") {
		idx := sel[1:]
		if v.Op == "slicev" {
			if n, err := strconv.Atoi(idx); err == nil {
				if n >= 0 && n < len(v.Args) {
					return v.Args[n]
				}
				return &Term{Op: "fresh", Name: fmt.Sprintf("oob(%s,%d)", v.String(), n), Typ: elemType(v.Typ)}
			}
		}
		if v.Op == "zero" {
			return zeroOf(elemType(v.Typ))
		}
		var it *Term
		if n, err := strconv.ParseInt(idx, 10, 64); err == nil {
			it = mkInt(n, types.Typ[types.Int])
		} else {
			it = &Term{Op: "fresh", Name: idx, Typ: types.Typ[types.Int]}
		}
		return &Term{Op: "index", Args: []*Term{v, it}, Typ: elemType(v.Typ)}
	}
	switch v.Op {
	case "struct":
		for i, n := range v.FNames {
			if n == sel {
				return v.Args[i]
			}
		}
	case "zero":
		return zeroOf(fieldType(v.Typ, sel))
	}
	return &Term{Op: "field", Name: sel, Args: []*Term{v}, Typ: fieldType(v.Typ, sel)}
}

func materialiseStruct(v *Term) *Term {
	if v.Op == "struct" {
		return v
	}
	st, ok := v.Typ.Underlying().(*types.Struct)
	if !ok {
		return nil
	}
	out := &Term{Op: "struct", Typ: v.Typ}
	for i := 0; i < st.NumFields(); i++ {
		n := st.Field(i).Name()
		out.FNames = append(out.FNames, n)
		out.Args = append(out.Args, project(v, n))
	}
	return out
}

func update(v *Term, path []string, nv *Term) *Term {
	if len(path) == 0 {
		return nv
	}
	sel := path[0]
	if strings.HasPrefix(sel, "#") {
		if v.Op == "slicev" {
			if n, err := strconv.Atoi(sel[1:]); err == nil && n >= 0 && n < len(v.Args) {
				out := &Term{Op: "slicev", Typ: v.Typ, Args: append([]*Term{}, v.Args...)}
				out.Args[n] = update(v.Args[n], path[1:], nv)
				return out
			}
		}
		// store through an index we cannot resolve: the aggregate becomes unknown
		return &Term{Op: "fresh", Name: "clobbered(" + v.String() + ")", Typ: v.Typ}
	}
	s := materialiseStruct(v)
	if s == nil {
		return &Term{Op: "fresh", Name: "clobbered(" + v.String() + ")", Typ: v.Typ}
	}
	out := &Term{Op: "struct", Typ: s.Typ, FNames: s.FNames, Args: append([]*Term{}, s.Args...)}
	for i, n := range out.FNames {
		if n == sel {
			out.Args[i] = update(out.Args[i], path[1:], nv)
		}
	}
	return out
}

func (w *Walker) load(addr *Term, instr ssa.Instruction, fn *ssa.Function, depth int) *Term {
	if addr.Op != "ptr" {
		if addr.IsNilConst() {
			w.abort("panic", "nil dereference at "+w.P.Pos(instr.Pos()))
		}
		if w.Nullable != nil && w.Nullable(addr) {
			if isnil, ok := w.state.Bools["isnil("+addr.String()+")"]; !ok || isnil {
				w.event(Event{Kind: "nilderef", Name: addr.String(), Args: []*Term{addr}, Pos: instr.Pos(), Instr: instr, Fn: fn, Depth: depth})
			}
		}
		c := w.symCell(addr)
		return c.Val
	}
	v := addr.Cell.Val
	if addr.Cell.Sym && len(addr.Path) > 0 {
		// storage of the caller (receiver, parameters): what its unexported fields can hold is known from the
		// stores of the package (fieldfacts.go)
		for _, s := range addr.Path {
			if it, ok := w.symIdx[s]; ok && strings.HasPrefix(s, "#") && v.Op != "zero" {
				v = &Term{Op: "index", Args: []*Term{v, it}, Typ: elemType(v.Typ)}
				continue
			}
			v = w.applyFieldFacts(project(v, s))
		}
		return w.dispatchIndex(v)
	}
	for _, s := range addr.Path {
		if it, ok := w.symIdx[s]; ok && strings.HasPrefix(s, "#") && v.Op != "zero" {
			v = &Term{Op: "index", Args: []*Term{v, it}, Typ: elemType(v.Typ)}
			continue
		}
		v = w.applyFieldFacts(project(v, s))
	}
	return w.dispatchIndex(v)
}

// dispatchIndex: an element of a table of functions selected by a symbolic index is walked like the map form
// of the same table (tableLookup): the chain  if i == k1 {f1} else if i == k2 {f2} ... else nil.
func (w *Walker) dispatchIndex(v *Term) *Term {
	if v == nil || v.Op != "index" || len(v.Args) != 2 || v.Args[0].Op != "slicev" || v.Args[1].IsConst() {
		return v
	}
	if _, isFn := elemType(v.Args[0].Typ).Underlying().(*types.Signature); !isFn {
		return v
	}
	els := v.Args[0].Args
	n := 0
	for _, e := range els {
		switch {
		case e.Op == "closure":
			n++
		case e.IsNilConst():
		default:
			return v
		}
	}
	if n == 0 || n > 128 {
		return v
	}
	idx := v.Args[1]
	for k, e := range els {
		if e.Op != "closure" {
			continue
		}
		cmp := w.binop(token.EQL, idx, mkInt(int64(k), idx.Typ), types.Typ[types.Bool])
		if w.decide(cmp) {
			return e
		}
	}
	return mkNil(elemType(v.Args[0].Typ))
}

func (w *Walker) store(addr, v *Term, instr ssa.Instruction, fn *ssa.Function, depth int) {
	if addr.IsNilConst() {
		w.abort("panic", "store through nil pointer at "+w.P.Pos(instr.Pos()))
	}
	if addr.Op != "ptr" {
		c := w.symCell(addr)
		w.event(Event{Kind: "store", Name: addr.String(), Args: []*Term{addr, v}, Pos: instr.Pos(), Instr: instr, Fn: fn, Depth: depth})
		c.Val = v
		return
	}
	if addr.Cell.Sym {
		w.event(Event{Kind: "store", Name: addr.String(), Args: []*Term{addr, v}, Pos: instr.Pos(), Instr: instr, Fn: fn, Depth: depth})
		for _, s := range addr.Path {
			if strings.HasPrefix(s, "#") {
				if _, err := strconv.Atoi(s[1:]); err != nil {
					return // store through a symbolic index into caller memory: recorded as an event only
				}
			}
		}
		if len(addr.Path) > 0 && strings.HasPrefix(addr.Path[0], "#") {
			return // element stores into caller-owned slices are events; later reads stay symbolic
		}
	}
	addr.Cell.Val = update(addr.Cell.Val, addr.Path, v)
}

func (w *Walker) event(e Event) {
	e.Seq = len(w.events)
	if e.Kind == "call" || e.Kind == "go" || e.Kind == "defer" {
		memo := map[*Cell]*Cell{}
		for _, a := range e.Args {
			e.Deep = append(e.Deep, termDeep(a))
			e.Snap = append(e.Snap, freeze(a, memo, 0))
		}
	}
	w.events = append(w.events, e)
}

// ---- names ------------------------------------------------------------------------------

func shortPkg(p *types.Package) string {
	if p == nil {
		return ""
	}
	return relPkg(p.Path())
}

func calleeName(fn *ssa.Function) string {
	if fn == nil {
		return "?"
	}
	// a method expression T.M is compiled to a thunk that calls the method with its first argument as receiver
	if strings.HasSuffix(fn.Name(), "$thunk") && fn.Synthetic != "" && len(fn.Blocks) == 1 {
		for _, in := range fn.Blocks[0].Instrs {
			if c, ok := in.(*ssa.Call); ok {
				if f := c.Call.StaticCallee(); f != nil {
					return calleeName(f)
				}
			}
		}
	}
	base := fn
	targs := ""
	if o := fn.Origin(); o != nil {
		base = o
		ts := []string{}
		for _, t := range fn.TypeArgs() {
			ts = append(ts, typeName(t))
		}
		targs = "[" + strings.Join(ts, ",") + "]"
	}
	if recv := base.Signature.Recv(); recv != nil {
		return "(" + typeName(recv.Type()) + ")." + base.Name() + targs
	}
	if base.Parent() != nil {
		return calleeName(base.Parent()) + "$" + strings.TrimPrefix(base.Name(), base.Parent().Name()+"$")
	}
	pk := ""
	if base.Pkg != nil {
		pk = shortPkg(base.Pkg.Pkg)
	} else if base.Object() != nil {
		pk = shortPkg(base.Object().Pkg())
	}
	return pk + "." + base.Name() + targs
}

var stdGlobalBytes = map[string][]byte{
	"net.IPv4bcast": {0, 0, 0, 0, 0, 0, 0, 0, 0, 0, 0xff, 0xff, 255, 255, 255, 255},
	"net.IPv4zero":  {0, 0, 0, 0, 0, 0, 0, 0, 0, 0, 0xff, 0xff, 0, 0, 0, 0},
}

var purePkgs = map[string]bool{"time": true, "netip": true, "strconv": true, "strings": true, "fmt": true, "regexp": true,
	"errors": true, "bytes": true, "binary": true, "math": true, "bcd": true, "utf8": true, "unicode": true, "reflect": true, "net": true, "types": true}
var impureNames = map[string]bool{"time.Now": true, "time.Sleep": true, "time.After": true, "time.Since": true, "time.Until": true,
	"fmt.Printf": true, "fmt.Println": true, "fmt.Print": true, "fmt.Fprintf": true, "fmt.Fprintln": true,
	"net.ListenUDP": true, "net.Interfaces": true, "net.Dial": true, "net.DialUDP": true, "net.ListenPacket": true}

func isPureName(name string) bool {
	if impureNames[name] {
		return false
	}
	n := name
	if strings.HasPrefix(n, "invoke:reflect.Type.") {
		return true // the methods of reflect.Type only describe a type
	}
	if strings.HasPrefix(n, "invoke:") || strings.HasPrefix(n, "dyn:") {
		return false
	}
	if strings.HasPrefix(n, "(") {
		// method: (pkg.T).M or (*pkg.T).M
		r := strings.TrimPrefix(n, "(")
		r = strings.TrimPrefix(r, "*")
		pk := r
		if i := strings.Index(r, "."); i >= 0 {
			pk = r[:i]
		}
		if pk == "net" {
			// methods on connections / dialers are effects; net.IP helpers are pure
			return strings.HasPrefix(r, "net.IP)") || strings.HasPrefix(r, "net.HardwareAddr)") || strings.HasPrefix(r, "net.UDPAddr)") || strings.HasPrefix(r, "net.TCPAddr)")
		}
		if pk == "reflect" {
			return !strings.Contains(n, ").Set")
		}
		if pk == "strings" {
			return !strings.Contains(r, "Builder)")
		}
		return purePkgs[pk]
	}
	pk := n
	if i := strings.Index(n, "."); i >= 0 {
		pk = n[:i]
	}
	return purePkgs[pk]
}

// ---- execution --------------------------------------------------------------------------

type frame struct {
	steps     int
	pinSteps  int
	headerPos map[*ssa.BasicBlock]int // decision-script position at the last visit of a loop header
	fn        *ssa.Function
	env       map[ssa.Value]*Term
	depth     int
	visits    map[*ssa.BasicBlock]int
}

func (w *Walker) exec(fn *ssa.Function, args []*Term, bindings []*Term, depth int) ([]*Term, string) {
	if fn.Blocks == nil {
		w.abort("unsupported", "no body for "+fn.String())
	}
	fr := &frame{fn: fn, env: map[ssa.Value]*Term{}, depth: depth, visits: map[*ssa.BasicBlock]int{}}
	for i, p := range fn.Params {
		if i < len(args) && args[i] != nil {
			fr.env[p] = args[i]
		} else {
			fr.env[p] = &Term{Op: "param", Name: p.Name(), Typ: p.Type()}
		}
	}
	for i, fv := range fn.FreeVars {
		if i < len(bindings) && bindings[i] != nil {
			fr.env[fv] = bindings[i]
		} else {
			fr.env[fv] = &Term{Op: "param", Name: "free:" + fv.Name(), Typ: fv.Type()}
		}
	}
	w.defers = append(w.defers, nil)
	defer func() { w.defers = w.defers[:len(w.defers)-1] }()

	var prev *ssa.BasicBlock
	b := fn.Blocks[0]
	for {
		fr.visits[b]++
		if w.Covered != nil {
			w.Covered[b] = true
		}
		if fr.visits[b] > w.LoopFuel+1 {
			w.abort("truncated", fmt.Sprintf("loop bound %d reached in %s block %d", w.LoopFuel, fn.Name(), b.Index))
		}
		// phis first, evaluated simultaneously
		var phiVals []*Term
		var phis []*ssa.Phi
		for _, in := range b.Instrs {
			ph, ok := in.(*ssa.Phi)
			if !ok {
				break
			}
			idx := -1
			for i, p := range b.Preds {
				if p == prev {
					idx = i
				}
			}
			if idx < 0 {
				w.abort("unsupported", "phi without matching predecessor")
			}
			phis = append(phis, ph)
			phiVals = append(phiVals, w.val(fr, ph.Edges[idx]))
		}
		for i, ph := range phis {
			fr.env[ph] = phiVals[i]
		}
		for _, in := range b.Instrs[len(phis):] {
			switch x := in.(type) {
			case *ssa.If:
				c := w.val(fr, x.Cond)
				prev = b
				w.loopCond = isLoopHeader(b)
				if last, seen := fr.headerPos[b]; fr.headerPos != nil && seen && last != w.pos {
					// a symbolic decision was taken during the last iteration: an ordinary, fuel-bounded loop
				} else if _, isConst := c.BoolVal(); isConst && (!c.Settled || (c.Pinned && fr.pinSteps < 64)) && w.loopCond && fr.steps < 20000 {
					if c.Settled {
						fr.pinSteps++ // a count the path condition has pinned to one value: as good as a constant, for short loops
					}
					// a loop whose condition folds to a constant (counting over a literal or a constant table) is not
					// bounded by the fuel, which exists for loops over symbolic data
					fr.visits[b]--
					for blk := range fr.visits {
						if blk != b && dominates(b, blk) {
							fr.visits[blk] = 0
						}
					}
				}
				fr.steps++
				if w.loopCond {
					if fr.headerPos == nil {
						fr.headerPos = map[*ssa.BasicBlock]int{}
					}
					fr.headerPos[b] = w.pos
				}
				taken := w.decide(c)
				w.loopCond = false
				if taken {
					b = b.Succs[0]
				} else {
					b = b.Succs[1]
				}
				goto next
			case *ssa.Jump:
				prev = b
				b = b.Succs[0]
				goto next
			case *ssa.Return:
				res := make([]*Term, len(x.Results))
				for i, r := range x.Results {
					res[i] = w.val(fr, r)
					if w.ForceBool && depth == 0 && isBoolType(res[i].Typ) && !res[i].IsConst() {
						res[i] = mkBool(w.decide(res[i]))
					}
				}
				w.runDefers(fr)
				return res, "return"
			case *ssa.Panic:
				v := w.val(fr, x.X)
				w.event(Event{Kind: "panic", Name: "panic", Args: []*Term{v}, Pos: x.Pos(), Instr: x, Fn: fn, Depth: depth})
				w.abort("panic", "explicit panic: "+v.String())
			default:
				w.step(fr, in)
			}
		}
		w.abort("unsupported", "block without terminator")
	next:
	}
}

func isLoopHeader(b *ssa.BasicBlock) bool {
	for _, p := range b.Preds {
		for x := p; x != nil; x = x.Idom() {
			if x == b {
				return true
			}
		}
	}
	return false
}

func (w *Walker) runDefers(fr *frame) {
	ds := w.defers[len(w.defers)-1]
	w.defers[len(w.defers)-1] = nil
	for i := len(ds) - 1; i >= 0; i-- {
		d := ds[i]
		if d.clos != nil && d.clos.Op == "closure" && d.clos.Fn != nil && d.clos.Fn.Blocks != nil && inModule(d.clos.Fn) && fr.depth < w.MaxDepth {
			// a deferred function value (defer release()): its body runs now; what it does is recorded as deferred
			w.event(Event{Kind: "call", Name: d.name, Args: d.args, Pos: d.pos, Instr: d.inst, Deferred: true, Fn: fr.fn, Depth: fr.depth})
			n0 := len(w.events)
			w.exec(d.clos.Fn, d.args, d.clos.Args, fr.depth+1)
			for j := n0; j < len(w.events); j++ {
				w.events[j].Deferred = true
			}
			continue
		}
		if d.name == "builtin:close" && len(d.args) == 1 {
			// defer close(ch): the channel is closed when the function returns
			w.event(Event{Kind: "close", Name: d.args[0].String(), Args: d.args, Pos: d.pos, Instr: d.inst, Deferred: true, Fn: fr.fn, Depth: fr.depth})
			continue
		}
		w.event(Event{Kind: "call", Name: d.name, Args: d.args, Pos: d.pos, Instr: d.inst, Deferred: true, Fn: fr.fn, Depth: fr.depth})
	}
}

func (w *Walker) val(fr *frame, v ssa.Value) *Term {
	switch x := v.(type) {
	case *ssa.Const:
		if x.Value == nil {
			switch x.Type().Underlying().(type) {
			case *types.Pointer, *types.Slice, *types.Map, *types.Chan, *types.Signature, *types.Interface:
				return mkNil(x.Type())
			case *types.Basic:
				if x.Type().Underlying().(*types.Basic).Kind() == types.UntypedNil {
					return mkNil(x.Type())
				}
			}
			return zeroOf(x.Type())
		}
		return mkConst(x.Value, x.Type())
	case *ssa.Global:
		name := shortPkg(x.Pkg.Pkg) + "." + x.Name()
		g := &Term{Op: "global", Name: name, Typ: x.Type()}
		c := w.symCell(g)
		if w.InitPkg != nil && x.Pkg == w.InitPkg && c.Val.Op == "deref" {
			// package initialisation: the variable starts at its zero value and is written by the walk itself
			et := x.Type().Underlying().(*types.Pointer).Elem()
			if x.Name() == "init$guard" {
				c.Val = mkBool(false)
			} else {
				c.Val = zeroOf(et)
			}
			c.Sym = false
			c.Heap = true
			return &Term{Op: "ptr", Cell: c, Typ: x.Type()}
		}
		if c.Val.Op == "deref" {
			c.Val = &Term{Op: "global", Name: name, Typ: x.Type().Underlying().(*types.Pointer).Elem()}
			if img, ok := stdGlobalBytes[name]; ok {
				// documented constant values of the standard library (trusted base): net.IPv4bcast etc. are the
				// 16-byte IPv4-in-IPv6 forms
				els := make([]*Term, len(img))
				for i, b := range img {
					els[i] = mkInt(int64(b), types.Typ[types.Uint8])
				}
				at := types.NewArray(types.Typ[types.Uint8], int64(len(img)))
				cell := w.newCell(name, at, true)
				cell.Val = &Term{Op: "slicev", Args: els, Typ: at}
				c.Val = &Term{Op: "sref", Cell: cell, Typ: c.Val.Typ, Args: []*Term{mkInt(0, types.Typ[types.Int]), mkInt(int64(len(img)), types.Typ[types.Int])}}
			}
			if fv := w.foldGlobal(x); fv != nil {
				c.Val = fv
			} else if w.InitPkg == nil && w.P.dispatchTable(x) == nil {
				if iv := w.initValue(x); iv != nil {
					c.Val = iv
				}
			}
		}
		return &Term{Op: "ptr", Cell: c, Typ: x.Type()}
	case *ssa.Function:
		return &Term{Op: "closure", Fn: x, Typ: x.Type()}
	case *ssa.Builtin:
		return &Term{Op: "fresh", Name: "builtin:" + x.Name(), Typ: x.Type()}
	}
	if t, ok := fr.env[v]; ok {
		return t
	}
	w.abort("unsupported", fmt.Sprintf("value %s (%T) not in environment of %s", v.Name(), v, fr.fn.Name()))
	return nil
}

func (w *Walker) step(fr *frame, in ssa.Instruction) {
	fn, depth := fr.fn, fr.depth
	switch x := in.(type) {
	case *ssa.DebugRef:
	case *ssa.Alloc:
		et := x.Type().Underlying().(*types.Pointer).Elem()
		nm := x.Comment
		if nm == "" {
			nm = "alloc"
		}
		c := w.newCell(nm, et, x.Heap)
		fr.env[x] = &Term{Op: "ptr", Cell: c, Typ: x.Type()}
	case *ssa.Store:
		w.store(w.val(fr, x.Addr), w.val(fr, x.Val), x, fn, depth)
	case *ssa.SliceToArrayPointer:
		// [N]T(s) / (*[N]T)(s): a view of the first N elements of s (the conversion panics when len(s) < N: the
		// slice expression that produced s is what the bounds rules look at)
		fr.env[x] = &Term{Op: "arrview", Args: []*Term{w.val(fr, x.X)}, Typ: x.Type()}
	case *ssa.UnOp:
		a := w.val(fr, x.X)
		if x.Op == token.MUL && a.Op == "arrview" {
			fr.env[x] = &Term{Op: "arrval", Args: a.Args, Typ: x.Type()}
			return
		}
		switch x.Op {
		case token.MUL:
			fr.env[x] = w.load(a, x, fn, depth)
		case token.NOT:
			if b, ok := a.BoolVal(); ok {
				fr.env[x] = mkBool(!b)
			} else {
				fr.env[x] = &Term{Op: "not", Args: []*Term{a}, Typ: x.Type()}
			}
		case token.ARROW:
			id := w.fresh("recv")
			r := &Term{Op: "recv", Args: []*Term{a}, ID: id, Typ: x.Type()}
			if w.OnRecv != nil {
				et := x.Type()
				if tt, ok := et.(*types.Tuple); ok && tt.Len() > 0 {
					et = tt.At(0).Type()
				}
				if t, ok := w.OnRecv(w, a, et, id); ok {
					r = t
				}
			}
			w.event(Event{Kind: "recv", Name: a.String(), Args: []*Term{a}, Result: r, Pos: x.Pos(), Instr: x, Fn: fn, Depth: depth})
			if x.CommaOk {
				ok := &Term{Op: "fresh", Name: fmt.Sprintf("recvok(%s)@%d", a.String(), id), Typ: types.Typ[types.Bool]}
				if w.OnRecv != nil {
					// a hooked receive models "closed" by the nil element
					ok = mkBool(!r.IsNilConst())
				}
				fr.env[x] = &Term{Op: "tuple", Args: []*Term{r, ok}, Typ: x.Type()}
			} else {
				fr.env[x] = r
			}
		case token.SUB:
			if n, ok := a.Int64(); ok {
				fr.env[x] = wrapInt(-n, x.Type())
			} else {
				fr.env[x] = &Term{Op: "un", Name: "-", Args: []*Term{a}, Typ: x.Type()}
			}
		case token.XOR:
			// ^c of a constant, in the operand's type (^T(0) is the all-ones value of T)
			if n, ok := a.Int64(); ok && isIntType(x.Type()) {
				fr.env[x] = wrapInt(^n, x.Type())
			} else {
				fr.env[x] = &Term{Op: "un", Name: x.Op.String(), Args: []*Term{a}, Typ: x.Type()}
			}
		default:
			fr.env[x] = &Term{Op: "un", Name: x.Op.String(), Args: []*Term{a}, Typ: x.Type()}
		}
	case *ssa.BinOp:
		a, b := w.val(fr, x.X), w.val(fr, x.Y)
		if x.Op == token.EQL || x.Op == token.NEQ {
			if b.Op == "arrval" {
				a, b = b, a
			}
			if a.Op == "arrval" && b.Op == "slicev" && constTable(b) != nil {
				// array comparison with a constant image: the same fact as bytes.Equal(s, image)
				cell := w.newCell("image", b.Typ, true)
				cell.Val = b
				st := types.NewSlice(elemType(b.Typ))
				img := &Term{Op: "sref", Cell: cell, Typ: st, Args: []*Term{mkInt(0, types.Typ[types.Int]), mkInt(int64(len(b.Args)), types.Typ[types.Int])}}
				t := &Term{Op: "call", Name: "bytes.Equal", Args: []*Term{a.Args[0], img}, Typ: types.Typ[types.Bool], Pos: x.Pos()}
				w.event(Event{Kind: "call", Name: "bytes.Equal", Args: t.Args, Result: t, Pos: x.Pos(), Instr: x, Fn: fn, Depth: depth})
				if x.Op == token.NEQ {
					fr.env[x] = &Term{Op: "not", Args: []*Term{t}, Typ: x.Type()}
				} else {
					fr.env[x] = t
				}
				return
			}
		}
		fr.env[x] = w.binop(x.Op, a, b, x.Type())
	case *ssa.FieldAddr:
		base := w.val(fr, x.X)
		st := x.X.Type().Underlying().(*types.Pointer).Elem().Underlying().(*types.Struct)
		name := st.Field(x.Field).Name()
		if base.IsNilConst() {
			w.abort("panic", "nil pointer field address")
		}
		if base.Op != "ptr" {
			c := w.symCell(base)
			base = &Term{Op: "ptr", Cell: c, Typ: base.Typ}
		}
		fr.env[x] = &Term{Op: "ptr", Cell: base.Cell, Path: append(append([]string{}, base.Path...), name), Typ: x.Type()}
	case *ssa.Field:
		base := w.val(fr, x.X)
		st := x.X.Type().Underlying().(*types.Struct)
		fr.env[x] = project(base, st.Field(x.Field).Name())
	case *ssa.IndexAddr:
		base := w.val(fr, x.X)
		idx := w.val(fr, x.Index)
		fr.env[x] = w.indexAddr(base, idx, x, fn, depth)
	case *ssa.Index:
		base := w.val(fr, x.X)
		idx := w.val(fr, x.Index)
		// s[a:b][k] of a text is s[a+k] (texts are immutable; whether k is inside the piece is P1's concern)
		for isStringType(base.Typ) && base.Op == "slice" && len(base.Args) >= 2 && base.Args[0] != nil && isStringType(base.Args[0].Typ) {
			lo := int64(0)
			if base.Args[1] != nil {
				l, ok := base.Args[1].Int64()
				if !ok {
					break
				}
				lo = l
			}
			k, ok := idx.Int64()
			if !ok {
				break
			}
			if w.Finite {
				if _, known := w.charsOf(base); known {
					break // the characters of the piece are known: handled below
				}
			}
			idx = mkInt(lo+k, types.Typ[types.Int])
			base = base.Args[0]
		}
		if n, ok := idx.Int64(); ok {
			if w.Finite && isStringType(base.Typ) && n >= 0 && (base.Op == "bin" || base.Op == "slice" || base.Op == "strv" || base.Op == "conv") {
				// a character of a text assembled from pieces whose characters are known ("0"+s, s[a:b], string(bytes))
				if cs, o := w.charsOf(base); o && int(n) < len(cs) {
					fr.env[x] = cs[n]
					break
				}
			}
			fr.env[x] = project(base, fmt.Sprintf("#%d", n))
		} else {
			fr.env[x] = &Term{Op: "index", Args: []*Term{base, idx}, Typ: x.Type()}
		}
	case *ssa.Lookup:
		if t, ok := w.lookupDispatch(w.val(fr, x.X), w.val(fr, x.Index), x); ok {
			fr.env[x] = t
			break
		}
		if t, ok := w.tableLookup(w.val(fr, x.X), w.val(fr, x.Index), fr, x); ok {
			fr.env[x] = t
			return
		}
		fr.env[x] = w.lookup(w.val(fr, x.X), w.val(fr, x.Index), x)
	case *ssa.MapUpdate:
		m := w.val(fr, x.Map)
		k := w.val(fr, x.Key)
		v := w.val(fr, x.Value)
		if m.Op == "mapv" {
			found := false
			for i := 0; i+1 < len(m.Args); i += 2 {
				if m.Args[i].String() == k.String() {
					m.Args[i+1] = v
					found = true
				}
			}
			if !found {
				m.Args = append(m.Args, k, v)
			}
		} else {
			if m.IsNilConst() {
				w.event(Event{Kind: "panic", Name: "nilmap", Args: []*Term{m, k, v}, Pos: x.Pos(), Instr: x, Fn: fn, Depth: depth})
				w.abort("panic", "assignment to entry in nil map")
			}
			w.event(Event{Kind: "mapupdate", Name: m.String(), Args: []*Term{m, k, v}, Pos: x.Pos(), Instr: x, Fn: fn, Depth: depth})
		}
	case *ssa.MakeMap:
		mv := &Term{Op: "mapv", Typ: x.Type(), ID: w.fresh("map")}
		w.maps = append(w.maps, mv)
		fr.env[x] = mv
	case *ssa.MakeSlice:
		ln := w.val(fr, x.Len)
		et := x.Type().Underlying().(*types.Slice).Elem()
		n, ok := ln.Int64()
		if !ok {
			// a length the path condition has pinned to one value (an assumed field count, a checked length)
			if reg, has := w.state.Ints[ln.String()]; has && len(reg) == 1 && reg[0].Lo == reg[0].Hi {
				n, ok = reg[0].Lo, true
			} else if v, o := w.pinnedValue(ln); o {
				n, ok = v, true
			}
		}
		limit := int64(4096) // as large as the arrays a constant-size make compiles to
		if ok && !ln.IsConst() {
			ln = mkInt(n, ln.Typ) // the path has pinned the length to this value
		}
		if ok && n >= 0 && n <= limit {
			c := w.newCell("makeslice", types.NewArray(et, n), true)
			fr.env[x] = &Term{Op: "sref", Cell: c, Typ: x.Type(), Args: []*Term{mkInt(0, types.Typ[types.Int]), mkInt(n, types.Typ[types.Int])}}
		} else {
			id := w.fresh("make")
			fr.env[x] = &Term{Op: "fresh", Name: fmt.Sprintf("make(%s,%s)@%d", typeName(x.Type()), ln.String(), id), Typ: x.Type(), Args: []*Term{ln}}
		}
	case *ssa.MakeChan:
		fr.env[x] = &Term{Op: "fresh", Name: fmt.Sprintf("chan@%d", w.fresh("chan")), Typ: x.Type()}
	case *ssa.MakeClosure:
		bs := make([]*Term, len(x.Bindings))
		for i, b := range x.Bindings {
			bs[i] = w.val(fr, b)
		}
		fr.env[x] = &Term{Op: "closure", Fn: x.Fn.(*ssa.Function), Args: bs, Typ: x.Type()}
	case *ssa.MakeInterface:
		v := w.val(fr, x.X)
		fr.env[x] = &Term{Op: "iface", Args: []*Term{v}, Dyn: x.X.Type(), Typ: x.Type()}
	case *ssa.ChangeInterface:
		fr.env[x] = w.val(fr, x.X)
	case *ssa.ChangeType:
		fr.env[x] = w.val(fr, x.X)
	case *ssa.Convert:
		fr.env[x] = w.convert(w.val(fr, x.X), x.X.Type(), x.Type())
	case *ssa.Slice:
		fr.env[x] = w.slice(fr, x)
	case *ssa.Extract:
		t := w.val(fr, x.Tuple)
		if t.Op == "tuple" {
			fr.env[x] = t.Args[x.Index]
		} else {
			fr.env[x] = &Term{Op: "extract", Name: strconv.Itoa(x.Index), Args: []*Term{t}, Typ: x.Type()}
		}
	case *ssa.TypeAssert:
		fr.env[x] = w.typeAssert(w.val(fr, x.X), x, fn, depth)
	case *ssa.Call:
		fr.env[x] = w.call(fr, &x.Call, x, x.Type())
	case *ssa.Go:
		args := w.callArgs(fr, &x.Call)
		name, clos := w.calleeOf(fr, &x.Call)
		w.event(Event{Kind: "go", Name: name, Args: args, Result: clos, Pos: x.Pos(), Instr: x, Fn: fn, Depth: depth})
	case *ssa.Defer:
		args := w.callArgs(fr, &x.Call)
		name, clos := w.calleeOf(fr, &x.Call)
		if clos != nil && clos.Fn != nil && strings.HasSuffix(name, "$bound") {
			// a bound method value (m.Unlock): the call of the method on the bound receiver
			name = strings.TrimSuffix(name, "$bound")
			if len(clos.Fn.Blocks) == 1 {
				for _, in2 := range clos.Fn.Blocks[0].Instrs {
					if inner, ok := in2.(*ssa.Call); ok {
						if f := inner.Call.StaticCallee(); f != nil {
							name = calleeName(f)
						}
					}
				}
			}
			args = append(append([]*Term{}, clos.Args...), args...)
			clos = nil
		}
		if f := x.Call.StaticCallee(); f != nil && clos == nil {
			if n2, a2, ok := w.lockerCanon(f, args); ok {
				name, args = n2, a2
			}
		}
		w.event(Event{Kind: "defer", Name: name, Args: args, Result: clos, Pos: x.Pos(), Instr: x, Fn: fn, Depth: depth})
		w.defers[len(w.defers)-1] = append(w.defers[len(w.defers)-1], deferred{name: name, args: args, call: &x.Call, pos: x.Pos(), inst: x, clos: clos, fn: fn})
	case *ssa.RunDefers:
		w.runDefers(fr)
	case *ssa.Send:
		ch := w.val(fr, x.Chan)
		v := w.val(fr, x.X)
		w.event(Event{Kind: "send", Name: ch.String(), Args: []*Term{ch, v}, Pos: x.Pos(), Instr: x, Fn: fn, Depth: depth})
	case *ssa.Range:
		it := w.val(fr, x.X)
		fr.env[x] = &Term{Op: "fresh", Name: fmt.Sprintf("range(%s)@%d", it.String(), w.fresh("range")), Args: []*Term{it}, Typ: x.Type()}
	case *ssa.Next:
		it := w.val(fr, x.Iter)
		id := w.fresh("next:" + it.String())
		ok := &Term{Op: "fresh", Name: fmt.Sprintf("more(%s)#%d", it.Args[0].String(), id), Typ: types.Typ[types.Bool]}
		if w.RangeCap > 0 && id > w.RangeCap {
			ok = mkBool(false) // bounded exploration of collections of unknown size
		}
		tt := x.Type().(*types.Tuple)
		k := &Term{Op: "fresh", Name: fmt.Sprintf("key(%s)#%d", it.Args[0].String(), id), Typ: tt.At(1).Type()}
		v := &Term{Op: "elem", Args: []*Term{it.Args[0]}, ID: id, Typ: tt.At(2).Type()}
		fr.env[x] = &Term{Op: "tuple", Args: []*Term{ok, k, v}, Typ: x.Type()}
	case *ssa.Select:
		// one of the ready cases is taken (or the default of a non-blocking select): the path forks over the cases
		n := len(x.States)
		if !x.Blocking {
			n++
		}
		if n == 0 {
			w.abort("truncated", "select{} blocks forever")
		}
		idx := w.choose(n, "select")
		tt := x.Type().(*types.Tuple)
		res := make([]*Term, tt.Len())
		res[0] = mkInt(int64(idx), types.Typ[types.Int])
		if idx >= len(x.States) {
			res[0] = mkInt(-1, types.Typ[types.Int])
		}
		res[1] = mkBool(true)
		ri := 2
		for i, st := range x.States {
			ch := w.val(fr, st.Chan)
			if st.Dir == types.RecvOnly {
				var v *Term
				if ri < tt.Len() {
					v = zeroOf(tt.At(ri).Type())
				}
				if i == idx {
					id := w.fresh("recv")
					et := st.Chan.Type().Underlying().(*types.Chan).Elem()
					r := &Term{Op: "recv", Args: []*Term{ch}, ID: id, Typ: et}
					if w.OnRecv != nil {
						if t, ok := w.OnRecv(w, ch, et, id); ok {
							r = t
						}
					}
					w.event(Event{Kind: "recv", Name: ch.String(), Args: []*Term{ch}, Result: r, Pos: x.Pos(), Instr: x, Fn: fn, Depth: depth})
					v = r
					if w.OnRecv != nil {
						res[1] = mkBool(!r.IsNilConst())
					} else {
						res[1] = &Term{Op: "fresh", Name: fmt.Sprintf("recvok(%s)@%d", ch.String(), id), Typ: types.Typ[types.Bool]}
					}
				}
				if ri < tt.Len() {
					res[ri] = v
					ri++
				}
			} else if i == idx {
				v := w.val(fr, st.Send)
				w.event(Event{Kind: "send", Name: ch.String(), Args: []*Term{ch, v}, Pos: x.Pos(), Instr: x, Fn: fn, Depth: depth})
			}
		}
		fr.env[x] = &Term{Op: "tuple", Args: res, Typ: x.Type()}
	default:
		w.abort("unsupported", fmt.Sprintf("instruction %T", in))
	}
}

func wrapInt(n int64, t types.Type) *Term {
	lo, hi := intRange(t)
	if b, ok := t.Underlying().(*types.Basic); ok {
		switch b.Kind() {
		case types.Uint8, types.Uint16, types.Uint32:
			m := hi + 1
			n = ((n % m) + m) % m
		case types.Int8, types.Int16, types.Int32:
			m := (hi - lo) + 1
			n = ((n-lo)%m+m)%m + lo
		}
	}
	return mkInt(n, t)
}

// pinnedValue: the value of an integer expression all of whose leaves the path condition has pinned to one value
// ((len(s)+1)/2 under len(s) == 1).
func (w *Walker) pinnedValue(t *Term) (int64, bool) {
	if t == nil || t.Op != "bin" || os.Getenv("UHLINT_NOPIN") != "" {
		return 0, false
	}
	ls := leavesOf(t)
	if len(ls) == 0 || len(ls) > 4 {
		return 0, false
	}
	env := map[string]int64{}
	for _, l := range ls {
		reg, has := w.state.Ints[l.String()]
		if !has || len(reg) != 1 || reg[0].Lo != reg[0].Hi {
			return 0, false
		}
		env[l.String()] = reg[0].Lo
	}
	return evalEnv(t, env)
}

func (w *Walker) convert(v *Term, from, to types.Type) *Term {
	if isIntType(from) && isIntType(to) {
		if n, ok := v.Int64(); ok {
			return wrapInt(n, to)
		}
		flo, fhi := intRange(from)
		tlo, thi := intRange(to)
		if tlo <= flo && thi >= fhi {
			return v // value preserving
		}
		return &Term{Op: "conv", Name: typeName(to), Args: []*Term{v}, Typ: to}
	}
	if types.Identical(from.Underlying(), to.Underlying()) {
		return v
	}
	if s, ok := v.StrVal(); ok && isStringType(to) {
		return mkConst(constant.MakeString(s), to)
	}
	return &Term{Op: "conv", Name: typeName(to), Args: []*Term{v}, Typ: to}
}

func (w *Walker) binop(op token.Token, a, b *Term, t types.Type) *Term {
	switch op {
	case token.EQL, token.NEQ, token.LSS, token.LEQ, token.GTR, token.GEQ:
		if a.IsConst() && b.IsConst() {
			if r, ok := foldCmp(op, a, b); ok {
				return mkBool(r)
			}
		}
		// a comparison with a constant that the path condition has already settled (b == 1 under b in {1})
		if w.state != nil && os.Getenv("UHLINT_NOFOLD") == "" {
			x, k, o := a, b, op
			if a.IsConst() && !b.IsConst() {
				x, k, o = b, a, flipOp(op)
			}
			if n, ok := k.Int64(); ok && !x.IsConst() && isIntType(x.Typ) {
				if cur, has := w.state.Ints[x.String()]; has {
					sat := cur.Intersect(satisfying(o, n))
					uns := cur.Intersect(satisfying(negOp(o), n))
					pinned := len(cur) == 1 && cur[0].Lo == cur[0].Hi
					switch {
					case uns.Empty() && !sat.Empty():
						t := mkBool(true)
						t.Settled, t.Pinned = true, pinned
						return t
					case sat.Empty() && !uns.Empty():
						t := mkBool(false)
						t.Settled, t.Pinned = true, pinned
						return t
					}
				}
			}
		}
		return &Term{Op: "cmp", Name: op.String(), Args: []*Term{a, b}, Typ: types.Typ[types.Bool]}
	}
	if a.IsConst() && b.IsConst() && a.C != nil && b.C != nil {
		if isIntType(t) {
			x, ok1 := a.Int64()
			y, ok2 := b.Int64()
			if ok1 && ok2 {
				switch op {
				case token.ADD:
					return wrapInt(x+y, t)
				case token.SUB:
					return wrapInt(x-y, t)
				case token.MUL:
					return wrapInt(x*y, t)
				case token.QUO:
					if y != 0 {
						return wrapInt(x/y, t)
					}
				case token.REM:
					if y != 0 {
						return wrapInt(x%y, t)
					}
				case token.AND:
					return wrapInt(x&y, t)
				case token.OR:
					return wrapInt(x|y, t)
				case token.XOR:
					return wrapInt(x^y, t)
				case token.SHL:
					return wrapInt(x<<uint(y), t)
				case token.SHR:
					return wrapInt(x>>uint(y), t)
				case token.AND_NOT:
					return wrapInt(x&^y, t)
				}
			}
		}
		if op == token.ADD && a.C.Kind() == constant.String && b.C.Kind() == constant.String {
			return mkConst(constant.BinaryOp(a.C, token.ADD, b.C), t)
		}
	}
	// identities of the bit operations: x|0, 0|x, x<<0, x>>0 (what a loop that assembles an integer from its bytes
	// produces for the first byte)
	if isIntType(t) {
		switch op {
		case token.OR:
			if n, ok := a.Int64(); ok && n == 0 && b.Typ != nil && types.Identical(b.Typ, t) {
				return b
			}
			if n, ok := b.Int64(); ok && n == 0 && a.Typ != nil && types.Identical(a.Typ, t) {
				return a
			}
		case token.SHL, token.SHR:
			if n, ok := b.Int64(); ok && n == 0 && a.Typ != nil && types.Identical(a.Typ, t) {
				return a
			}
		}
	}
	return &Term{Op: "bin", Name: op.String(), Args: []*Term{a, b}, Typ: t}
}

func foldCmp(op token.Token, a, b *Term) (bool, bool) {
	if a.Nil || b.Nil {
		if a.Nil && b.Nil {
			return op == token.EQL, true
		}
		return false, false
	}
	if a.C == nil || b.C == nil {
		return false, false
	}
	if a.C.Kind() == constant.Bool && b.C.Kind() == constant.Bool {
		x, y := constant.BoolVal(a.C), constant.BoolVal(b.C)
		if op == token.EQL {
			return x == y, true
		}
		if op == token.NEQ {
			return x != y, true
		}
		return false, false
	}
	defer func() { recover() }()
	return constant.Compare(a.C, op, b.C), true
}

// addOffsets: a+b for index arithmetic, with the constants of nested sums gathered: (e+4)+1 is e+5.
func (w *Walker) addOffsets(a, b *Term) *Term {
	split := func(t *Term) (*Term, int64) {
		if t == nil {
			return nil, 0
		}
		if n, ok := t.Int64(); ok {
			return nil, n
		}
		if t.Op == "bin" && t.Name == "+" && len(t.Args) == 2 {
			if n, ok := t.Args[1].Int64(); ok {
				return t.Args[0], n
			}
			if n, ok := t.Args[0].Int64(); ok {
				return t.Args[1], n
			}
		}
		return t, 0
	}
	ta, ca := split(a)
	tb, cb := split(b)
	c := ca + cb
	var sym *Term
	switch {
	case ta != nil && tb != nil:
		sym = w.binop(token.ADD, ta, tb, types.Typ[types.Int])
	case ta != nil:
		sym = ta
	case tb != nil:
		sym = tb
	}
	if sym == nil {
		return mkInt(c, types.Typ[types.Int])
	}
	if c == 0 {
		return sym
	}
	return w.binop(token.ADD, sym, mkInt(c, types.Typ[types.Int]), types.Typ[types.Int])
}

func (w *Walker) indexAddr(base, idx *Term, x *ssa.IndexAddr, fn *ssa.Function, depth int) *Term {
	// s[lo:hi][i] is the element s[lo+i] of the underlying storage (whether i is inside the view is P1's concern)
	if base.Op == "slice" && len(base.Args) >= 2 && base.Args[0] != nil && !isStringType(base.Args[0].Typ) {
		nidx := idx
		if lo := base.Args[1]; lo != nil {
			if n, ok := lo.Int64(); ok && n == 0 {
				// x[0:hi][i]
			} else if n, ok := idx.Int64(); ok && n == 0 {
				nidx = lo
			} else {
				nidx = w.addOffsets(lo, idx)
			}
		}
		return w.indexAddr(base.Args[0], nidx, x, fn, depth)
	}
	if _, ok := idx.Int64(); !ok {
		// an index the path condition has pinned to one value ((len(s)%2)/2 under len(s) == 1)
		if v, o := w.pinnedValue(idx); o {
			idx = mkInt(v, types.Typ[types.Int])
		}
	}
	sel := ""
	if n, ok := idx.Int64(); ok {
		sel = fmt.Sprintf("#%d", n)
	} else {
		sel = "#" + idx.String()
		if w.symIdx == nil {
			w.symIdx = map[string]*Term{}
		}
		w.symIdx[sel] = idx
	}
	switch base.Op {
	case "ptr": // pointer to array
		if n, ok := idx.Int64(); ok && base.Typ != nil {
			if pt, isPtr := base.Typ.Underlying().(*types.Pointer); isPtr {
				if at, isArr := pt.Elem().Underlying().(*types.Array); isArr && (n < 0 || n >= at.Len()) {
					w.abort("panic", fmt.Sprintf("index %d out of range of a %d-element array at %s", n, at.Len(), w.P.Pos(x.Pos())))
				}
			}
		}
		return &Term{Op: "ptr", Cell: base.Cell, Path: append(append([]string{}, base.Path...), sel), Typ: x.Type()}
	case "sref":
		lo, _ := base.Args[0].Int64()
		if n, ok := idx.Int64(); ok {
			if hi, okh := base.Args[1].Int64(); okh && (n < 0 || lo+n >= hi) {
				w.abort("panic", fmt.Sprintf("index %d out of range of a slice of %d elements at %s", n, hi-lo, w.P.Pos(x.Pos())))
			}
			sel = fmt.Sprintf("#%d", lo+n)
		}
		return &Term{Op: "ptr", Cell: base.Cell, Path: []string{sel}, Typ: x.Type()}
	}
	if base.IsNilConst() {
		w.abort("panic", "index of nil slice")
	}
	c := w.symCell(base)
	return &Term{Op: "ptr", Cell: c, Path: []string{sel}, Typ: x.Type()}
}

func (w *Walker) lookup(m, k *Term, x *ssa.Lookup) *Term {
	var v, ok *Term
	switch {
	case m.Op == "mapv":
		for i := 0; i+1 < len(m.Args); i += 2 {
			if m.Args[i].String() == k.String() {
				v, ok = m.Args[i+1], mkBool(true)
			}
		}
		if v == nil {
			allConst := k.IsConst()
			for i := 0; i+1 < len(m.Args); i += 2 {
				if !m.Args[i].IsConst() {
					allConst = false
				}
			}
			if allConst {
				v, ok = zeroOf(elemType(m.Typ)), mkBool(false)
			}
		}
	case m.IsNilConst():
		v, ok = zeroOf(elemType(m.Typ)), mkBool(false)
	case m.IsConst() && isStringType(m.Typ):
		if s, o := m.StrVal(); o {
			if n, o2 := k.Int64(); o2 && n >= 0 && int(n) < len(s) {
				v = mkInt(int64(s[n]), types.Typ[types.Uint8])
			}
		}
	case w.Finite && isStringType(m.Typ) && (m.Op == "bin" || m.Op == "slice" || m.Op == "strv" || m.Op == "conv"):
		// a character of a text assembled from pieces whose characters are known ("0"+s, s[a:b], string(bytes))
		if n, o2 := k.Int64(); o2 && n >= 0 {
			if cs, o := w.charsOf(m); o && int(n) < len(cs) {
				v = cs[n]
			}
		}
	}
	if v == nil {
		vt := elemType(m.Typ)
		v = &Term{Op: "lookup", Args: []*Term{m, k}, Typ: vt}
		ok = &Term{Op: "lookupok", Args: []*Term{m, k}, Typ: types.Typ[types.Bool]}
	}
	if x.CommaOk {
		return &Term{Op: "tuple", Args: []*Term{v, ok}, Typ: x.Type()}
	}
	return v
}

func (w *Walker) slice(fr *frame, x *ssa.Slice) *Term {
	base := w.val(fr, x.X)
	var lo, hi, mx *Term
	if x.Low != nil {
		lo = w.val(fr, x.Low)
	}
	if x.High != nil {
		hi = w.val(fr, x.High)
	}
	if x.Max != nil {
		mx = w.val(fr, x.Max)
	}
	loN := int64(0)
	loConst := true
	if lo != nil {
		loN, loConst = lo.Int64()
	}
	// a slice of the array a slice was converted to ((*[6]byte)(b[0:6])[:]) is a view of that slice: the same memory
	if base.Op == "arrview" && len(base.Args) == 1 {
		if at, ok := x.X.Type().Underlying().(*types.Pointer); ok {
			if arr, ok := at.Elem().Underlying().(*types.Array); ok {
				inner := base.Args[0]
				if hi == nil {
					hi = mkInt(arr.Len(), types.Typ[types.Int])
				}
				if lo == nil {
					lo = mkInt(0, types.Typ[types.Int])
				}
				// ... and a view of a view is a view of the original (constant bounds)
				if inner.Op == "slice" && len(inner.Args) >= 3 {
					a0 := int64(0)
					okA := true
					if inner.Args[1] != nil {
						a0, okA = inner.Args[1].Int64()
					}
					l, okL := lo.Int64()
					h, okH := hi.Int64()
					if okA && okL && okH {
						return &Term{Op: "slice", Args: []*Term{inner.Args[0], mkInt(a0+l, types.Typ[types.Int]), mkInt(a0+h, types.Typ[types.Int]), nil}, Typ: x.Type()}
					}
				}
				return &Term{Op: "slice", Args: []*Term{inner, lo, hi, mx}, Typ: x.Type()}
			}
		}
	}
	switch base.Op {
	case "ptr": // pointer to array cell
		if at, ok := base.Cell.Typ.Underlying().(*types.Array); ok && len(base.Path) == 0 && loConst {
			h := at.Len()
			if hi != nil {
				if n, ok := hi.Int64(); ok {
					h = n
				} else {
					break
				}
			}
			return &Term{Op: "sref", Cell: base.Cell, Typ: x.Type(), Args: []*Term{mkInt(loN, types.Typ[types.Int]), mkInt(h, types.Typ[types.Int])}}
		}
	case "sref":
		blo, _ := base.Args[0].Int64()
		bhi, _ := base.Args[1].Int64()
		if loConst {
			h := bhi
			if hi != nil {
				if n, ok := hi.Int64(); ok {
					h = blo + n
				} else {
					break
				}
			}
			return &Term{Op: "sref", Cell: base.Cell, Typ: x.Type(), Args: []*Term{mkInt(blo+loN, types.Typ[types.Int]), mkInt(h, types.Typ[types.Int])}}
		}
	case "const":
		if s, ok := base.StrVal(); ok && loConst {
			h := int64(len(s))
			if hi != nil {
				if n, ok := hi.Int64(); ok {
					h = n
				} else {
					break
				}
			}
			if loN >= 0 && h <= int64(len(s)) && loN <= h {
				return mkConst(constant.MakeString(s[loN:h]), x.Type())
			}
		}
	}
	// a view of a view of symbolic storage: s[a:b][c:d] is s[a+c:a+d] (s[a:][c:d] likewise; without d the outer bound stays)
	if base.Op == "slice" && len(base.Args) >= 3 && base.Args[0] != nil && !isStringType(base.Args[0].Typ) && mx == nil && (len(base.Args) < 4 || base.Args[3] == nil) {
		blo := base.Args[1]
		add := func(a, b *Term) *Term {
			switch {
			case a == nil:
				return b
			case b == nil:
				return a
			}
			if n, ok := a.Int64(); ok && n == 0 {
				return b
			}
			if n, ok := b.Int64(); ok && n == 0 {
				return a
			}
			return w.addOffsets(a, b)
		}
		nlo := add(blo, lo)
		nhi := base.Args[2]
		if hi != nil {
			nhi = add(blo, hi)
		}
		return &Term{Op: "slice", Args: []*Term{base.Args[0], nlo, nhi, nil}, Typ: x.Type()}
	}
	return &Term{Op: "slice", Args: []*Term{base, lo, hi, mx}, Typ: x.Type()}
}

func (w *Walker) typeAssert(v *Term, x *ssa.TypeAssert, fn *ssa.Function, depth int) *Term {
	at := x.AssertedType
	if v.Op == "iface" {
		ok := false
		if types.IsInterface(at) {
			if it, o := at.Underlying().(*types.Interface); o {
				ok = types.Implements(v.Dyn, it)
			}
		} else {
			ok = types.Identical(v.Dyn, at)
		}
		var res *Term
		if ok {
			if types.IsInterface(at) {
				res = v
			} else {
				res = v.Args[0]
			}
		} else {
			res = zeroOf(at)
		}
		if x.CommaOk {
			return &Term{Op: "tuple", Args: []*Term{res, mkBool(ok)}, Typ: x.Type()}
		}
		if !ok {
			w.abort("panic", "type assertion fails: "+typeName(v.Dyn)+" is not "+typeName(at))
		}
		return res
	}
	res := &Term{Op: "conv", Name: "assert:" + typeName(at), Args: []*Term{v}, Typ: at}
	if x.CommaOk {
		ok := &Term{Op: "typeis", Name: typeName(at), Args: []*Term{v}, Typ: types.Typ[types.Bool]}
		return &Term{Op: "tuple", Args: []*Term{res, ok}, Typ: x.Type()}
	}
	w.event(Event{Kind: "typeassert", Name: typeName(at), Args: []*Term{v}, Pos: x.Pos(), Instr: x, Fn: fn, Depth: depth})
	return res
}

func (w *Walker) callArgs(fr *frame, c *ssa.CallCommon) []*Term {
	var args []*Term
	if c.IsInvoke() {
		args = append(args, w.val(fr, c.Value))
	}
	for _, a := range c.Args {
		args = append(args, w.val(fr, a))
	}
	return args
}

func (w *Walker) calleeOf(fr *frame, c *ssa.CallCommon) (string, *Term) {
	if c.IsInvoke() {
		return "invoke:" + typeName(c.Value.Type()) + "." + c.Method.Name(), nil
	}
	if f := c.StaticCallee(); f != nil {
		if mc, ok := c.Value.(*ssa.MakeClosure); ok {
			return calleeName(f), w.val(fr, mc)
		}
		return calleeName(f), nil
	}
	if b, ok := c.Value.(*ssa.Builtin); ok {
		return "builtin:" + b.Name(), nil
	}
	if f := frozenFuncVar(c.Value); f != nil {
		return calleeName(f), &Term{Op: "closure", Fn: f, Typ: c.Value.Type()}
	}
	v := w.val(fr, c.Value)
	if v.Op == "closure" {
		return calleeName(v.Fn), v
	}
	if v.Fn != nil && v.Op == "field" {
		// a function-typed field that only ever holds one function (fieldfacts.go): called, it is that function
		cl := &Term{Op: "closure", Fn: v.Fn, Typ: v.Typ}
		return calleeName(v.Fn), cl
	}
	return "dyn:" + v.String(), nil
}

func (w *Walker) call(fr *frame, c *ssa.CallCommon, in ssa.Instruction, rt types.Type) *Term {
	fn, depth := fr.fn, fr.depth
	args := w.callArgs(fr, c)
	name, clos := w.calleeOf(fr, c)
	if clos != nil && clos.Fn != nil && strings.HasSuffix(name, "$bound") && len(clos.Fn.Blocks) == 1 {
		// calling a bound method value is calling the method on the bound receiver
		for _, in2 := range clos.Fn.Blocks[0].Instrs {
			if inner, ok := in2.(*ssa.Call); ok {
				if f := inner.Call.StaticCallee(); f != nil {
					t := &Term{Op: "call", Name: calleeName(f), Args: append(append([]*Term{}, clos.Args...), args...), Typ: rt, Pos: in.Pos()}
					if !isPureName(t.Name) {
						t.ID = w.fresh("call:" + t.Name)
					}
					w.event(Event{Kind: "call", Name: t.Name, Args: t.Args, Result: t, Pos: in.Pos(), Instr: in, Fn: fn, Depth: depth})
					return t
				}
			}
		}
	}

	if strings.HasPrefix(name, "builtin:") {
		return w.builtin(strings.TrimPrefix(name, "builtin:"), args, in, rt, fn, depth)
	}
	// a verified hand-written lock (userlock.go) is rendered as the mutex it is
	if f := c.StaticCallee(); f != nil {
		if n2, a2, ok := w.lockerCanon(f, args); ok {
			t := &Term{Op: "call", Name: n2, Args: a2, Typ: rt, Pos: in.Pos()}
			t.ID = w.fresh("call:" + n2)
			w.event(Event{Kind: "call", Name: n2, Args: a2, Result: t, Pos: in.Pos(), Instr: in, Fn: fn, Depth: depth})
			return t
		}
	}
	// an interface method called on a value whose dynamic type is known on this path (a strategy object built a
	// few lines earlier): the call is the call of that type's method
	if c.IsInvoke() && len(args) > 0 && args[0].Op != "iface" && args[0].Dyn != nil && !args[0].IsNilConst() {
		// an interface-typed field that only ever holds values of one concrete type (fieldfacts.go): on a path
		// where it is called it is not nil, so it holds a value of that type. Only thin adapters are entered
		// (a clock that returns time.Now()); a seam whose implementation is a subsystem of its own (the
		// driver) stays the event the rules observe.
		thin := false
		if sel := w.P.SSA.MethodSets.MethodSet(args[0].Dyn).Lookup(c.Method.Pkg(), c.Method.Name()); sel != nil {
			if callee := w.P.SSA.MethodValue(sel); callee != nil && callee.Blocks != nil && len(callee.Blocks) <= 2 {
				n := 0
				for _, b := range callee.Blocks {
					n += len(b.Instrs)
				}
				thin = n <= 10
			}
		}
		if thin {
			args[0] = &Term{Op: "iface", Args: []*Term{{Op: "conv", Name: "assert:" + typeName(args[0].Dyn), Args: []*Term{args[0]}, Typ: args[0].Dyn}}, Dyn: args[0].Dyn, Typ: args[0].Typ}
		}
	}
	if c.IsInvoke() && len(args) > 0 && args[0].Op == "iface" && args[0].Dyn != nil && w.Inline != nil && depth < w.MaxDepth {
		if sel := w.P.SSA.MethodSets.MethodSet(args[0].Dyn).Lookup(c.Method.Pkg(), c.Method.Name()); sel != nil {
			if callee := w.P.SSA.MethodValue(sel); callee != nil && callee.Blocks != nil && inModule(callee) && !w.Opaque[calleeName(callee)] && w.Inline(callee, depth) {
				cargs := append([]*Term{args[0].Args[0]}, args[1:]...)
				res, _ := w.exec(callee, cargs, nil, depth+1)
				switch len(res) {
				case 0:
					return &Term{Op: "tuple", Typ: rt}
				case 1:
					return res[0]
				}
				return &Term{Op: "tuple", Args: res, Typ: rt}
			}
		}
	}
	if w.OnCall != nil {
		if r, handled := w.OnCall(w, name, args, c, in); handled {
			return r
		}
	}
	var callee *ssa.Function
	var binds []*Term
	if clos != nil {
		callee, binds = clos.Fn, clos.Args
	} else if f := c.StaticCallee(); f != nil {
		callee = f
	}
	if callee != nil && callee.Blocks != nil && !w.Opaque[name] && depth < w.MaxDepth && w.Inline != nil && w.Inline(callee, depth) {
		res, _ := w.exec(callee, args, binds, depth+1)
		switch len(res) {
		case 0:
			return &Term{Op: "tuple", Typ: rt}
		case 1:
			return res[0]
		}
		return &Term{Op: "tuple", Args: res, Typ: rt}
	}
	if t := w.stdModel(name, args, rt); t != nil {
		return t
	}
	if t := w.reflectModel(name, callee, args, rt); t != nil {
		return t
	}
	if t := w.contextModel(name, args, rt, in, fn, depth); t != nil {
		return t
	}
	// Dialer.DialContext(ctx, network, address) with a context of known deadline is Dial bounded by that instant
	if name == "(*net.Dialer).DialContext" && len(args) == 4 && args[1].Op == "ctx" && args[0].Op == "ptr" && args[0].Cell != nil && len(args[0].Path) == 0 {
		cur := project(args[0].Cell.Val, "Deadline")
		if cur.Op == "zero" {
			args[0].Cell.Val = update(args[0].Cell.Val, []string{"Deadline"}, args[1].Args[0])
		}
		name = "(*net.Dialer).Dial"
		args = []*Term{args[0], args[2], args[3]}
	}
	if t := w.textModel(name, args, rt); t != nil {
		return t
	}
	// a memo table (memo.go): a lookup misses, so the value is computed as on first use; storing is no event
	if strings.HasPrefix(name, "(*sync.Map).") && len(args) > 0 && args[0].Op == "ptr" && args[0].Cell != nil && args[0].Cell.Sym && len(args[0].Path) == 0 {
		if g := w.P.globalByName(strings.TrimPrefix(args[0].Cell.Name, "&")); g != nil && w.P.memoTable(g).ok {
			switch name {
			case "(*sync.Map).Load":
				return &Term{Op: "tuple", Args: []*Term{mkNil(types.NewInterfaceType(nil, nil)), mkBool(false)}, Typ: rt}
			case "(*sync.Map).LoadOrStore":
				return &Term{Op: "tuple", Args: []*Term{args[2], mkBool(false)}, Typ: rt}
			case "(*sync.Map).Store":
				return &Term{Op: "tuple", Typ: rt}
			}
		}
	}
	t := &Term{Op: "call", Name: name, Args: args, Typ: rt, Pos: in.Pos()}
	pure := isPureName(name)
	if w.CallName != nil {
		if nn, p, ok := w.CallName(callee, name); ok {
			t.Name, pure = nn, p
		}
	}
	if !pure {
		t.ID = w.fresh("call:" + name)
	}
	w.event(Event{Kind: "call", Name: name, Args: args, Result: t, Pos: in.Pos(), Instr: in, Fn: fn, Depth: depth})
	if !pure {
		// an opaque callee may write through any pointer to local storage it is handed
		for _, a := range args {
			w.havoc(a, name)
		}
	} else if strings.HasPrefix(name, "(*") && len(args) >= 2 && args[0].Op == "ptr" && args[0].Cell != nil && !args[0].Cell.Sym && len(args[0].Path) == 0 {
		// a standard decoder with a pointer receiver (`var v netip.AddrPort; v.UnmarshalBinary(b)`) fills its local
		// receiver with a function of its input: the local is that decoding from here on, not the zero it started as
		if i := strings.LastIndex(name, ")."); i > 0 && strings.HasPrefix(name[i+2:], "Unmarshal") {
			args[0].Cell.Val = &Term{Op: "call", Name: "decoded:" + name, Args: args[1:], Typ: args[0].Cell.Typ, Pos: in.Pos()}
		}
	}
	return t
}

// stdModel constant-folds a few documented standard-library functions on fully known arguments.
func (w *Walker) stdModel(name string, args []*Term, rt types.Type) *Term {
	constBytes := func(t *Term) ([]int64, bool) {
		if t.Op != "sref" {
			return nil, false
		}
		var out []int64
		for _, e := range srefElems(t) {
			v, ok := e.Int64()
			if !ok {
				return nil, false
			}
			out = append(out, v)
		}
		return out, true
	}
	mk := func(bs []int64) *Term {
		els := make([]*Term, len(bs))
		for i, b := range bs {
			els[i] = mkInt(b, types.Typ[types.Uint8])
		}
		at := types.NewArray(types.Typ[types.Uint8], int64(len(bs)))
		cell := w.newCell("std", at, true)
		cell.Val = &Term{Op: "slicev", Args: els, Typ: at}
		return &Term{Op: "sref", Cell: cell, Typ: rt, Args: []*Term{mkInt(0, types.Typ[types.Int]), mkInt(int64(len(bs)), types.Typ[types.Int])}}
	}
	switch name {
	case "(net.IP).To4":
		if bs, ok := constBytes(args[0]); ok {
			if len(bs) == 4 {
				return mk(bs)
			}
			if len(bs) == 16 {
				pre := true
				for i := 0; i < 10; i++ {
					if bs[i] != 0 {
						pre = false
					}
				}
				if pre && bs[10] == 0xff && bs[11] == 0xff {
					return mk(bs[12:16])
				}
				return mkNil(rt)
			}
		}
	case "(binary.littleEndian).AppendUint16", "(binary.littleEndian).AppendUint32", "(binary.littleEndian).AppendUint64",
		"(binary.bigEndian).AppendUint16", "(binary.bigEndian).AppendUint32", "(binary.bigEndian).AppendUint64":
		// AppendUintN(b, v) appends the N/8 bytes of v in that order (documented)
		if len(args) == 3 {
			bits := 16
			if strings.HasSuffix(name, "32") {
				bits = 32
			} else if strings.HasSuffix(name, "64") {
				bits = 64
			}
			n := bits / 8
			var els []*Term
			switch {
			case args[1].IsNilConst():
			case args[1].Op == "sref":
				els = append(els, srefElems(args[1])...)
			default:
				return nil
			}
			for i := 0; i < n; i++ {
				k := 8 * i
				if strings.Contains(name, "bigEndian") {
					k = 8 * (n - 1 - i)
				}
				var e *Term = args[2]
				if k > 0 {
					e = &Term{Op: "bin", Name: ">>", Args: []*Term{args[2], mkInt(int64(k), types.Typ[types.Uint])}, Typ: args[2].Typ}
				}
				els = append(els, &Term{Op: "conv", Name: "uint8", Args: []*Term{e}, Typ: types.Typ[types.Uint8]})
			}
			at := types.NewArray(types.Typ[types.Uint8], int64(len(els)))
			cell := w.newCell("append", at, true)
			cell.Val = &Term{Op: "slicev", Args: els, Typ: at}
			return &Term{Op: "sref", Cell: cell, Typ: rt, Args: []*Term{mkInt(0, types.Typ[types.Int]), mkInt(int64(len(els)), types.Typ[types.Int])}}
		}
	case "(netip.AddrPort).Port":
		// selectors of a constructor: Port(AddrPortFrom(a, p)) = p, Addr(AddrPortFrom(a, p)) = a
		if len(args) == 1 && args[0].Op == "call" && args[0].Name == "netip.AddrPortFrom" && len(args[0].Args) == 2 {
			return args[0].Args[1]
		}
		// ... and of the canonical constant "a.b.c.d:port"
		if len(args) == 1 && args[0].Op == "call" && args[0].Name == "netip.MustParseAddrPort" && len(args[0].Args) == 1 {
			if str, ok := args[0].Args[0].StrVal(); ok {
				var a, b, c, d, port int64
				if n, _ := fmt.Sscanf(str, "%d.%d.%d.%d:%d", &a, &b, &c, &d, &port); n == 5 && fmt.Sprintf("%d.%d.%d.%d:%d", a, b, c, d, port) == str && port >= 0 && port <= 65535 {
					return mkInt(port, rt)
				}
			}
		}
	case "(netip.AddrPort).Addr":
		if len(args) == 1 && args[0].Op == "call" && args[0].Name == "netip.AddrPortFrom" && len(args[0].Args) == 2 {
			return args[0].Args[0]
		}
		if len(args) == 1 && args[0].Op == "call" && args[0].Name == "netip.MustParseAddrPort" && len(args[0].Args) == 1 {
			if str, ok := args[0].Args[0].StrVal(); ok {
				var a, b, c, d, port int64
				if n, _ := fmt.Sscanf(str, "%d.%d.%d.%d:%d", &a, &b, &c, &d, &port); n == 5 && fmt.Sprintf("%d.%d.%d.%d:%d", a, b, c, d, port) == str {
					if a == 0 && b == 0 && c == 0 && d == 0 {
						return &Term{Op: "call", Name: "netip.IPv4Unspecified", Typ: rt}
					}
					return &Term{Op: "call", Name: "netip.MustParseAddr", Args: []*Term{mkConst(constant.MakeString(fmt.Sprintf("%d.%d.%d.%d", a, b, c, d)), types.Typ[types.String])}, Typ: rt}
				}
			}
		}
	case "netip.MustParseAddr":
		// canonical form of the unspecified IPv4 address
		if str, ok := args[0].StrVal(); ok && str == "0.0.0.0" {
			return &Term{Op: "call", Name: "netip.IPv4Unspecified", Typ: rt}
		}
	case "netip.AddrFrom4":
		if len(args) == 1 && args[0].Op == "slicev" && len(args[0].Args) == 4 {
			zero, all := true, true
			var oct [4]int64
			for i, e := range args[0].Args {
				v, ok := e.Int64()
				if !ok {
					all = false
				}
				if !ok || v != 0 {
					zero = false
				}
				oct[i] = v
			}
			if zero {
				return &Term{Op: "call", Name: "netip.IPv4Unspecified", Typ: rt}
			}
			if all {
				return &Term{Op: "call", Name: "netip.MustParseAddr", Args: []*Term{mkConst(constant.MakeString(fmt.Sprintf("%d.%d.%d.%d", oct[0], oct[1], oct[2], oct[3])), types.Typ[types.String])}, Typ: rt}
			}
		}
	case "net.UDPAddrFromAddrPort", "net.TCPAddrFromAddrPort":
		// a constant IPv4 address:port: the documented result {IP: 4 or 16 byte form of the address, Port, Zone ""}
		if len(args) == 1 && args[0].Op == "call" && args[0].Name == "netip.MustParseAddrPort" && len(args[0].Args) == 1 {
			if str, ok := args[0].Args[0].StrVal(); ok {
				var a, b, c, d, port int64
				if n, _ := fmt.Sscanf(str, "%d.%d.%d.%d:%d", &a, &b, &c, &d, &port); n == 5 {
					if pt, ok := rt.Underlying().(*types.Pointer); ok {
						ipT := fieldType(pt.Elem(), "IP")
						st := &Term{Op: "struct", Typ: pt.Elem(), FNames: []string{"IP", "Port", "Zone"}, Args: []*Term{
							mk([]int64{a, b, c, d}), mkInt(port, types.Typ[types.Int]), mkConst(constant.MakeString(""), types.Typ[types.String])}}
						st.Args[0].Typ = ipT
						cell := w.newCell("addr", pt.Elem(), true)
						cell.Val = st
						return &Term{Op: "ptr", Cell: cell, Typ: rt}
					}
				}
			}
		}
	case "netip.AddrPortFrom":
		// canonical form of a constant IPv4 address:port (the documented equality of netip values)
		if len(args) == 2 {
			if port, ok := args[1].Int64(); ok && args[0].Op == "call" {
				ip := ""
				switch args[0].Name {
				case "netip.IPv4Unspecified":
					ip = "0.0.0.0"
				case "netip.MustParseAddr":
					if str, ok := args[0].Args[0].StrVal(); ok && !strings.Contains(str, ":") {
						ip = str
					}
				}
				if ip != "" {
					return &Term{Op: "call", Name: "netip.MustParseAddrPort", Args: []*Term{mkConst(constant.MakeString(fmt.Sprintf("%s:%d", ip, port)), types.Typ[types.String])}, Typ: rt}
				}
			}
		}
	case "net.IPv4":
		if len(args) == 4 {
			bs := []int64{0, 0, 0, 0, 0, 0, 0, 0, 0, 0, 0xff, 0xff}
			for _, a := range args {
				v, ok := a.Int64()
				if !ok {
					return nil
				}
				bs = append(bs, v)
			}
			return mk(bs)
		}
	}
	return nil
}

// isWriterName: callees known to fill the slice they are given (socket and io reads, binary puts are pure-modelled).
func isWriterName(name string) bool {
	return strings.Contains(name, "Read") || strings.HasPrefix(name, "io.") || strings.HasPrefix(name, "dyn:") || strings.HasPrefix(name, "invoke:")
}

func (w *Walker) havoc(a *Term, by string) {
	if a == nil {
		return
	}
	switch a.Op {
	case "iface":
		w.havoc(a.Args[0], by)
	case "sref":
		// the callee may write the elements of a local buffer it is handed (reads into buffers)
		if a.Cell != nil && !a.Cell.Sym && isWriterName(by) {
			id := w.fresh("havoc")
			a.Cell.Val = &Term{Op: "fresh", Name: fmt.Sprintf("%s'%d", a.Cell.Name, id), Typ: a.Cell.Typ}
		}
	case "ptr":
		if a.Cell != nil && !a.Cell.Sym {
			id := w.fresh("havoc")
			var t types.Type = a.Cell.Typ
			path := a.Path
			nv := &Term{Op: "fresh", Name: fmt.Sprintf("%s'%d", a.Cell.Name, id), Typ: t}
			if len(path) == 0 {
				a.Cell.Val = nv
			} else {
				cur := a.Cell.Val
				for _, s := range path {
					cur = project(cur, s)
				}
				nv.Typ = cur.Typ
				a.Cell.Val = update(a.Cell.Val, path, nv)
			}
		}
	}
}

func (w *Walker) builtin(name string, args []*Term, in ssa.Instruction, rt types.Type, fn *ssa.Function, depth int) *Term {
	switch name {
	case "len", "cap":
		a := args[0]
		switch a.Op {
		case "sref":
			lo, _ := a.Args[0].Int64()
			hi, _ := a.Args[1].Int64()
			return mkInt(hi-lo, rt)
		case "slicev":
			return mkInt(int64(len(a.Args)), rt)
		case "mapv":
			return mkInt(int64(len(a.Args)/2), rt)
		case "const":
			if s, ok := a.StrVal(); ok {
				return mkInt(int64(len(s)), rt)
			}
			if a.Nil {
				return mkInt(0, rt)
			}
		case "fresh":
			if strings.HasPrefix(a.Name, "make(") && len(a.Args) == 1 {
				return a.Args[0]
			}
		case "bin":
			// len(a+b) of texts
			if name == "len" && a.Name == "+" && isStringType(a.Typ) && len(a.Args) == 2 {
				return w.binop(token.ADD, w.builtin("len", []*Term{a.Args[0]}, in, rt, fn, depth), w.builtin("len", []*Term{a.Args[1]}, in, rt, fn, depth), rt)
			}
		case "slice":
			// len(x[lo:hi]) = hi-lo when both constant
			if a.Args[2] != nil {
				if h, ok := a.Args[2].Int64(); ok {
					l := int64(0)
					okl := true
					if a.Args[1] != nil {
						l, okl = a.Args[1].Int64()
					}
					if okl {
						return mkInt(h-l, rt)
					}
				}
				// len(x[e:e+c]) = c
				if name == "len" && a.Args[1] != nil {
					if h := a.Args[2]; h.Op == "bin" && h.Name == "+" && len(h.Args) == 2 {
						lo := a.Args[1].String()
						if c, ok := h.Args[1].Int64(); ok && c >= 0 && h.Args[0].String() == lo {
							return mkInt(c, rt)
						}
						if c, ok := h.Args[0].Int64(); ok && c >= 0 && h.Args[1].String() == lo {
							return mkInt(c, rt)
						}
					}
				}
			}
		}
		return &Term{Op: "len", Args: []*Term{a}, Typ: rt}
	case "append":
		base, more := args[0], args[1]
		var bel, mel []*Term
		known := true
		switch {
		case base.IsNilConst():
		case base.Op == "sref":
			bel = srefElems(base)
		case base.Op == "append":
			bel = nil
			known = false
		default:
			known = false
		}
		switch {
		case more.IsNilConst():
		case more.Op == "sref":
			mel = srefElems(more)
		default:
			mel = []*Term{{Op: "un", Name: "...", Args: []*Term{more}, Typ: more.Typ}}
		}
		if known {
			els := append(append([]*Term{}, bel...), mel...)
			at := types.NewArray(elemType(rt), int64(len(els)))
			c := w.newCell("append", at, true)
			c.Val = &Term{Op: "slicev", Args: els, Typ: at}
			return &Term{Op: "sref", Cell: c, Typ: rt, Args: []*Term{mkInt(0, types.Typ[types.Int]), mkInt(int64(len(els)), types.Typ[types.Int])}}
		}
		as := []*Term{base}
		if base.Op == "append" {
			as = append([]*Term{}, base.Args...)
		}
		as = append(as, mel...)
		// appending to storage that was not allocated on this path may write into the caller's backing array
		w.event(Event{Kind: "append", Name: base.String(), Args: args, Pos: in.Pos(), Instr: in, Fn: fn, Depth: depth})
		return &Term{Op: "append", Args: as, Typ: rt}
	case "copy":
		w.event(Event{Kind: "copy", Name: "copy", Args: args, Pos: in.Pos(), Instr: in, Fn: fn, Depth: depth})
		dst, src := args[0], args[1]
		if dst.Op == "sref" {
			lo, _ := dst.Args[0].Int64()
			hi, _ := dst.Args[1].Int64()
			for i := lo; i < hi; i++ {
				var v *Term
				if src.Op == "sref" {
					slo, _ := src.Args[0].Int64()
					shi, _ := src.Args[1].Int64()
					if slo+(i-lo) >= shi {
						break
					}
					v = project(src.Cell.Val, fmt.Sprintf("#%d", slo+(i-lo)))
				} else {
					v = &Term{Op: "index", Args: []*Term{src, mkInt(i-lo, types.Typ[types.Int])}, Typ: elemType(src.Typ)}
				}
				dst.Cell.Val = update(dst.Cell.Val, []string{fmt.Sprintf("#%d", i)}, v)
			}
		}
		return &Term{Op: "fresh", Name: fmt.Sprintf("copied@%d", w.fresh("copy")), Typ: rt}
	case "clear":
		// clear(s) on storage this path knows element by element: every element of the view becomes zero
		if dst := args[0]; dst.Op == "sref" && dst.Cell != nil && !dst.Cell.Sym {
			if _, isSl := dst.Typ.Underlying().(*types.Slice); isSl {
				lo, ok1 := dst.Args[0].Int64()
				hi, ok2 := dst.Args[1].Int64()
				if ok1 && ok2 && hi-lo <= 4096 {
					w.event(Event{Kind: "clear", Name: "clear", Args: args, Pos: in.Pos(), Instr: in, Fn: fn, Depth: depth})
					et := elemType(dst.Typ)
					for i := lo; i < hi; i++ {
						dst.Cell.Val = update(dst.Cell.Val, []string{fmt.Sprintf("#%d", i)}, zeroOf(et))
					}
					return &Term{Op: "tuple", Typ: rt}
				}
			}
		}
	case "close":
		w.event(Event{Kind: "close", Name: args[0].String(), Args: args, Pos: in.Pos(), Instr: in, Fn: fn, Depth: depth})
		return &Term{Op: "tuple", Typ: rt}
	case "delete":
		w.event(Event{Kind: "mapupdate", Name: args[0].String(), Args: args, Pos: in.Pos(), Instr: in, Fn: fn, Depth: depth})
		return &Term{Op: "tuple", Typ: rt}
	case "panic":
		w.event(Event{Kind: "panic", Name: "panic", Args: args, Pos: in.Pos(), Instr: in, Fn: fn, Depth: depth})
		w.abort("panic", "explicit panic")
	case "min", "max":
		// min(a, b) is  a < b ? a : b  (integers): decided like the comparison it stands for
		if len(args) >= 1 && isIntType(rt) {
			cur := args[0]
			for _, b := range args[1:] {
				op := token.LSS
				if name == "max" {
					op = token.GTR
				}
				if w.decide(w.binop(op, cur, b, types.Typ[types.Bool])) {
					// cur stays
				} else {
					cur = b
				}
			}
			return cur
		}
	}
	t := &Term{Op: "call", Name: "builtin." + name, Args: args, Typ: rt}
	w.event(Event{Kind: "call", Name: "builtin." + name, Args: args, Result: t, Pos: in.Pos(), Instr: in, Fn: fn, Depth: depth})
	return t
}

// ElemsOf: the elements of a slice-valued term whose extent is known (a literal, a slice of a local array, a
// slice of an array inside a folded table), as terms; nil otherwise.
func (w *Walker) ElemsOf(t *Term) []*Term {
	switch t.Op {
	case "slicev":
		return t.Args
	case "sref":
		return srefElems(t)
	case "slice":
		base := t.Args[0]
		if base == nil || base.Op != "ptr" || base.Cell == nil || base.Cell.Val == nil {
			return nil
		}
		v := base.Cell.Val
		for _, s := range base.Path {
			if it, ok := w.symIdx[s]; ok && strings.HasPrefix(s, "#") && v.Op != "zero" {
				v = &Term{Op: "index", Args: []*Term{v, it}, Typ: elemType(v.Typ)}
				continue
			}
			v = project(v, s)
		}
		if v.Typ == nil {
			return nil
		}
		at, ok := v.Typ.Underlying().(*types.Array)
		if !ok || at.Len() > 64 {
			return nil
		}
		lo, hi := int64(0), at.Len()
		if t.Args[1] != nil {
			n, ok := t.Args[1].Int64()
			if !ok {
				return nil
			}
			lo = n
		}
		if len(t.Args) > 2 && t.Args[2] != nil {
			n, ok := t.Args[2].Int64()
			if !ok {
				return nil
			}
			hi = n
		}
		if lo < 0 || hi > at.Len() || lo > hi {
			return nil
		}
		var out []*Term
		for i := lo; i < hi; i++ {
			out = append(out, project(v, fmt.Sprintf("#%d", i)))
		}
		return out
	}
	return nil
}

func srefElems(s *Term) []*Term {
	lo, _ := s.Args[0].Int64()
	hi, _ := s.Args[1].Int64()
	var out []*Term
	if hi-lo > 1<<16 {
		panic(fmt.Sprintf("srefElems: %d elements of %s", hi-lo, s.Cell.Name))
	}
	for i := lo; i < hi; i++ {
		out = append(out, project(s.Cell.Val, fmt.Sprintf("#%d", i)))
	}
	return out
}

// ---- decisions --------------------------------------------------------------------------

func (w *Walker) logDecision(s string) { w.decisions = append(w.decisions, s) }

// decide returns the truth of a boolean term on this path, forking when it is not determined.
func (w *Walker) decide(c *Term) bool {
	if b, ok := c.BoolVal(); ok {
		return b
	}
	switch c.Op {
	case "not":
		return !w.decide(c.Args[0])
	case "cmp":
		return w.decideCmp(c)
	case "iface":
		return w.decide(c.Args[0])
	}
	if w.Finite {
		if leaf, sat, uns, ok := w.finiteSplitBool(c); ok {
			lk := leaf.String()
			switch {
			case uns.Empty() && !sat.Empty():
				return true
			case sat.Empty() && !uns.Empty():
				return false
			case sat.Empty() && uns.Empty():
				w.abort("infeasible", "empty region for "+lk)
			}
			res := w.choose(2, lk) == 0
			if res {
				w.state.Ints[lk] = sat
			} else {
				w.state.Ints[lk] = uns
			}
			w.state.IntT[lk] = leaf
			w.logDecision(fmt.Sprintf("%s=%v", cut(c.String(), 60), res))
			return res
		}
	}
	return w.boolAtom(c.String(), c)
}

// linkedAtom: ip.To4() is nil or four bytes long (documented), so "To4() is nil" and "AddrFromSlice(To4()) succeeds"
// are one fact with opposite signs: deciding either decides the other.
func linkedAtom(key string) (string, bool) {
	const a, b = "isnil((net.IP).To4(", "netip.AddrFromSlice((net.IP).To4("
	switch {
	case strings.HasPrefix(key, a) && strings.HasSuffix(key, "))"):
		return "netip.AddrFromSlice(" + key[len("isnil("):len(key)-1] + ")#1", true
	case strings.HasPrefix(key, b) && strings.HasSuffix(key, "))#1"):
		return "isnil(" + key[len("netip.AddrFromSlice("):len(key)-3] + ")", true
	}
	return "", false
}

func (w *Walker) boolAtom(key string, t *Term) bool {
	if v, ok := w.state.Bools[key]; ok {
		return v
	}
	if other, ok := linkedAtom(key); ok {
		if ov, has := w.state.Bools[other]; has {
			w.state.Bools[key] = !ov
			w.state.BoolT[key] = t
			return !ov
		}
	}
	v := w.choose(2, key) == 0
	w.state.Bools[key] = v
	w.state.BoolT[key] = t
	w.logDecision(fmt.Sprintf("%s=%v", key, v))
	return v
}

var nonNilCalls = map[string]bool{"fmt.Errorf": true, "errors.New": true}

// nilness: 1 nil, 0 non-nil, -1 unknown
func nilness(t *Term) int {
	switch t.Op {
	case "const":
		if t.Nil {
			return 1
		}
		return 0
	case "ptr", "closure", "mapv", "sref", "slicev", "struct", "rtype":
		return 0
	case "iface":
		return 0 // an interface holding a value is never a nil interface
	case "call":
		if nonNilCalls[t.Name] {
			return 0
		}
	case "global":
		if t.Typ != nil && types.Identical(t.Typ, types.Universe.Lookup("error").Type()) {
			return 0 // package-level error sentinels are initialised with errors.New
		}
	case "append":
		return 0
	}
	return -1
}

func tokenOf(s string) token.Token {
	switch s {
	case "==":
		return token.EQL
	case "!=":
		return token.NEQ
	case "<":
		return token.LSS
	case "<=":
		return token.LEQ
	case ">":
		return token.GTR
	case ">=":
		return token.GEQ
	}
	return token.ILLEGAL
}

func (w *Walker) decideCmp(c *Term) bool {
	op := tokenOf(c.Name)
	a, b := c.Args[0], c.Args[1]
	if a.IsConst() && b.IsConst() {
		if r, ok := foldCmp(op, a, b); ok {
			return r
		}
	}
	// nil comparisons
	if a.IsNilConst() || b.IsNilConst() {
		o := a
		if a.IsNilConst() {
			o = b
		}
		var isnil bool
		switch nilness(o) {
		case 1:
			isnil = true
		case 0:
			isnil = false
		default:
			isnil = w.boolAtom("isnil("+o.String()+")", o)
		}
		if op == token.EQL {
			return isnil
		}
		return !isnil
	}
	// integers
	if isIntType(a.Typ) || isIntType(b.Typ) {
		if a.IsConst() && !b.IsConst() {
			a, b = b, a
			op = flipOp(op)
		}
		if n, ok := b.Int64(); ok && !a.IsConst() {
			return w.decideIntConst(a, op, n)
		}
		if !a.IsConst() && !b.IsConst() {
			return w.decideRel(a, op, b)
		}
	}
	// strings against constants
	if isStringType(a.Typ) || isStringType(b.Typ) {
		if a.IsConst() && !b.IsConst() {
			a, b = b, a
			op = flipOp(op)
		}
		if s, ok := b.StrVal(); ok && (op == token.EQL || op == token.NEQ) {
			eq := w.decideStrEq(a, s)
			if op == token.EQL {
				return eq
			}
			return !eq
		}
	}
	// booleans
	if isBoolType(a.Typ) && isBoolType(b.Typ) && (op == token.EQL || op == token.NEQ) {
		x, y := w.decide(a), w.decide(b)
		if op == token.EQL {
			return x == y
		}
		return x != y
	}
	// struct values of basic fields: equal iff every pair of corresponding fields is equal
	if (op == token.EQL || op == token.NEQ) && a.Typ != nil {
		if st, ok := a.Typ.Underlying().(*types.Struct); ok && st.NumFields() > 0 && st.NumFields() <= 8 {
			basic := true
			for i := 0; i < st.NumFields(); i++ {
				if _, ok := st.Field(i).Type().Underlying().(*types.Basic); !ok {
					basic = false
				}
			}
			if basic {
				all := true
				for i := 0; i < st.NumFields(); i++ {
					n := st.Field(i).Name()
					fa, fb := project(a, n), project(b, n)
					if !w.decideCmp(&Term{Op: "cmp", Name: "==", Args: []*Term{fa, fb}, Typ: types.Typ[types.Bool]}) {
						all = false
						break
					}
				}
				if op == token.EQL {
					return all
				}
				return !all
			}
		}
	}
	// generic equality atom
	if op == token.EQL || op == token.NEQ {
		x, y := a.String(), b.String()
		if x == y {
			return op == token.EQL
		}
		if x > y {
			x, y = y, x
		}
		eq := w.boolAtom("eq("+x+","+y+")", c)
		if op == token.EQL {
			return eq
		}
		return !eq
	}
	return w.boolAtom(c.String(), c)
}

func (w *Walker) decideIntConst(a *Term, op token.Token, n int64) bool {
	// len(x)-c against n is len(x) against n+c: a length is in 0..2^62, so neither side can wrap
	if a.Op == "bin" && (a.Name == "-" || a.Name == "+") && len(a.Args) == 2 && a.Args[0].Op == "len" {
		if c, ok := a.Args[1].Int64(); ok && c > -(1<<31) && c < 1<<31 && n > -(1<<31) && n < 1<<31 {
			if a.Name == "-" {
				return w.decideIntConst(a.Args[0], op, n+c)
			}
			return w.decideIntConst(a.Args[0], op, n-c)
		}
	}
	if w.Finite {
		if leaf, sat, uns, ok := w.finiteSplit(a, op, n); ok {
			lk := leaf.String()
			switch {
			case uns.Empty() && !sat.Empty():
				return true
			case sat.Empty() && !uns.Empty():
				return false
			case sat.Empty() && uns.Empty():
				w.abort("infeasible", "empty region for "+lk)
			}
			res := w.choose(2, lk) == 0
			if res {
				w.state.Ints[lk] = sat
			} else {
				w.state.Ints[lk] = uns
			}
			w.state.IntT[lk] = leaf
			w.logDecision(fmt.Sprintf("%s%s%d=%v", a.String(), op, n, res))
			return res
		}
		if decided, res := w.finiteSplit2(a, op, n); decided {
			return res
		}
	}
	key := a.String()
	cur, ok := w.state.Ints[key]
	if !ok && w.AssumeFn != nil {
		if r, has := w.AssumeFn(key); has {
			cur, ok = r, true
			w.state.Ints[key] = r
			w.state.IntT[key] = a
		}
	}
	if !ok {
		cur = fullSet(a.Typ)
		if a.Op == "len" {
			cur = cur.Intersect(IntervalSet{{0, math.MaxInt64}})
			// documented: IP.To4 returns nil or the 4-byte form, IP.To16 nil or the 16-byte form
			if len(a.Args) == 1 && a.Args[0] != nil && a.Args[0].Op == "call" {
				switch a.Args[0].Name {
				case "(net.IP).To4":
					cur = IntervalSet{{0, 0}, {4, 4}}
				case "(net.IP).To16":
					cur = IntervalSet{{0, 0}, {16, 16}}
				}
			}
		}
	}
	sat := cur.Intersect(satisfying(op, n))
	uns := cur.Intersect(satisfying(negOp(op), n))
	if a.Op == "len" && w.loopCond && w.RangeCap > 0 && n >= int64(w.RangeCap) && !sat.Empty() && !uns.Empty() && (op == token.GTR || op == token.GEQ) {
		// loop condition "index < len(x)" with index >= RangeCap: explore only collections of at most RangeCap elements
		w.state.Ints[key] = uns
		w.state.IntT[key] = a
		return false
	}
	var res bool
	switch {
	case uns.Empty() && !sat.Empty():
		res = true
	case sat.Empty() && !uns.Empty():
		res = false
	case sat.Empty() && uns.Empty():
		w.abort("infeasible", "empty region for "+key)
	default:
		res = w.choose(2, key) == 0
		if res {
			w.state.Ints[key] = sat
		} else {
			w.state.Ints[key] = uns
		}
		w.state.IntT[key] = a
		w.logDecision(fmt.Sprintf("%s%s%d=%v", key, op, n, res))
	}
	return res
}

func (w *Walker) decideRel(a *Term, op token.Token, b *Term) bool {
	x, y := a.String(), b.String()
	if x == y {
		return relSat(op)&relEQ != 0
	}
	want := relSat(op)
	if x > y {
		x, y = y, x
		want = relFlip(want)
	}
	key := x + "\x00" + y
	cur, ok := w.state.Rels[key]
	if !ok {
		cur = relLT | relEQ | relGT
	}
	sat := cur & want
	uns := cur &^ want
	switch {
	case uns == 0:
		return true
	case sat == 0:
		return false
	}
	res := w.choose(2, key) == 0
	if res {
		w.state.Rels[key] = sat
	} else {
		w.state.Rels[key] = uns
	}
	w.logDecision(fmt.Sprintf("%s %s %s=%v", a.String(), op, b.String(), res))
	return res
}

func (w *Walker) decideStrEq(a *Term, s string) bool {
	key := a.String()
	f := w.state.Strs[key]
	if f == nil {
		f = &strFacts{ne: map[string]bool{}}
		w.state.Strs[key] = f
	}
	if f.eq != nil {
		return *f.eq == s
	}
	if f.ne[s] {
		return false
	}
	if w.choose(2, key) == 0 {
		f.eq = &s
		w.logDecision(fmt.Sprintf("%s==%q", key, s))
		return true
	}
	f.ne[s] = true
	w.logDecision(fmt.Sprintf("%s!=%q", key, s))
	return false
}
