package main

func init() {
	checks["PANICTEST"] = func(r *Report, p *Program, tier string) {
		RulePanic(r, p, "thorough", wireReachableTypes(p))
	}
	checks["LISTENTEST"] = func(r *Report, p *Program, tier string) {
		RuleListen(r, p)
		RuleImmutable(r, p)
	}
	checks["MISCTEST"] = func(r *Report, p *Program, tier string) {
		RuleBCD(r, p)
		RuleAddr(r, p)
		RuleK10(r, p)
		RuleW26(r, p)
		RuleJSON(r, p)
		RuleZone(r, p, NewCodec(r, p, false))
	}
	checks["ORDERTEST"] = func(r *Report, p *Program, tier string) {
		RuleOrder(r, p, "thorough")
	}
	checks["ROUTETEST"] = func(r *Report, p *Program, tier string) {
		RuleFilter(r, p, aspectSet{"F1": true, "F2": true, "R1": true})
		RuleF3(r, p)
		RuleF4(r, p)
		RuleR2(r, p)
		RuleR3(r, p)
	}
	checks["TRANSTEST"] = func(r *Report, p *Program, tier string) {
		all := aspectSet{"T1": true, "T2": true, "T3": true, "T4": true, "T5": true, "T6": true, "T7": true, "T8": true, "T9": true, "T10": true, "A2d": true}
		RuleTransport(r, p, all)
		RuleShare(r, p, all)
	}
	checks["CODECTEST"] = func(r *Report, p *Program, tier string) {
		c := NewCodec(r, p, true)
		if c == nil {
			return
		}
		all := aspectSet{"L1": true, "L2": true, "L3": true, "L4": true, "L5": true, "L6": true, "L7": true}
		RuleLayout(r, c, all)
		RuleRegistry(r, c, []string{"requests", "responses"}, all)
		RuleEventLayout(r, c)
		RuleK1(r, c)
		RuleK2(r, c)
		RuleK3(r, c)
		RuleK4(r, c)
		RuleK5(r, c)
		RuleK6(r, c)
		RuleK7(r, c)
		RuleK8(r, c)
		RuleK9(r, c)
		RuleK11(r, c)
		RuleG1(r, p)
	}
	checks["APITEST"] = func(r *Report, p *Program, tier string) {
		for _, id := range []string{"A0", "A1", "A2", "A3", "A4", "A5", "A6", "A7", "IM1"} {
			r.Rule(id, "api rule "+id, 1)
		}
		RuleAPI(r, p, aspectSet{"A0": true, "A1": true, "A2": true, "A3": true, "A4": true, "A5": true, "A6": true, "A7": true, "IM1": true}, nil)
	}
}
