package main

func init() {
	checks["APITEST"] = func(r *Report, p *Program, tier string) {
		for _, id := range []string{"A0", "A1", "A2", "A3", "A4", "A5", "A6", "A7", "IM1"} {
			r.Rule(id, "api rule "+id, 1)
		}
		RuleAPI(r, p, aspectSet{"A0": true, "A1": true, "A2": true, "A3": true, "A4": true, "A5": true, "A6": true, "A7": true, "IM1": true}, nil)
	}
}
