package main

import (
	"fmt"
	"go/token"
	"go/types"

	"golang.org/x/tools/go/ssa"
)

// ---------------------------------------------------------------------------------------
// Constant tables at package level. A table moved from a function body to a package-level variable
// (`var sentinels = [...][7]byte{...}`, `var layouts = []string{...}`) must look the same to the walker as
// the local literal did. A module global is folded to its initial value when
//   * its type is built from basic types, strings, arrays, slices and structs only,
//   * its initial value is written by the package initialiser with constants only, and
//   * nothing outside the initialiser can write it: every use outside the initialiser is a load, or an
//     element/field address or slice that in turn is only read (handed only to callees of the read-only list).
// Anything else stays symbolic, as before.
// ---------------------------------------------------------------------------------------

func foldableType(t types.Type, depth int) bool {
	if depth > 6 {
		return false
	}
	if isValueStdType(t) {
		return true
	}
	switch u := t.Underlying().(type) {
	case *types.Basic:
		return u.Kind() != types.UnsafePointer
	case *types.Array:
		return u.Len() <= 1024 && foldableType(u.Elem(), depth+1)
	case *types.Slice:
		return foldableType(u.Elem(), depth+1)
	case *types.Struct:
		for i := 0; i < u.NumFields(); i++ {
			if !foldableType(u.Field(i).Type(), depth+1) {
				return false
			}
		}
		return true
	}
	return false
}

var readOnlyCallees = map[string]bool{
	"bytes.Equal": true, "bytes.Compare": true, "bytes.HasPrefix": true, "bytes.Contains": true, "slices.Contains": true,
	"slices.ContainsFunc": true, "slices.IndexFunc": true, "slices.BinarySearch": true, "slices.BinarySearchFunc": true, "slices.Max": true, "slices.Min": true, "slices.Clone": true,
	"slices.Index": true, "slices.Equal": true, "strings.Contains": true, "strings.HasPrefix": true, "strings.EqualFold": true,
	"strings.Join": true, "fmt.Sprintf": true, "fmt.Errorf": true, "bcd.Decode": true,
	"(*strings.Builder).Write": true, "(*bytes.Buffer).Write": true, "(*strings.Builder).WriteString": true, "(*bytes.Buffer).WriteString": true,
}

// readOnlyUses: every (transitive) use of v reads through it and never writes or lets it escape.
func readOnlyUses(v ssa.Value, depth int) bool {
	if depth > 6 {
		return false
	}
	refs := v.Referrers()
	if refs == nil {
		return false
	}
	for _, in := range *refs {
		switch x := in.(type) {
		case *ssa.DebugRef:
		case *ssa.UnOp:
			if x.Op.String() != "*" {
				return false
			}
			// a loaded slice/array value: its uses must be read-only too
			if !valueReadOnly(x, depth+1) {
				return false
			}
		case *ssa.IndexAddr:
			if x.X != v || !readOnlyUses(x, depth+1) {
				return false
			}
		case *ssa.FieldAddr:
			if x.X != v || !readOnlyUses(x, depth+1) {
				return false
			}
		case *ssa.Slice:
			if x.X != v || !valueReadOnly(x, depth+1) {
				return false
			}
		case *ssa.Store:
			if x.Addr == v {
				return false
			}
			// storing the (loaded) value somewhere else is a copy for arrays/structs/basic values
			if _, isSlice := x.Val.Type().Underlying().(*types.Slice); isSlice || isPointerLike(x.Val.Type()) {
				return false
			}
		default:
			return false
		}
	}
	return true
}

func isPointerLike(t types.Type) bool {
	switch t.Underlying().(type) {
	case *types.Pointer, *types.Map, *types.Chan, *types.Signature, *types.Interface:
		return true
	}
	return false
}

// valueReadOnly: uses of a loaded value. Array, struct and basic values are copies; a slice value still
// aliases the table, so it may only be indexed for reading, measured, ranged over, re-sliced or given to a
// read-only callee.
func valueReadOnly(v ssa.Value, depth int) bool {
	if depth > 6 {
		return false
	}
	if _, isSlice := v.Type().Underlying().(*types.Slice); !isSlice {
		return true
	}
	refs := v.Referrers()
	if refs == nil {
		return true
	}
	for _, in := range *refs {
		switch x := in.(type) {
		case *ssa.DebugRef:
		case *ssa.IndexAddr:
			if !readOnlyUses(x, depth+1) {
				return false
			}
		case *ssa.Slice:
			if !valueReadOnly(x, depth+1) {
				return false
			}
		case *ssa.Range, *ssa.Phi:
			if ph, ok := in.(*ssa.Phi); ok && !valueReadOnly(ph, depth+1) {
				return false
			}
		case ssa.CallInstruction:
			c := x.Common()
			if b, ok := c.Value.(*ssa.Builtin); ok {
				if b.Name() == "len" || b.Name() == "cap" {
					continue
				}
				if b.Name() == "copy" && len(c.Args) == 2 && c.Args[1] == v && c.Args[0] != v {
					continue
				}
				return false
			}
			f := c.StaticCallee()
			if f == nil {
				return false
			}
			g := f
			if f.Origin() != nil {
				g = f.Origin() // slices.Contains[[]uint32,uint32] is slices.Contains
			}
			if !readOnlyCallees[calleeName(f)] && !readOnlyCallees[calleeName(g)] {
				return false
			}
		default:
			return false
		}
	}
	return true
}

var constGlobalMemo = map[*ssa.Global]*globalImage{}

// initVal is the value an initialiser stores: a constant, or a slice of a fresh backing array whose elements
// are again initVals.
type initVal struct {
	c      *ssa.Const
	alloc  *ssa.Alloc // backing array of a slice literal
	stores []initStore
}

type initStore struct {
	path []string
	val  *initVal
}

type globalImage struct {
	ok       bool
	readOnly bool     // nothing outside the initialiser writes the variable
	whole    *initVal // the global is assigned as a whole (scalar constant or slice literal)
	stores   []initStore
}

func initPath(addr ssa.Value, root ssa.Value) ([]string, bool) {
	var rev []string
	for addr != root {
		switch x := addr.(type) {
		case *ssa.IndexAddr:
			c, ok := x.Index.(*ssa.Const)
			if !ok || c.Value == nil {
				return nil, false
			}
			rev = append(rev, "#"+c.Value.ExactString())
			addr = x.X
		case *ssa.FieldAddr:
			st := x.X.Type().Underlying().(*types.Pointer).Elem().Underlying().(*types.Struct)
			rev = append(rev, st.Field(x.Field).Name())
			addr = x.X
		default:
			return nil, false
		}
	}
	out := make([]string, len(rev))
	for i := range rev {
		out[i] = rev[len(rev)-1-i]
	}
	return out, true
}

func evalInitValue(v ssa.Value, init *ssa.Function, depth int) (*initVal, bool) {
	if depth > 4 {
		return nil, false
	}
	switch x := v.(type) {
	case *ssa.Const:
		return &initVal{c: x}, true
	case *ssa.Slice:
		if x.Low != nil || x.High != nil {
			return nil, false
		}
		a, ok := x.X.(*ssa.Alloc)
		if !ok || !a.Heap || a.Parent() != init {
			return nil, false
		}
		for _, in := range *a.Referrers() {
			switch in.(type) {
			case *ssa.IndexAddr, *ssa.Slice, *ssa.DebugRef:
			default:
				return nil, false
			}
		}
		st, ok := evalInitStores(a, init, depth+1)
		if !ok {
			return nil, false
		}
		return &initVal{alloc: a, stores: st}, true
	}
	return nil, false
}

func evalInitStores(root ssa.Value, init *ssa.Function, depth int) ([]initStore, bool) {
	var out []initStore
	for _, b := range init.Blocks {
		for _, in := range b.Instrs {
			st, ok := in.(*ssa.Store)
			if !ok || st.Addr == root || rootOf(st.Addr) != root {
				continue
			}
			path, ok := initPath(st.Addr, root)
			if !ok {
				return nil, false
			}
			iv, ok := evalInitValue(st.Val, init, depth)
			if !ok {
				return nil, false
			}
			out = append(out, initStore{path, iv})
		}
	}
	return out, true
}

func (p *Program) constGlobalImage(g *ssa.Global) *globalImage {
	if gi, ok := constGlobalMemo[g]; ok {
		return gi
	}
	gi := &globalImage{}
	constGlobalMemo[g] = gi
	if g.Pkg == nil || !inModule(g.Pkg.Func("init")) {
		return gi
	}
	et := g.Type().Underlying().(*types.Pointer).Elem()
	if !foldableType(et, 0) {
		return gi
	}
	init := initFn(g)
	if init == nil {
		return gi
	}
	// uses outside the initialiser: read-only
	for _, fn := range p.AllFuncs {
		if fn == init {
			continue
		}
		for _, b := range fn.Blocks {
			for _, in := range b.Instrs {
				for _, op := range in.Operands(nil) {
					if *op != ssa.Value(g) {
						continue
					}
					switch x := in.(type) {
					case *ssa.UnOp:
						if x.Op.String() != "*" || !valueReadOnly(x, 0) {
							return gi
						}
					case *ssa.IndexAddr:
						if !readOnlyUses(x, 0) {
							return gi
						}
					case *ssa.FieldAddr:
						if !readOnlyUses(x, 0) {
							return gi
						}
					case *ssa.Slice:
						if !valueReadOnly(x, 0) {
							return gi
						}
					case *ssa.DebugRef:
					default:
						return gi
					}
				}
			}
		}
	}
	gi.readOnly = true
	for _, b := range init.Blocks {
		for _, in := range b.Instrs {
			if st, ok := in.(*ssa.Store); ok && st.Addr == ssa.Value(g) {
				iv, ok := evalInitValue(st.Val, init, 0)
				if !ok || gi.whole != nil {
					return gi
				}
				gi.whole = iv
			}
		}
	}
	st, ok := evalInitStores(g, init, 0)
	if !ok {
		return gi
	}
	gi.stores = st
	gi.ok = true
	return gi
}

func (w *Walker) initValTerm(iv *initVal, t types.Type, name string) *Term {
	if iv.c != nil {
		if iv.c.Value == nil {
			return zeroOf(iv.c.Type())
		}
		return mkConst(iv.c.Value, iv.c.Type())
	}
	at := iv.alloc.Type().Underlying().(*types.Pointer).Elem()
	arr, ok := at.Underlying().(*types.Array)
	if !ok {
		return nil
	}
	v := w.applyInitStores(zeroOf(at), iv.stores, at, name)
	if v == nil || v.Op != "slicev" {
		return nil
	}
	cell := w.newCell(name, at, true)
	cell.Val = v
	return &Term{Op: "sref", Cell: cell, Typ: t, Args: []*Term{mkInt(0, types.Typ[types.Int]), mkInt(arr.Len(), types.Typ[types.Int])}}
}

func typeAtPath(t types.Type, path []string) types.Type {
	for _, s := range path {
		if t == nil {
			return nil
		}
		if len(s) > 0 && s[0] == '#' {
			t = elemType(t)
		} else {
			t = fieldType(t, s)
		}
	}
	return t
}

func (w *Walker) applyInitStores(v *Term, stores []initStore, t types.Type, name string) *Term {
	for _, st := range stores {
		nv := w.initValTerm(st.val, typeAtPath(t, st.path), name)
		if nv == nil {
			return nil
		}
		v = update(v, st.path, nv)
	}
	return v
}

// isValueStdType: immutable value types of the standard library whose constructors the walker treats as pure
// terms (netip.Addr, netip.AddrPort, time.Duration).
func isValueStdType(t types.Type) bool {
	n, ok := types.Unalias(t).(*types.Named)
	if !ok || n.Obj().Pkg() == nil {
		return false
	}
	switch n.Obj().Pkg().Path() + "." + n.Obj().Name() {
	case "net/netip.Addr", "net/netip.AddrPort", "time.Duration":
		return true
	}
	return false
}

// evalInitSlice evaluates, with the walker's own transfer functions, exactly the instructions of the package
// initialiser that the value stored into g depends on (its backward slice; straight-line code of constants,
// literals and pure constructor calls). Events are discarded. Returns nil when the slice contains anything else.
func (w *Walker) evalInitSlice(g *ssa.Global) (res *Term) {
	init := initFn(g)
	if init == nil {
		return nil
	}
	var store *ssa.Store
	for _, b := range init.Blocks {
		for _, in := range b.Instrs {
			if st, ok := in.(*ssa.Store); ok && st.Addr == ssa.Value(g) {
				if store != nil {
					return nil
				}
				store = st
			}
		}
	}
	if store == nil {
		return nil
	}
	need := map[ssa.Instruction]bool{}
	okSlice := true
	var visit func(v ssa.Value, depth int)
	visit = func(v ssa.Value, depth int) {
		if depth > 12 {
			okSlice = false
			return
		}
		switch x := v.(type) {
		case *ssa.Const, *ssa.Function, *ssa.Builtin:
			return
		case *ssa.Global:
			if x != g {
				okSlice = false // depends on another variable: not a constant expression
			}
			return
		case ssa.Instruction:
			if need[x] {
				return
			}
			if x.Parent() != init || x.Block() != store.Block() {
				okSlice = false
				return
			}
			switch y := x.(type) {
			case *ssa.Call:
				f := y.Call.StaticCallee()
				if f == nil || !isPureName(calleeName(f)) {
					okSlice = false
					return
				}
			case *ssa.Alloc:
				// a literal: all stores into it belong to the slice
				need[x] = true
				for _, bi := range store.Block().Instrs {
					if st, ok := bi.(*ssa.Store); ok && rootOf(st.Addr) == ssa.Value(y) {
						need[st] = true
						visit(st.Val, depth+1)
						if st.Addr != ssa.Value(y) {
							visit(st.Addr, depth+1)
						}
					}
				}
			case *ssa.UnOp, *ssa.BinOp, *ssa.Convert, *ssa.ChangeType, *ssa.IndexAddr, *ssa.FieldAddr, *ssa.Slice, *ssa.Extract, *ssa.MakeInterface:
			default:
				okSlice = false
				return
			}
			need[x] = true
			for _, op := range x.Operands(nil) {
				if *op != nil {
					visit(*op, depth+1)
				}
			}
		default:
			okSlice = false
		}
	}
	visit(store.Val, 0)
	if !okSlice {
		return nil
	}
	savedEvents := w.events
	defer func() {
		w.events = savedEvents
		if r := recover(); r != nil {
			if _, isAbort := r.(abortPath); isAbort {
				res = nil
				return
			}
			panic(r)
		}
	}()
	fr := &frame{fn: init, env: map[ssa.Value]*Term{}, depth: 1, visits: map[*ssa.BasicBlock]int{}}
	for _, in := range store.Block().Instrs {
		if need[in] {
			w.step(fr, in)
		}
	}
	v := w.val(fr, store.Val)
	if v == nil || hasImpure(v, 0) {
		return nil
	}
	return v
}

func hasImpure(t *Term, depth int) bool {
	if t == nil || depth > 8 {
		return false
	}
	switch t.Op {
	case "fresh", "param", "global", "deref":
		return true
	case "call":
		if t.ID != 0 {
			return true
		}
	}
	for _, a := range t.Args {
		if hasImpure(a, depth+1) {
			return true
		}
	}
	return false
}

// foldGlobal returns the initial value of a constant table, or nil.
func (w *Walker) foldGlobal(g *ssa.Global) *Term {
	gi := w.P.constGlobalImage(g)
	if !gi.ok {
		if gi.readOnly && isValueStdType(g.Type().Underlying().(*types.Pointer).Elem()) {
			return w.evalInitSlice(g)
		}
		if gi.readOnly {
			return w.evalInitCall(g)
		}
		return nil
	}
	et := g.Type().Underlying().(*types.Pointer).Elem()
	name := fmt.Sprintf("%s.%s", shortPkg(g.Pkg.Pkg), g.Name())
	var v *Term
	if gi.whole != nil {
		v = w.initValTerm(gi.whole, et, name)
	} else {
		v = zeroOf(et)
	}
	if v == nil {
		return nil
	}
	v = w.applyInitStores(v, gi.stores, et, name)
	if v == nil || v.Op == "zero" || v.Op == "fresh" {
		return nil
	}
	if hasClobber(v, 0) {
		return nil
	}
	return v
}

func hasClobber(t *Term, depth int) bool {
	if t == nil || depth > 6 {
		return false
	}
	if t.Op == "fresh" {
		return true
	}
	if t.Op == "slicev" || t.Op == "struct" {
		for _, a := range t.Args {
			if hasClobber(a, depth+1) {
				return true
			}
		}
	}
	return false
}

// ---- dispatch tables ---------------------------------------------------------------------
// A package-level map filled once by the initialiser with constant or package-level keys and function or
// constant values, and only looked up afterwards, is a switch statement written as data. A lookup in it is
// walked as the chain  if key == k1 {v1} else if key == k2 {v2} ... else absent,  which produces the same
// comparison atoms as the switch it may have replaced.

type tableEntry struct {
	key ssa.Value // *ssa.Const or load of a package-level variable
	val ssa.Value // *ssa.Function, *ssa.MakeClosure without bindings, or *ssa.Const
}

var dispatchMemo = map[*ssa.Global][]tableEntry{}
var dispatchDone = map[*ssa.Global]bool{}

func (p *Program) dispatchTable(g *ssa.Global) []tableEntry {
	if dispatchDone[g] {
		return dispatchMemo[g]
	}
	dispatchDone[g] = true
	if g.Pkg == nil || !inModule(g.Pkg.Func("init")) {
		return nil
	}
	if _, ok := g.Type().Underlying().(*types.Pointer).Elem().Underlying().(*types.Map); !ok {
		return nil
	}
	init := initFn(g)
	var mm *ssa.MakeMap
	for _, sv := range storedInto(init, g) {
		m, ok := sv.(*ssa.MakeMap)
		if !ok || mm != nil {
			return nil
		}
		mm = m
	}
	if mm == nil {
		return nil
	}
	// outside the initialiser the map is only read
	for _, fn := range p.AllFuncs {
		if fn == init {
			continue
		}
		for _, b := range fn.Blocks {
			for _, in := range b.Instrs {
				for _, op := range in.Operands(nil) {
					if *op != ssa.Value(g) {
						continue
					}
					ld, ok := in.(*ssa.UnOp)
					if !ok || ld.Op.String() != "*" || ld.Referrers() == nil {
						return nil
					}
					if !loadedReadOnly(ld, 0) {
						return nil
					}
				}
			}
		}
	}
	var out []tableEntry
	for _, b := range init.Blocks {
		for _, in := range b.Instrs {
			mu, ok := in.(*ssa.MapUpdate)
			if !ok || mu.Map != ssa.Value(mm) {
				continue
			}
			switch k := mu.Key.(type) {
			case *ssa.Const:
			case *ssa.UnOp:
				if _, isG := k.X.(*ssa.Global); !isG || k.Op.String() != "*" {
					return nil
				}
			default:
				return nil
			}
			val := mu.Value
			if ct, ok := val.(*ssa.ChangeType); ok {
				val = ct.X // a function converted to the table's named function type
			}
			switch v := val.(type) {
			case *ssa.Const, *ssa.Function:
			case *ssa.MakeClosure:
				if len(v.Bindings) != 0 {
					return nil
				}
			default:
				return nil
			}
			out = append(out, tableEntry{mu.Key, val})
		}
	}
	dispatchMemo[g] = out
	return out
}

// globalByName resolves the rendering "pkg.name" of a package-level variable.
func (p *Program) globalByName(name string) *ssa.Global {
	for _, sp := range p.SSAPkgs {
		if sp == nil {
			continue
		}
		pre := shortPkg(sp.Pkg) + "."
		if len(name) > len(pre) && name[:len(pre)] == pre {
			if g, ok := sp.Members[name[len(pre):]].(*ssa.Global); ok {
				return g
			}
		}
	}
	return nil
}

// tableLookup walks m[k] for a dispatch table; ok=false when m is not one.
func (w *Walker) tableLookup(m, k *Term, fr *frame, x *ssa.Lookup) (*Term, bool) {
	if m.Op != "global" {
		return nil, false
	}
	g := w.P.globalByName(m.Name)
	if g == nil {
		return nil, false
	}
	tab := w.P.dispatchTable(g)
	if tab == nil {
		return nil, false
	}
	vt := elemType(m.Typ)
	for _, e := range tab {
		var kt *Term
		if ld, ok := e.key.(*ssa.UnOp); ok {
			kt = w.load(w.val(fr, ld.X), x, fr.fn, fr.depth)
		} else {
			kt = w.val(fr, e.key)
		}
		cmp := w.binop(token.EQL, k, kt, types.Typ[types.Bool])
		if w.decide(cmp) {
			v := w.val(fr, e.val)
			if mc, ok := e.val.(*ssa.MakeClosure); ok {
				v = &Term{Op: "closure", Fn: mc.Fn.(*ssa.Function), Typ: mc.Type()}
			}
			if x.CommaOk {
				return &Term{Op: "tuple", Args: []*Term{v, mkBool(true)}, Typ: x.Type()}, true
			}
			return v, true
		}
	}
	z := zeroOf(vt)
	if x.CommaOk {
		return &Term{Op: "tuple", Args: []*Term{z, mkBool(false)}, Typ: x.Type()}, true
	}
	return z, true
}

// ---------------------------------------------------------------------------------------
// Computed tables. `var table = func() (t [256]entry) { for i := range t { ... }; return }()` is a constant
// table written as a program: the initialiser calls a function without free variables, with constant
// arguments, whose body only computes on its own local storage (arithmetic, comparisons, element and field
// stores, pure calls). Such a call has exactly one path in the walker's domain, with every branch decided by
// constants; its result is the table. Anything else (a read of another variable, a symbolic branch, more
// than one path) leaves the global symbolic.
// ---------------------------------------------------------------------------------------

var initCallMemo = map[*ssa.Global]*Term{}

func computeOnly(f *ssa.Function, seen map[*ssa.Function]bool) bool {
	if f == nil || f.Blocks == nil || len(f.FreeVars) != 0 {
		return false
	}
	if seen[f] {
		return true
	}
	seen[f] = true
	for _, b := range f.Blocks {
		for _, in := range b.Instrs {
			switch x := in.(type) {
			case *ssa.Go, *ssa.Defer, *ssa.Send, *ssa.Select, *ssa.MapUpdate, *ssa.MakeChan, *ssa.MakeClosure, *ssa.RunDefers:
				return false
			case *ssa.Store:
				if !localAddr(x.Addr) {
					return false
				}
			case *ssa.UnOp:
				if x.Op.String() == "<-" {
					return false
				}
				if x.Op.String() == "*" && !localAddr(x.X) {
					return false
				}
			case ssa.CallInstruction:
				c := x.Common()
				if c.IsInvoke() {
					return false
				}
				if bi, ok := c.Value.(*ssa.Builtin); ok {
					switch bi.Name() {
					case "len", "cap", "min", "max", "copy", "append":
					default:
						return false
					}
					break
				}
				cal := c.StaticCallee()
				if cal == nil {
					return false
				}
				if inModule(cal) {
					if !computeOnly(cal, seen) {
						return false
					}
				} else if !isPureName(calleeName(cal)) {
					return false
				}
			}
			for _, op := range in.Operands(nil) {
				if _, isG := (*op).(*ssa.Global); isG {
					return false
				}
			}
		}
	}
	return true
}

func (w *Walker) evalInitCall(g *ssa.Global) *Term {
	if v, ok := initCallMemo[g]; ok {
		return v
	}
	initCallMemo[g] = nil
	init := initFn(g)
	if init == nil {
		return nil
	}
	var store *ssa.Store
	for _, b := range init.Blocks {
		for _, in := range b.Instrs {
			if st, ok := in.(*ssa.Store); ok && rootOf(st.Addr) == ssa.Value(g) {
				if store != nil || st.Addr != ssa.Value(g) {
					return nil
				}
				store = st
			}
		}
	}
	if store == nil {
		return nil
	}
	call, ok := store.Val.(*ssa.Call)
	if !ok {
		return nil
	}
	f := call.Call.StaticCallee()
	if f == nil || !inModule(f) || !computeOnly(f, map[*ssa.Function]bool{}) {
		return nil
	}
	var args []*Term
	for _, a := range call.Call.Args {
		c, ok := a.(*ssa.Const)
		if !ok || c.Value == nil {
			return nil
		}
		args = append(args, mkConst(c.Value, c.Type()))
	}
	nw := NewWalker(w.P)
	nw.Finite = true
	nw.LoopFuel = 8
	nw.MaxPaths = 4
	nw.Inline = func(fn *ssa.Function, d int) bool { return inModule(fn) && fn.Blocks != nil }
	paths := nw.Walk(f, args, nil)
	if len(paths) != 1 || paths[0].Outcome != "return" || len(paths[0].Results) != 1 || len(paths[0].Decisions) != 0 {
		return nil
	}
	v := paths[0].Results[0]
	if v == nil || hasImpure(v, 0) || hasClobber(v, 0) {
		return nil
	}
	initCallMemo[g] = v
	return v
}
