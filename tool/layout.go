package main

import (
	"fmt"
	"go/ast"
	"go/constant"
	"go/token"
	"go/types"
	"reflect"
	"regexp"
	"sort"
	"strconv"
	"strings"
)

// E1 LAYOUT: the byte layout of every struct carrying `uhppote` tags, computed from go/types.

type LField struct {
	Struct   string // qualified struct name
	Name     string
	Path     string // through embedding: "Event.SerialNumber"
	Type     types.Type
	Kind     string // bool uint8 uint16 uint32 ipv4 addrport mac som msgtype types.X | unsupported:<type>
	Pointer  bool
	Exported bool
	Embedded bool
	Tag      string
	HasOff   bool
	Offset   int
	OffText  string
	HasVal   bool
	ValText  string
	Value    int64
	ValErr   string
	Pos      token.Pos
}

type Layout struct {
	Name   string // e.g. messages.PutCardRequest
	Pkg    string
	Obj    *types.TypeName
	Fields []LField // flattened through embedded structs, declaration order
	Pos    token.Pos
}

// MsgCode returns the function code (value tag of the MsgType field), ok=false if absent.
func (l *Layout) MsgCode() (int64, bool) {
	for _, f := range l.Fields {
		if f.Kind == "msgtype" && f.HasVal && f.ValErr == "" {
			return f.Value, true
		}
	}
	return 0, false
}

func (l *Layout) SOM() (int64, bool) {
	for _, f := range l.Fields {
		if f.Kind == "som" && f.HasVal && f.ValErr == "" {
			return f.Value, true
		}
	}
	return 0, false
}

type LayoutEngine struct {
	P        *Program
	ReOffset *regexp.Regexp // the codec's own `offset:` regexp, read from its source
	ReValue  *regexp.Regexp
	ReOffSrc string
	ReValSrc string
	Layouts  map[string]*Layout
	Order    []string
	marshalM *types.Interface
	unmarshM *types.Interface
}

const codecRel = "encoding/UTO311-L0x"

// codecRegexps reads the two tag regular expressions from the codec's package-level
// regexp.MustCompile initialisers so that the tag grammar follows the code.
func codecRegexps(p *Program) (off, val string, err error) {
	pkg := p.Pkg(codecRel)
	if pkg == nil {
		return "", "", fmt.Errorf("codec package not found")
	}
	found := map[string]string{}
	for _, f := range pkg.Syntax {
		for _, d := range f.Decls {
			gd, ok := d.(*ast.GenDecl)
			if !ok || gd.Tok != token.VAR {
				continue
			}
			for _, s := range gd.Specs {
				vs := s.(*ast.ValueSpec)
				for i, n := range vs.Names {
					if i >= len(vs.Values) {
						continue
					}
					call, ok := vs.Values[i].(*ast.CallExpr)
					if !ok || len(call.Args) != 1 {
						continue
					}
					fn := calleeObj(pkg.TypesInfo, call)
					if fn == nil || fn.Pkg() == nil || fn.Pkg().Path() != "regexp" || fn.Name() != "MustCompile" {
						continue
					}
					tv := pkg.TypesInfo.Types[call.Args[0]]
					if tv.Value == nil || tv.Value.Kind() != constant.String {
						continue
					}
					found[n.Name] = constant.StringVal(tv.Value)
				}
			}
		}
	}
	// identify by content, not by variable name
	for _, src := range found {
		if strings.Contains(src, "offset") {
			off = src
		}
		if strings.Contains(src, "value") {
			val = src
		}
	}
	if off == "" || val == "" {
		return "", "", fmt.Errorf("codec tag regexps not found (have %v)", found)
	}
	return off, val, nil
}

func calleeObj(info *types.Info, call *ast.CallExpr) types.Object {
	switch f := call.Fun.(type) {
	case *ast.Ident:
		return info.Uses[f]
	case *ast.SelectorExpr:
		return info.Uses[f.Sel]
	}
	return nil
}

func NewLayoutEngine(p *Program) (*LayoutEngine, error) {
	off, val, err := codecRegexps(p)
	if err != nil {
		return nil, err
	}
	e := &LayoutEngine{P: p, ReOffSrc: off, ReValSrc: val, Layouts: map[string]*Layout{}}
	if e.ReOffset, err = regexp.Compile(off); err != nil {
		return nil, err
	}
	if e.ReValue, err = regexp.Compile(val); err != nil {
		return nil, err
	}
	cp := p.Pkg(codecRel).Types
	if m := cp.Scope().Lookup("Marshaler"); m != nil {
		e.marshalM, _ = m.Type().Underlying().(*types.Interface)
	}
	if m := cp.Scope().Lookup("Unmarshaler"); m != nil {
		e.unmarshM, _ = m.Type().Underlying().(*types.Interface)
	}
	if e.marshalM == nil || e.unmarshM == nil {
		return nil, fmt.Errorf("codec Marshaler/Unmarshaler interfaces not found")
	}
	// every named struct type of the module with at least one uhppote tag (directly or embedded)
	for _, pk := range p.Pkgs {
		sc := pk.Types.Scope()
		for _, n := range sc.Names() {
			tn, ok := sc.Lookup(n).(*types.TypeName)
			if !ok {
				continue
			}
			st, ok := tn.Type().Underlying().(*types.Struct)
			if !ok {
				continue
			}
			if !hasUhppoteTag(st, 0) {
				continue
			}
			name := relPkg(pk.PkgPath) + "." + tn.Name()
			l := &Layout{Name: name, Pkg: relPkg(pk.PkgPath), Obj: tn, Pos: tn.Pos()}
			e.flatten(l, st, "", 0)
			e.Layouts[name] = l
			e.Order = append(e.Order, name)
		}
	}
	sort.Strings(e.Order)
	return e, nil
}

func relPkg(path string) string {
	r := strings.TrimPrefix(path, modPath)
	r = strings.TrimPrefix(r, "/")
	if i := strings.LastIndex(r, "/"); i >= 0 {
		r = r[i+1:]
	}
	if r == "UTO311-L0x" {
		r = "codec"
	}
	return r
}

func hasUhppoteTag(st *types.Struct, depth int) bool {
	if depth > 4 {
		return false
	}
	for i := 0; i < st.NumFields(); i++ {
		if _, ok := reflect.StructTag(st.Tag(i)).Lookup("uhppote"); ok {
			return true
		}
		if st.Field(i).Embedded() {
			if s2, ok := st.Field(i).Type().Underlying().(*types.Struct); ok && hasUhppoteTag(s2, depth+1) {
				return true
			}
		}
	}
	return false
}

func (e *LayoutEngine) flatten(l *Layout, st *types.Struct, prefix string, depth int) {
	for i := 0; i < st.NumFields(); i++ {
		f := st.Field(i)
		tag := reflect.StructTag(st.Tag(i)).Get("uhppote")
		if f.Embedded() {
			if s2, ok := f.Type().Underlying().(*types.Struct); ok && depth < 4 {
				e.flatten(l, s2, prefix+f.Name()+".", depth+1)
				continue
			}
		}
		lf := LField{Struct: l.Name, Name: f.Name(), Path: prefix + f.Name(), Type: f.Type(), Exported: f.Exported(),
			Embedded: prefix != "", Tag: tag, Pos: f.Pos()}
		lf.Kind, lf.Pointer = e.KindOf(f.Type())
		if m := e.ReOffset.FindStringSubmatch(tag); m != nil {
			lf.HasOff = true
			lf.OffText = m[1]
			lf.Offset, _ = strconv.Atoi(m[1])
		}
		if m := e.ReValue.FindStringSubmatch(tag); m != nil {
			lf.HasVal = true
			lf.ValText = m[1]
			v, err := strconv.ParseUint(m[1], 0, 8)
			if err != nil {
				lf.ValErr = err.Error()
			}
			lf.Value = int64(v)
		}
		l.Fields = append(l.Fields, lf)
	}
}

func isNamed(t types.Type, pkg, name string) bool {
	n, ok := t.(*types.Named)
	if !ok {
		if a, ok2 := t.(*types.Alias); ok2 {
			return isNamed(types.Unalias(a), pkg, name)
		}
		return false
	}
	return n.Obj().Name() == name && n.Obj().Pkg() != nil && n.Obj().Pkg().Path() == pkg
}

// KindOf classifies a field type the way the codec's type switches do (by exact type identity)
// after the Marshaler/Unmarshaler dispatch (by method set).
func (e *LayoutEngine) KindOf(t types.Type) (kind string, pointer bool) {
	t = types.Unalias(t)
	if isNamed(t, modPath+"/types", "SOM") {
		return "som", false
	}
	if isNamed(t, modPath+"/types", "MsgType") {
		return "msgtype", false
	}
	base := t
	if p, ok := t.(*types.Pointer); ok {
		base = types.Unalias(p.Elem())
		pointer = true
	}
	if n, ok := base.(*types.Named); ok {
		// value field: marshal via f.Interface().(Marshaler) (value method set),
		// unmarshal via f.Addr().Interface().(Unmarshaler) (pointer method set)
		m := types.Implements(base, e.marshalM) || types.Implements(types.NewPointer(base), e.marshalM)
		u := types.Implements(types.NewPointer(base), e.unmarshM)
		if m || u {
			nm := relPkg(n.Obj().Pkg().Path()) + "." + n.Obj().Name()
			if m && u {
				return nm, pointer
			}
			if m {
				return "marshal-only:" + nm, pointer
			}
			return "unmarshal-only:" + nm, pointer
		}
	}
	if pointer {
		return "unsupported:" + t.String(), true
	}
	switch {
	case types.Identical(t, types.Typ[types.Bool]):
		return "bool", false
	case types.Identical(t, types.Typ[types.Uint8]):
		return "uint8", false
	case types.Identical(t, types.Typ[types.Uint16]):
		return "uint16", false
	case types.Identical(t, types.Typ[types.Uint32]):
		return "uint32", false
	case isNamed(t, "net", "IP"):
		return "ipv4", false
	case isNamed(t, "net/netip", "AddrPort"):
		return "addrport", false
	case isNamed(t, "net", "HardwareAddr"):
		return "mac", false
	}
	return "unsupported:" + t.String(), false
}
