package main

import (
	"go/types"
	"strings"

	"golang.org/x/tools/go/ssa"
)

// ---------------------------------------------------------------------------------------
// Field roles. The rules and the oracles speak about the client's configured controllers, its broadcast
// address, its transport, and about the transport's bind address, listen address and timeout. Which struct
// fields hold these is read from the code — by type where the type is unique (map of controllers,
// types.BroadcastAddr, the transport interface, time.Duration), and for the two netip.AddrPort fields of the
// transport by following the constructor's parameters of type types.BindAddr / types.ListenAddr to the
// field they are stored in — and the fields are rendered under canonical names (devices, broadcastAddr,
// driver, bindAddr, listenAddr, timeout, debug) whatever they are called in the source.
// ---------------------------------------------------------------------------------------

var fieldAlias = map[string]string{}

func computeFieldAliases(p *Program) {
	fieldAlias = map[string]string{}
	up := p.SSAPkg("uhppote")
	if up == nil {
		return
	}
	var ctor *ssa.Function
	for _, m := range up.Members {
		f, ok := m.(*ssa.Function)
		if !ok || f.Object() == nil || !f.Object().Exported() || f.Blocks == nil {
			continue
		}
		hasBind, hasListen := false, false
		for _, prm := range f.Params {
			ts := prm.Type().String()
			if strings.HasSuffix(ts, "types.BindAddr") {
				hasBind = true
			}
			if strings.HasSuffix(ts, "types.ListenAddr") {
				hasListen = true
			}
		}
		if hasBind && hasListen {
			ctor = f
		}
	}
	if ctor == nil {
		return
	}
	// structs allocated by the constructor
	var client, driver *types.Struct
	var driverAlloc *ssa.Alloc
	for _, b := range ctor.Blocks {
		for _, in := range b.Instrs {
			al, ok := in.(*ssa.Alloc)
			if !ok {
				continue
			}
			st, ok := al.Type().Underlying().(*types.Pointer).Elem().Underlying().(*types.Struct)
			if !ok {
				continue
			}
			hasMap, hasDur := false, false
			for i := 0; i < st.NumFields(); i++ {
				if _, isMap := st.Field(i).Type().Underlying().(*types.Map); isMap {
					hasMap = true
				}
				if st.Field(i).Type().String() == "time.Duration" {
					hasDur = true
				}
			}
			if hasMap {
				client = st
			} else if hasDur {
				driver, driverAlloc = st, al
			}
		}
	}
	set := func(actual, canon string) {
		if actual != "" && actual != canon {
			fieldAlias[actual] = canon
		}
	}
	if client != nil {
		for i := 0; i < client.NumFields(); i++ {
			f := client.Field(i)
			switch {
			case isMapType(f.Type()):
				set(f.Name(), "devices")
			case strings.HasSuffix(f.Type().String(), "types.BroadcastAddr"):
				set(f.Name(), "broadcastAddr")
			case types.IsInterface(f.Type()):
				set(f.Name(), "driver")
			}
		}
	}
	if driver != nil {
		for i := 0; i < driver.NumFields(); i++ {
			f := driver.Field(i)
			switch {
			case f.Type().String() == "time.Duration":
				set(f.Name(), "timeout")
			case isBoolType(f.Type()):
				set(f.Name(), "debug")
			}
		}
		// bind / listen: follow the constructor's parameters
		origin := func(v ssa.Value) string {
			for i := 0; i < 8; i++ {
				switch x := v.(type) {
				case *ssa.Parameter:
					return x.Type().String()
				case *ssa.Field:
					v = x.X
				case *ssa.FieldAddr:
					v = x.X
				case *ssa.UnOp:
					v = x.X
				case *ssa.Alloc:
					// a parameter spilled to a local: find the store of the parameter
					var src ssa.Value
					for _, ref := range *x.Referrers() {
						if st, ok := ref.(*ssa.Store); ok && st.Addr == ssa.Value(x) {
							src = st.Val
						}
					}
					if src == nil {
						return ""
					}
					v = src
				default:
					return ""
				}
			}
			return ""
		}
		for _, b := range ctor.Blocks {
			for _, in := range b.Instrs {
				st, ok := in.(*ssa.Store)
				if !ok {
					continue
				}
				fa, ok := st.Addr.(*ssa.FieldAddr)
				if !ok || fa.X != ssa.Value(driverAlloc) {
					continue
				}
				o := origin(st.Val)
				switch {
				case strings.HasSuffix(o, "types.BindAddr"):
					set(driver.Field(fa.Field).Name(), "bindAddr")
				case strings.HasSuffix(o, "types.ListenAddr"):
					set(driver.Field(fa.Field).Name(), "listenAddr")
				}
			}
		}
	}
	// an alias must not collide with another field name that is in use under its own name
	for actual, canon := range fieldAlias {
		for _, st := range []*types.Struct{client, driver} {
			if st == nil {
				continue
			}
			for i := 0; i < st.NumFields(); i++ {
				if st.Field(i).Name() == canon && st.Field(i).Name() != actual {
					delete(fieldAlias, actual)
				}
			}
		}
	}
}

func isMapType(t types.Type) bool {
	_, ok := t.Underlying().(*types.Map)
	return ok
}

func canonField(name string) string {
	if c, ok := fieldAlias[name]; ok {
		return c
	}
	return name
}
