package main

import (
	"go/token"
	"go/types"
	"strings"

	"golang.org/x/tools/go/ssa"
)

// ---------------------------------------------------------------------------------------
// Helper-function transparency. A maintainer may at any time extract a helper, turn a closure into a
// method or merge duplicated code: the rules must see the same events whether code is written in line or
// behind an in-module static call. Every walk therefore inlines in-module static callees, except
//   * the seams the rule observes as events (passed in as `keep`),
//   * inert helpers (logging: no results, and transitively no effect the rules speak about), which stay
//     opaque so that their internal branching does not multiply paths,
//   * recursion (a function already on the inline stack is not entered again: depth bound of the walker).
// ---------------------------------------------------------------------------------------

func inModule(fn *ssa.Function) bool {
	if fn == nil {
		return false
	}
	pk := fn.Pkg
	if pk == nil && fn.Origin() != nil {
		pk = fn.Origin().Pkg
	}
	if pk == nil && fn.Parent() != nil {
		return inModule(fn.Parent())
	}
	return pk != nil && strings.HasPrefix(pk.Pkg.Path(), modPath)
}

func pkgOf(fn *ssa.Function) *ssa.Package {
	if fn != nil && fn.Pkg == nil && fn.Parent() == nil && fn.Origin() == nil {
		return fnPkg(fn) // wrappers of method expressions and method values
	}
	for fn != nil {
		if fn.Pkg != nil {
			return fn.Pkg
		}
		if fn.Origin() != nil && fn.Origin().Pkg != nil {
			return fn.Origin().Pkg
		}
		fn = fn.Parent()
	}
	return nil
}

// staticCallees: functions called statically (or created as closures) by fn.
// frozenFuncVar: v is the value of a package-level function variable of the module that is assigned once, by the
// package initialiser, a named function (a seam for tests: `var listenUDP = net.ListenUDP`) and is never written at
// run time (G1 reports such a write): calling it is calling that function.
func frozenFuncVar(v ssa.Value) *ssa.Function {
	ld, ok := v.(*ssa.UnOp)
	if !ok || ld.Op != token.MUL || lintProgram == nil {
		return nil
	}
	g, ok := ld.X.(*ssa.Global)
	if !ok || g.Pkg == nil || !inModule(g.Pkg.Func("init")) {
		return nil
	}
	if _, isFn := g.Type().Underlying().(*types.Pointer).Elem().Underlying().(*types.Signature); !isFn {
		return nil
	}
	if !lintProgram.initFrozen(g) {
		return nil
	}
	var fn *ssa.Function
	n := 0
	for _, sv := range storedInto(g.Pkg.Func("init"), g) {
		n++
		switch x := sv.(type) {
		case *ssa.Function:
			fn = x
		case *ssa.ChangeType:
			fn, _ = x.X.(*ssa.Function)
		}
	}
	if n != 1 {
		return nil
	}
	return fn
}

func staticCallees(fn *ssa.Function) []*ssa.Function {
	var out []*ssa.Function
	for _, b := range fn.Blocks {
		for _, in := range b.Instrs {
			switch x := in.(type) {
			case *ssa.MakeClosure:
				if f, ok := x.Fn.(*ssa.Function); ok {
					out = append(out, f)
				}
			case ssa.CallInstruction:
				if f := x.Common().StaticCallee(); f != nil {
					out = append(out, f)
				} else if f := frozenFuncVar(x.Common().Value); f != nil {
					out = append(out, f)
				}
				for _, a := range x.Common().Args {
					if f, ok := a.(*ssa.Function); ok {
						out = append(out, f)
					}
				}
			default:
				// a function mentioned as a value (returned by an accessor as the default of a seam, stored in a
				// table): whoever obtains it may call it
				for _, op := range in.Operands(nil) {
					if f, ok := (*op).(*ssa.Function); ok {
						out = append(out, f)
					}
				}
			}
		}
	}
	return out
}

var inertMemo = map[*ssa.Function]int{} // 1 inert, 2 not, 3 in progress

// inertFn: the function returns nothing and, transitively through in-module callees, only formats and
// prints: no calls into net, sync, time, syscall, os (except via fmt), no goroutines, channel operations,
// defers, panics, and no store through anything but its own local storage.
func inertFn(fn *ssa.Function) bool {
	if fn == nil || fn.Blocks == nil {
		return false
	}
	if fn.Signature.Results().Len() != 0 {
		return false
	}
	return inertBody(fn)
}

func inertBody(fn *ssa.Function) bool {
	switch inertMemo[fn] {
	case 1:
		return true
	case 2:
		return false
	case 3:
		return true // recursion: decided by the rest of the body
	}
	inertMemo[fn] = 3
	ok := true
	for _, b := range fn.Blocks {
		for _, in := range b.Instrs {
			switch x := in.(type) {
			case *ssa.Go, *ssa.Defer, *ssa.Send, *ssa.Select, *ssa.Panic, *ssa.MapUpdate:
				ok = false
			case *ssa.UnOp:
				if x.Op.String() == "<-" {
					ok = false
				}
			case *ssa.Store:
				if !localAddr(x.Addr) {
					ok = false
				}
			case ssa.CallInstruction:
				c := x.Common()
				if c.IsInvoke() {
					ok = false
					break
				}
				if bi, isB := c.Value.(*ssa.Builtin); isB {
					switch bi.Name() {
					case "copy", "clear", "close", "delete":
						// writes through its argument: an effect unless the destination is the function's own storage
						if !(bi.Name() == "copy" && localSlice(c.Args[0])) {
							ok = false
						}
					}
					break
				}
				f := c.StaticCallee()
				if f == nil {
					ok = false
					break
				}
				if inModule(f) {
					if f.Blocks == nil || !inertBody(f) {
						ok = false
					}
					break
				}
				pp := ""
				if f.Pkg != nil {
					pp = f.Pkg.Pkg.Path()
				} else if f.Origin() != nil && f.Origin().Pkg != nil {
					pp = f.Origin().Pkg.Pkg.Path()
				}
				switch pp {
				case "fmt", "strings", "strconv", "regexp", "log", "encoding/hex", "bytes", "unicode", "unicode/utf8", "errors":
				default:
					ok = false
				}
			}
		}
	}
	if ok {
		inertMemo[fn] = 1
	} else {
		inertMemo[fn] = 2
	}
	return ok
}

// localSlice: a slice of the function's own local array.
func localSlice(v ssa.Value) bool {
	if sl, ok := v.(*ssa.Slice); ok {
		return localAddr(sl.X) || localSlice(sl.X)
	}
	return false
}

func localAddr(v ssa.Value) bool {
	switch a := v.(type) {
	case *ssa.Alloc:
		return true
	case *ssa.FieldAddr:
		return localAddr(a.X)
	case *ssa.IndexAddr:
		return localAddr(a.X)
	}
	return false
}

// inlineHelpers returns a walker inline policy: closures always; in-module static callees of the given
// packages (nil = any module package) unless `keep` says the rule wants to see the call as an event, or
// the callee is inert. `maxBlocks` bounds the size of what is entered.
// stdTransparent: small pure higher-order helpers of the standard library that are walked from their own source
// (their behaviour is their code: sort.Search is a binary search whatever the predicate does).
func stdTransparent(f *ssa.Function) bool {
	if f == nil || f.Blocks == nil {
		return false
	}
	g := f
	if f.Origin() != nil {
		g = f.Origin()
	}
	if g.Pkg == nil || g.Parent() != nil {
		return false
	}
	switch g.Pkg.Pkg.Path() + "." + g.Name() {
	case "sort.Search", "slices.BinarySearchFunc", "slices.IndexFunc", "slices.ContainsFunc", "slices.Index", "slices.Contains":
		return true
	}
	return false
}

func inlineHelpers(pkgs []*ssa.Package, keep func(f *ssa.Function) bool) func(f *ssa.Function, d int) bool {
	return func(f *ssa.Function, d int) bool {
		if f.Parent() != nil {
			return keep == nil || !keep(f)
		}
		if stdTransparent(f) {
			return true
		}
		if !inModule(f) || f.Blocks == nil {
			return false
		}
		if pkgs != nil {
			in := false
			fp := pkgOf(f)
			for _, pk := range pkgs {
				if pk == fp {
					in = true
				}
			}
			if !in {
				return false
			}
		}
		if keep != nil && keep(f) {
			return false
		}
		if inertFn(f) {
			return false
		}
		return true
	}
}

// publicHelper: an exported function that is a helper which happens to be public rather than an entry point
// in its own right: it does not lead back to root, and it and everything it calls in the module is small,
// straight-line code without reflection (`Validate(bytes) error` extracted from the decoder, `IsNumeric`).
// Walks that keep exported functions visible as events still see through these.
func publicHelper(f, root *ssa.Function, stop ...func(*ssa.Function) bool) bool {
	if f == nil || f.Blocks == nil || f.Object() == nil || !f.Object().Exported() || f == root {
		return false
	}
	seen := map[*ssa.Function]bool{}
	instrs := 0
	var ok func(g *ssa.Function) bool
	ok = func(g *ssa.Function) bool {
		if seen[g] {
			return true
		}
		seen[g] = true
		if g == root || len(seen) > 8 {
			return false
		}
		for _, b := range g.Blocks {
			instrs += len(b.Instrs)
			for _, s := range b.Succs {
				if s.Dominates(b) {
					return false // a loop
				}
			}
		}
		if instrs > 400 {
			return false
		}
		for _, c := range staticCallees(g) {
			if c.Pkg != nil && c.Pkg.Pkg.Path() == "reflect" {
				return false
			}
			if len(stop) > 0 && stop[0](c) {
				continue // stays an event of the walk that asks
			}
			if inModule(c) && c.Blocks != nil && !ok(c) {
				return false
			}
		}
		return true
	}
	return ok(f)
}

// reachesCall: fn or an in-module static callee (transitively, closures included) calls a function for
// which pred holds.
func reachesCall(fn *ssa.Function, pred func(name string) bool, seen map[*ssa.Function]bool) bool {
	if fn == nil || fn.Blocks == nil || seen[fn] {
		return false
	}
	seen[fn] = true
	for _, f := range staticCallees(fn) {
		if pred(calleeName(f)) {
			return true
		}
		if inModule(f) && reachesCall(f, pred, seen) {
			return true
		}
	}
	return false
}

// isErrorType reports whether t is the predeclared error interface.
func isErrorType(t types.Type) bool {
	return types.Identical(t, types.Universe.Lookup("error").Type())
}

// goTarget: the function a go statement starts, with the values it shares with its parent — captured
// variables (closure) or arguments (named function or method).
type goTarget struct {
	Go    *ssa.Go
	Fn    *ssa.Function
	Outer []ssa.Value // in the parent: binding / argument
	Inner []ssa.Value // in the target: FreeVar / Parameter
}

func goTargetOf(g *ssa.Go) *goTarget {
	switch v := g.Call.Value.(type) {
	case *ssa.MakeClosure:
		fn := v.Fn.(*ssa.Function)
		gt := &goTarget{Go: g, Fn: fn}
		for i, b := range v.Bindings {
			gt.Outer = append(gt.Outer, b)
			gt.Inner = append(gt.Inner, fn.FreeVars[i])
		}
		for i, a := range g.Call.Args {
			if i < len(fn.Params) {
				gt.Outer = append(gt.Outer, a)
				gt.Inner = append(gt.Inner, fn.Params[i])
			}
		}
		return gt
	case *ssa.Function:
		if v.Blocks == nil {
			return nil
		}
		gt := &goTarget{Go: g, Fn: v}
		for i, a := range g.Call.Args {
			if i < len(v.Params) {
				gt.Outer = append(gt.Outer, a)
				gt.Inner = append(gt.Inner, v.Params[i])
			}
		}
		return gt
	}
	return nil
}

// goTargetsIn: the goroutines started by fn itself.
func goTargetsIn(fn *ssa.Function) []*goTarget {
	var out []*goTarget
	for _, b := range fn.Blocks {
		for _, in := range b.Instrs {
			if g, ok := in.(*ssa.Go); ok {
				if gt := goTargetOf(g); gt != nil {
					out = append(out, gt)
				}
			}
		}
	}
	return out
}

// symbolicArgs: parameters of fn as symbolic terms named after the parameters.
func symbolicArgs(fn *ssa.Function) []*Term {
	args := make([]*Term, len(fn.Params))
	for i, prm := range fn.Params {
		name := prm.Name()
		if i == 0 && fn.Signature.Recv() != nil {
			name = "u" // the receiver, whatever it is called in the source
		}
		args[i] = &Term{Op: "param", Name: name, Typ: prm.Type()}
	}
	return args
}

func isNetRead(name string) bool {
	return strings.HasPrefix(name, "(*net.") && strings.Contains(name, ").Read")
}

// readsSocket: fn (or an in-module callee, closure or goroutine it starts) reads from a net connection,
// through a concrete connection type or through the net.Conn / io.Reader interface.
func readsSocket(fn *ssa.Function) bool {
	return readsSocketIn(fn, map[*ssa.Function]bool{})
}

func readsSocketIn(fn *ssa.Function, seen map[*ssa.Function]bool) bool {
	if fn == nil || fn.Blocks == nil || seen[fn] {
		return false
	}
	seen[fn] = true
	for _, b := range fn.Blocks {
		for _, in := range b.Instrs {
			if ci, ok := in.(ssa.CallInstruction); ok {
				cc := ci.Common()
				if cc.IsInvoke() && strings.HasPrefix(cc.Method.Name(), "Read") {
					if n, ok := types.Unalias(cc.Value.Type()).(*types.Named); ok && n.Obj().Pkg() != nil && (n.Obj().Pkg().Path() == "net" || n.Obj().Pkg().Path() == "io") {
						return true
					}
				}
			}
		}
	}
	for _, f := range staticCallees(fn) {
		if isNetRead(calleeName(f)) {
			return true
		}
		if inModule(f) && readsSocketIn(f, seen) {
			return true
		}
	}
	return false
}

// typesHelpers: unexported functions and methods of package types are helpers of the exported functions and
// methods that call them; exported functions and methods stay visible as events.
func typesHelpers(p *Program) func(f *ssa.Function, d int) bool {
	return inlineHelpers([]*ssa.Package{p.SSAPkg("types")}, func(f *ssa.Function) bool {
		return f.Object() != nil && f.Object().Exported()
	})
}

// simplePredicate: a boolean function that only compares its own parameters (and fields of them) with constants
// and each other: no loops, no memory other than its parameters, no calls except to other simple predicates.
// `func isReserved(n uint32) bool { return n == 0 || n == 0xffffffff }` is a condition written as a function;
// walks that keep boolean predicates opaque still see through these.
var simplePredMemo = map[*ssa.Function]int{}

func simplePredicate(f *ssa.Function) bool {
	if f == nil || f.Blocks == nil || len(f.FreeVars) != 0 {
		return false
	}
	switch simplePredMemo[f] {
	case 1:
		return true
	case 2, 3:
		return false
	}
	simplePredMemo[f] = 3
	ok := f.Signature.Results().Len() == 1 && isBoolType(f.Signature.Results().At(0).Type()) && len(f.Blocks) <= 24
	// acyclic: every edge goes to a block not yet on the DFS stack
	if ok {
		state := map[*ssa.BasicBlock]int{}
		var dfs func(b *ssa.BasicBlock) bool
		dfs = func(b *ssa.BasicBlock) bool {
			state[b] = 1
			for _, s := range b.Succs {
				if state[s] == 1 {
					return false
				}
				if state[s] == 0 && !dfs(s) {
					return false
				}
			}
			state[b] = 2
			return true
		}
		ok = dfs(f.Blocks[0])
	}
	if ok {
	scan:
		for _, b := range f.Blocks {
			for _, in := range b.Instrs {
				switch x := in.(type) {
				case *ssa.BinOp, *ssa.If, *ssa.Jump, *ssa.Return, *ssa.Phi, *ssa.Convert, *ssa.ChangeType, *ssa.DebugRef, *ssa.Field:
				case *ssa.UnOp:
					if x.Op.String() == "*" || x.Op.String() == "<-" {
						ok = false
						break scan
					}
				case *ssa.Call:
					g := x.Call.StaticCallee()
					if g == nil || !inModule(g) || !simplePredicate(g) {
						ok = false
						break scan
					}
				default:
					ok = false
					break scan
				}
			}
		}
	}
	if ok {
		simplePredMemo[f] = 1
	} else {
		simplePredMemo[f] = 2
	}
	return ok
}

// purePredicate: like simplePredicate, but the comparisons may also be over what documented pure functions of the
// standard library say about the parameters (address.Addr().Is4() && address.Port() != 0; a == MustParseAddrPort("..")).
// Walks that keep richer boolean helpers opaque still see through these: their body is the condition.
var purePredMemo = map[*ssa.Function]int{}

func purePredicate(f *ssa.Function) bool {
	if f == nil || f.Blocks == nil || len(f.FreeVars) != 0 {
		return false
	}
	switch purePredMemo[f] {
	case 1:
		return true
	case 2, 3:
		return false
	}
	purePredMemo[f] = 3
	ok := f.Signature.Results().Len() == 1 && isBoolType(f.Signature.Results().At(0).Type()) && len(f.Blocks) <= 24
	if ok {
		for _, b := range f.Blocks {
			for _, s := range b.Succs {
				if s.Dominates(b) {
					ok = false // a loop
				}
			}
		}
	}
	if ok {
	scan:
		for _, b := range f.Blocks {
			for _, in := range b.Instrs {
				switch x := in.(type) {
				case *ssa.BinOp, *ssa.If, *ssa.Jump, *ssa.Return, *ssa.Phi, *ssa.Convert, *ssa.ChangeType, *ssa.DebugRef, *ssa.Field, *ssa.Extract:
				case *ssa.UnOp:
					if x.Op.String() == "*" || x.Op.String() == "<-" {
						ok = false
						break scan
					}
				case *ssa.Call:
					if x.Call.IsInvoke() {
						ok = false
						break scan
					}
					if _, isB := x.Call.Value.(*ssa.Builtin); isB {
						continue
					}
					g := x.Call.StaticCallee()
					switch {
					case g == nil:
						ok = false
					case inModule(g):
						ok = simplePredicate(g) || purePredicate(g)
					default:
						name := calleeName(g)
						ok = isPureName(name) && !strings.HasPrefix(name, "time.") && !strings.HasPrefix(name, "fmt.") && !strings.HasPrefix(name, "(*")
					}
					if !ok {
						break scan
					}
				default:
					ok = false
					break scan
				}
			}
		}
	}
	if ok {
		purePredMemo[f] = 1
	} else {
		purePredMemo[f] = 2
	}
	return ok
}

// reachesInstr: fn or an in-package static callee (transitively, closures included) contains an instruction
// for which pred holds.
func reachesInstr(fn *ssa.Function, pk *ssa.Package, pred func(ssa.Instruction) bool, seen map[*ssa.Function]bool) bool {
	if fn == nil || fn.Blocks == nil || seen[fn] {
		return false
	}
	seen[fn] = true
	for _, b := range fn.Blocks {
		for _, in := range b.Instrs {
			if pred(in) {
				return true
			}
		}
	}
	for _, f := range staticCallees(fn) {
		if pkgOf(f) == pk && reachesInstr(f, pk, pred, seen) {
			return true
		}
	}
	return false
}
