package main

import (
	"fmt"
	"strings"

	"golang.org/x/tools/go/ssa"
)

// ---------------------------------------------------------------------------------------
// O1-O3: comparison functions as total functions over the finite domain of sign vectors.
// For code whose only operations on its inputs are comparisons of corresponding components,
// the sign vector {<,=,>}^k is an exact abstraction: the verdict cannot depend on anything else.
// ---------------------------------------------------------------------------------------

type lexComp struct {
	name string
	x, y func(key string) bool // recognise the leaf of operand x / y for this component
}

func lexWant(kind string, signs []int) bool {
	// first non-zero component decides
	for _, s := range signs {
		if s != 0 {
			if kind == "before" {
				return s < 0
			}
			if kind == "after" {
				return s > 0
			}
			return false
		}
	}
	return kind == "equals"
}

// checkLex walks fn(x, y) and compares its verdict on every sign vector with the lexicographic order.
func checkLex(r *Report, p *Program, rule, construct string, fn *ssa.Function, kind string, comps []string, leafOf func(comp, operand string) []string, inlineAll bool) {
	if fn == nil {
		r.Fatal(rule, construct, "function not found")
		return
	}
	w := NewWalker(p)
	w.ForceBool = true
	// helpers of the package and the pure generic comparison helpers of the standard library (cmp.Compare,
	// cmp.Or: a few comparisons each) are part of the function under test
	tp := p.SSAPkg("types")
	w.Inline = func(f *ssa.Function, d int) bool {
		if pk := pkgOf(f); pk != nil && pk.Pkg.Path() == "cmp" {
			return true
		}
		return pkgOf(f) == tp && f != fn
	}
	w.MaxDepth = 6
	args := []*Term{{Op: "param", Name: "x", Typ: fn.Params[0].Type()}, {Op: "param", Name: "y", Typ: fn.Params[1].Type()}}
	paths := w.Walk(fn, args, nil)
	k := len(comps)
	total := 1
	for i := 0; i < k; i++ {
		total *= 3
	}
	covered := 0
	bad := ""
	for _, pa := range paths {
		if pa.Outcome != "return" || len(pa.Results) != 1 {
			bad = "path ends in " + pa.Outcome + ": " + pa.Detail
			continue
		}
		res, isConst := pa.Results[0].BoolVal()
		if !isConst {
			bad = "verdict is not decided by comparisons: " + pa.Results[0].String()
			continue
		}
		// the path must depend on nothing but the component relations
		if len(pa.State.Bools) > 0 || len(pa.State.Ints) > 0 || len(pa.State.Strs) > 0 {
			bad = "verdict depends on something other than component comparisons: " + pa.State.Describe()
			continue
		}
		allowed := make([]uint8, k)
		for i := range allowed {
			allowed[i] = relLT | relEQ | relGT
		}
		for key, bits := range pa.State.Rels {
			ab := strings.SplitN(key, "\x00", 2)
			matched := false
			for i, c := range comps {
				lxs, lys := leafOf(c, "x"), leafOf(c, "y")
				for j := range lxs {
					lx, ly := lxs[j], lys[j]
					if ab[0] == lx && ab[1] == ly {
						allowed[i] &= bits
						matched = true
					} else if ab[0] == ly && ab[1] == lx {
						allowed[i] &= relFlip(bits)
						matched = true
					}
				}
			}
			if !matched {
				bad = "comparison between non-corresponding components: " + ab[0] + " vs " + ab[1]
			}
		}
		// enumerate consistent sign vectors
		signs := make([]int, k)
		var rec func(i int)
		rec = func(i int) {
			if i == k {
				covered++
				v := []string{}
				for j, s := range signs {
					v = append(v, comps[j]+":"+map[int]string{-1: "<", 0: "=", 1: ">"}[s])
				}
				vec := strings.Join(v, ",")
				if lexWant(kind, signs) != res {
					bad = fmt.Sprintf("for (%s) the function returns %v, the calendar order says %v", vec, res, !res)
					r.Bad(rule+"v", construct+":("+vec+")", p.Pos(fn.Pos()), bad)
				} else {
					r.OK(rule+"v", construct+":("+vec+")", p.Pos(fn.Pos()), fmt.Sprintf("verdict %v = lexicographic order", res), true)
				}
				return
			}
			for _, s := range []struct {
				bit uint8
				v   int
			}{{relLT, -1}, {relEQ, 0}, {relGT, 1}} {
				if allowed[i]&s.bit != 0 {
					signs[i] = s.v
					rec(i + 1)
				}
			}
		}
		rec(0)
	}
	if covered != total && bad == "" {
		bad = fmt.Sprintf("paths cover %d sign vectors, expected exactly %d", covered, total)
	}
	r.Check(bad == "", rule, construct, p.Pos(fn.Pos()), fmt.Sprintf("%d paths, %d/%d sign vectors agree with the lexicographic order", len(paths), covered, total), bad)
	r.Count("sign_vectors", covered)
}

func RuleOrder(r *Report, p *Program, tier string) {
	r.Rule("O1", "Date.Before/After/Equals equal lexicographic <, >, = on (year, month, day) for all 27 sign vectors", 3)
	r.Rule("O2", "HHmm.Before/After/Equals equal lexicographic <, >, = on (hours, minutes) for all 9 sign vectors", 3)
	r.Rule("O3", "DateTime.Before compares the whole-second timestamps of both operands with <", 1)
	r.Rule("O1v", "one obligation per (Date comparison, sign vector of (year, month, day))", 81)
	r.Rule("O2v", "one obligation per (HHmm comparison, sign vector of (hours, minutes))", 27)
	// (time.Time).Date() returns (year, month, day): the same components as the three accessors
	dateLeaf := func(c, o string) []string {
		return []string{"(time.Time)." + c + "(" + o + ")", "(time.Time).Date(" + o + ")#" + map[string]string{"Year": "0", "Month": "1", "Day": "2"}[c]}
	}
	for _, k := range []struct{ m, kind string }{{"Before", "before"}, {"After", "after"}, {"Equals", "equals"}} {
		checkLex(r, p, "O1", "types.Date."+k.m, p.Func("types", "Date."+k.m), k.kind, []string{"Year", "Month", "Day"}, dateLeaf, false)
	}
	hhLeaf := func(c, o string) []string { return []string{o + "." + c} }
	for _, k := range []struct{ m, kind string }{{"Before", "before"}, {"After", "after"}, {"Equals", "equals"}} {
		checkLex(r, p, "O2", "types.HHmm."+k.m, p.Func("types", "HHmm."+k.m), k.kind, []string{"hours", "minutes"}, hhLeaf, true)
	}
	// derived meta-obligations (follow from equality with the lexicographic order; re-checked explicitly in the thorough tier)
	if tier == "thorough" {
		r.Rule("O-meta", "trichotomy, mirror image and transitivity over all sign-vector pairs/triples of the lexicographic order the functions were shown equal to", 2)
		for _, dom := range []struct {
			name string
			k    int
		}{{"Date", 3}, {"HHmm", 2}} {
			vecs := [][]int{}
			var gen func(cur []int)
			gen = func(cur []int) {
				if len(cur) == dom.k {
					vecs = append(vecs, append([]int{}, cur...))
					return
				}
				for _, s := range []int{-1, 0, 1} {
					gen(append(cur, s))
				}
			}
			gen(nil)
			ok := true
			n := 0
			for _, v := range vecs {
				b, a, e := lexWant("before", v), lexWant("after", v), lexWant("equals", v)
				cnt := 0
				for _, t := range []bool{b, a, e} {
					if t {
						cnt++
					}
				}
				neg := make([]int, len(v))
				for i := range v {
					neg[i] = -v[i]
				}
				if cnt != 1 || lexWant("after", neg) != b {
					ok = false
				}
				n++
			}
			r.Check(ok, "O-meta", dom.name+":trichotomy+mirror", "", fmt.Sprintf("%d sign vectors", n), "lexicographic order fails trichotomy/mirror (checker bug)")
		}
	}
	// O3
	fn := p.Func("types", "DateTime.Before")
	if fn == nil {
		r.Fatal("O3", "types.DateTime.Before", "not found")
		return
	}
	// the whole-second timestamp of an operand, in the forms package time offers; both operands must use the same one
	secLeaf := func(c, o string) []string {
		return []string{
			"((time.Time).UnixMilli(" + o + ")/1000)",
			"(time.Time).Unix(" + o + ")",
			"((time.Time).UnixMicro(" + o + ")/1000000)",
			// not UnixNano()/1e9: int64 nanoseconds wrap outside the years 1678..2262
		}
	}
	tmp := NewReport(r.Property, r.Tier)
	checkLex(tmp, p, "O3", "types.DateTime.Before", fn, "before", []string{"sec"}, secLeaf, true)
	ok, detail := true, ""
	for _, o := range tmp.Obs {
		if o.Rule == "O3" && o.Status != "ok" {
			ok = false
			detail = "expected the whole-second timestamps of both operands compared with <: " + o.Detail
		}
	}
	for _, f := range tmp.fatal {
		ok, detail = false, f
	}
	r.Check(ok, "O3", "types.DateTime.Before", p.Pos(fn.Pos()), "x.sec < y.sec", detail)
}
