package main

import (
	"fmt"
	"go/token"
	"math"
	"sort"
	"strconv"
	"strings"
)

// ---------------------------------------------------------------------------------------
// The oracle language of /verif/spec/*.json: boolean structure over atoms; atoms compare
// canonical leaves (written exactly as the walker prints them: arg0, arg1.PIN, reply@8,
// len(arg2), (types.Date).IsZero(arg1.From) ...) with integer/string constants or with each
// other. Conditional values are written  cond ? a : b .
// ---------------------------------------------------------------------------------------

type SExpr struct {
	Op   string // and or not cmp in atom ite leaf int str true false
	Args []*SExpr
	Leaf string
	Cmp  token.Token
	Int  int64
	Ints []int64
	Str  string
}

func (e *SExpr) String() string {
	switch e.Op {
	case "and", "or":
		sep := " && "
		if e.Op == "or" {
			sep = " || "
		}
		ps := []string{}
		for _, a := range e.Args {
			ps = append(ps, a.String())
		}
		return "(" + strings.Join(ps, sep) + ")"
	case "not":
		return "!" + e.Args[0].String()
	case "cmp":
		return e.Args[0].String() + e.Cmp.String() + e.Args[1].String()
	case "in":
		ps := []string{}
		for _, n := range e.Ints {
			ps = append(ps, fmt.Sprint(n))
		}
		return e.Args[0].String() + " in {" + strings.Join(ps, ",") + "}"
	case "ite":
		return "(" + e.Args[0].String() + " ? " + e.Args[1].String() + " : " + e.Args[2].String() + ")"
	case "from":
		ps := []string{}
		for _, a := range e.Args {
			ps = append(ps, a.String())
		}
		return e.Leaf + strings.Join(ps, ",") + "}"
	case "leaf", "atom":
		return e.Leaf
	case "int":
		return fmt.Sprint(e.Int)
	case "str":
		return fmt.Sprintf("%q", e.Str)
	case "true", "false":
		return e.Op
	}
	return "?"
}

type sparser struct {
	s   string
	pos int
}

func ParseSpec(s string) (*SExpr, error) {
	p := &sparser{s: s}
	e, err := p.ite()
	if err != nil {
		return nil, fmt.Errorf("spec %q: %w", s, err)
	}
	p.ws()
	if p.pos != len(p.s) {
		return nil, fmt.Errorf("spec %q: trailing text at %d: %q", s, p.pos, p.s[p.pos:])
	}
	return e, nil
}

func MustParseSpec(s string) *SExpr {
	e, err := ParseSpec(s)
	if err != nil {
		panic(err)
	}
	return e
}

func (p *sparser) ws() {
	for p.pos < len(p.s) && (p.s[p.pos] == ' ' || p.s[p.pos] == '\t' || p.s[p.pos] == '\n') {
		p.pos++
	}
}

func (p *sparser) peek(tok string) bool {
	p.ws()
	return strings.HasPrefix(p.s[p.pos:], tok)
}

func (p *sparser) eat(tok string) bool {
	if p.peek(tok) {
		p.pos += len(tok)
		return true
	}
	return false
}

func (p *sparser) ite() (*SExpr, error) {
	c, err := p.or()
	if err != nil {
		return nil, err
	}
	if p.eat("?") {
		a, err := p.ite()
		if err != nil {
			return nil, err
		}
		if !p.eat(":") {
			return nil, fmt.Errorf("expected ':' at %d", p.pos)
		}
		b, err := p.ite()
		if err != nil {
			return nil, err
		}
		return &SExpr{Op: "ite", Args: []*SExpr{c, a, b}}, nil
	}
	return c, nil
}

func (p *sparser) or() (*SExpr, error) {
	a, err := p.and()
	if err != nil {
		return nil, err
	}
	args := []*SExpr{a}
	for p.eat("||") {
		b, err := p.and()
		if err != nil {
			return nil, err
		}
		args = append(args, b)
	}
	if len(args) == 1 {
		return a, nil
	}
	return &SExpr{Op: "or", Args: args}, nil
}

func (p *sparser) and() (*SExpr, error) {
	a, err := p.not()
	if err != nil {
		return nil, err
	}
	args := []*SExpr{a}
	for p.eat("&&") {
		b, err := p.not()
		if err != nil {
			return nil, err
		}
		args = append(args, b)
	}
	if len(args) == 1 {
		return a, nil
	}
	return &SExpr{Op: "and", Args: args}, nil
}

func (p *sparser) not() (*SExpr, error) {
	p.ws()
	if p.pos < len(p.s) && p.s[p.pos] == '!' && !strings.HasPrefix(p.s[p.pos:], "!=") {
		p.pos++
		a, err := p.not()
		if err != nil {
			return nil, err
		}
		return &SExpr{Op: "not", Args: []*SExpr{a}}, nil
	}
	return p.cmp()
}

var cmpToks = []struct {
	s string
	t token.Token
}{{"==", token.EQL}, {"!=", token.NEQ}, {"<=", token.LEQ}, {">=", token.GEQ}, {"<", token.LSS}, {">", token.GTR}}

func (p *sparser) cmp() (*SExpr, error) {
	a, err := p.operand()
	if err != nil {
		return nil, err
	}
	for _, ct := range cmpToks {
		if p.eat(ct.s) {
			b, err := p.operand()
			if err != nil {
				return nil, err
			}
			return &SExpr{Op: "cmp", Cmp: ct.t, Args: []*SExpr{a, b}}, nil
		}
	}
	p.ws()
	if strings.HasPrefix(p.s[p.pos:], "in ") || strings.HasPrefix(p.s[p.pos:], "in{") {
		p.pos += 2
		if !p.eat("{") {
			return nil, fmt.Errorf("expected '{' after in")
		}
		var ns []int64
		for {
			o, err := p.operand()
			if err != nil {
				return nil, err
			}
			if o.Op != "int" {
				return nil, fmt.Errorf("'in' set must hold integers")
			}
			ns = append(ns, o.Int)
			if p.eat(",") {
				continue
			}
			if p.eat("}") {
				break
			}
			return nil, fmt.Errorf("expected ',' or '}' in set")
		}
		return &SExpr{Op: "in", Args: []*SExpr{a}, Ints: ns}, nil
	}
	if a.Op == "leaf" {
		if a.Leaf == "true" || a.Leaf == "false" {
			return &SExpr{Op: a.Leaf}, nil
		}
		return &SExpr{Op: "atom", Leaf: a.Leaf}, nil
	}
	return a, nil
}

// operand: integer, string, parenthesised sub-expression, or a canonical leaf (balanced text).
func (p *sparser) operand() (*SExpr, error) {
	p.ws()
	if p.pos >= len(p.s) {
		return nil, fmt.Errorf("unexpected end")
	}
	c := p.s[p.pos]
	if c == '"' {
		end := p.pos + 1
		for end < len(p.s) && p.s[end] != '"' {
			if p.s[end] == '\\' {
				end++
			}
			end++
		}
		if end >= len(p.s) {
			return nil, fmt.Errorf("unterminated string")
		}
		str, err := strconv.Unquote(p.s[p.pos : end+1])
		if err != nil {
			return nil, err
		}
		p.pos = end + 1
		return &SExpr{Op: "str", Str: str}, nil
	}
	if c >= '0' && c <= '9' || (c == '-' && p.pos+1 < len(p.s) && p.s[p.pos+1] >= '0' && p.s[p.pos+1] <= '9') {
		end := p.pos + 1
		for end < len(p.s) && (isAlnum(p.s[end])) {
			end++
		}
		n, err := strconv.ParseInt(p.s[p.pos:end], 0, 64)
		if err != nil {
			return nil, err
		}
		p.pos = end
		return &SExpr{Op: "int", Int: n}, nil
	}
	if c == '(' {
		// grouping or a method leaf "(T).M(args)"
		end := matchParen(p.s, p.pos)
		if end < 0 {
			return nil, fmt.Errorf("unbalanced '(' at %d", p.pos)
		}
		if end+1 < len(p.s) && p.s[end+1] == '.' {
			return p.leaf()
		}
		p.pos++
		e, err := p.ite()
		if err != nil {
			return nil, err
		}
		if !p.eat(")") {
			return nil, fmt.Errorf("expected ')' at %d", p.pos)
		}
		return e, nil
	}
	return p.leaf()
}

// splitTop splits on commas that are outside brackets and strings.
func splitTop(s string) []string {
	var out []string
	depth, start := 0, 0
	inStr := false
	for i := 0; i < len(s); i++ {
		c := s[i]
		if inStr {
			if c == '\\' {
				i++
			} else if c == '"' {
				inStr = false
			}
			continue
		}
		switch c {
		case '"':
			inStr = true
		case '(', '[', '{':
			depth++
		case ')', ']', '}':
			depth--
		case ',':
			if depth == 0 {
				out = append(out, strings.TrimSpace(s[start:i]))
				start = i + 1
			}
		}
	}
	if strings.TrimSpace(s[start:]) != "" {
		out = append(out, strings.TrimSpace(s[start:]))
	}
	return out
}

func isAlnum(c byte) bool {
	return c >= '0' && c <= '9' || c >= 'a' && c <= 'z' || c >= 'A' && c <= 'Z' || c == '_'
}

func matchParen(s string, i int) int {
	depth := 0
	inStr := false
	for j := i; j < len(s); j++ {
		c := s[j]
		if inStr {
			if c == '\\' {
				j++
			} else if c == '"' {
				inStr = false
			}
			continue
		}
		switch c {
		case '"':
			inStr = true
		case '(', '[', '{':
			depth++
		case ')', ']', '}':
			depth--
			if depth == 0 {
				return j
			}
		}
	}
	return -1
}

// leaf: balanced text up to a top-level operator, comma, closing bracket, '?' or ':'.
func (p *sparser) leaf() (*SExpr, error) {
	start := p.pos
	depth := 0
	inStr := false
	for p.pos < len(p.s) {
		c := p.s[p.pos]
		if inStr {
			if c == '\\' {
				p.pos++
			} else if c == '"' {
				inStr = false
			}
			p.pos++
			continue
		}
		if c == '"' {
			inStr = true
			p.pos++
			continue
		}
		if c == '<' && strings.HasSuffix(p.s[start:p.pos], "conv") {
			// conv<type>(x): the type argument is bracketed by <>
			end := strings.IndexByte(p.s[p.pos:], '>')
			if end > 0 {
				p.pos += end + 1
				continue
			}
		}
		if c == '(' || c == '[' || c == '{' {
			depth++
		} else if c == ')' || c == ']' || c == '}' {
			if depth == 0 {
				break
			}
			depth--
		} else if depth == 0 {
			if c == ' ' || c == ',' || c == '?' || c == ':' || c == '<' || c == '>' || c == '|' {
				break
			}
			if c == '&' && p.pos+1 < len(p.s) && p.s[p.pos+1] == '&' {
				break
			}
			if (c == '=' || c == '!') && p.pos+1 < len(p.s) && p.s[p.pos+1] == '=' {
				break
			}
		}
		p.pos++
	}
	txt := p.s[start:p.pos]
	if txt == "" {
		return nil, fmt.Errorf("empty operand at %d", start)
	}
	for _, pre := range []string{"from{", "fromopt{"} {
		if strings.HasPrefix(txt, pre) && strings.HasSuffix(txt, "}") {
			inner := txt[len(pre) : len(txt)-1]
			e := &SExpr{Op: "from", Leaf: pre}
			for _, part := range splitTop(inner) {
				sub, err := ParseSpec(part)
				if err != nil {
					return nil, err
				}
				e.Args = append(e.Args, sub)
			}
			return e, nil
		}
	}
	return &SExpr{Op: "leaf", Leaf: txt}, nil
}

// ---------------------------------------------------------------------------------------
// Three-valued evaluation of a spec condition on a path state, with refinement.
// ---------------------------------------------------------------------------------------

type Tri int

const (
	TFalse Tri = iota
	TTrue
	TUnknown
)

func (ps *PathState) Clone() *PathState {
	n := newPathState()
	for k, v := range ps.Ints {
		n.Ints[k] = v
	}
	for k, v := range ps.IntT {
		n.IntT[k] = v
	}
	for k, v := range ps.Rels {
		n.Rels[k] = v
	}
	for k, v := range ps.Bools {
		n.Bools[k] = v
	}
	for k, v := range ps.BoolT {
		n.BoolT[k] = v
	}
	for k, v := range ps.Strs {
		f := &strFacts{ne: map[string]bool{}}
		if v.eq != nil {
			s := *v.eq
			f.eq = &s
		}
		for s := range v.ne {
			f.ne[s] = true
		}
		n.Strs[k] = f
	}
	return n
}

// LeafRange gives the type range of a leaf if the path knows its term, else all of int64.
type RangeFn func(leaf string) IntervalSet

func defaultRange(ps *PathState, leaf string, rf RangeFn) IntervalSet {
	if cur, ok := ps.Ints[leaf]; ok {
		return cur
	}
	if t, ok := ps.IntT[leaf]; ok && t != nil && t.Typ != nil {
		return fullSet(t.Typ)
	}
	if rf != nil {
		if r := rf(leaf); r != nil {
			return r
		}
	}
	if strings.HasPrefix(leaf, "len(") {
		return IntervalSet{{0, math.MaxInt64}}
	}
	return IntervalSet{{math.MinInt64, math.MaxInt64}}
}

// evalAtom evaluates one atomic condition; when Unknown it also returns the two refined states.
func evalAtom(e *SExpr, ps *PathState, rf RangeFn) (Tri, *PathState, *PathState) {
	switch e.Op {
	case "true":
		return TTrue, nil, nil
	case "false":
		return TFalse, nil, nil
	case "atom":
		key := e.Leaf
		if v, ok := ps.Bools[key]; ok {
			return tri(v), nil, nil
		}
		// one fact under two names (walk.go: linkedAtom)
		if other, ok := linkedAtom(key); ok {
			if ov, has := ps.Bools[other]; has {
				return tri(!ov), nil, nil
			}
		}
		t, f := ps.Clone(), ps.Clone()
		t.Bools[key] = true
		f.Bools[key] = false
		return TUnknown, t, f
	case "in":
		var sat IntervalSet
		for _, n := range e.Ints {
			sat = append(sat, Interval{n, n})
		}
		return evalIntSet(e.Args[0].Leaf, normalise(sat), ps, rf)
	case "cmp":
		a, b := e.Args[0], e.Args[1]
		op := e.Cmp
		if a.Op == "int" && b.Op == "leaf" {
			a, b = b, a
			op = flipOp(op)
		}
		if a.Op == "leaf" && b.Op == "int" {
			return evalIntSet(a.Leaf, satisfying(op, b.Int), ps, rf)
		}
		if a.Op == "leaf" && b.Op == "str" && (op == token.EQL || op == token.NEQ) {
			f := ps.Strs[a.Leaf]
			res := TUnknown
			if f != nil {
				if f.eq != nil {
					res = tri(*f.eq == b.Str)
				} else if f.ne[b.Str] {
					res = TFalse
				}
			}
			if res == TUnknown {
				t, fl := ps.Clone(), ps.Clone()
				s := b.Str
				t.Strs[a.Leaf] = &strFacts{eq: &s, ne: map[string]bool{}}
				ff := fl.Strs[a.Leaf]
				if ff == nil {
					ff = &strFacts{ne: map[string]bool{}}
					fl.Strs[a.Leaf] = ff
				}
				ff.ne[s] = true
				if op == token.NEQ {
					return TUnknown, fl, t
				}
				return TUnknown, t, fl
			}
			if op == token.NEQ {
				return triNot(res), nil, nil
			}
			return res, nil, nil
		}
		if a.Op == "leaf" && b.Op == "leaf" {
			x, y := a.Leaf, b.Leaf
			if x == y {
				return tri(relSat(op)&relEQ != 0), nil, nil
			}
			// nil comparisons are atoms isnil(x)
			if y == "nil" || x == "nil" {
				o := x
				if x == "nil" {
					o = y
				}
				key := "isnil(" + o + ")"
				if v, ok := ps.Bools[key]; ok {
					if op == token.NEQ {
						v = !v
					}
					return tri(v), nil, nil
				}
				t, f := ps.Clone(), ps.Clone()
				t.Bools[key] = true
				f.Bools[key] = false
				if op == token.NEQ {
					return TUnknown, f, t
				}
				return TUnknown, t, f
			}
			want := relSat(op)
			if x > y {
				x, y = y, x
				want = relFlip(want)
			}
			// generic equality atom decided by the code?
			if op == token.EQL || op == token.NEQ {
				if v, ok := ps.Bools["eq("+x+","+y+")"]; ok {
					if op == token.NEQ {
						v = !v
					}
					return tri(v), nil, nil
				}
			}
			key := x + "\x00" + y
			cur, ok := ps.Rels[key]
			if !ok {
				cur = relLT | relEQ | relGT
			}
			sat, uns := cur&want, cur&^want
			switch {
			case uns == 0:
				return TTrue, nil, nil
			case sat == 0:
				return TFalse, nil, nil
			}
			t, f := ps.Clone(), ps.Clone()
			t.Rels[key] = sat
			f.Rels[key] = uns
			return TUnknown, t, f
		}
	}
	panic(fmt.Sprintf("spec: cannot evaluate atom %s", e.String()))
}

func normalise(s IntervalSet) IntervalSet {
	return IntervalSet{{math.MinInt64, math.MaxInt64}}.Intersect(s)
}

func evalIntSet(leaf string, want IntervalSet, ps *PathState, rf RangeFn) (Tri, *PathState, *PathState) {
	cur := defaultRange(ps, leaf, rf)
	sat := cur.Intersect(want)
	uns := cur.Intersect(complement(want))
	switch {
	case uns.Empty() && !sat.Empty():
		return TTrue, nil, nil
	case sat.Empty():
		return TFalse, nil, nil
	}
	t, f := ps.Clone(), ps.Clone()
	t.Ints[leaf] = sat
	f.Ints[leaf] = uns
	return TUnknown, t, f
}

func complement(s IntervalSet) IntervalSet {
	var out IntervalSet
	lo := int64(math.MinInt64)
	first := true
	for _, i := range s {
		if first {
			if i.Lo > math.MinInt64 {
				out = append(out, Interval{math.MinInt64, i.Lo - 1})
			}
			first = false
		} else if i.Lo > lo {
			out = append(out, Interval{lo, i.Lo - 1})
		}
		if i.Hi == math.MaxInt64 {
			return out
		}
		lo = i.Hi + 1
	}
	out = append(out, Interval{lo, math.MaxInt64})
	return out
}

func tri(b bool) Tri {
	if b {
		return TTrue
	}
	return TFalse
}

func triNot(t Tri) Tri {
	switch t {
	case TTrue:
		return TFalse
	case TFalse:
		return TTrue
	}
	return TUnknown
}

// firstUnknown evaluates a condition; if it is undetermined it returns the first atom that is.
func evalCond(e *SExpr, ps *PathState, rf RangeFn) (Tri, *SExpr) {
	switch e.Op {
	case "and":
		res := TTrue
		var unk *SExpr
		for _, a := range e.Args {
			r, u := evalCond(a, ps, rf)
			if r == TFalse {
				return TFalse, nil
			}
			if r == TUnknown && unk == nil {
				res = TUnknown
				unk = u
			}
		}
		return res, unk
	case "or":
		res := TFalse
		var unk *SExpr
		for _, a := range e.Args {
			r, u := evalCond(a, ps, rf)
			if r == TTrue {
				return TTrue, nil
			}
			if r == TUnknown && unk == nil {
				res = TUnknown
				unk = u
			}
		}
		return res, unk
	case "not":
		r, u := evalCond(e.Args[0], ps, rf)
		return triNot(r), u
	}
	r, _, _ := evalAtom(e, ps, rf)
	if r == TUnknown {
		return r, e
	}
	return r, nil
}

// Refine splits the state until cond is determined; f is called on every leaf state.
func Refine(conds []*SExpr, ps *PathState, rf RangeFn, depth int, f func(ps *PathState, vals []Tri)) {
	vals := make([]Tri, len(conds))
	for i, c := range conds {
		r, unk := evalCond(c, ps, rf)
		if r == TUnknown {
			if depth > 24 {
				panic("spec refinement too deep")
			}
			_, t, fl := evalAtom(unk, ps, rf)
			Refine(conds, t, rf, depth+1, f)
			Refine(conds, fl, rf, depth+1, f)
			return
		}
		vals[i] = r
	}
	f(ps, vals)
}

// collectConds gathers every condition appearing in ite nodes of a value expression.
func collectConds(e *SExpr, out *[]*SExpr) {
	if e == nil {
		return
	}
	if e.Op == "ite" {
		*out = append(*out, e.Args[0])
		collectConds(e.Args[1], out)
		collectConds(e.Args[2], out)
	}
	if e.Op == "from" {
		for _, a := range e.Args {
			collectConds(a, out)
		}
	}
}

// evalValue resolves ite nodes under a state in which all their conditions are determined.
func evalValue(e *SExpr, ps *PathState, rf RangeFn) string {
	for e.Op == "ite" {
		r, _ := evalCond(e.Args[0], ps, rf)
		if r == TTrue {
			e = e.Args[1]
		} else {
			e = e.Args[2]
		}
	}
	if e.Op == "from" {
		parts := []string{}
		for _, a := range e.Args {
			parts = append(parts, evalValue(a, ps, rf))
		}
		sort.Strings(parts)
		return e.Leaf + strings.Join(parts, ",") + "}"
	}
	return e.String()
}
