package main

import (
	"fmt"
	"go/constant"
	"go/types"
)

// ---------------------------------------------------------------------------------------
// Character-level models of a few pure standard-library text functions, used only in finite-domain walks
// (Walker.Finite) where the text consists of constants and expressions of ONE small-domain symbol. They let the
// BCD rules follow a coder that delegates its digit map to encoding/hex:
//   hex.EncodeToString(b)      two characters per byte: "0123456789abcdef"[b>>4], [b&15]
//   hex.DecodeString(s)        one byte per character pair: rev[hi]<<4 | rev[lo]; error iff a character is no hex digit
//   strings.ContainsAny(s, k)  decided by tabulating the characters over the symbol's region
// (documented behaviour of the functions: part of the trusted base).
// ---------------------------------------------------------------------------------------

const hexDigits = "0123456789abcdef"

var hexReverse = func() string {
	b := make([]byte, 256)
	for i := range b {
		b[i] = 0xff
	}
	for i := 0; i < 10; i++ {
		b['0'+i] = byte(i)
	}
	for i := 0; i < 6; i++ {
		b['a'+i] = byte(10 + i)
		b['A'+i] = byte(10 + i)
	}
	return string(b)
}()

// charsOf: the characters (bytes) of a string- or []byte-valued term, when its length is known on the path.
func (w *Walker) charsOf(t *Term) ([]*Term, bool) {
	if t == nil {
		return nil, false
	}
	if s, ok := t.StrVal(); ok {
		out := make([]*Term, len(s))
		for i := 0; i < len(s); i++ {
			out[i] = mkInt(int64(s[i]), types.Typ[types.Uint8])
		}
		return out, true
	}
	switch t.Op {
	case "strv":
		return t.Args, true
	case "sref":
		return srefElems(t), true
	case "slicev":
		return t.Args, true
	case "slice":
		// s[lo:hi] of a text whose characters are known
		if len(t.Args) >= 3 && t.Args[0] != nil && isStringType(t.Args[0].Typ) {
			cs, ok := w.charsOf(t.Args[0])
			if !ok {
				return nil, false
			}
			lo, hi := int64(0), int64(len(cs))
			if t.Args[1] != nil {
				n, ok := t.Args[1].Int64()
				if !ok {
					return nil, false
				}
				lo = n
			}
			if t.Args[2] != nil {
				n, ok := t.Args[2].Int64()
				if !ok {
					return nil, false
				}
				hi = n
			}
			if 0 <= lo && lo <= hi && hi <= int64(len(cs)) {
				return cs[lo:hi], true
			}
		}
	case "conv":
		if len(t.Args) == 1 {
			return w.charsOf(t.Args[0])
		}
	case "bin":
		if t.Name == "+" && isStringType(t.Typ) {
			a, ok1 := w.charsOf(t.Args[0])
			b, ok2 := w.charsOf(t.Args[1])
			if ok1 && ok2 {
				return append(append([]*Term{}, a...), b...), true
			}
		}
	case "param":
		reg, ok := w.state.Ints["len("+t.String()+")"]
		if ok && len(reg) == 1 && reg[0].Lo == reg[0].Hi && reg[0].Lo >= 0 && reg[0].Lo <= 16 {
			out := make([]*Term, reg[0].Lo)
			for i := range out {
				out[i] = &Term{Op: "index", Args: []*Term{t, mkInt(int64(i), types.Typ[types.Int])}, Typ: types.Typ[types.Uint8]}
			}
			return out, true
		}
	}
	return nil, false
}

// finitePredicate decides pred over the values of the sole small-domain leaf of the terms, splitting its region.
func (w *Walker) finitePredicate(ts []*Term, desc string, pred func(vals []int64) bool) (bool, bool) {
	var leaf *Term
	for _, t := range ts {
		if t.IsConst() {
			continue
		}
		l := soleLeaf(t)
		if l == nil {
			return false, false
		}
		if leaf == nil {
			leaf = l
		} else if leaf.String() != l.String() {
			return false, false
		}
	}
	if leaf == nil {
		vals := make([]int64, len(ts))
		for i, t := range ts {
			vals[i], _ = t.Int64()
		}
		return pred(vals), true
	}
	key := leaf.String()
	cur, has := w.state.Ints[key]
	if !has {
		cur = fullSet(leaf.Typ)
	}
	if regionSize(cur) > finiteMax {
		return false, false
	}
	var sv, uv []int64
	for _, v := range valuesOf(cur) {
		vals := make([]int64, len(ts))
		for i, t := range ts {
			x, ok := evalAt(t, key, v)
			if !ok {
				return false, false
			}
			vals[i] = x
		}
		if pred(vals) {
			sv = append(sv, v)
		} else {
			uv = append(uv, v)
		}
	}
	switch {
	case len(uv) == 0 && len(sv) > 0:
		return true, true
	case len(sv) == 0 && len(uv) > 0:
		return false, true
	case len(sv) == 0:
		w.abort("infeasible", "empty region for "+key)
	}
	res := w.choose(2, key) == 0
	if res {
		w.state.Ints[key] = setOf(sv)
	} else {
		w.state.Ints[key] = setOf(uv)
	}
	w.state.IntT[key] = leaf
	w.logDecision(fmt.Sprintf("%s=%v", desc, res))
	return res, true
}

// textModel: see the header. Returns nil when the call is not modelled in this situation.
func (w *Walker) textModel(name string, args []*Term, rt types.Type) *Term {
	if !w.Finite {
		return nil
	}
	u8 := types.Typ[types.Uint8]
	hexT := mkConst(constant.MakeString(hexDigits), types.Typ[types.String])
	revT := mkConst(constant.MakeString(hexReverse), types.Typ[types.String])
	switch name {
	case "hex.EncodeToString":
		bs, ok := w.charsOf(args[0])
		if !ok {
			return nil
		}
		var cs []*Term
		for _, b := range bs {
			hi := &Term{Op: "bin", Name: ">>", Args: []*Term{b, mkInt(4, types.Typ[types.Uint])}, Typ: u8}
			lo := &Term{Op: "bin", Name: "&", Args: []*Term{b, mkInt(15, u8)}, Typ: u8}
			cs = append(cs, &Term{Op: "lookup", Args: []*Term{hexT, hi}, Typ: u8}, &Term{Op: "lookup", Args: []*Term{hexT, lo}, Typ: u8})
		}
		return &Term{Op: "strv", Args: cs, Typ: rt}
	case "strings.ContainsAny":
		cs, ok := w.charsOf(args[0])
		set, ok2 := args[1].StrVal()
		if !ok || !ok2 {
			return nil
		}
		in := map[int64]bool{}
		for i := 0; i < len(set); i++ {
			in[int64(set[i])] = true
		}
		res, decided := w.finitePredicate(cs, name, func(vals []int64) bool {
			for _, v := range vals {
				if in[v] {
					return true
				}
			}
			return false
		})
		if !decided {
			return nil
		}
		return mkBool(res)
	case "hex.DecodeString":
		cs, ok := w.charsOf(args[0])
		if !ok || len(cs)%2 != 0 {
			return nil
		}
		valid, decided := w.finitePredicate(cs, name+":valid", func(vals []int64) bool {
			for _, v := range vals {
				if v < 0 || v > 255 || hexReverse[v] == 0xff {
					return false
				}
			}
			return true
		})
		if !decided {
			return nil
		}
		tt, isTuple := rt.(*types.Tuple)
		if !isTuple || tt.Len() != 2 {
			return nil
		}
		if !valid {
			return &Term{Op: "tuple", Args: []*Term{mkNil(tt.At(0).Type()), {Op: "call", Name: "errors.New", Args: []*Term{mkConst(constant.MakeString("encoding/hex: invalid byte"), types.Typ[types.String])}, Typ: tt.At(1).Type()}}, Typ: rt}
		}
		var els []*Term
		for i := 0; i+1 < len(cs); i += 2 {
			hi := &Term{Op: "lookup", Args: []*Term{revT, cs[i]}, Typ: u8}
			lo := &Term{Op: "lookup", Args: []*Term{revT, cs[i+1]}, Typ: u8}
			sh := &Term{Op: "bin", Name: "<<", Args: []*Term{hi, mkInt(4, types.Typ[types.Uint])}, Typ: u8}
			els = append(els, &Term{Op: "bin", Name: "|", Args: []*Term{sh, lo}, Typ: u8})
		}
		at := types.NewArray(u8, int64(len(els)))
		cell := w.newCell("hexdecoded", at, true)
		cell.Val = &Term{Op: "slicev", Args: els, Typ: at}
		sl := &Term{Op: "sref", Cell: cell, Typ: tt.At(0).Type(), Args: []*Term{mkInt(0, types.Typ[types.Int]), mkInt(int64(len(els)), types.Typ[types.Int])}}
		return &Term{Op: "tuple", Args: []*Term{sl, mkNil(tt.At(1).Type())}, Typ: rt}
	}
	return nil
}
