package main

import (
	"encoding/json"
	"fmt"
	"os"
)

// explain re-evaluates the obligation recorded in a replay file against /repo's current tree.
func explain(path string) int {
	b, err := os.ReadFile(path)
	if err != nil {
		fmt.Fprintln(os.Stderr, err)
		return 2
	}
	var rf struct {
		Property   string     `json:"property"`
		Obligation Obligation `json:"obligation"`
		Statement  string     `json:"rule_statement"`
	}
	if err := json.Unmarshal(b, &rf); err != nil {
		fmt.Fprintln(os.Stderr, err)
		return 2
	}
	fn, ok := checks[rf.Property]
	if !ok {
		fmt.Fprintln(os.Stderr, "unknown property", rf.Property)
		return 2
	}
	fmt.Printf("property : %s\nrule     : %s - %s\nconstruct: %s\nrecorded : %s\n", rf.Property, rf.Obligation.Rule, rf.Statement, rf.Obligation.Construct, rf.Obligation.Detail)
	p, err := Load(repoDir(), nil)
	if err != nil {
		fmt.Fprintln(os.Stderr, err)
		return 2
	}
	r := NewReport(rf.Property, "quick")
	fn(r, p, "quick")
	found := false
	code := 0
	for _, o := range r.Obs {
		if o.Rule == rf.Obligation.Rule && o.Construct == rf.Obligation.Construct {
			found = true
			fmt.Printf("now      : %s at %s: %s\n", o.Status, o.Pos, o.Detail)
			if o.Status == "violation" {
				code = 1
			}
		}
	}
	if !found {
		fmt.Println("now      : the construct no longer exists in /repo (obligation not generated)")
	}
	return code
}
