package main

import (
	"fmt"
	"go/types"
	"sort"
	"strings"

	"golang.org/x/tools/go/ssa"
)

// ---------------------------------------------------------------------------------------
// F1-F4 reply filter, R1-R3 routing
// ---------------------------------------------------------------------------------------

// driverKind classifies an invoke on the transport seam by its signature, never by name.
func driverKind(sig *types.Signature) string {
	if sig.Results().Len() == 2 {
		if sl, ok := sig.Results().At(0).Type().Underlying().(*types.Slice); ok {
			if _, inner := sl.Elem().Underlying().(*types.Slice); inner {
				return "broadcast-all"
			}
		}
	}
	hasFunc, tcp, udp := false, false, false
	for i := 0; i < sig.Params().Len(); i++ {
		t := sig.Params().At(i).Type()
		if _, ok := t.Underlying().(*types.Signature); ok {
			hasFunc = true
		}
		if strings.HasSuffix(t.String(), "net.TCPAddr") {
			tcp = true
		}
		if strings.HasSuffix(t.String(), "net.UDPAddr") {
			udp = true
		}
	}
	switch {
	case sig.Results().Len() == 1:
		return "listen"
	case hasFunc && udp:
		return "broadcast-to"
	case tcp:
		return "tcp"
	case udp:
		return "udp"
	}
	return "?"
}

func (a *API) directedSender() *ssa.Function {
	for fn, k := range a.Senders {
		if k == "directed" {
			return fn
		}
	}
	return nil
}

func (a *API) broadcastSender() *ssa.Function {
	for fn, k := range a.Senders {
		if k == "broadcast" {
			return fn
		}
	}
	return nil
}

type sendPath struct {
	pa        Path
	transport []Event // invokes on the driver seam
	kinds     []string
	marshals  int
	decodes   []Event
}

func walkSender(a *API, fn *ssa.Function) ([]sendPath, *Walker) {
	w := NewWalker(a.P)
	w.LoopFuel = 4
	up := a.P.SSAPkg("uhppote")
	w.Inline = func(f *ssa.Function, d int) bool {
		if f.Parent() != nil {
			return true
		}
		// inline the small in-package helpers between the sender and the driver seam
		return fnPkg(f) == up && a.Senders[f] == "" && len(f.Blocks) <= 60
	}
	w.Opaque["(*uhppote.uhppote).debugf"] = true
	args := make([]*Term, len(fn.Params))
	n := 0
	for i, prm := range fn.Params {
		switch {
		case i == 0:
			args[i] = &Term{Op: "param", Name: "u", Typ: prm.Type()}
		default:
			args[i] = &Term{Op: "param", Name: fmt.Sprintf("arg%d", n), Typ: prm.Type()}
			n++
		}
	}
	paths := w.Walk(fn, args, nil)
	var out []sendPath
	for _, pa := range paths {
		sp := sendPath{pa: pa}
		for _, e := range pa.Events {
			if e.Kind != "call" {
				continue
			}
			if strings.HasPrefix(e.Name, "invoke:") {
				if ci, ok := e.Instr.(ssa.CallInstruction); ok && ci.Common().IsInvoke() {
					sig := ci.Common().Method.Type().(*types.Signature)
					k := driverKind(sig)
					if k != "?" {
						sp.transport = append(sp.transport, e)
						sp.kinds = append(sp.kinds, k)
					}
				}
			}
			if e.Name == "codec.Marshal" {
				sp.marshals++
			}
			if strings.HasPrefix(e.Name, "codec.Unmarshal") {
				sp.decodes = append(sp.decodes, e)
			}
		}
		out = append(out, sp)
	}
	return out, w
}

// decodedInto: res is the value the decode call d left in the local storage it was handed as its destination,
// and the decode reported no error on this path.
func decodedInto(pa Path, d Event, res *Term) bool {
	if len(d.Args) != 2 || d.Result == nil || res == nil || res.Op != "fresh" {
		return false
	}
	dst := d.Args[1]
	if dst.Op == "iface" && len(dst.Args) == 1 {
		dst = dst.Args[0]
	}
	if dst.Op != "ptr" || dst.Cell == nil || dst.Cell.Sym || len(dst.Path) != 0 || dst.Cell.Val != res {
		return false
	}
	return errNilness(pa, d.Result) == 1
}

func RuleFilter(r *Report, p *Program, rules aspectSet) {
	l, err := NewLayoutEngine(p)
	if err != nil {
		r.Fatal("F1", "layout", err.Error())
		return
	}
	a, err := NewAPI(p, l)
	if err != nil {
		r.Fatal("F1", "api", err.Error())
		return
	}
	fn := a.directedSender()
	pos := p.Pos(fn.Pos())
	sps, w := walkSender(a, fn)
	if w.Exploded {
		r.Fatal("F1", "sender", "path explosion")
		return
	}
	r.Count("sender_paths", len(sps))

	if rules["F1"] {
		r.Rule("F1", "in the directed send helper a reply is decoded only when it is 64 bytes long and carries the addressed serial number; every value returned without error comes from that decode (or is the zero value when the transport reports 'no reply')", 4)
		badDecode, badResult, badA2 := "", "", ""
		nDecode, nOK := 0, 0
		for _, sp := range sps {
			pa := sp.pa
			if pa.Outcome != "return" {
				badResult = "path ends in " + pa.Outcome + ": " + pa.Detail
				continue
			}
			if len(sp.transport) > 1 || sp.marshals > 1 {
				badA2 = fmt.Sprintf("%d transport calls and %d marshals on one path", len(sp.transport), sp.marshals)
			}
			resp := ""
			if len(sp.transport) == 1 {
				resp = sp.transport[0].Result.String() + "#0"
			}
			for _, d := range sp.decodes {
				nDecode++
				if len(d.Args) == 0 || d.Args[0].String() != resp {
					badDecode = "decoded bytes are not the transport's reply: " + cut(d.Args[0].String(), 80)
					continue
				}
				ln, ok := pa.State.Ints["len("+resp+")"]
				if !ok || ln.String() != "{64}" {
					badDecode = "reply decoded without a dominating length==64 check (len region " + ln.String() + ")"
				}
				serialOK := false
				for k, v := range pa.State.Rels {
					if strings.Contains(k, resp+"[4:8") && strings.Contains(k, "Uint32") && strings.Contains(k, "arg0") && v == relEQ {
						serialOK = true
					}
				}
				if !serialOK {
					badDecode = "reply decoded without a dominating check that bytes 4..7 equal the addressed serial number"
				}
			}
			if len(pa.Results) == 2 && errNilness(pa, pa.Results[1]) == 1 {
				nOK++
				res := pa.Results[0]
				for res.Op == "conv" && strings.HasPrefix(res.Name, "assert:") && len(res.Args) == 1 {
					res = res.Args[0] // v.(T) in a typed wrapper around a type-erased helper
				}
				switch {
				case len(sp.decodes) == 1 && strings.Contains(res.String(), sp.decodes[0].Result.String()+"#0"):
				case len(sp.decodes) == 1 && decodedInto(pa, sp.decodes[0], res):
					// codec.Unmarshal(reply, &v) succeeded and the result is what it left in v
				case len(sp.decodes) == 0 && isZeroTerm(res) && resp != "" && pa.State.Bools["isnil("+resp+")"]:
				default:
					badResult = "success without decoding an accepted reply: result " + cut(res.String(), 80) + " under [" + cut(pa.State.Describe(), 160) + "]"
				}
			}
			if len(pa.Results) == 2 && errNilness(pa, pa.Results[1]) == -1 {
				badResult = "error result of unknown nilness: " + cut(pa.Results[1].String(), 80)
			}
		}
		r.Check(badDecode == "" && nDecode > 0, "F1", "sender:decode-guard", pos, fmt.Sprintf("%d decode sites on %d paths", nDecode, len(sps)), badDecode)
		r.Check(badResult == "" && nOK > 0, "F1", "sender:result-origin", pos, fmt.Sprintf("%d success paths", nOK), badResult)
		r.Check(badA2 == "", "F1", "sender:single-send", pos, "one marshal and one transport call per path", badA2)
		// serial 0 guard inside the helper
		zeroGuard := false
		for _, sp := range sps {
			if v, ok := sp.pa.State.Ints["arg0"]; ok && v.String() == "{0}" && len(sp.transport) == 0 && sp.marshals == 0 {
				zeroGuard = true
			}
		}
		r.Check(zeroGuard, "F1", "sender:serial-zero", pos, "serial 0 rejected before marshalling", "the send helper does not reject serial number 0 before marshalling")
	}

	if rules["R1"] {
		r.Rule("R1", "routing decision: not configured, or configured without a usable address (invalid, 0.0.0.0, port 0) -> broadcast; configured with protocol \"tcp\" -> TCP to the configured address:port; otherwise connected UDP to the configured address:port", 2)
		type row struct{ kind, dest string }
		bad := ""
		seen := map[string]bool{}
		for _, sp := range sps {
			if len(sp.transport) != 1 {
				continue
			}
			st := sp.pa.State
			configured, okc := st.Bools["has(u.devices,arg0)"]
			valid, okv := st.Bools["(types.ControllerAddr).IsValid(u.devices[arg0].Address)"]
			unspec, oku := false, false
			for k, v := range st.Bools {
				if strings.HasPrefix(k, "eq(") && strings.Contains(k, "netip.IPv4Unspecified()") && strings.Contains(k, "u.devices[arg0].Address") {
					unspec, oku = v, true
				}
			}
			tcp, okt := false, false
			if f := st.Strs["u.devices[arg0].Protocol"]; f != nil {
				okt = true
				tcp = f.eq != nil && *f.eq == "tcp"
			}
			want := ""
			switch {
			case !okc:
				bad = "the send helper never looks the controller up in the configuration"
				continue
			case !configured:
				want = "broadcast-to"
			case okv && !valid:
				want = "broadcast-to"
			case oku && unspec:
				want = "broadcast-to"
			case !okv || !oku:
				bad = "a configured controller's address is not checked for validity and 0.0.0.0 before routing"
				continue
			case !okt:
				bad = "the configured protocol is never compared with \"tcp\""
				continue
			case tcp:
				want = "tcp"
			default:
				want = "udp"
			}
			have := sp.kinds[0]
			seen[want] = true
			if have != want {
				bad = fmt.Sprintf("under [%s] the request goes out via %s, the routing table says %s", cut(st.Describe(), 200), have, want)
			}
			ds := sp.transport[0].Deep[1]
			if want == "tcp" || want == "udp" {
				if !strings.Contains(ds, "u.devices[arg0].Address.AddrPort") || strings.Contains(ds, "broadcastAddr") {
					bad = "directed request is addressed to " + cut(ds, 100) + ", not to the configured controller address"
				}
			} else if !strings.Contains(ds, "u.broadcastAddr") && !strings.Contains(ds, "60000") {
				bad = "broadcast request is addressed to " + cut(ds, 100) + ", not to the broadcast address"
			}
		}
		r.Check(bad == "" && seen["broadcast-to"] && seen["tcp"] && seen["udp"], "R1", "sender:routing-table", pos, "all three routes present and consistent", bad+fmt.Sprintf(" (routes seen: %v)", seen))
		// ControllerAddr.IsValid = address valid and port != 0
		if iv := p.Func("types", "ControllerAddr.IsValid"); iv != nil {
			w2 := NewWalker(p)
			w2.ForceBool = true
			w2.Inline = func(f *ssa.Function, d int) bool { return false }
			ok := true
			n := 0
			for _, pa := range w2.Walk(iv, []*Term{{Op: "param", Name: "a", Typ: iv.Params[0].Type()}}, nil) {
				n++
				res, _ := pa.Results[0].BoolVal()
				addrValid := false
				portNZ := false
				for k, v := range pa.State.Bools {
					if strings.Contains(k, "IsValid") && v {
						addrValid = true
					}
				}
				for k, v := range pa.State.Ints {
					if strings.Contains(k, "Port") && v.Intersect(IntervalSet{{0, 0}}).Empty() {
						portNZ = true
					}
				}
				if res != (addrValid && portNZ) {
					ok = false
				}
			}
			r.Check(ok && n >= 3, "R1", "ControllerAddr.IsValid", p.Pos(iv.Pos()), "valid address and non-zero port", "usable-address predicate is not (address valid && port != 0)")
		} else {
			r.Fatal("R1", "ControllerAddr.IsValid", "not found")
		}
	}

	if rules["F2"] {
		r.Rule("F2", "the broadcast receive filter accepts a datagram iff it is 64 bytes long and bytes 4..7 equal the addressed serial number", 1)
		// the closure passed to the broadcast-to driver call
		var clos *Term
		for _, sp := range sps {
			for i, e := range sp.transport {
				if sp.kinds[i] == "broadcast-to" {
					for _, arg := range e.Args {
						if arg.Op == "closure" {
							clos = arg
						}
					}
				}
			}
		}
		if clos == nil {
			r.Bad("F2", "broadcast-filter", pos, "no filter closure is passed to the broadcast transport")
		} else {
			w3 := NewWalker(p)
			w3.ForceBool = true
			w3.Inline = inlineHelpers([]*ssa.Package{p.SSAPkg("uhppote")}, func(f *ssa.Function) bool { return a.Senders[f] != "" })
			ok := true
			detail := ""
			paths := w3.Walk(clos.Fn, []*Term{{Op: "param", Name: "dg", Typ: clos.Fn.Params[0].Type()}}, clos.Args)
			for _, pa := range paths {
				if pa.Outcome != "return" {
					ok, detail = false, "filter path ends in "+pa.Outcome+": "+pa.Detail
					continue
				}
				res, _ := pa.Results[0].BoolVal()
				ln := pa.State.Ints["len(dg)"]
				is64 := ln.String() == "{64}"
				same := false
				for k, v := range pa.State.Rels {
					if strings.Contains(k, "dg[4:8") && strings.Contains(k, "Uint32") && v == relEQ {
						same = true
					}
				}
				if res != (is64 && same) {
					ok, detail = false, fmt.Sprintf("filter returns %v under [%s]", res, cut(pa.State.Describe(), 200))
				}
			}
			r.Check(ok && len(paths) >= 3, "F2", "broadcast-filter", p.Pos(clos.Fn.Pos()), fmt.Sprintf("%d paths", len(paths)), detail)
		}
	}
}

func isZeroTerm(t *Term) bool {
	m := map[string]*Term{}
	flatten("r", t, m, true)
	if len(m) == 0 {
		return true
	}
	if len(m) == 1 {
		if v, ok := m["r"]; ok && (v.Name == "zero" || v.Name == "nil") {
			return true
		}
	}
	return false
}

// F3: the broadcast-to receive loop ends only on read error or filter acceptance.
func RuleF3(r *Report, p *Program) {
	r.Rule("F3", "the broadcast receive loop returns only when the read fails or the filter accepts, and then returns the datagram just read", 1)
	for _, sf := range SocketFns(p) {
		hasFunc := false
		for _, prm := range sf.Fn.Params {
			if _, ok := prm.Type().Underlying().(*types.Signature); ok && prm.Type().Underlying().(*types.Signature).Results().Len() == 1 {
				hasFunc = true
			}
		}
		if !hasFunc || sf.Listen {
			continue
		}
		bad := ""
		n := 0
		for _, pa := range sf.Paths {
			reads := evIdx(pa, isReadCall)
			if len(reads) == 0 || pa.Outcome != "return" {
				continue
			}
			n++
			last := pa.Events[reads[len(reads)-1]]
			readErrNil, ok := pa.State.Bools["isnil("+last.Result.String()+"#2)"]
			if !ok {
				bad = "read error not examined"
				continue
			}
			if !readErrNil {
				if errNilness(pa, pa.Results[1]) != 0 {
					bad = "failed read does not fail the call"
				}
				continue
			}
			// accepted by the filter?
			accepted := false
			for k, v := range pa.State.Bools {
				if v && strings.HasPrefix(k, "dyn:") && strings.Contains(k, last.Result.String()) {
					accepted = true
				}
			}
			if !accepted {
				bad = "the loop returns a datagram the filter did not accept: [" + cut(pa.State.Describe(), 200) + "]"
			}
			if !strings.Contains(pa.Results[0].String(), last.Result.String()) {
				bad = "the returned bytes are not the datagram just read"
			}
			// earlier reads on this path must all have been rejected by the filter (keep waiting)
			for _, ri := range reads[:len(reads)-1] {
				e := pa.Events[ri]
				consulted := false
				for k, v := range pa.State.Bools {
					if strings.HasPrefix(k, "dyn:") && strings.Contains(k, e.Result.String()+"#0") {
						consulted = true
						if v {
							bad = "loop continues after the filter accepted a datagram"
						}
					}
				}
				// ... by the FILTER: the driver itself discards nothing it has read (which datagram passes as the
				// addressed controller's, and fails the call if it is malformed, is the caller's decision)
				if rerr, has := pa.State.Bools["isnil("+e.Result.String()+"#2)"]; has && rerr && !consulted {
					bad = "a datagram that was read without error is dropped without being shown to the filter under [" + cut(pa.State.Describe(), 160) + "]"
				}
			}
		}
		r.Check(bad == "" && n >= 2, "F3", sf.Name, p.Pos(sf.Fn.Pos()), fmt.Sprintf("%d returning paths with reads", n), bad)
	}
}

// F4: header validation in the field decoder and the two dispatchers.
func RuleF4(r *Report, p *Program) {
	r.Rule("F4", "decoding entry points index the message only after len==64; start-of-message must be 0x17, or 0x19 with function 0x20; the dispatchers accept only 0x17", 3)
	check := func(rel, name string, allow19 bool) {
		fn := p.Func(rel, name)
		if fn == nil {
			r.Fatal("F4", name, "not found")
			return
		}
		w := NewWalker(p)
		w.LoopFuel = 8 // a table lookup may be a (binary) search loop; the field loop is cut by the assumption below
		w.Inline = inlineHelpers([]*ssa.Package{pkgOf(fn), p.SSAPkg(codecRel)}, func(f *ssa.Function) bool {
			return f == fn || (f.Object() != nil && f.Object().Exported() && !publicHelper(f, fn))
		})
		args := make([]*Term, len(fn.Params))
		buf := ""
		for i, prm := range fn.Params {
			args[i] = &Term{Op: "param", Name: prm.Name(), Typ: prm.Type()}
			if _, ok := prm.Type().Underlying().(*types.Slice); ok {
				buf = prm.Name()
			} else {
				w.Assume = map[string]IntervalSet{"(reflect.Value).NumField(" + prm.Name() + ")": {{0, 0}}, "invoke:reflect.Type.NumField((reflect.Value).Type(" + prm.Name() + "))": {{0, 0}}}
			}
		}
		bad := ""
		n := 0
		okPaths := 0
		for _, pa := range w.Walk(fn, args, nil) {
			if pa.Outcome == "truncated" {
				continue
			}
			n++
			ln, hasLen := pa.State.Ints["len("+buf+")"]
			is64 := hasLen && ln.String() == "{64}"
			acc := bufferAccesses(pa, buf, "\x00")
			if len(acc) > 0 && !is64 {
				bad = "message indexed on a path where its length is not known to be 64: " + acc[0].Text
			}
			if len(pa.Results) == 0 {
				bad = "a path of the decoder ends in " + pa.Outcome + ": " + cut(pa.Detail, 120)
				continue
			}
			errT := pa.Results[len(pa.Results)-1]
			en := errNilness(pa, errT)
			b0, has0 := pa.State.Ints[buf+"[0]"]
			b1, has1 := pa.State.Ints[buf+"[1]"]
			accept := is64 && has0 && (b0.String() == "{23}" || (allow19 && b0.String() == "{25}" && has1 && b1.String() == "{32}"))
			if en == 1 || (en == -1 && !strings.Contains(errT.String(), "fmt.Errorf")) {
				// success (or error decided by a nested decode): the header must have been accepted
				if !accept {
					bad = fmt.Sprintf("a message is accepted under [%s]", cut(pa.State.Describe(), 160))
				} else {
					okPaths++
				}
			}
		}
		r.Check(bad == "" && okPaths > 0 && n >= 3, "F4", relPkg(modPath+"/"+rel)+"."+name, p.Pos(fn.Pos()), fmt.Sprintf("%d paths, %d accepting", n, okPaths), bad)
	}
	check(codecRel, "unmarshal", true)
	check("messages", "UnmarshalRequest", false)
	check("messages", "UnmarshalResponse", false)
}

// R2: default broadcast address
func RuleR2(r *Report, p *Program) {
	r.Rule("R2", "the broadcast destination is the configured broadcast address when valid, else 255.255.255.255:60000", 1)
	// the function of package uhppote that takes a BroadcastAddr and returns *net.UDPAddr
	var fn *ssa.Function
	for _, f := range p.AllFuncs {
		if f.Pkg != p.SSAPkg("uhppote") || f.Signature.Params().Len() != 1 || f.Signature.Results().Len() != 1 {
			continue
		}
		if strings.HasSuffix(f.Signature.Params().At(0).Type().String(), "types.BroadcastAddr") && strings.HasSuffix(f.Signature.Results().At(0).Type().String(), "net.UDPAddr") {
			fn = f
		}
	}
	if fn == nil {
		r.Fatal("R2", "resolve", "no function BroadcastAddr -> *net.UDPAddr found")
		return
	}
	w := NewWalker(p)
	w.Inline = func(f *ssa.Function, d int) bool { return false }
	bad := ""
	n := 0
	for _, pa := range w.Walk(fn, []*Term{{Op: "param", Name: "address", Typ: fn.Params[0].Type()}}, nil) {
		n++
		valid := false
		for k, v := range pa.State.Bools {
			if strings.Contains(k, "IsValid") && v {
				valid = true
			}
		}
		res := termDeep(pa.Results[0])
		if valid {
			if !strings.Contains(res, "address.AddrPort") {
				bad = "a valid configured broadcast address is not used: " + cut(res, 100)
			}
		} else {
			if !strings.Contains(res, "Port:60000") {
				bad = "default broadcast port is not 60000: " + cut(res, 120)
			}
			if !strings.Contains(res, "IP:[255,255,255,255]") && !strings.Contains(res, "IP:[0,0,0,0,0,0,0,0,0,0,255,255,255,255,255,255]") {
				bad = "default broadcast IP is not 255.255.255.255: the resolved address is " + cut(res, 140) + " (net.IPv4bcast is the 16-byte form; its first four bytes are zero)"
			}
		}
	}
	r.Check(bad == "" && n == 2, "R2", calleeName(fn), p.Pos(fn.Pos()), "2 paths", bad)
}

// R3: which transport each operation can reach (static call graph through in-package helpers)
func RuleR3(r *Report, p *Program) {
	r.Rule("R3", "discovery reaches only the broadcast-all transport; every other request-issuing operation reaches only broadcast-to/udp/tcp", 32)
	l, _ := NewLayoutEngine(p)
	a, err := NewAPI(p, l)
	if err != nil {
		r.Fatal("R3", "api", err.Error())
		return
	}
	spec, err := loadOpsSpec()
	if err != nil {
		r.Fatal("R3", "ops.json", err.Error())
		return
	}
	var reach func(fn *ssa.Function, seen map[*ssa.Function]bool, out map[string]bool)
	reach = func(fn *ssa.Function, seen map[*ssa.Function]bool, out map[string]bool) {
		if fn == nil || seen[fn] || fn.Blocks == nil {
			return
		}
		seen[fn] = true
		for _, b := range fn.Blocks {
			for _, in := range b.Instrs {
				if mc, ok := in.(*ssa.MakeClosure); ok {
					reach(mc.Fn.(*ssa.Function), seen, out)
				}
				ci, ok := in.(ssa.CallInstruction)
				if !ok {
					continue
				}
				c := ci.Common()
				if c.IsInvoke() {
					if n, ok := types.Unalias(c.Value.Type()).(*types.Named); ok && n.Obj().Pkg() != nil && n.Obj().Pkg().Path() == modPath+"/uhppote" {
						if k := driverKind(c.Method.Type().(*types.Signature)); k != "?" {
							out[k] = true
						} else if it, ok := n.Underlying().(*types.Interface); ok {
							// an internal interface (a strategy): every implementation in the package may be the callee
							for _, impl := range implementationsOf(p, it, c.Method.Name()) {
								reach(impl, seen, out)
							}
						}
					}
					continue
				}
				if f := c.StaticCallee(); f != nil {
					base := f
					if f.Origin() != nil {
						// instantiations have bodies of their own under InstantiateGenerics
					}
					if base.Pkg != nil && strings.HasPrefix(base.Pkg.Pkg.Path(), modPath+"/uhppote") || (base.Pkg == nil && f.Origin() != nil) {
						reach(base, seen, out)
					}
				}
			}
		}
	}
	names := []string{}
	for n := range spec.Ops {
		names = append(names, n)
	}
	sort.Strings(names)
	for _, n := range names {
		fn := a.Ops[n]
		if fn == nil {
			continue
		}
		out := map[string]bool{}
		reach(fn, map[*ssa.Function]bool{}, out)
		want := "broadcast-to,tcp,udp"
		if spec.Ops[n].Via == "broadcast" {
			want = "broadcast-all"
		}
		r.Check(keysOf(out) == want, "R3", n, p.Pos(fn.Pos()), want, "operation can reach transports {"+keysOf(out)+"}, expected {"+want+"}")
	}
}

// B11: the broadcast helper keeps exactly the well-formed replies, in order, and never fails on a bad one.
func RuleBroadcastHelper(r *Report, p *Program) {
	r.Rule("B11", "the broadcast helper keeps a reply iff it is 64 bytes long and decodes; kept replies stay in arrival order (duplicates included); a malformed reply never fails the call", 1)
	l, err := NewLayoutEngine(p)
	if err != nil {
		r.Fatal("B11", "layout", err.Error())
		return
	}
	a, err := NewAPI(p, l)
	if err != nil {
		r.Fatal("B11", "api", err.Error())
		return
	}
	fn := a.broadcastSender()
	if fn == nil {
		r.Fatal("B11", "broadcast-helper", "not found")
		return
	}
	N := bound(3, 4)
	w := NewWalker(p)
	w.LoopFuel = N + 2
	up := p.SSAPkg("uhppote")
	w.Inline = inlineHelpers([]*ssa.Package{up}, func(f *ssa.Function) bool { return a.Senders[f] != "" })
	w.OnCall = func(w *Walker, name string, args []*Term, c *ssa.CallCommon, in ssa.Instruction) (*Term, bool) {
		if !c.IsInvoke() || driverKind(c.Method.Type().(*types.Signature)) != "broadcast-all" {
			return nil, false
		}
		rt := c.Method.Type().(*types.Signature).Results().At(0).Type()
		et := rt.Underlying().(*types.Slice).Elem()
		at := types.NewArray(et, int64(N))
		cell := w.newCell("datagrams", at, true)
		els := make([]*Term, N)
		for i := range els {
			els[i] = &Term{Op: "param", Name: fmt.Sprintf("dg%d", i), Typ: et}
		}
		cell.Val = &Term{Op: "slicev", Args: els, Typ: at}
		sl := &Term{Op: "sref", Cell: cell, Typ: rt, Args: []*Term{mkInt(0, types.Typ[types.Int]), mkInt(int64(N), types.Typ[types.Int])}}
		errT := &Term{Op: "fresh", Name: "transporterr", Typ: types.Universe.Lookup("error").Type()}
		w.event(Event{Kind: "call", Name: "transport:broadcast-all", Args: args, Pos: in.Pos(), Instr: in})
		return &Term{Op: "tuple", Args: []*Term{sl, errT}}, true
	}
	args := make([]*Term, len(fn.Params))
	for i, prm := range fn.Params {
		nm := []string{"u", "request", "proto"}
		n := prm.Name()
		if i < len(nm) {
			n = nm[i]
		}
		args[i] = &Term{Op: "param", Name: n, Typ: prm.Type()}
	}
	paths := w.Walk(fn, args, nil)
	bad := ""
	nOK := 0
	for _, pa := range paths {
		if pa.Outcome != "return" {
			bad = "path ends in " + pa.Outcome + ": " + pa.Detail
			continue
		}
		terr, hasT := pa.State.Bools["isnil(transporterr)"]
		if !hasT {
			// marshal failed before sending
			continue
		}
		en := errNilness(pa, pa.Results[len(pa.Results)-1])
		if !terr {
			if en != 0 {
				bad = "a transport failure is not reported"
			}
			continue
		}
		if en != 1 {
			bad = "the call fails although the transport succeeded: [" + cut(pa.State.Describe(), 200) + "]"
			continue
		}
		nOK++
		var want []string
		for i := 0; i < N; i++ {
			dg := fmt.Sprintf("dg%d", i)
			ln, ok := pa.State.Ints["len("+dg+")"]
			if !ok {
				bad = "the length of a reply is never examined"
				continue
			}
			if ln.String() != "{64}" {
				continue
			}
			decoded := false
			for k, v := range pa.State.Bools {
				if strings.HasPrefix(k, "isnil(codec.UnmarshalAs") && strings.Contains(k, "("+dg+",") {
					decoded = true
					if v {
						want = append(want, strings.TrimSuffix(strings.TrimPrefix(k, "isnil("), "#1)")+"#0")
					}
				}
			}
			if !decoded {
				// a 64-byte reply that is dropped before the decoder sees it: some other condition filters replies
				bad = "a 64-byte reply is discarded without being decoded under [" + cut(pa.State.Describe(), 200) + "]: only the length and the decoder decide which replies are kept"
			}
		}
		var have []string
		res := pa.Results[0]
		if len(pa.Results) == 1 {
			// push style: the helper hands every kept reply to a callback instead of returning a list
			res = mkNil(nil)
			for _, e := range pa.Events {
				if e.Kind == "call" && strings.HasPrefix(e.Name, "dyn:") && len(e.Args) == 1 {
					v := e.Args[0]
					for (v.Op == "conv" && strings.HasPrefix(v.Name, "assert:") || v.Op == "iface") && len(v.Args) == 1 {
						v = v.Args[0]
					}
					have = append(have, v.String())
				}
			}
		}
		if res.Op == "sref" {
			for _, e := range srefElems(res) {
				// v.(T) on the decoded value (a generic helper) keeps the value
				for e.Op == "conv" && strings.HasPrefix(e.Name, "assert:") && len(e.Args) == 1 {
					e = e.Args[0]
				}
				have = append(have, e.String())
			}
		} else if !res.IsNilConst() {
			have = append(have, "?"+res.String())
		}
		if strings.Join(have, " ; ") != strings.Join(want, " ; ") {
			bad = fmt.Sprintf("kept replies are [%s], the accepted ones in arrival order are [%s]", cut(strings.Join(have, " ; "), 200), cut(strings.Join(want, " ; "), 200))
		}
	}
	r.Check(bad == "" && nOK >= 8, "B11", calleeName(fn), p.Pos(fn.Pos()), fmt.Sprintf("%d paths, %d after a successful transport call, %d replies each", len(paths), nOK, N), bad)
}

// implementationsOf: the methods `name` of the module's named types (T and *T) that implement the interface.
func implementationsOf(p *Program, it *types.Interface, name string) []*ssa.Function {
	var out []*ssa.Function
	for _, pk := range p.Pkgs {
		sc := pk.Types.Scope()
		for _, n := range sc.Names() {
			tn, ok := sc.Lookup(n).(*types.TypeName)
			if !ok {
				continue
			}
			if _, isIface := tn.Type().Underlying().(*types.Interface); isIface {
				continue
			}
			for _, t := range []types.Type{tn.Type(), types.NewPointer(tn.Type())} {
				if !types.Implements(t, it) {
					continue
				}
				if sel := p.SSA.MethodSets.MethodSet(t).Lookup(tn.Pkg(), name); sel != nil {
					if f := p.SSA.MethodValue(sel); f != nil {
						out = append(out, f)
					}
				}
				break
			}
		}
	}
	return out
}
