package main

import (
	"go/types"

	"golang.org/x/tools/go/ssa"
)

// ---------------------------------------------------------------------------------------
// A lock written by hand. The process-wide fixed-port lock may be a sync.Mutex or a type of the module that
// implements sync.Locker as a one-slot channel semaphore:
//     type portLock chan struct{};  Lock: l <- struct{}{};  Unlock: <-l (non-blocking, panicking when empty)
// with the variable made with capacity 1. Such a type IS a mutex (at most one token in the slot; Lock blocks
// while it is taken): the walker renders calls of its Lock/Unlock as the calls of sync.Mutex on the same
// variable, so the lock rules (T3, T4, T8, T12) read the same program. The recognition is structural and
// strict: Lock is one unconditional send on the receiver and nothing else, Unlock is one receive from it
// (plain, or the only communication of a select whose default branch panics), every package-level variable of
// the type is initialised with make(T, 1). The "unlock of unlocked" panic of such a lock cannot fire when every
// Unlock is paired with a preceding Lock, which is what T3 establishes (deferred unlock after the lock).
// ---------------------------------------------------------------------------------------

var userLockMemo = map[*types.Named]int{}

func chanRecvType(f *ssa.Function) *types.Named {
	if f == nil || f.Signature.Recv() == nil || !inModule(f) {
		return nil
	}
	n, ok := types.Unalias(f.Signature.Recv().Type()).(*types.Named)
	if !ok {
		return nil
	}
	if _, isChan := n.Underlying().(*types.Chan); !isChan {
		return nil
	}
	return n
}

// userLockMethod: f is Lock or Unlock of a verified channel-semaphore lock type; returns "Lock"/"Unlock".
func userLockMethod(p *Program, f *ssa.Function) string {
	n := chanRecvType(f)
	if n == nil || (f.Name() != "Lock" && f.Name() != "Unlock") || f.Signature.Params().Len() != 0 || f.Signature.Results().Len() != 0 {
		return ""
	}
	switch userLockMemo[n] {
	case 1:
		return f.Name()
	case 2:
		return ""
	}
	ok := verifySemaphore(p, n)
	if ok {
		userLockMemo[n] = 1
		return f.Name()
	}
	userLockMemo[n] = 2
	return ""
}

func verifySemaphore(p *Program, n *types.Named) bool {
	var lock, unlock *ssa.Function
	for _, t := range []types.Type{n, types.NewPointer(n)} {
		ms := p.SSA.MethodSets.MethodSet(t)
		for i := 0; i < ms.Len(); i++ {
			f := p.SSA.MethodValue(ms.At(i))
			if f == nil || f.Synthetic != "" {
				continue
			}
			switch f.Name() {
			case "Lock":
				lock = f
			case "Unlock":
				unlock = f
			}
		}
	}
	if lock == nil || unlock == nil || lock.Blocks == nil || unlock.Blocks == nil {
		return false
	}
	recvOf := func(f *ssa.Function) ssa.Value { return f.Params[0] }
	// Lock: exactly one send on the receiver, no calls, no other communication
	sends := 0
	for _, b := range lock.Blocks {
		for _, in := range b.Instrs {
			switch x := in.(type) {
			case *ssa.Send:
				if x.Chan != recvOf(lock) {
					return false
				}
				sends++
			case *ssa.Return, *ssa.DebugRef, *ssa.Alloc, *ssa.Store, *ssa.UnOp:
				if u, ok := x.(*ssa.UnOp); ok && u.Op.String() == "<-" {
					return false
				}
			default:
				return false
			}
		}
	}
	if sends != 1 || len(lock.Blocks) != 1 {
		return false
	}
	// Unlock: one receive from the receiver: plain, or the single state of a non-blocking select whose other
	// outcome panics
	recvs := 0
	for _, b := range unlock.Blocks {
		for _, in := range b.Instrs {
			switch x := in.(type) {
			case *ssa.UnOp:
				if x.Op.String() == "<-" {
					if x.X != recvOf(unlock) {
						return false
					}
					recvs++
				}
			case *ssa.Select:
				if len(x.States) != 1 || x.States[0].Chan != recvOf(unlock) || x.States[0].Dir != types.RecvOnly {
					return false
				}
				recvs++
			case *ssa.Send, *ssa.Go, *ssa.Defer, *ssa.MapUpdate:
				return false
			case *ssa.Call:
				return false
			}
		}
	}
	if recvs != 1 {
		return false
	}
	// every package-level variable of the type is made with capacity 1
	vars := 0
	for _, sp := range p.SSAPkgs {
		if sp == nil || !inModule(sp.Func("init")) {
			continue
		}
		for _, m := range sp.Members {
			g, ok := m.(*ssa.Global)
			if !ok || !types.Identical(g.Type().Underlying().(*types.Pointer).Elem(), n) {
				continue
			}
			vars++
			okCap := false
			for _, sv := range storedInto(initFn(g), g) {
				if c, ok := makeChanCap(sv, 0); ok && c == 1 {
					okCap = true
				} else {
					return false
				}
			}
			if !okCap {
				return false
			}
		}
	}
	return vars > 0
}

func makeChanCap(v ssa.Value, depth int) (int64, bool) {
	if depth > 3 {
		return 0, false
	}
	switch x := v.(type) {
	case *ssa.MakeChan:
		return constInt(x.Size)
	case *ssa.ChangeType:
		return makeChanCap(x.X, depth+1)
	case *ssa.Call:
		f := x.Call.StaticCallee()
		if f == nil || !inModule(f) || f.Blocks == nil {
			return 0, false
		}
		var out int64 = -1
		for _, b := range f.Blocks {
			for _, in := range b.Instrs {
				if r, ok := in.(*ssa.Return); ok {
					if len(r.Results) != 1 {
						return 0, false
					}
					c, ok := makeChanCap(r.Results[0], depth+1)
					if !ok || (out >= 0 && out != c) {
						return 0, false
					}
					out = c
				}
			}
		}
		return out, out >= 0
	}
	return 0, false
}

// lockerCanon: the canonical (sync.Mutex) rendering of a call of a verified hand-written lock.
func (w *Walker) lockerCanon(callee *ssa.Function, args []*Term) (string, []*Term, bool) {
	m := userLockMethod(w.P, callee)
	if m == "" || len(args) != 1 {
		return "", nil, false
	}
	a := args[0]
	// the receiver is the channel value loaded from the package-level variable: name the variable itself
	if a.Op == "global" {
		g := &Term{Op: "global", Name: a.Name, Typ: types.NewPointer(a.Typ)}
		c := w.symCell(g)
		if c.Val.Op == "deref" {
			c.Val = &Term{Op: "global", Name: a.Name, Typ: a.Typ}
		}
		a = &Term{Op: "ptr", Cell: c, Typ: g.Typ}
	}
	return "(*sync.Mutex)." + m, []*Term{a}, true
}
