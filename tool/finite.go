package main

import (
	"fmt"
	"go/token"
	"go/types"
	"os"
)

// ---------------------------------------------------------------------------------------
// Finite-domain refinement (opt-in per walk: Walker.Finite). When a branch condition compares a compound
// integer expression of ONE symbolic leaf with a constant — (b>>4) > 9, b&0xf0 == 0x30, ch-'0' <= 9,
// table[b&15] == 'x' — and the leaf's current region holds at most 65536 values, the region is split exactly
// into the values that satisfy the comparison and those that do not (the exact abstract transformer on the
// powerset domain of a small integer), instead of treating the compound expression as an opaque quantity.
// No program statement is executed: only the arithmetic of one expression is tabulated over a region, which
// makes the verdicts independent of the idiom (switch, mask, shift, arithmetic, lookup table).
// ---------------------------------------------------------------------------------------

const finiteMax = 65536

func regionSize(s IntervalSet) int64 {
	var n int64
	for _, iv := range s {
		d := iv.Hi - iv.Lo + 1
		if d <= 0 || d > finiteMax {
			return finiteMax + 1
		}
		n += d
		if n > finiteMax {
			return n
		}
	}
	return n
}

// soleLeaf finds the single symbolic integer leaf of a compound integer term (nil if none or several).
func soleLeaf(t *Term) *Term {
	var leaf *Term
	many := false
	var visit func(x *Term)
	visit = func(x *Term) {
		if x == nil || many {
			return
		}
		switch x.Op {
		case "const":
			return
		case "bin":
			visit(x.Args[0])
			visit(x.Args[1])
			return
		case "conv":
			if isIntType(x.Typ) && isIntType(x.Args[0].Typ) {
				visit(x.Args[0])
				return
			}
		case "index", "lookup":
			if constTable(x.Args[0]) != nil || isGround(x.Args[0], 0) {
				visit(x.Args[1])
				return
			}
		case "field":
			if x.Args[0].Op == "index" || x.Args[0].Op == "field" {
				visit(x.Args[0])
				return
			}
		}
		if !isIntType(x.Typ) {
			many = true
			return
		}
		if leaf == nil {
			leaf = x
		} else if leaf.String() != x.String() {
			many = true
		}
	}
	visit(t)
	if many {
		return nil
	}
	return leaf
}

// constTable: the constant elements of a string constant or of a literal table, if t is one.
func constTable(t *Term) []int64 {
	if s, ok := t.StrVal(); ok {
		out := make([]int64, len(s))
		for i := 0; i < len(s); i++ {
			out[i] = int64(s[i])
		}
		return out
	}
	var els []*Term
	switch t.Op {
	case "slicev":
		els = t.Args
	case "sref":
		els = srefElems(t)
	default:
		return nil
	}
	out := make([]int64, len(els))
	for i, e := range els {
		v, ok := e.Int64()
		if !ok {
			return nil
		}
		out[i] = v
	}
	return out
}

// evalAt evaluates an integer term whose only symbolic leaf (by rendering) is `leaf`, at leaf = v.
func evalAt(t *Term, leaf string, v int64) (int64, bool) {
	return evalEnv(t, map[string]int64{leaf: v})
}

// evalEnv evaluates an integer term whose symbolic leaves (by rendering) are the keys of env.
func evalEnv(t *Term, env map[string]int64) (int64, bool) {
	if n, ok := t.Int64(); ok {
		return n, true
	}
	if !overTable(t) {
		if v, ok := env[t.String()]; ok {
			return v, true
		}
	}
	leaf, v := "", int64(0)
	for k, x := range env {
		leaf, v = k, x
		break
	}
	switch t.Op {
	case "conv":
		x, ok := evalEnv(t.Args[0], env)
		if !ok || !isIntType(t.Typ) {
			return 0, false
		}
		n, _ := wrapInt(x, t.Typ).Int64()
		return n, true
	case "index", "lookup":
		tab := constTable(t.Args[0])
		if tab == nil {
			if e := termAt(t, leaf, v); e != nil {
				return e.Int64()
			}
			return 0, false
		}
		i, ok := evalEnv(t.Args[1], env)
		if !ok || i < 0 || i >= int64(len(tab)) {
			return 0, false
		}
		return tab[i], true
	case "field":
		if e := termAt(t, leaf, v); e != nil {
			return e.Int64()
		}
		return 0, false
	case "bin":
		x, ok1 := evalEnv(t.Args[0], env)
		y, ok2 := evalEnv(t.Args[1], env)
		if !ok1 || !ok2 {
			return 0, false
		}
		var r int64
		switch tokenOfBin(t.Name) {
		case token.ADD:
			r = x + y
		case token.SUB:
			r = x - y
		case token.MUL:
			r = x * y
		case token.QUO:
			if y == 0 {
				return 0, false
			}
			r = x / y
		case token.REM:
			if y == 0 {
				return 0, false
			}
			r = x % y
		case token.AND:
			r = x & y
		case token.OR:
			r = x | y
		case token.XOR:
			r = x ^ y
		case token.SHL:
			if y < 0 {
				return 0, false
			}
			if y > 62 {
				// every bit is shifted out of a type narrower than 64 bits
				if lo, hi := intRange(t.Typ); isIntType(t.Typ) && lo >= -(1<<31) && hi <= 1<<32 {
					r = 0
					break
				}
				return 0, false
			}
			r = x << uint(y)
		case token.SHR:
			if y < 0 {
				return 0, false
			}
			if y > 62 {
				if x >= 0 {
					r = 0
				} else {
					r = -1
				}
				break
			}
			r = x >> uint(y)
		case token.AND_NOT:
			r = x &^ y
		default:
			return 0, false
		}
		if isIntType(t.Typ) {
			n, _ := wrapInt(r, t.Typ).Int64()
			return n, true
		}
		return r, true
	}
	return 0, false
}

func tokenOfBin(s string) token.Token {
	switch s {
	case "+":
		return token.ADD
	case "-":
		return token.SUB
	case "*":
		return token.MUL
	case "/":
		return token.QUO
	case "%":
		return token.REM
	case "&":
		return token.AND
	case "|":
		return token.OR
	case "^":
		return token.XOR
	case "<<":
		return token.SHL
	case ">>":
		return token.SHR
	case "&^":
		return token.AND_NOT
	}
	return token.ILLEGAL
}

func cmpHolds(op token.Token, x, n int64) bool {
	switch op {
	case token.EQL:
		return x == n
	case token.NEQ:
		return x != n
	case token.LSS:
		return x < n
	case token.LEQ:
		return x <= n
	case token.GTR:
		return x > n
	case token.GEQ:
		return x >= n
	}
	return false
}

func setOf(vals []int64) IntervalSet {
	var s IntervalSet
	for _, v := range vals { // vals ascending
		if n := len(s); n > 0 && s[n-1].Hi+1 == v {
			s[n-1].Hi = v
		} else {
			s = append(s, Interval{v, v})
		}
	}
	return s
}

func valuesOf(s IntervalSet) []int64 {
	var out []int64
	for _, iv := range s {
		for v := iv.Lo; v <= iv.Hi; v++ {
			out = append(out, v)
		}
	}
	return out
}

// finiteSplit: the values of the leaf's region for which `a op n` holds / does not hold. ok=false when the
// expression is not a function of one small-domain leaf.
func (w *Walker) finiteSplit(a *Term, op token.Token, n int64) (leaf *Term, sat, uns IntervalSet, ok bool) {
	if a.Op != "bin" && a.Op != "conv" && a.Op != "index" && a.Op != "lookup" && a.Op != "field" {
		return nil, nil, nil, false
	}
	leaf = soleLeaf(a)
	if leaf == nil {
		return nil, nil, nil, false
	}
	key := leaf.String()
	cur, has := w.state.Ints[key]
	if !has {
		cur = fullSet(leaf.Typ)
	}
	if regionSize(cur) > finiteMax {
		return nil, nil, nil, false
	}
	var sv, uv []int64
	for _, v := range valuesOf(cur) {
		x, ok := evalAt(a, key, v)
		if !ok {
			return nil, nil, nil, false
		}
		if cmpHolds(op, x, n) {
			sv = append(sv, v)
		} else {
			uv = append(uv, v)
		}
	}
	return leaf, setOf(sv), setOf(uv), true
}

// overTable: a selection out of a ground table (never the leaf itself; rendering it would be expensive).
func overTable(t *Term) bool {
	for i := 0; i < 8 && t != nil; i++ {
		switch t.Op {
		case "field":
			t = t.Args[0]
		case "index", "lookup":
			return len(t.Args[0].Args) > 8 && isGround(t.Args[0], 0)
		default:
			return false
		}
	}
	return false
}

// leavesOf: the distinct symbolic integer leaves of a compound integer term (nil when something else occurs).
func leavesOf(t *Term) []*Term {
	var out []*Term
	seen := map[string]bool{}
	bad := false
	var visit func(x *Term)
	visit = func(x *Term) {
		if x == nil || bad {
			return
		}
		switch x.Op {
		case "const":
			return
		case "bin":
			visit(x.Args[0])
			visit(x.Args[1])
			return
		case "conv":
			if isIntType(x.Typ) && isIntType(x.Args[0].Typ) {
				visit(x.Args[0])
				return
			}
		}
		if !isIntType(x.Typ) {
			bad = true
			return
		}
		if k := x.String(); !seen[k] {
			seen[k] = true
			out = append(out, x)
		}
	}
	visit(t)
	if bad {
		return nil
	}
	return out
}

// finiteSplit2: a comparison of an expression of TWO small-domain leaves with a constant (a bit set built from
// two elements and tested: ((1<<f0)|(1<<f1))&2 != 0). The first leaf's region is partitioned into the classes
// of values for which the comparison is the same function of the second leaf; the path forks over the classes,
// and within a class the second leaf is split as in finiteSplit. Exact; only when the two regions together hold
// at most 65536 pairs.
func (w *Walker) finiteSplit2(a *Term, op token.Token, n int64) (decided bool, result bool) {
	if a.Op != "bin" && a.Op != "conv" {
		return false, false
	}
	ls := leavesOf(a)
	if len(ls) != 2 {
		return false, false
	}
	regs := make([]IntervalSet, 2)
	for i, l := range ls {
		cur, has := w.state.Ints[l.String()]
		if !has {
			cur = fullSet(l.Typ)
		}
		regs[i] = cur
	}
	if s0, s1 := regionSize(regs[0]), regionSize(regs[1]); s0 > finiteMax || s1 > finiteMax || s0*s1 > finiteMax {
		return false, false
	}
	k0, k1 := ls[0].String(), ls[1].String()
	v0s, v1s := valuesOf(regs[0]), valuesOf(regs[1])
	classes := map[string][]int64{}
	var order []string
	for _, v0 := range v0s {
		sig := make([]byte, len(v1s))
		for j, v1 := range v1s {
			x, ok := evalEnv(a, map[string]int64{k0: v0, k1: v1})
			if !ok {
				return false, false
			}
			if cmpHolds(op, x, n) {
				sig[j] = 1
			}
		}
		key := string(sig)
		if _, seen := classes[key]; !seen {
			order = append(order, key)
		}
		classes[key] = append(classes[key], v0)
	}
	if len(order) > 8 {
		return false, false
	}
	pick := 0
	if len(order) > 1 {
		pick = w.choose(len(order), k0)
		w.state.Ints[k0] = setOf(classes[order[pick]])
		w.state.IntT[k0] = ls[0]
		w.logDecision(fmt.Sprintf("%s in class %d of %s", k0, pick, cut(a.String(), 40)))
	}
	sig := order[pick]
	var sat, uns []int64
	for j, v1 := range v1s {
		if sig[j] == 1 {
			sat = append(sat, v1)
		} else {
			uns = append(uns, v1)
		}
	}
	switch {
	case len(uns) == 0 && len(sat) > 0:
		return true, true
	case len(sat) == 0 && len(uns) > 0:
		return true, false
	case len(sat) == 0 && len(uns) == 0:
		w.abort("infeasible", "empty region for "+k1)
	}
	res := w.choose(2, k1) == 0
	if res {
		w.state.Ints[k1] = setOf(sat)
	} else {
		w.state.Ints[k1] = setOf(uns)
	}
	w.state.IntT[k1] = ls[1]
	w.logDecision(fmt.Sprintf("%s%s%d=%v", cut(a.String(), 40), op, n, res))
	return true, res
}

// isGround: a literal aggregate of constants (a folded table of records).
func isGround(t *Term, depth int) bool {
	if t == nil || depth > 6 {
		return false
	}
	switch t.Op {
	case "const":
		return true
	case "zero":
		return true
	case "slicev", "struct":
		for _, a := range t.Args {
			if !isGround(a, depth+1) {
				return false
			}
		}
		return true
	}
	return false
}

// termAt resolves a selection (element, field) out of a ground table at leaf = v.
func termAt(t *Term, leaf string, v int64) *Term {
	switch t.Op {
	case "const", "zero", "slicev", "struct":
		return t
	case "field":
		in := termAt(t.Args[0], leaf, v)
		if in == nil || (in.Op != "struct" && in.Op != "zero") {
			return nil
		}
		return project(in, t.Name)
	case "index":
		base := termAt(t.Args[0], leaf, v)
		i, ok := evalAt(t.Args[1], leaf, v)
		if base == nil || !ok {
			return nil
		}
		if base.Op == "zero" {
			return zeroOf(elemType(base.Typ))
		}
		if base.Op != "slicev" || i < 0 || i >= int64(len(base.Args)) {
			return nil
		}
		return base.Args[i]
	}
	return nil
}

// finiteSplitBool: a boolean selected out of a ground table by one small-domain leaf (table[b].ok).
func (w *Walker) finiteSplitBool(c *Term) (leaf *Term, sat, uns IntervalSet, ok bool) {
	if c.Op != "field" && c.Op != "index" {
		return nil, nil, nil, false
	}
	leaf = soleLeaf(c)
	if os.Getenv("UHLINT_DEBUG") == "FIN" {
		fmt.Fprintf(os.Stderr, "finiteSplitBool %s leaf=%v inner=%s/%s\n", c.Op, leaf, c.Args[0].Op, c.Args[0].Args[0].Op)
	}
	if leaf == nil {
		return nil, nil, nil, false
	}
	key := leaf.String()
	cur, has := w.state.Ints[key]
	if !has {
		cur = fullSet(leaf.Typ)
	}
	if regionSize(cur) > finiteMax {
		return nil, nil, nil, false
	}
	var sv, uv []int64
	for _, v := range valuesOf(cur) {
		e := termAt(c, key, v)
		if os.Getenv("UHLINT_DEBUG") == "FIN" {
			fmt.Fprintf(os.Stderr, "  at %d: %v\n", v, e)
		}
		if e == nil {
			return nil, nil, nil, false
		}
		b, isB := e.BoolVal()
		if !isB {
			return nil, nil, nil, false
		}
		if b {
			sv = append(sv, v)
		} else {
			uv = append(uv, v)
		}
	}
	return leaf, setOf(sv), setOf(uv), true
}

var _ = types.Typ
