package main

import (
	"fmt"
	"go/token"
	"go/types"
	"os"
)

// ---------------------------------------------------------------------------------------
// Finite-domain refinement (opt-in per walk: Walker.Finite). When a branch condition compares a compound
// integer expression of ONE symbolic leaf with a constant — (b>>4) > 9, b&0xf0 == 0x30, ch-'0' <= 9,
// table[b&15] == 'x' — and the leaf's current region holds at most 65536 values, the region is split exactly
// into the values that satisfy the comparison and those that do not (the exact abstract transformer on the
// powerset domain of a small integer), instead of treating the compound expression as an opaque quantity.
// No program statement is executed: only the arithmetic of one expression is tabulated over a region, which
// makes the verdicts independent of the idiom (switch, mask, shift, arithmetic, lookup table).
// ---------------------------------------------------------------------------------------

const finiteMax = 65536

func regionSize(s IntervalSet) int64 {
	var n int64
	for _, iv := range s {
		d := iv.Hi - iv.Lo + 1
		if d <= 0 || d > finiteMax {
			return finiteMax + 1
		}
		n += d
		if n > finiteMax {
			return n
		}
	}
	return n
}

// soleLeaf finds the single symbolic integer leaf of a compound integer term (nil if none or several).
func soleLeaf(t *Term) *Term {
	var leaf *Term
	many := false
	var visit func(x *Term)
	visit = func(x *Term) {
		if x == nil || many {
			return
		}
		switch x.Op {
		case "const":
			return
		case "bin":
			visit(x.Args[0])
			visit(x.Args[1])
			return
		case "conv":
			if isIntType(x.Typ) && isIntType(x.Args[0].Typ) {
				visit(x.Args[0])
				return
			}
		case "index", "lookup":
			if constTable(x.Args[0]) != nil || isGround(x.Args[0], 0) {
				visit(x.Args[1])
				return
			}
		case "field":
			if x.Args[0].Op == "index" || x.Args[0].Op == "field" {
				visit(x.Args[0])
				return
			}
		}
		if !isIntType(x.Typ) {
			many = true
			return
		}
		if leaf == nil {
			leaf = x
		} else if leaf.String() != x.String() {
			many = true
		}
	}
	visit(t)
	if many {
		return nil
	}
	return leaf
}

// constTable: the constant elements of a string constant or of a literal table, if t is one.
func constTable(t *Term) []int64 {
	if s, ok := t.StrVal(); ok {
		out := make([]int64, len(s))
		for i := 0; i < len(s); i++ {
			out[i] = int64(s[i])
		}
		return out
	}
	var els []*Term
	switch t.Op {
	case "slicev":
		els = t.Args
	case "sref":
		els = srefElems(t)
	default:
		return nil
	}
	out := make([]int64, len(els))
	for i, e := range els {
		v, ok := e.Int64()
		if !ok {
			return nil
		}
		out[i] = v
	}
	return out
}

// evalAt evaluates an integer term whose only symbolic leaf (by rendering) is `leaf`, at leaf = v.
func evalAt(t *Term, leaf string, v int64) (int64, bool) {
	if n, ok := t.Int64(); ok {
		return n, true
	}
	if !overTable(t) && t.String() == leaf {
		return v, true
	}
	switch t.Op {
	case "conv":
		x, ok := evalAt(t.Args[0], leaf, v)
		if !ok || !isIntType(t.Typ) {
			return 0, false
		}
		n, _ := wrapInt(x, t.Typ).Int64()
		return n, true
	case "index", "lookup":
		tab := constTable(t.Args[0])
		if tab == nil {
			if e := termAt(t, leaf, v); e != nil {
				return e.Int64()
			}
			return 0, false
		}
		i, ok := evalAt(t.Args[1], leaf, v)
		if !ok || i < 0 || i >= int64(len(tab)) {
			return 0, false
		}
		return tab[i], true
	case "field":
		if e := termAt(t, leaf, v); e != nil {
			return e.Int64()
		}
		return 0, false
	case "bin":
		x, ok1 := evalAt(t.Args[0], leaf, v)
		y, ok2 := evalAt(t.Args[1], leaf, v)
		if !ok1 || !ok2 {
			return 0, false
		}
		var r int64
		switch tokenOfBin(t.Name) {
		case token.ADD:
			r = x + y
		case token.SUB:
			r = x - y
		case token.MUL:
			r = x * y
		case token.QUO:
			if y == 0 {
				return 0, false
			}
			r = x / y
		case token.REM:
			if y == 0 {
				return 0, false
			}
			r = x % y
		case token.AND:
			r = x & y
		case token.OR:
			r = x | y
		case token.XOR:
			r = x ^ y
		case token.SHL:
			if y < 0 || y > 62 {
				return 0, false
			}
			r = x << uint(y)
		case token.SHR:
			if y < 0 || y > 62 {
				return 0, false
			}
			r = x >> uint(y)
		case token.AND_NOT:
			r = x &^ y
		default:
			return 0, false
		}
		if isIntType(t.Typ) {
			n, _ := wrapInt(r, t.Typ).Int64()
			return n, true
		}
		return r, true
	}
	return 0, false
}

func tokenOfBin(s string) token.Token {
	switch s {
	case "+":
		return token.ADD
	case "-":
		return token.SUB
	case "*":
		return token.MUL
	case "/":
		return token.QUO
	case "%":
		return token.REM
	case "&":
		return token.AND
	case "|":
		return token.OR
	case "^":
		return token.XOR
	case "<<":
		return token.SHL
	case ">>":
		return token.SHR
	case "&^":
		return token.AND_NOT
	}
	return token.ILLEGAL
}

func cmpHolds(op token.Token, x, n int64) bool {
	switch op {
	case token.EQL:
		return x == n
	case token.NEQ:
		return x != n
	case token.LSS:
		return x < n
	case token.LEQ:
		return x <= n
	case token.GTR:
		return x > n
	case token.GEQ:
		return x >= n
	}
	return false
}

func setOf(vals []int64) IntervalSet {
	var s IntervalSet
	for _, v := range vals { // vals ascending
		if n := len(s); n > 0 && s[n-1].Hi+1 == v {
			s[n-1].Hi = v
		} else {
			s = append(s, Interval{v, v})
		}
	}
	return s
}

func valuesOf(s IntervalSet) []int64 {
	var out []int64
	for _, iv := range s {
		for v := iv.Lo; v <= iv.Hi; v++ {
			out = append(out, v)
		}
	}
	return out
}

// finiteSplit: the values of the leaf's region for which `a op n` holds / does not hold. ok=false when the
// expression is not a function of one small-domain leaf.
func (w *Walker) finiteSplit(a *Term, op token.Token, n int64) (leaf *Term, sat, uns IntervalSet, ok bool) {
	if a.Op != "bin" && a.Op != "conv" && a.Op != "index" && a.Op != "lookup" && a.Op != "field" {
		return nil, nil, nil, false
	}
	leaf = soleLeaf(a)
	if leaf == nil {
		return nil, nil, nil, false
	}
	key := leaf.String()
	cur, has := w.state.Ints[key]
	if !has {
		cur = fullSet(leaf.Typ)
	}
	if regionSize(cur) > finiteMax {
		return nil, nil, nil, false
	}
	var sv, uv []int64
	for _, v := range valuesOf(cur) {
		x, ok := evalAt(a, key, v)
		if !ok {
			return nil, nil, nil, false
		}
		if cmpHolds(op, x, n) {
			sv = append(sv, v)
		} else {
			uv = append(uv, v)
		}
	}
	return leaf, setOf(sv), setOf(uv), true
}

// overTable: a selection out of a ground table (never the leaf itself; rendering it would be expensive).
func overTable(t *Term) bool {
	for i := 0; i < 8 && t != nil; i++ {
		switch t.Op {
		case "field":
			t = t.Args[0]
		case "index", "lookup":
			return len(t.Args[0].Args) > 8 && isGround(t.Args[0], 0)
		default:
			return false
		}
	}
	return false
}

// isGround: a literal aggregate of constants (a folded table of records).
func isGround(t *Term, depth int) bool {
	if t == nil || depth > 6 {
		return false
	}
	switch t.Op {
	case "const":
		return true
	case "zero":
		return true
	case "slicev", "struct":
		for _, a := range t.Args {
			if !isGround(a, depth+1) {
				return false
			}
		}
		return true
	}
	return false
}

// termAt resolves a selection (element, field) out of a ground table at leaf = v.
func termAt(t *Term, leaf string, v int64) *Term {
	switch t.Op {
	case "const", "zero", "slicev", "struct":
		return t
	case "field":
		in := termAt(t.Args[0], leaf, v)
		if in == nil || (in.Op != "struct" && in.Op != "zero") {
			return nil
		}
		return project(in, t.Name)
	case "index":
		base := termAt(t.Args[0], leaf, v)
		i, ok := evalAt(t.Args[1], leaf, v)
		if base == nil || !ok {
			return nil
		}
		if base.Op == "zero" {
			return zeroOf(elemType(base.Typ))
		}
		if base.Op != "slicev" || i < 0 || i >= int64(len(base.Args)) {
			return nil
		}
		return base.Args[i]
	}
	return nil
}

// finiteSplitBool: a boolean selected out of a ground table by one small-domain leaf (table[b].ok).
func (w *Walker) finiteSplitBool(c *Term) (leaf *Term, sat, uns IntervalSet, ok bool) {
	if c.Op != "field" && c.Op != "index" {
		return nil, nil, nil, false
	}
	leaf = soleLeaf(c)
	if os.Getenv("UHLINT_DEBUG") == "FIN" {
		fmt.Fprintf(os.Stderr, "finiteSplitBool %s leaf=%v inner=%s/%s\n", c.Op, leaf, c.Args[0].Op, c.Args[0].Args[0].Op)
	}
	if leaf == nil {
		return nil, nil, nil, false
	}
	key := leaf.String()
	cur, has := w.state.Ints[key]
	if !has {
		cur = fullSet(leaf.Typ)
	}
	if regionSize(cur) > finiteMax {
		return nil, nil, nil, false
	}
	var sv, uv []int64
	for _, v := range valuesOf(cur) {
		e := termAt(c, key, v)
		if os.Getenv("UHLINT_DEBUG") == "FIN" {
			fmt.Fprintf(os.Stderr, "  at %d: %v\n", v, e)
		}
		if e == nil {
			return nil, nil, nil, false
		}
		b, isB := e.BoolVal()
		if !isB {
			return nil, nil, nil, false
		}
		if b {
			sv = append(sv, v)
		} else {
			uv = append(uv, v)
		}
	}
	return leaf, setOf(sv), setOf(uv), true
}

var _ = types.Typ
