package main

import (
	"fmt"
	"go/ast"
	"go/token"
	"go/types"
	"os"
	"sort"
	"strings"

	"golang.org/x/tools/go/ssa"
)

// ---------------------------------------------------------------------------------------
// E2 KIND: facts about every field kind, derived from the codec's two reflection walks and
// from the MarshalUT0311L0x / UnmarshalUT0311L0x method bodies of the types package.
// ---------------------------------------------------------------------------------------

func visitTerm(t *Term, seen map[*Term]bool, f func(*Term)) {
	if t == nil || seen[t] {
		return
	}
	seen[t] = true
	f(t)
	switch t.Op {
	case "ptr":
		if t.Cell != nil && !t.Cell.Sym {
			visitTerm(t.Cell.Val, seen, f)
		}
	case "sref":
		if t.Cell != nil {
			visitTerm(t.Cell.Val, seen, f)
		}
	}
	for _, a := range t.Args {
		visitTerm(a, seen, f)
	}
}

func pathTerms(p Path, f func(*Term)) {
	seen := map[*Term]bool{}
	for _, e := range p.Events {
		for _, a := range e.Args {
			visitTerm(a, seen, f)
		}
		visitTerm(e.Result, seen, f)
	}
	for _, r := range p.Results {
		visitTerm(r, seen, f)
	}
	for _, t := range p.State.IntT {
		visitTerm(t, seen, f)
	}
	for _, t := range p.State.BoolT {
		visitTerm(t, seen, f)
	}
}

// relOffset: t == base + c ?
func relOffset(t *Term, base string) (int64, bool) {
	if t == nil {
		return 0, false
	}
	if t.String() == base {
		return 0, true
	}
	if t.Op == "bin" && t.Name == "+" {
		if t.Args[0].String() == base {
			if c, ok := t.Args[1].Int64(); ok {
				return c, true
			}
		}
		if t.Args[1].String() == base {
			if c, ok := t.Args[0].Int64(); ok {
				return c, true
			}
		}
	}
	return 0, false
}

type BufAccess struct {
	What  string // index | slice | store
	Lo    int64  // relative to the field offset (or absolute for header bytes)
	Hi    int64  // exclusive; -1 = open ended
	Abs   bool   // constant index (header)
	Unrel bool   // neither constant nor offset+c
	Dyn   bool   // upper bound is offset+len(marshaler output)
	Text  string
	Pos   token.Pos
}

// bufferAccesses lists every access to the message buffer parameter on a path.
func bufferAccesses(p Path, buf, offset string) []BufAccess {
	var out []BufAccess
	add := func(a BufAccess) { out = append(out, a) }
	classify := func(idx *Term) (int64, bool, bool) { // value, abs, ok
		if c, ok := idx.Int64(); ok {
			return c, true, true
		}
		if d, ok := relOffset(idx, offset); ok {
			return d, false, true
		}
		if idx.Op == "fresh" { // an index that went through a symbolic address keeps only its text
			if idx.Name == offset {
				return 0, false, true
			}
			if strings.HasPrefix(idx.Name, "("+offset+"+") && strings.HasSuffix(idx.Name, ")") {
				var c int64
				if _, err := fmt.Sscanf(idx.Name[len(offset)+2:len(idx.Name)-1], "%d", &c); err == nil {
					return c, false, true
				}
			}
		}
		return 0, false, false
	}
	pathTerms(p, func(t *Term) {
		switch t.Op {
		case "index":
			if t.Args[0].String() != buf {
				return
			}
			v, abs, ok := classify(t.Args[1])
			add(BufAccess{What: "index", Lo: v, Hi: v + 1, Abs: abs, Unrel: !ok, Text: t.String()})
		case "slice":
			if t.Args[0].String() != buf {
				return
			}
			a := BufAccess{What: "slice", Hi: -1, Text: t.String()}
			if t.Args[1] != nil {
				v, abs, ok := classify(t.Args[1])
				a.Lo, a.Abs, a.Unrel = v, abs, !ok
			} else {
				a.Abs = true
			}
			if t.Args[2] != nil {
				v, abs, ok := classify(t.Args[2])
				a.Hi = v
				if !ok {
					// offset + len(x): extent decided by the producer of x (a Marshaler)
					h := t.Args[2]
					if h.Op == "bin" && h.Name == "+" && h.Args[0].String() == offset && h.Args[1].Op == "len" {
						a.Dyn = true
						a.Hi = -1
						ok, abs = true, a.Abs
					} else {
						a.Unrel = true
					}
				}
				if abs != a.Abs && t.Args[1] != nil {
					a.Unrel = true
				}
			}
			add(a)
		}
	})
	for _, e := range p.Events {
		if e.Kind != "store" || len(e.Args) < 1 {
			continue
		}
		addr := e.Args[0]
		if addr.Op == "ptr" && addr.Cell != nil && addr.Cell.Sym && addr.Cell.Name != buf && addr.Cell.Val != nil && addr.Cell.Val.Op == "slice" && addr.Cell.Val.Args[0].String() == buf {
			// a store through a named view of the buffer (field := bytes[offset:offset+4]; field[i] = b): the view's
			// extent is what the field code may touch
			v := addr.Cell.Val
			a := BufAccess{What: "slice", Hi: -1, Text: v.String(), Pos: e.Pos}
			if v.Args[1] != nil {
				x, abs, ok := classify(v.Args[1])
				a.Lo, a.Abs, a.Unrel = x, abs, !ok
			} else {
				a.Abs = true
			}
			if v.Args[2] != nil {
				x, abs, ok := classify(v.Args[2])
				a.Hi = x
				if !ok || (abs != a.Abs && v.Args[1] != nil) {
					a.Unrel = true
				}
			}
			add(a)
			continue
		}
		if addr.Op != "ptr" || addr.Cell == nil || !addr.Cell.Sym || addr.Cell.Name != buf || len(addr.Path) != 1 {
			continue
		}
		sel := strings.TrimPrefix(addr.Path[0], "#")
		a := BufAccess{What: "store", Text: buf + "[" + sel + "]", Pos: e.Pos}
		var n int64
		if _, err := fmt.Sscanf(sel, "%d", &n); err == nil && fmt.Sprint(n) == sel {
			a.Lo, a.Hi, a.Abs = n, n+1, true
		} else if sel == offset {
			a.Lo, a.Hi = 0, 1
		} else if strings.HasPrefix(sel, "("+offset+"+") {
			var c int64
			fmt.Sscanf(strings.TrimSuffix(strings.TrimPrefix(sel, "("+offset+"+"), ")"), "%d", &c)
			a.Lo, a.Hi = c, c+1
		} else {
			a.Unrel = true
		}
		add(a)
	}
	return out
}

// codecTypeVars maps the codec's package-level reflect.Type variables to layout kinds.
func codecTypeVars(p *Program, l *LayoutEngine) map[string]string {
	out := map[string]string{}
	sp := p.SSAPkg(codecRel)
	if sp == nil {
		return out
	}
	for name, m := range sp.Members {
		g, ok := m.(*ssa.Global)
		if !ok {
			continue
		}
		if typeName(g.Type().Underlying().(*types.Pointer).Elem()) != "reflect.Type" {
			continue
		}
		if t := reflectTypeOfGlobal(g); t != nil {
			k, _ := l.KindOf(t)
			out["codec."+name] = k
		}
	}
	return out
}

type CodecPath struct {
	Kind   string // layout kind (uint16, ipv4, som, ...), "marshaler", "unmarshaler-value", "unmarshaler-pointer", "embedded", "untagged", "other"
	ValTag int    // 1 value tag present, 0 absent, -1 n/a
	Path   Path
	Access []BufAccess
	ErrNil int
	Calls  []Event
}

type CodecFacts struct {
	Dir      string // marshal | unmarshal
	Fn       *ssa.Function
	Paths    []CodecPath
	Buf      string
	Offset   string
	TypeVars map[string]string
	Exploded bool
	Kinds    map[string]bool
}

func errNilness(p Path, t *Term) int {
	switch nilness(t) {
	case 1:
		return 1
	case 0:
		return 0
	}
	if v, ok := p.State.Bools["isnil("+t.String()+")"]; ok {
		if v {
			return 1
		}
		return 0
	}
	return -1
}

// walkCodec walks codec.marshal or codec.unmarshal for exactly one struct field.
func walkCodec(p *Program, l *LayoutEngine, dir string) (*CodecFacts, error) {
	fn := p.Func(codecRel, dir)
	if fn == nil {
		return nil, fmt.Errorf("codec.%s not found", dir)
	}
	cf := &CodecFacts{Dir: dir, Fn: fn, TypeVars: codecTypeVars(p, l), Kinds: map[string]bool{}}
	w := NewWalker(p)
	w.LoopFuel = 2
	w.MaxPaths = 60000
	// in-package helpers are part of the codec; the recursion into embedded structs and the exported entry points stay events
	w.Inline = inlineHelpers([]*ssa.Package{p.SSAPkg(codecRel)}, func(f *ssa.Function) bool {
		return f == fn || (f.Object() != nil && f.Object().Exported())
	})
	args := make([]*Term, len(fn.Params))
	var sName string
	for i, prm := range fn.Params {
		args[i] = &Term{Op: "param", Name: prm.Name(), Typ: prm.Type()}
		if _, ok := prm.Type().Underlying().(*types.Slice); ok {
			cf.Buf = prm.Name()
		} else {
			sName = prm.Name()
		}
	}
	w.Assume = map[string]IntervalSet{
		"(reflect.Value).NumField(" + sName + ")":                           {{1, 1}},
		"invoke:reflect.Type.NumField((reflect.Value).Type(" + sName + "))": {{1, 1}},
	}
	// exactly one field is walked: a struct reached through that field (an embedded struct taken up by an
	// iterative walk instead of a recursive call) has no fields of its own in this walk
	w.AssumeFn = func(key string) (IntervalSet, bool) {
		if strings.HasPrefix(key, "(reflect.Value).NumField(") || strings.HasPrefix(key, "invoke:reflect.Type.NumField(") {
			return IntervalSet{{0, 0}}, true
		}
		return nil, false
	}
	if dir == "unmarshal" {
		w.Assume["len("+cf.Buf+")"] = IntervalSet{{64, 64}}
		w.Assume[cf.Buf+"[0]"] = IntervalSet{{0x17, 0x17}}
	}
	paths := w.Walk(fn, args, nil)
	cf.Exploded = w.Exploded
	for _, pa := range paths {
		if pa.Outcome == "truncated" {
			continue
		}
		cp := CodecPath{Path: pa, Kind: "other", ValTag: -1, ErrNil: -1}
		// the offset term: result #0 of strconv.Atoi on this path
		off := ""
		for _, e := range pa.Events {
			if e.Kind == "call" && e.Name == "strconv.Atoi" && e.Result != nil {
				off = e.Result.String() + "#0"
			}
		}
		if off != "" {
			cf.Offset = off
		}
		// classification from the decided atoms
		for k, v := range pa.State.Bools {
			if !v {
				continue
			}
			if strings.HasPrefix(k, "eq(codec.") || strings.HasPrefix(k, "eq(rtype(") {
				g := strings.TrimPrefix(k, "eq(")
				if strings.HasPrefix(g, "rtype(") {
					// a table keyed by type descriptors: the kind of the described type
					if e := strings.Index(g, "),"); e >= 0 {
						g = g[:e+1]
						if t, ok := w.RTypes[g]; ok {
							if kn, _ := l.KindOf(t); kn != "" {
								cf.TypeVars[g] = kn
							}
						}
					}
				} else {
					g = g[:strings.Index(g, ",")]
				}
				if kind, ok := cf.TypeVars[g]; ok {
					// inner switch kinds win over the outer SOM/MsgType switch (which they follow)
					if cp.Kind == "other" || cp.Kind == "untagged" || (kind != "som" && kind != "msgtype") {
						cp.Kind = kind
					}
				}
			}
		}
		for k, v := range pa.State.Bools {
			if v && strings.HasSuffix(k, ".Anonymous") {
				cp.Kind = "embedded"
			}
			if v && strings.HasPrefix(k, "typeis(") && strings.Contains(k, "arshaler") {
				if strings.Contains(k, "Addr(") {
					cp.Kind = "unmarshaler-value"
				} else if dir == "unmarshal" {
					cp.Kind = "unmarshaler-pointer"
				} else {
					cp.Kind = "marshaler"
				}
			}
		}
		for k, v := range pa.State.Bools {
			if strings.HasPrefix(k, "isnil((*regexp.Regexp).FindStringSubmatch(codec.") {
				re := strings.TrimPrefix(k, "isnil((*regexp.Regexp).FindStringSubmatch(")
				re = re[:strings.Index(re, ",")]
				// which regexp? decide by its source text
				isVal := false
				if g := p.SSAPkg(codecRel).Var(strings.TrimPrefix(re, "codec.")); g != nil {
					isVal = regexpSourceOf(p, g.Name()) == l.ReValSrc
				}
				if isVal {
					if v {
						cp.ValTag = 0
					} else {
						cp.ValTag = 1
					}
				} else if v && (cp.Kind == "other" || (cp.Kind != "som" && cp.Kind != "msgtype" && cp.Kind != "embedded")) {
					// no offset: clause: the field is skipped, whatever its type was found to be beforehand
					cp.Kind = "untagged"
				}
			}
		}
		for k, v := range pa.State.Bools {
			if !v && strings.HasPrefix(k, "(reflect.Value).CanSet(") && cp.Kind != "embedded" {
				cp.Kind = "unsettable" // skipped before its type matters
			}
		}
		if len(pa.Results) > 0 {
			cp.ErrNil = errNilness(pa, pa.Results[len(pa.Results)-1])
		}
		cp.Access = bufferAccesses(pa, cf.Buf, off)
		for _, e := range pa.Events {
			if e.Kind == "call" {
				cp.Calls = append(cp.Calls, e)
			}
		}
		cf.Kinds[cp.Kind] = true
		cf.Paths = append(cf.Paths, cp)
	}
	return cf, nil
}

func regexpSourceOf(p *Program, varName string) string {
	pkg := p.Pkg(codecRel)
	for _, f := range pkg.Syntax {
		for _, d := range f.Decls {
			gd, ok := d.(*ast.GenDecl)
			if !ok || gd.Tok != token.VAR {
				continue
			}
			for _, s := range gd.Specs {
				vs := s.(*ast.ValueSpec)
				for i, n := range vs.Names {
					if n.Name != varName || i >= len(vs.Values) {
						continue
					}
					if call, ok := vs.Values[i].(*ast.CallExpr); ok && len(call.Args) == 1 {
						if tv := pkg.TypesInfo.Types[call.Args[0]]; tv.Value != nil {
							s := tv.Value.ExactString()
							if u, err := unquote(s); err == nil {
								return u
							}
						}
					}
				}
			}
		}
	}
	return ""
}

func unquote(s string) (string, error) {
	var out string
	_, err := fmt.Sscanf(s, "%q", &out)
	return out, err
}

// ---- Marshaler / Unmarshaler types --------------------------------------------------------

type KindFacts struct {
	Name        string // types.Date
	Named       *types.Named
	MarshalFn   *ssa.Function
	UnmarshalFn *ssa.Function
	Sig         string
	Width       int64
	Widths      map[int64]bool
	SigDetail   string
	ReadExtent  int64
	ReadOpen    bool
	ReadUnrel   []string
	NilPanics   []string
	Alias       []string
	EncZeroImg  string // hex of the image emitted for the zero value ("" unknown)
	DecZeroSet  []string
	MPaths      []Path
	UPaths      []Path
	UNilPaths   []Path
	Order       map[string]bool // le / be callee families seen (marshal+unmarshal)
	MOrder      map[string]bool
	UOrder      map[string]bool
}

var timeVerbs = []string{"2006", "01", "02", "15", "04", "05", "06"}

func layoutDigits(layout string) (int, bool) {
	rest := layout
	n := 0
	for rest != "" {
		matched := false
		for _, v := range timeVerbs {
			if strings.HasPrefix(rest, v) {
				n += len(v)
				rest = rest[len(v):]
				matched = true
				break
			}
		}
		if !matched {
			return 0, false
		}
	}
	return n, true
}

func sprintfDigits(f string) (int, bool) {
	n := 0
	rest := f
	for rest != "" {
		if strings.HasPrefix(rest, "%02d") {
			n += 2
			rest = rest[4:]
			continue
		}
		return 0, false
	}
	return n, true
}

// zeroTimeDigits renders the zero time.Time (0001-01-01 00:00:00) under a pure-verb layout.
func zeroTimeDigits(layout string) string {
	r := strings.NewReplacer("2006", "0001", "15", "00", "04", "00", "05", "00")
	s := r.Replace(layout)
	// remaining two-digit verbs: 01 (month) 02 (day) 06 (year) -> all "01" for the zero time
	s = strings.ReplaceAll(s, "02", "01")
	s = strings.ReplaceAll(s, "06", "01")
	return s
}

func stripDeref(t *Term) *Term {
	for t != nil && (t.Op == "deref" || t.Op == "iface") {
		t = t.Args[0]
	}
	return t
}

func MarshalerKinds(p *Program, l *LayoutEngine) ([]*KindFacts, error) {
	tp := p.Pkg("types")
	if tp == nil {
		return nil, fmt.Errorf("types package not found")
	}
	var out []*KindFacts
	sc := tp.Types.Scope()
	for _, n := range sc.Names() {
		tn, ok := sc.Lookup(n).(*types.TypeName)
		if !ok {
			continue
		}
		named, ok := tn.Type().(*types.Named)
		if !ok {
			continue
		}
		k, _ := l.KindOf(named)
		if !strings.HasPrefix(k, "types.") && !strings.Contains(k, "-only:") {
			continue
		}
		kf := &KindFacts{Name: "types." + tn.Name(), Named: named, Widths: map[int64]bool{}, MOrder: map[string]bool{}, UOrder: map[string]bool{}}
		kf.MarshalFn = p.Func("types", tn.Name()+".MarshalUT0311L0x")
		if kf.MarshalFn == nil {
			kf.MarshalFn = p.Func("types", "(*"+tn.Name()+").MarshalUT0311L0x")
		}
		kf.UnmarshalFn = p.Func("types", "(*"+tn.Name()+").UnmarshalUT0311L0x")
		out = append(out, kf)
	}
	sort.Slice(out, func(i, j int) bool { return out[i].Name < out[j].Name })
	for _, kf := range out {
		if kf.MarshalFn != nil {
			analyseMarshal(p, kf)
		}
		if kf.UnmarshalFn != nil {
			analyseUnmarshal(p, kf)
		}
	}
	return out, nil
}

func endianOf(name string) string {
	switch {
	case strings.Contains(name, "littleEndian"):
		return "le"
	case strings.Contains(name, "bigEndian"):
		return "be"
	}
	return ""
}

func analyseMarshal(p *Program, kf *KindFacts) {
	fn := kf.MarshalFn
	w := NewWalker(p)
	w.Inline = typesHelpers(p)
	args := []*Term{{Op: "param", Name: "v", Typ: fn.Params[0].Type()}}
	paths := w.Walk(fn, args, nil)
	kf.MPaths = paths
	sigs := map[string]bool{}
	for _, pa := range paths {
		if pa.Outcome != "return" || len(pa.Results) != 2 {
			continue
		}
		if errNilness(pa, pa.Results[1]) != 1 {
			continue
		}
		res := pa.Results[0]
		// which byte order helpers ran on this path?
		var put string
		bits := 0
		rawCopy := false
		for _, e := range pa.Events {
			if e.Kind == "call" {
				if en := endianOf(e.Name); en != "" {
					kf.MOrder[en] = true
					put = en
					fmt.Sscanf(e.Name[strings.Index(e.Name, "PutUint")+7:], "%d", &bits)
				}
			}
			if e.Kind == "copy" && len(e.Args) == 2 && strings.HasPrefix(e.Args[1].String(), "v") {
				rawCopy = true
			}
		}
		switch {
		case res.Op == "sref":
			lo, _ := res.Args[0].Int64()
			hi, _ := res.Args[1].Int64()
			wd := hi - lo
			kf.Widths[wd] = true
			allConst := true
			img := ""
			for _, e := range srefElems(res) {
				if c, ok := e.Int64(); ok {
					img += fmt.Sprintf("%02x", c)
				} else {
					allConst = false
				}
			}
			switch {
			case put != "":
				sigs[fmt.Sprintf("u%d%s", wd*8, put)] = true
				if int64(bits) < wd*8 {
					kf.SigDetail += fmt.Sprintf("; PutUint%d fills only %d of %d bytes", bits, bits/8, wd)
				}
			case rawCopy:
				sigs[fmt.Sprintf("raw%d", wd)] = true
			case allConst && put == "":
				// a constant image: the value it stands for is given by the guard of this path
				if guardIsZero(pa) {
					kf.EncZeroImg = img
				}
			default:
				// the bytes of the value written out explicitly (shifts, AppendUintN)
				if ord, src := encodedOrder(srefElems(res)); ord != "" && strings.HasPrefix(src, "v") {
					kf.MOrder[ord] = true
					sigs[fmt.Sprintf("u%d%s", wd*8, ord)] = true
				} else if lay, why := packedCivilLayout(srefElems(res), pa); lay != "" {
					// the digits packed arithmetically, two per byte, from the civil fields of the stored instant (or the
					// decimal fields of the value): the bytes bcd.Encode yields for the text of that layout
					sigs["bcd:"+lay] = true
					if why != "" {
						kf.SigDetail += "; " + why
					}
				} else {
					sigs["?sref"] = true
				}
			}
		default:
			inner := stripDeref(res)
			if inner != nil && inner.Op == "extract" && inner.Args[0].Op == "call" && strings.HasSuffix(inner.Args[0].Name, "bcd.Encode") {
				arg := inner.Args[0].Args[0]
				if arg.Op == "call" && strings.HasSuffix(arg.Name, ".Format") && len(arg.Args) == 2 {
					if lay, ok := arg.Args[1].StrVal(); ok {
						if n, ok := layoutDigits(lay); ok {
							sigs["bcd:"+lay] = true
							kf.Widths[int64((n+1)/2)] = true
							// formats the stored instant directly?
							if stripConv(arg.Args[0]).String() != "v" {
								kf.SigDetail += "; Format receiver is " + arg.Args[0].String() + " (not the stored instant)"
							}
							continue
						}
					}
				}
				if f, fargs, ok := textOf(arg, 0); ok {
					f = canonicalDecimal(f, fargs, pa)
					if n, ok := sprintfDigits(f); ok {
						sigs["bcd:"+f] = true
						kf.Widths[int64((n+1)/2)] = true
						if d := componentOrder(fargs, "v"); d != "" {
							kf.SigDetail += "; " + d
						}
						continue
					}
				}
				sigs["?bcd("+arg.String()+")"] = true
			} else {
				sigs["?"+res.String()] = true
			}
		}
	}
	ss := []string{}
	for s := range sigs {
		ss = append(ss, s)
	}
	sort.Strings(ss)
	kf.Sig = strings.Join(ss, "|")
	if len(kf.Widths) == 1 {
		for wd := range kf.Widths {
			kf.Width = wd
		}
	} else {
		kf.Width = -1
	}
	// zero image when the encoder has no zero guard: BCD of the zero instant under the layout
	if kf.EncZeroImg == "" && strings.HasPrefix(kf.Sig, "bcd:") && !strings.Contains(kf.Sig, "%") && !strings.Contains(kf.Sig, "|") {
		kf.EncZeroImg = zeroTimeDigits(strings.TrimPrefix(kf.Sig, "bcd:"))
		if len(kf.EncZeroImg)%2 == 1 {
			kf.EncZeroImg = "0" + kf.EncZeroImg
		}
	}
}

// bcdPairOf: t is the byte (x/10)<<4 | x%10 (or *16, +): the two decimal digits of x, one per nibble. Returns x.
func bcdPairOf(t *Term) *Term {
	for t != nil && t.Op == "conv" && len(t.Args) == 1 {
		t = t.Args[0]
	}
	if t == nil || t.Op != "bin" || (t.Name != "|" && t.Name != "+") || len(t.Args) != 2 {
		return nil
	}
	strip := func(x *Term) *Term {
		for x != nil && x.Op == "conv" && len(x.Args) == 1 {
			x = x.Args[0]
		}
		return x
	}
	divmod := func(x *Term, op string, k int64) *Term {
		x = strip(x)
		if x == nil || x.Op != "bin" || x.Name != op || len(x.Args) != 2 {
			return nil
		}
		if c, ok := x.Args[1].Int64(); !ok || c != k {
			return nil
		}
		return x.Args[0]
	}
	for _, pr := range [][2]*Term{{t.Args[0], t.Args[1]}, {t.Args[1], t.Args[0]}} {
		hi, lo := strip(pr[0]), pr[1]
		var tens *Term
		if sh := divmod(hi, "<<", 4); sh != nil {
			tens = divmod(sh, "/", 10)
		} else if mu := divmod(hi, "*", 16); mu != nil {
			tens = divmod(mu, "/", 10)
		}
		ones := divmod(lo, "%", 10)
		if tens != nil && ones != nil && strip(tens).String() == strip(ones).String() {
			return strip(tens)
		}
	}
	return nil
}

// packedCivilLayout: the bytes are the BCD pairs of year/100, year%100, month, day, hour, minute, second of the
// stored instant v (in a prefix/suffix of that order), with the year known to lie in 0..9999 on this path; or the
// pairs of decimal fields of v known to lie in 0..99. Returns the time layout ("20060102150405") or the printf
// format ("%02d%02d") the bytes correspond to, and a remark when something about it is off.
func packedCivilLayout(els []*Term, pa Path) (string, string) {
	if len(els) == 0 {
		return "", ""
	}
	within := func(x *Term, lo, hi int64) bool {
		reg, ok := pa.State.Ints[x.String()]
		return ok && len(reg) > 0 && reg[0].Lo >= lo && reg[len(reg)-1].Hi <= hi
	}
	civil := func(x *Term) string {
		// Year/Month/Day/Hour/Minute/Second of v, or a component of v.Date() / v.Clock()
		for x != nil && x.Op == "conv" && len(x.Args) == 1 {
			x = x.Args[0]
		}
		if x == nil {
			return ""
		}
		ofV := func(recv *Term) bool {
			for recv != nil && recv.Op == "conv" && len(recv.Args) == 1 {
				recv = recv.Args[0]
			}
			return recv != nil && recv.String() == "v"
		}
		if x.Op == "call" && len(x.Args) == 1 && ofV(x.Args[0]) {
			switch x.Name {
			case "(time.Time).Year":
				return "year"
			case "(time.Time).Month":
				return "01"
			case "(time.Time).Day":
				return "02"
			case "(time.Time).Hour":
				return "15"
			case "(time.Time).Minute":
				return "04"
			case "(time.Time).Second":
				return "05"
			}
		}
		if x.Op == "extract" && len(x.Args) == 1 && x.Args[0].Op == "call" && len(x.Args[0].Args) == 1 && ofV(x.Args[0].Args[0]) {
			switch x.Args[0].Name + "#" + x.Name {
			case "(time.Time).Date#0":
				return "year"
			case "(time.Time).Date#1":
				return "01"
			case "(time.Time).Date#2":
				return "02"
			case "(time.Time).Clock#0":
				return "15"
			case "(time.Time).Clock#1":
				return "04"
			case "(time.Time).Clock#2":
				return "05"
			}
		}
		return ""
	}
	lay := ""
	why := ""
	fields := 0
	for _, e := range els {
		x := bcdPairOf(e)
		if x == nil {
			return "", ""
		}
		// century and year-in-century
		if x.Op == "bin" && len(x.Args) == 2 && (x.Name == "/" || x.Name == "%") {
			if c, ok := x.Args[1].Int64(); ok && c == 100 && civil(x.Args[0]) == "year" {
				y := x.Args[0]
				for y.Op == "conv" && len(y.Args) == 1 {
					y = y.Args[0]
				}
				if !within(y, 0, 9999) {
					why = "the year packed into two BCD bytes is not known to lie in 0..9999 on this path"
				}
				if x.Name == "/" {
					lay += "20"
				} else {
					lay += "06"
				}
				continue
			}
			return "", ""
		}
		if tok := civil(x); tok != "" && tok != "year" {
			lay += tok
			continue
		}
		// a decimal field of the value itself (v.hours): two digits only when it is known to be 0..99
		if strings.HasPrefix(x.String(), "v.") && !strings.ContainsAny(x.String(), "( ") {
			if !within(x, 0, 99) {
				why = "the field " + x.String() + " packed into one BCD byte is not known to lie in 0..99 on this path"
			}
			lay += "%02d"
			fields++
			continue
		}
		return "", ""
	}
	if fields > 0 && fields*4 != len(lay) {
		return "", "" // a mixture of instant fields and value fields
	}
	if fields == 0 {
		if _, ok := layoutDigits(lay); !ok {
			return "", ""
		}
	}
	return lay, why
}

// componentOrder: the variadic arguments of a Sprintf over a struct value are its integer fields in declaration order.
func componentOrder(els []*Term, recv string) string {
	var fields []string
	for _, e := range els {
		x := e
		for x != nil && (x.Op == "iface" || x.Op == "conv") {
			x = x.Args[0]
		}
		if x == nil || x.Op != "field" {
			return "format argument is not a field of the value: " + e.String()
		}
		fields = append(fields, x.Name)
		if st, ok := x.Args[0].Typ.Underlying().(*types.Struct); ok {
			idx := -1
			for i := 0; i < st.NumFields(); i++ {
				if st.Field(i).Name() == x.Name {
					idx = i
				}
			}
			if idx != len(fields)-1 {
				return fmt.Sprintf("components are written out of order: argument %d is field %s", len(fields), x.Name)
			}
		}
	}
	return ""
}

func stripConv(t *Term) *Term {
	for t != nil && (t.Op == "conv" || t.Op == "iface" || t.Op == "deref") {
		t = t.Args[0]
	}
	return t
}

// guardIsZero: the path condition contains a true IsZero(v) atom.
func guardIsZero(pa Path) bool {
	for k, v := range pa.State.Bools {
		if v && strings.Contains(k, "IsZero(") && strings.Contains(k, "v") {
			return true
		}
	}
	return false
}

func analyseUnmarshal(p *Program, kf *KindFacts) {
	fn := kf.UnmarshalFn
	run := func(recv *Term) []Path {
		w := NewWalker(p)
		w.Inline = typesHelpers(p)
		args := []*Term{recv, {Op: "param", Name: "b", Typ: fn.Params[1].Type()}}
		return w.Walk(fn, args, nil)
	}
	kf.UPaths = run(&Term{Op: "param", Name: "d", Typ: fn.Params[0].Type()})
	kf.UNilPaths = run(mkNil(fn.Params[0].Type()))
	for _, pa := range kf.UNilPaths {
		if pa.Outcome == "panic" {
			kf.NilPanics = append(kf.NilPanics, pa.Detail)
		}
	}
	for _, pa := range kf.UPaths {
		for _, a := range bufferAccesses(pa, "b", "\x00none") {
			if a.Unrel {
				kf.ReadUnrel = append(kf.ReadUnrel, a.Text)
				continue
			}
			if a.Hi < 0 {
				kf.ReadOpen = true
				continue
			}
			if a.Hi > kf.ReadExtent {
				kf.ReadExtent = a.Hi
			}
		}
		// whole-buffer reads by byte-order helpers / decoders
		for _, e := range pa.Events {
			if e.Kind != "call" {
				continue
			}
			if en := endianOf(e.Name); en != "" {
				kf.UOrder[en] = true
				bits := 0
				if i := strings.Index(e.Name, ".Uint"); i >= 0 {
					fmt.Sscanf(e.Name[i+5:], "%d", &bits)
				}
				for _, a := range e.Args {
					if a.String() == "b" && int64(bits/8) > kf.ReadExtent {
						kf.ReadExtent = int64(bits / 8)
					}
					if a.Op == "slice" && a.Args[0].String() == "b" {
						lo := int64(0)
						if a.Args[1] != nil {
							lo, _ = a.Args[1].Int64()
						}
						if lo+int64(bits/8) > kf.ReadExtent {
							kf.ReadExtent = lo + int64(bits/8)
						}
					}
					if a.Op == "sref" { // a local copy of buffer bytes: extent counted at the index reads
					}
				}
			}
		}
		// integers assembled from shifted bytes (no byte-order helper called)
		if pa.Outcome == "return" && len(pa.Results) > 0 {
			seenT := map[*Term]bool{}
			visitTerm(pa.Results[0], seenT, func(x *Term) {
				if x.Op == "bin" && (x.Name == "|" || x.Name == "+") {
					if ord, n := decodedOrder(x, "b"); ord != "" {
						kf.UOrder[ord] = true
						if int64(n) > kf.ReadExtent {
							kf.ReadExtent = int64(n)
						}
					}
				}
			})
			scan := func(t *Term) {
				if t == nil {
					return
				}
				visitTerm(t, seenT, func(x *Term) {
					if x.Op == "bin" && (x.Name == "|" || x.Name == "+") {
						if ord, n := decodedOrder(x, "b"); ord != "" {
							kf.UOrder[ord] = true
							if int64(n) > kf.ReadExtent {
								kf.ReadExtent = int64(n)
							}
						}
					}
				})
			}
			for _, cell := range pa.Cells {
				scan(cell.Val)
			}
			for _, cell := range pa.SymCells {
				scan(cell.Val)
			}
			for _, e := range pa.Events {
				if e.Kind == "store" {
					for _, a := range e.Args {
						scan(a)
					}
				}
			}
		}
		// aliasing: a reference to the input buffer in a result or stored through the receiver
		check := func(where string, t *Term) {
			seen := map[*Term]bool{}
			visitTerm(t, seen, func(x *Term) {
				if x.Op == "slice" && x.Args[0].String() == "b" {
					kf.Alias = append(kf.Alias, where+": "+x.String())
				}
				if x.Op == "param" && x.Name == "b" {
					// the parameter itself reachable as a value (not as base of an index read)
				}
			})
		}
		if pa.Outcome == "return" && len(pa.Results) > 0 {
			r0 := pa.Results[0]
			if r0.String() == "b" {
				kf.Alias = append(kf.Alias, "result is the input slice")
			}
			checkResultAlias(r0, "result", &kf.Alias)
			_ = check
		}
		for _, e := range pa.Events {
			if e.Kind == "store" && len(e.Args) == 2 {
				checkResultAlias(e.Args[1], "store through receiver", &kf.Alias)
			}
		}
		// decoder zero-recognition set
		if pa.Outcome == "return" && len(pa.Results) == 2 && errNilness(pa, pa.Results[1]) == 1 {
			m := map[string]*Term{}
			flatten("r", pa.Results[0], m, true)
			isZero := len(m) == 1 && (m["r"] != nil && (m["r"].Name == "zero" || m["r"].Name == "nil"))
			if isZero && os.Getenv("UHLINT_DEBUG") == "K9" {
				fmt.Fprintf(os.Stderr, "K9 %s zero path: %s\n", kf.Name, pa.State.Describe())
			}
			if isZero {
				for k, v := range pa.State.Strs {
					if v.eq != nil && strings.Contains(k, "bcd.Decode") {
						kf.DecZeroSet = append(kf.DecZeroSet, "digits:"+*v.eq)
					}
				}
				for k, v := range pa.State.Bools {
					if v && strings.HasPrefix(k, "bytes.Equal(") {
						if img := constBytesIn(pa, k); img != "" {
							kf.DecZeroSet = append(kf.DecZeroSet, "bytes:"+img)
						}
					}
				}
				// the field compared as a whole with a constant in another guise: string(b[0:n]) == "...", or the
				// integer a byte-order helper reads from b[0:n] pinned to one value
				for k, v := range pa.State.Strs {
					if v.eq != nil && strings.HasPrefix(k, "conv<string>(b[0:") && strings.HasSuffix(k, "])") {
						var n int
						if _, err := fmt.Sscanf(k, "conv<string>(b[0:%d])", &n); err == nil && n == len(*v.eq) {
							kf.DecZeroSet = append(kf.DecZeroSet, "bytes:"+fmt.Sprintf("%x", *v.eq))
						}
					}
				}
				for k, reg := range pa.State.Ints {
					if len(reg) != 1 || reg[0].Lo != reg[0].Hi {
						continue
					}
					t := pa.State.IntT[k]
					if t == nil || t.Op != "call" || len(t.Args) == 0 {
						continue
					}
					en, bits := endianOf(t.Name), uintBits(t.Name)
					a := t.Args[len(t.Args)-1]
					if en == "" || bits == 0 || a.Op != "slice" || a.Args[0].String() != "b" || a.Args[2] == nil {
						continue
					}
					if lo, ok := a.Args[1].Int64(); a.Args[1] != nil && (!ok || lo != 0) {
						continue
					}
					if hi, ok := a.Args[2].Int64(); !ok || hi != int64(bits/8) {
						continue
					}
					img := ""
					for i := 0; i < bits/8; i++ {
						sh := uint(8 * i)
						if en == "be" {
							sh = uint(bits - 8 - 8*i)
						}
						img += fmt.Sprintf("%02x", (uint64(reg[0].Lo)>>sh)&0xff)
					}
					kf.DecZeroSet = append(kf.DecZeroSet, "bytes:"+img)
				}
			}
		}
	}
	sort.Strings(kf.DecZeroSet)
	kf.DecZeroSet = uniq(kf.DecZeroSet)
	kf.Alias = uniq(kf.Alias)
	kf.NilPanics = uniq(kf.NilPanics)
}

// checkResultAlias reports slices of the input buffer reachable from a value by reference.
func checkResultAlias(t *Term, where string, out *[]string) {
	seen := map[*Term]bool{}
	var walk func(x *Term, viaCall bool)
	walk = func(x *Term, viaCall bool) {
		if x == nil || seen[x] {
			return
		}
		seen[x] = true
		switch x.Op {
		case "slice":
			if x.Args[0].String() == "b" && !viaCall {
				*out = append(*out, where+" holds "+x.String())
			}
			return
		case "param":
			if x.Name == "b" && !viaCall {
				*out = append(*out, where+" holds the input slice")
			}
			return
		case "index", "lookup", "len", "cmp", "bin":
			return // element values, not references
		case "call":
			// pure std decoders do not retain their arguments (trusted base); conversions do
			return
		case "ptr":
			if x.Cell != nil && !x.Cell.Sym {
				v := x.Cell.Val
				for _, s := range x.Path {
					v = project(v, s)
				}
				walk(v, viaCall)
			}
			return
		case "sref":
			for _, e := range srefElems(x) {
				walk(e, viaCall)
			}
			return
		}
		for _, a := range x.Args {
			walk(a, viaCall)
		}
	}
	walk(t, false)
}

func constBytesIn(pa Path, atom string) string {
	// find the bytes.Equal call event whose rendering equals atom and take its constant operand
	for _, e := range pa.Events {
		if e.Kind == "call" && e.Name == "bytes.Equal" && e.Result != nil && e.Result.String() == atom {
			for _, a := range e.Args {
				if a.Op == "sref" {
					img := ""
					ok := true
					for _, el := range srefElems(a) {
						if c, o := el.Int64(); o {
							img += fmt.Sprintf("%02x", c)
						} else {
							ok = false
						}
					}
					if ok {
						return img
					}
				}
			}
		}
	}
	return ""
}

func uniq(s []string) []string {
	sort.Strings(s)
	var out []string
	for i, x := range s {
		if i == 0 || x != s[i-1] {
			out = append(out, x)
		}
	}
	return out
}

// uintBits: the width of the integer a byte-order helper reads ((binary.bigEndian).Uint32 -> 32); 0 otherwise.
func uintBits(name string) int {
	bits := 0
	if i := strings.Index(name, ".Uint"); i >= 0 {
		fmt.Sscanf(name[i+5:], "%d", &bits)
	}
	switch bits {
	case 16, 32, 64:
		return bits
	}
	return 0
}
