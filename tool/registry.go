package main

import (
	"fmt"
	"go/constant"
	"go/token"
	"go/types"
	"sort"

	"golang.org/x/tools/go/ssa"
)

// Registry: a package-level map[byte]func() I literal and the type each constructor allocates.
type RegEntry struct {
	Key    int64
	Type   string // qualified layout name, "" if the constructor is not `new(T)` / `&T{}`
	Pos    token.Pos
	Detail string
}

type Registry struct {
	Var     *types.Var
	Entries []RegEntry
	Pos     token.Pos
}

// registryUsedBy finds the package-level map variable that function fn (e.g. UnmarshalRequest) looks up.
func registryUsedBy(p *Program, fn *ssa.Function) *types.Var {
	if fn == nil {
		return nil
	}
	var found *types.Var
	visitInstrs(fn, nil, 0, map[*ssa.Function]bool{}, func(in ssa.Instruction, env *cfEnv) {
		if found != nil {
			return
		}
		switch x := in.(type) {
		case *ssa.Lookup:
			if _, isMap := x.X.Type().Underlying().(*types.Map); !isMap {
				return
			}
			if g := globalLoaded(x.X, env, 0); g != nil {
				if v, ok := g.Object().(*types.Var); ok {
					found = v
				}
			}
		case *ssa.IndexAddr:
			// the array (or slice) form of the table: indexed directly by the function code
			var g *ssa.Global
			switch b := x.X.(type) {
			case *ssa.Global:
				g = b
			default:
				g = globalLoaded(x.X, env, 0)
			}
			if g == nil || g.Pkg == nil || !inModule(g.Pkg.Func("init")) {
				return
			}
			et := elemType(g.Type().Underlying().(*types.Pointer).Elem())
			if et == nil {
				return
			}
			if _, isFn := et.Underlying().(*types.Signature); !isFn && typeName(et) != "reflect.Type" && !isCodeCtorRecord(et) {
				return
			}
			if v, ok := g.Object().(*types.Var); ok {
				found = v
			}
		}
	})
	return found
}

// extractRegistry reads the dispatcher table from the package initialiser: a map made there, filled with
// (constant function code -> constructor) entries and stored into the variable. The type a constructor
// allocates is read from its body (whatever its form: function literal, named function, generic
// instantiation): every return hands out a fresh allocation of one tagged message struct.
func extractRegistry(p *Program, v *types.Var) (*Registry, error) {
	reg := &Registry{Var: v, Pos: v.Pos()}
	spkg := p.SSAPkgs[v.Pkg().Path()]
	if spkg == nil {
		return nil, fmt.Errorf("registry %s: package not loaded", v.Name())
	}
	g, _ := spkg.Members[v.Name()].(*ssa.Global)
	init := spkg.Func("init")
	if g == nil || init == nil {
		return nil, fmt.Errorf("registry %s: variable or initialiser not found", v.Name())
	}
	var mk ssa.Value
	for _, sv := range storedInto(init, g) {
		if mk != nil {
			// stored element by element (an array literal indexed by function code) or in several steps: read
			// off the evaluated state of the package after initialisation
			return registryFromInitState(p, v, g)
		}
		mk = sv
	}
	mm, ok := mk.(*ssa.MakeMap)
	if !ok {
		return registryFromInitState(p, v, g)
	}
	for _, b := range init.Blocks {
		for _, in := range b.Instrs {
			mu, ok := in.(*ssa.MapUpdate)
			if !ok || mu.Map != ssa.Value(mm) {
				continue
			}
			kc, ok := mu.Key.(*ssa.Const)
			if !ok || kc.Value == nil {
				return nil, fmt.Errorf("registry %s: non-constant key at %s", v.Name(), p.Pos(mu.Pos()))
			}
			k, _ := constant.Int64Val(constant.ToInt(kc.Value))
			ent := RegEntry{Key: k, Pos: mu.Pos()}
			var ctor *ssa.Function
			switch f := mu.Value.(type) {
			case *ssa.Function:
				ctor = f
			case *ssa.MakeClosure:
				ctor, _ = f.Fn.(*ssa.Function)
			case *ssa.ChangeType:
				if ff, ok := f.X.(*ssa.Function); ok {
					ctor = ff
				}
			}
			if ctor != nil {
				if !ent.Pos.IsValid() {
					ent.Pos = ctor.Pos()
				}
				ent.Type, ent.Detail = constructedType(ctor, 0)
			} else {
				ent.Detail = "the table entry is not a function"
			}
			reg.Entries = append(reg.Entries, ent)
		}
	}
	if len(reg.Entries) == 0 {
		return registryFromInitState(p, v, g)
	}
	sort.Slice(reg.Entries, func(i, j int) bool { return reg.Entries[i].Key < reg.Entries[j].Key })
	return reg, nil
}

// isCodeCtorRecord: a record {function code, constructor}: a struct with exactly one integer field and one field
// of function (or reflect.Type) type - the element of a registry kept as a (sorted) slice.
func isCodeCtorRecord(t types.Type) bool {
	st, ok := t.Underlying().(*types.Struct)
	if !ok || st.NumFields() != 2 {
		return false
	}
	ints, fns := 0, 0
	for i := 0; i < 2; i++ {
		ft := st.Field(i).Type()
		if isIntType(ft) {
			ints++
		}
		if _, isFn := ft.Underlying().(*types.Signature); isFn || typeName(ft) == "reflect.Type" {
			fns++
		}
	}
	return ints == 1 && fns == 1
}

// registryFromInitState: the table is built by running code during package initialisation (register calls,
// a loop over prototypes): its entries are read off the evaluated state of the package after initialisation.
func registryFromInitState(p *Program, v *types.Var, g *ssa.Global) (*Registry, error) {
	reg := &Registry{Var: v, Pos: v.Pos()}
	if !p.initFrozen(g) {
		return nil, fmt.Errorf("registry %s is written after package initialisation", v.Name())
	}
	st := p.initStateOf(g.Pkg)
	if !st.ok {
		return nil, fmt.Errorf("registry %s: package initialisation could not be evaluated (%s)", v.Name(), st.why)
	}
	val := st.vals[g]
	if val == nil {
		return nil, fmt.Errorf("registry %s is not assigned during initialisation", v.Name())
	}
	add := func(k int64, e *Term) {
		ent := RegEntry{Key: k, Pos: v.Pos()}
		switch {
		case e.Op == "closure" && e.Fn != nil:
			ent.Pos = e.Fn.Pos()
			ent.Type, ent.Detail = constructedType(e.Fn, 0)
		case e.Op == "rtype" && e.Dyn != nil:
			if nt, ok := types.Unalias(e.Dyn).(*types.Named); ok && nt.Obj().Pkg() != nil {
				ent.Type = relPkg(nt.Obj().Pkg().Path()) + "." + nt.Obj().Name()
			} else {
				ent.Detail = "the table entry describes " + typeName(e.Dyn) + ", not a message struct"
			}
		default:
			ent.Detail = "the table entry is not a function"
		}
		reg.Entries = append(reg.Entries, ent)
	}
	// a slice of {code, constructor} records
	recs := []*Term(nil)
	switch val.Op {
	case "slicev":
		recs = val.Args
	case "sref":
		recs = srefElems(val)
	}
	if len(recs) > 0 && recs[0].Typ != nil && isCodeCtorRecord(recs[0].Typ) {
		for _, rec := range recs {
			ms := materialiseStruct(rec)
			if ms == nil {
				return nil, fmt.Errorf("registry %s: entry %s is not a record", v.Name(), cut(rec.String(), 40))
			}
			var key *Term
			var ctor *Term
			for i := range ms.FNames {
				if isIntType(ms.Args[i].Typ) {
					key = ms.Args[i]
				} else {
					ctor = ms.Args[i]
				}
			}
			k, ok := key.Int64()
			if !ok || ctor == nil {
				return nil, fmt.Errorf("registry %s: non-constant key %s", v.Name(), key.String())
			}
			add(k, ctor)
		}
		sort.Slice(reg.Entries, func(i, j int) bool { return reg.Entries[i].Key < reg.Entries[j].Key })
		return reg, nil
	}
	switch val.Op {
	case "mapv":
		for i := 0; i+1 < len(val.Args); i += 2 {
			k, ok := val.Args[i].Int64()
			if !ok {
				return nil, fmt.Errorf("registry %s: non-constant key %s", v.Name(), val.Args[i].String())
			}
			add(k, val.Args[i+1])
		}
	case "slicev":
		for k, e := range val.Args {
			if e.IsNilConst() || e.Op == "zero" {
				continue
			}
			add(int64(k), e)
		}
	case "sref":
		for k, e := range srefElems(val) {
			if e.IsNilConst() || e.Op == "zero" {
				continue
			}
			add(int64(k), e)
		}
	default:
		return nil, fmt.Errorf("registry %s: value after initialisation is not a table (%s)", v.Name(), cut(val.String(), 60))
	}
	if len(reg.Entries) == 0 {
		return nil, fmt.Errorf("registry %s has no entries", v.Name())
	}
	sort.Slice(reg.Entries, func(i, j int) bool { return reg.Entries[i].Key < reg.Entries[j].Key })
	return reg, nil
}

// constructedType: the named struct type a constructor allocates afresh on every return.
func constructedType(fn *ssa.Function, depth int) (string, string) {
	if fn == nil || fn.Blocks == nil || depth > 3 {
		return "", "constructor has no body"
	}
	name := ""
	for _, b := range fn.Blocks {
		for _, in := range b.Instrs {
			ret, ok := in.(*ssa.Return)
			if !ok {
				continue
			}
			if len(ret.Results) != 1 {
				return "", "constructor does not return exactly one value"
			}
			v := ret.Results[0]
			for {
				switch x := v.(type) {
				case *ssa.MakeInterface:
					v = x.X
					continue
				case *ssa.ChangeInterface:
					v = x.X
					continue
				case *ssa.ChangeType:
					v = x.X
					continue
				}
				break
			}
			var n string
			switch x := v.(type) {
			case *ssa.Alloc:
				if !x.Heap {
					return "", "constructor returns something other than a fresh allocation"
				}
				if nt, ok := types.Unalias(x.Type().Underlying().(*types.Pointer).Elem()).(*types.Named); ok && nt.Obj().Pkg() != nil {
					n = relPkg(nt.Obj().Pkg().Path()) + "." + nt.Obj().Name()
				}
			case *ssa.Call:
				if f := x.Call.StaticCallee(); f != nil && inModule(f) {
					n, _ = constructedType(f, depth+1)
				}
			}
			if n == "" {
				return "", "constructor does not return a freshly allocated message struct"
			}
			if name != "" && name != n {
				return "", "constructor returns different types"
			}
			name = n
		}
	}
	if name == "" {
		return "", "constructor does not return a freshly allocated message struct"
	}
	return name, ""
}
