package main

import (
	"fmt"
	"go/ast"
	"go/constant"
	"go/token"
	"go/types"
	"sort"

	"golang.org/x/tools/go/ssa"
)

// Registry: a package-level map[byte]func() I literal and the type each constructor allocates.
type RegEntry struct {
	Key    int64
	Type   string // qualified layout name, "" if the constructor is not `new(T)` / `&T{}`
	Pos    token.Pos
	Detail string
}

type Registry struct {
	Var     *types.Var
	Entries []RegEntry
	Pos     token.Pos
}

// registryUsedBy finds the package-level map variable that function fn (e.g. UnmarshalRequest) looks up.
func registryUsedBy(p *Program, fn *ssa.Function) *types.Var {
	if fn == nil {
		return nil
	}
	var found *types.Var
	visitInstrs(fn, nil, 0, map[*ssa.Function]bool{}, func(in ssa.Instruction, env *cfEnv) {
		lk, ok := in.(*ssa.Lookup)
		if !ok || found != nil {
			return
		}
		if _, isMap := lk.X.Type().Underlying().(*types.Map); !isMap {
			return
		}
		if g := globalLoaded(lk.X, env, 0); g != nil {
			if v, ok := g.Object().(*types.Var); ok {
				found = v
			}
		}
	})
	return found
}

func extractRegistry(p *Program, v *types.Var) (*Registry, error) {
	pkg := p.ByPath[v.Pkg().Path()]
	reg := &Registry{Var: v, Pos: v.Pos()}
	var lit *ast.CompositeLit
	for _, f := range pkg.Syntax {
		for _, d := range f.Decls {
			gd, ok := d.(*ast.GenDecl)
			if !ok || gd.Tok != token.VAR {
				continue
			}
			for _, s := range gd.Specs {
				vs := s.(*ast.ValueSpec)
				for i, n := range vs.Names {
					if pkg.TypesInfo.Defs[n] == v && i < len(vs.Values) {
						lit, _ = vs.Values[i].(*ast.CompositeLit)
					}
				}
			}
		}
	}
	if lit == nil {
		return nil, fmt.Errorf("registry %s is not initialised by a map literal", v.Name())
	}
	for _, el := range lit.Elts {
		kv, ok := el.(*ast.KeyValueExpr)
		if !ok {
			return nil, fmt.Errorf("registry %s: non key:value element", v.Name())
		}
		tv := pkg.TypesInfo.Types[kv.Key]
		if tv.Value == nil {
			return nil, fmt.Errorf("registry %s: non-constant key at %s", v.Name(), p.Pos(kv.Key.Pos()))
		}
		k, _ := constant.Int64Val(constant.ToInt(tv.Value))
		ent := RegEntry{Key: k, Pos: kv.Pos()}
		if fl, ok := kv.Value.(*ast.FuncLit); ok && len(fl.Body.List) == 1 {
			if rs, ok := fl.Body.List[0].(*ast.ReturnStmt); ok && len(rs.Results) == 1 {
				t := pkg.TypesInfo.TypeOf(rs.Results[0])
				if pt, ok := t.(*types.Pointer); ok {
					if n, ok := types.Unalias(pt.Elem()).(*types.Named); ok {
						ent.Type = relPkg(n.Obj().Pkg().Path()) + "." + n.Obj().Name()
					}
				}
			}
		}
		if ent.Type == "" {
			ent.Detail = "constructor is not a single `return new(T)`"
		}
		reg.Entries = append(reg.Entries, ent)
	}
	sort.Slice(reg.Entries, func(i, j int) bool { return reg.Entries[i].Key < reg.Entries[j].Key })
	return reg, nil
}
