package main

import (
	"fmt"
	"go/constant"
	"go/token"
	"go/types"
	"sort"

	"golang.org/x/tools/go/ssa"
)

// Registry: a package-level map[byte]func() I literal and the type each constructor allocates.
type RegEntry struct {
	Key    int64
	Type   string // qualified layout name, "" if the constructor is not `new(T)` / `&T{}`
	Pos    token.Pos
	Detail string
}

type Registry struct {
	Var     *types.Var
	Entries []RegEntry
	Pos     token.Pos
}

// registryUsedBy finds the package-level map variable that function fn (e.g. UnmarshalRequest) looks up.
func registryUsedBy(p *Program, fn *ssa.Function) *types.Var {
	if fn == nil {
		return nil
	}
	var found *types.Var
	visitInstrs(fn, nil, 0, map[*ssa.Function]bool{}, func(in ssa.Instruction, env *cfEnv) {
		lk, ok := in.(*ssa.Lookup)
		if !ok || found != nil {
			return
		}
		if _, isMap := lk.X.Type().Underlying().(*types.Map); !isMap {
			return
		}
		if g := globalLoaded(lk.X, env, 0); g != nil {
			if v, ok := g.Object().(*types.Var); ok {
				found = v
			}
		}
	})
	return found
}

// extractRegistry reads the dispatcher table from the package initialiser: a map made there, filled with
// (constant function code -> constructor) entries and stored into the variable. The type a constructor
// allocates is read from its body (whatever its form: function literal, named function, generic
// instantiation): every return hands out a fresh allocation of one tagged message struct.
func extractRegistry(p *Program, v *types.Var) (*Registry, error) {
	reg := &Registry{Var: v, Pos: v.Pos()}
	spkg := p.SSAPkgs[v.Pkg().Path()]
	if spkg == nil {
		return nil, fmt.Errorf("registry %s: package not loaded", v.Name())
	}
	g, _ := spkg.Members[v.Name()].(*ssa.Global)
	init := spkg.Func("init")
	if g == nil || init == nil {
		return nil, fmt.Errorf("registry %s: variable or initialiser not found", v.Name())
	}
	var mk ssa.Value
	for _, sv := range storedInto(init, g) {
		if mk != nil {
			return nil, fmt.Errorf("registry %s is assigned more than once", v.Name())
		}
		mk = sv
	}
	mm, ok := mk.(*ssa.MakeMap)
	if !ok {
		return nil, fmt.Errorf("registry %s is not initialised by a map literal", v.Name())
	}
	for _, b := range init.Blocks {
		for _, in := range b.Instrs {
			mu, ok := in.(*ssa.MapUpdate)
			if !ok || mu.Map != ssa.Value(mm) {
				continue
			}
			kc, ok := mu.Key.(*ssa.Const)
			if !ok || kc.Value == nil {
				return nil, fmt.Errorf("registry %s: non-constant key at %s", v.Name(), p.Pos(mu.Pos()))
			}
			k, _ := constant.Int64Val(constant.ToInt(kc.Value))
			ent := RegEntry{Key: k, Pos: mu.Pos()}
			var ctor *ssa.Function
			switch f := mu.Value.(type) {
			case *ssa.Function:
				ctor = f
			case *ssa.MakeClosure:
				ctor, _ = f.Fn.(*ssa.Function)
			case *ssa.ChangeType:
				if ff, ok := f.X.(*ssa.Function); ok {
					ctor = ff
				}
			}
			if ctor != nil {
				if !ent.Pos.IsValid() {
					ent.Pos = ctor.Pos()
				}
				ent.Type, ent.Detail = constructedType(ctor, 0)
			} else {
				ent.Detail = "the table entry is not a function"
			}
			reg.Entries = append(reg.Entries, ent)
		}
	}
	if len(reg.Entries) == 0 {
		return nil, fmt.Errorf("registry %s has no entries", v.Name())
	}
	sort.Slice(reg.Entries, func(i, j int) bool { return reg.Entries[i].Key < reg.Entries[j].Key })
	return reg, nil
}

// constructedType: the named struct type a constructor allocates afresh on every return.
func constructedType(fn *ssa.Function, depth int) (string, string) {
	if fn == nil || fn.Blocks == nil || depth > 3 {
		return "", "constructor has no body"
	}
	name := ""
	for _, b := range fn.Blocks {
		for _, in := range b.Instrs {
			ret, ok := in.(*ssa.Return)
			if !ok {
				continue
			}
			if len(ret.Results) != 1 {
				return "", "constructor does not return exactly one value"
			}
			v := ret.Results[0]
			for {
				switch x := v.(type) {
				case *ssa.MakeInterface:
					v = x.X
					continue
				case *ssa.ChangeInterface:
					v = x.X
					continue
				case *ssa.ChangeType:
					v = x.X
					continue
				}
				break
			}
			var n string
			switch x := v.(type) {
			case *ssa.Alloc:
				if !x.Heap {
					return "", "constructor returns something other than a fresh allocation"
				}
				if nt, ok := types.Unalias(x.Type().Underlying().(*types.Pointer).Elem()).(*types.Named); ok && nt.Obj().Pkg() != nil {
					n = relPkg(nt.Obj().Pkg().Path()) + "." + nt.Obj().Name()
				}
			case *ssa.Call:
				if f := x.Call.StaticCallee(); f != nil && inModule(f) {
					n, _ = constructedType(f, depth+1)
				}
			}
			if n == "" {
				return "", "constructor does not return a freshly allocated message struct"
			}
			if name != "" && name != n {
				return "", "constructor returns different types"
			}
			name = n
		}
	}
	if name == "" {
		return "", "constructor does not return a freshly allocated message struct"
	}
	return name, ""
}
