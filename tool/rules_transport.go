package main

import (
	"fmt"
	"go/token"
	"go/types"
	"os"
	"sort"
	"strings"

	"golang.org/x/tools/go/ssa"
)

// ---------------------------------------------------------------------------------------
// Transport rules T1-T10 over the socket functions of package uhppote (the functions that open
// a socket: structural definition, no identifiers).
// ---------------------------------------------------------------------------------------

type SocketFn struct {
	Fn     *ssa.Function
	Name   string
	Opens  string // callee that opens the socket
	Paths  []Path
	Trunc  int
	IsDial bool
	Listen bool // returns only error and starts goroutines: the event listener
}

// T14: the list of replies a driver's discovery broadcast returns may still be appended to by the driver's reader
// goroutine (it shares the backing array until the socket is closed): the API layer only reads it - no element is
// stored, and it is handed to no function that reorders, compacts or clears a slice in place.
func RuleRepliesReadOnly(r *Report, p *Program) {
	r.Rule("T14", "the list of replies returned by the driver's broadcast is only read by its callers (never compacted, sorted or written in place)", 1)
	up := p.SSAPkg("uhppote")
	n := 0
	for _, fn := range p.AllFuncs {
		if pkgOf(fn) != up {
			continue
		}
		for _, b := range fn.Blocks {
			for _, in := range b.Instrs {
				call, ok := in.(*ssa.Call)
				if !ok {
					continue
				}
				// a call (static or through the driver interface) whose first result is a list of byte slices
				res := call.Call.Signature().Results()
				if res.Len() == 0 {
					continue
				}
				sl, ok := res.At(0).Type().Underlying().(*types.Slice)
				if !ok || !isByteSlice(sl.Elem()) {
					continue
				}
				name := ""
				if call.Call.IsInvoke() {
					name = call.Call.Method.Name()
				} else if f := call.Call.StaticCallee(); f != nil && pkgOf(f) == up {
					name = f.Name()
				}
				if name == "" || call.Referrers() == nil {
					continue
				}
				for _, ref := range *call.Referrers() {
					ex, ok := ref.(*ssa.Extract)
					if !ok || ex.Index != 0 {
						continue
					}
					n++
					key := name + " in " + calleeName(fn)
					if listOnlyRead(ex, 0, map[ssa.Value]bool{}) {
						r.OK("T14", key, p.Pos(call.Pos()), "only read", true)
					} else {
						r.Bad("T14", key, p.Pos(call.Pos()), "the list of replies returned by "+name+" is written, reordered or handed to a function that may write it, while the driver's reader goroutine can still append to the same backing array")
					}
				}
			}
		}
	}
}

// listOnlyRead: the list itself (not what its elements refer to) is only read: ranged over, indexed for loading,
// measured, returned, viewed, or handed to a function of the module that only reads it in this sense.
func listOnlyRead(v ssa.Value, depth int, seen map[ssa.Value]bool) bool {
	if depth > 6 {
		return false
	}
	if seen[v] || v.Referrers() == nil {
		return true
	}
	seen[v] = true
	for _, ref := range *v.Referrers() {
		switch x := ref.(type) {
		case *ssa.DebugRef, *ssa.Range, *ssa.Return, *ssa.Index, *ssa.If:
		case *ssa.BinOp: // comparison with nil
		case *ssa.IndexAddr:
			if x.Referrers() != nil {
				for _, r2 := range *x.Referrers() {
					switch y := r2.(type) {
					case *ssa.UnOp, *ssa.DebugRef:
					case *ssa.Store:
						if y.Addr == ssa.Value(x) {
							return false
						}
					default:
						return false
					}
				}
			}
		case *ssa.Slice, *ssa.Phi, *ssa.ChangeType:
			if !listOnlyRead(x.(ssa.Value), depth+1, seen) {
				return false
			}
		case *ssa.Extract:
			if !listOnlyRead(x, depth+1, seen) {
				return false
			}
		case *ssa.Store:
			// spilled into a local (a named result, a variable captured by nobody): follow the loads of the local
			al, ok := x.Addr.(*ssa.Alloc)
			if !ok || x.Val != v || al.Referrers() == nil {
				return false
			}
			for _, r2 := range *al.Referrers() {
				switch y := r2.(type) {
				case *ssa.Store, *ssa.DebugRef:
				case *ssa.UnOp:
					if !listOnlyRead(y, depth+1, seen) {
						return false
					}
				default:
					return false
				}
			}
		case ssa.CallInstruction:
			c := x.Common()
			if b, ok := c.Value.(*ssa.Builtin); ok {
				if b.Name() == "len" || b.Name() == "cap" {
					continue
				}
				if b.Name() == "copy" && len(c.Args) == 2 && c.Args[1] == v && c.Args[0] != v {
					continue
				}
				return false // append(list, ..) writes into the shared spare capacity
			}
			f := c.StaticCallee()
			if f == nil {
				return false
			}
			name := calleeName(f)
			if f.Origin() != nil {
				name = calleeName(f.Origin())
			}
			if readOnlyCallees[name] || strings.HasPrefix(name, "fmt.") {
				continue
			}
			if !inModule(f) || f.Blocks == nil {
				return false
			}
			for i, a := range c.Args {
				if a == v && i < len(f.Params) && !listOnlyRead(f.Params[i], depth+1, seen) {
					return false
				}
			}
		default:
			return false
		}
	}
	return true
}

// goClosuresOf: the function literals a function starts as goroutines (directly).
func goClosuresOf(fn *ssa.Function) []*ssa.Function {
	var out []*ssa.Function
	for _, b := range fn.Blocks {
		for _, in := range b.Instrs {
			if g, ok := in.(*ssa.Go); ok {
				if mc, ok := g.Call.Value.(*ssa.MakeClosure); ok {
					if f, ok := mc.Fn.(*ssa.Function); ok {
						out = append(out, f)
					}
				}
			}
		}
	}
	return out
}

// sharedVarReturned: the variable the closure captures as fv is one whose value the parent returns.
func sharedVarReturned(parent, clos *ssa.Function, fv *ssa.FreeVar) bool {
	idx := -1
	for i, f := range clos.FreeVars {
		if f == fv {
			idx = i
		}
	}
	if idx < 0 {
		return false
	}
	for _, b := range parent.Blocks {
		for _, in := range b.Instrs {
			mc, ok := in.(*ssa.MakeClosure)
			if !ok || mc.Fn != ssa.Value(clos) || idx >= len(mc.Bindings) {
				continue
			}
			al, ok := mc.Bindings[idx].(*ssa.Alloc)
			if !ok || al.Referrers() == nil {
				return true // cannot tell: treat as returned
			}
			for _, ref := range *al.Referrers() {
				if ld, ok := ref.(*ssa.UnOp); ok && ld.Op == token.MUL && ld.Referrers() != nil {
					for _, r2 := range *ld.Referrers() {
						switch r2.(type) {
						case *ssa.Return, *ssa.Store: // returned, or spilled into a result slot before the deferred calls run
							return true
						}
					}
				}
			}
		}
	}
	return false
}

func isOpenCall(name string) bool {
	return name == "net.ListenUDP" || name == "(*net.Dialer).Dial" || name == "net.DialUDP" || name == "net.Dial" || name == "net.DialTimeout" || name == "net.ListenPacket" || name == "(*net.Dialer).DialContext" || name == "net.DialTCP"
}

func SocketFns(p *Program) []*SocketFn {
	var out []*SocketFn
	up := p.SSAPkg("uhppote")
	// the socket functions are the entry points of the package that (through in-package helpers) open a
	// socket: a function that is only a helper of another such function is walked as part of its callers
	reach := map[*ssa.Function]string{}
	for _, fn := range p.AllFuncs {
		if fn.Pkg == nil || fn.Pkg != up || fn.Parent() != nil {
			continue
		}
		opens := ""
		reachesCall(fn, func(name string) bool {
			if isOpenCall(name) {
				opens = name
				return true
			}
			return false
		}, map[*ssa.Function]bool{})
		if opens != "" {
			reach[fn] = opens
		}
	}
	helper := map[*ssa.Function]bool{}
	var mark func(fn *ssa.Function, seen map[*ssa.Function]bool)
	mark = func(fn *ssa.Function, seen map[*ssa.Function]bool) {
		if seen[fn] {
			return
		}
		seen[fn] = true
		for _, f := range staticCallees(fn) {
			if f.Parent() == nil && reach[f] != "" {
				helper[f] = true
			}
			if inModule(f) {
				mark(f, seen)
			}
		}
	}
	for fn := range reach {
		mark(fn, map[*ssa.Function]bool{})
	}
	for _, fn := range p.AllFuncs {
		opens := reach[fn]
		if opens == "" || helper[fn] {
			continue
		}
		sf := &SocketFn{Fn: fn, Name: calleeName(fn), Opens: opens, IsDial: strings.Contains(opens, "Dial")}
		sf.Listen = fn.Signature.Results().Len() == 1
		w := NewWalker(p)
		w.LoopFuel = bound(2, 3)
		w.Inline = inlineHelpers([]*ssa.Package{up}, nil)
		args := symbolicArgs(fn)
		for i, prm := range fn.Params {
			// the request bytes, whatever the parameter is called in the source
			if sl, ok := prm.Type().Underlying().(*types.Slice); ok && i > 0 {
				if b, ok := sl.Elem().Underlying().(*types.Basic); ok && b.Kind() == types.Uint8 {
					args[i].Name = "request"
					break
				}
			}
		}
		sf.Paths = w.Walk(fn, args, nil)
		opensOnSomePath := false
		for _, pa := range sf.Paths {
			if pa.Outcome == "truncated" {
				sf.Trunc++
			}
			for _, e := range pa.Events {
				if e.Kind == "call" && isOpenCall(e.Name) {
					opensOnSomePath = true
				}
			}
		}
		if !opensOnSomePath {
			continue // mentions an opener as a value (installs it as the default of a seam) without calling it
		}
		out = append(out, sf)
	}
	sort.Slice(out, func(i, j int) bool { return out[i].Name < out[j].Name })
	return out
}

func evIdx(pa Path, pred func(Event) bool) []int {
	var out []int
	for i, e := range pa.Events {
		if pred(e) {
			out = append(out, i)
		}
	}
	return out
}

func isCall(e Event, suffix string) bool {
	return e.Kind == "call" && !e.Deferred && strings.HasSuffix(e.Name, suffix)
}

// connOf: the connection value produced by the open call on this path (result #0), if it succeeded.
func connOf(pa Path) (conn string, openIdx int, ok bool) {
	// the first open that succeeded; when none did, the last one attempted (an open repeated after a failure is
	// part of the path like the first)
	conn, openIdx = "", -1
	for i, e := range pa.Events {
		if e.Kind == "call" && isOpenCall(e.Name) && e.Result != nil {
			c0 := e.Result.String() + "#0"
			c1 := e.Result.String() + "#1"
			errNil, okE := pa.State.Bools["isnil("+c1+")"]
			connNil, okC := pa.State.Bools["isnil("+c0+")"]
			// opened: the error is nil and the connection is not known to be nil (a missing nil test, or a concrete
			// connection wrapped into the net.Conn interface, leaves no atom: the socket is open all the same)
			if okE && errNil && (!okC || !connNil) {
				return c0, i, true
			}
			conn, openIdx = c0, i
		}
	}
	return conn, openIdx, false
}

func mentions(e Event, s string) bool {
	for _, a := range e.Args {
		if strings.Contains(a.String(), s) {
			return true
		}
	}
	return false
}

func isReadCall(e Event) bool {
	if e.Kind != "call" || e.Deferred {
		return false
	}
	n := e.Name
	return strings.HasSuffix(n, ").ReadFromUDP") || strings.HasSuffix(n, ".Read") || strings.HasSuffix(n, ").ReadFrom") || strings.HasSuffix(n, ").ReadMsgUDP") || strings.HasSuffix(n, ").ReadFromUDPAddrPort")
}

func isWriteCall(e Event) bool {
	if e.Kind != "call" || e.Deferred {
		return false
	}
	n := e.Name
	return strings.HasSuffix(n, ").WriteToUDP") || strings.HasSuffix(n, ".Write") || strings.HasSuffix(n, ").WriteTo") || strings.HasSuffix(n, ").WriteToUDPAddrPort") || strings.HasSuffix(n, ").WriteMsgUDP")
}

func RuleTransport(r *Report, p *Program, rules aspectSet) {
	fns := SocketFns(p)
	r.Count("socket_functions", len(fns))
	doc := map[string]string{
		"T1":  "every successfully opened socket is closed on all paths to every return (deferred or explicit)",
		"T2":  "every blocking read on a connection is preceded on all paths by a read deadline of now+timeout taken from the client configuration",
		"T3":  "the process-wide lock is taken exactly when the bind port is fixed, before the socket is opened, and released by a deferred unlock",
		"T4":  "the instant feeding every deadline is read after the fixed-port lock has been acquired",
		"T5":  "after the write, function 0x96 returns (nil,nil) without reading; every other request reads a reply",
		"T6":  "the local address of every request socket is the configured bind address",
		"T9":  "a connection never escapes the call that opened it (not stored, sent or returned)",
		"T10": "slices returned to the caller are views of buffers allocated inside that call",
		"A2d": "each driver send method writes the request exactly once per call",
		"RQ":  "a driver method only reads the request bytes it is given: it never stores into them, appends to (a prefix of) them, copies into them or hands them to a read, so the bytes on the wire are the bytes that were marshalled",
		"T12": "a socket bound to an ephemeral port (bind port 0) is opened without an address-reuse option hook: with SO_REUSEADDR/SO_REUSEPORT the kernel may give two concurrently open sockets the same local port, and connected to the same controller they share a 4-tuple, so one call receives the other's reply",
		"T11": "the reply a driver method returns is exactly the bytes of its last read: buffer[0:n] with n the count that read returned, from a buffer large enough to expose over-long datagrams",
	}
	mins := map[string]int{"RQ": 4, "T1": 5, "T2": 3, "T3": 4, "T4": 4, "T5": 4, "T6": 4, "T9": 5, "T10": 3, "A2d": 4, "T11": 3, "T12": 2}
	for id := range rules {
		if d, ok := doc[id]; ok {
			r.Rule(id, d, mins[id])
		}
	}
	for _, sf := range fns {
		pos := p.Pos(sf.Fn.Pos())
		t1, t2, t3, t4, t5, t6, t9, t10, a2 := "", "", "", "", "", "", "", "", ""
		t11 := ""
		t12 := ""
		rq := ""
		lockedPaths, unlockedPaths := 0, 0
		for _, pa := range sf.Paths {
			if pa.Outcome != "return" && pa.Outcome != "truncated" {
				t1 = "path ends in " + pa.Outcome + ": " + pa.Detail
				continue
			}
			conn, openIdx, opened := connOf(pa)
			// ---- T3 lock discipline
			// the process-wide lock is a package-level mutex; mutexes local to the call guard other things
			locks := evIdx(pa, func(e Event) bool { return isCall(e, "sync.Mutex).Lock") && isGlobalRef(e.Args[0]) })
			unlockDefers := evIdx(pa, func(e Event) bool {
				return e.Kind == "defer" && strings.HasSuffix(e.Name, "sync.Mutex).Unlock") && isGlobalRef(e.Args[0])
			})
			portFixed, portKnown, portZero := false, false, false
			for k, v := range pa.State.Ints {
				if strings.HasSuffix(k, ".Port") {
					portKnown = true
					portFixed = v.Intersect(IntervalSet{{0, 0}}).Empty()
					portZero = v.Equal(IntervalSet{{0, 0}})
				}
			}
			if !sf.Listen && openIdx >= 0 {
				if len(locks) > 0 {
					lockedPaths++
					if !(portKnown && portFixed) {
						t3 = "lock taken on a path where the bind port is not known to be non-zero: " + pa.State.Describe()
					}
					if locks[0] > openIdx {
						t3 = "lock acquired after the socket is opened"
					}
					// released when the call returns: an unlock runs after every socket operation of the path (as a
					// deferred call, inside a deferred release function, or explicitly), and none runs before them
					lastIO := locks[0]
					for i, e := range pa.Events {
						if e.Kind == "call" && !e.Deferred && (isOpenCall(e.Name) || isReadCall(e) || isWriteCall(e)) && i > lastIO {
							lastIO = i
						}
					}
					released := false
					for i, e := range pa.Events {
						if e.Kind == "call" && strings.HasSuffix(e.Name, "sync.Mutex).Unlock") && len(e.Args) > 0 && isGlobalRef(e.Args[0]) {
							if i > lastIO {
								released = true
							} else if i > locks[0] {
								t3 = "the fixed-port lock is released at " + p.Pos(e.Pos) + " before the socket operations of the call are over"
							}
						}
					}
					if !released && pa.Outcome == "return" {
						t3 = "the fixed-port lock is not released on the path [" + cut(pa.State.Describe(), 160) + "]"
					}
					_ = unlockDefers
				} else {
					unlockedPaths++
					if portKnown && !portZero {
						t3 = "socket opened without the lock although the bind port may be non-zero (port region " + portRegion(pa) + ")"
					}
					if !portKnown && !bindNil(pa) {
						t3 = "bind port never examined before opening the socket"
					}
				}
			}
			// ---- T4 deadline clock read after lock
			if len(locks) > 0 {
				for i, e := range pa.Events {
					if isCall(e, "time.Now") && i < locks[0] {
						// does this instant feed a deadline?
						now := e.Result.String()
						for _, e2 := range pa.Events {
							if e2.Kind == "call" && (strings.Contains(e2.Name, "Deadline") || isOpenCall(e2.Name)) && mentions(e2, now) {
								t4 = fmt.Sprintf("deadline at %s uses the clock read at %s, before the wait for the fixed-port lock at %s", p.Pos(e2.Pos), p.Pos(e.Pos), p.Pos(pa.Events[locks[0]].Pos))
							}
						}
						// Dialer.Deadline field: the dialer composite is an argument of Dial
						for _, e2 := range pa.Events {
							if e2.Kind == "call" && isOpenCall(e2.Name) && len(e2.Deep) > 0 {
								if strings.Contains(e2.Deep[0], now) {
									t4 = fmt.Sprintf("dial deadline uses the clock read at %s, before the wait for the fixed-port lock at %s", p.Pos(e.Pos), p.Pos(pa.Events[locks[0]].Pos))
								}
							}
						}
					}
				}
			}
			if !opened {
				continue
			}
			// ---- T1 close
			closed := false
			for i, e := range pa.Events {
				if i > openIdx && (e.Kind == "call" || e.Kind == "defer") && strings.HasSuffix(e.Name, ".Close") && mentions(e, conn) {
					closed = true
				}
				// a registered release function that closes the socket (its body is walked when the path returns; on a
				// loop-bounded path the registration is what shows that the close is pending)
				if i > openIdx && e.Kind == "defer" && e.Result != nil && e.Result.Op == "closure" && e.Result.Fn != nil {
					if reachesCall(e.Result.Fn, func(n string) bool { return strings.HasSuffix(n, ".Close") }, map[*ssa.Function]bool{}) && closureCaptures(e.Result, conn) {
						closed = true
					}
				}
			}
			if sf.Listen {
				// the listener hands the socket to goroutines that close it on signal
				for _, e := range pa.Events {
					if e.Kind == "go" && e.Result != nil && closureCloses(e.Result, conn) {
						closed = true
					}
				}
			}
			if !closed {
				t1 = "socket opened at " + p.Pos(pa.Events[openIdx].Pos) + " is not closed on the path [" + cut(pa.State.Describe(), 200) + "]"
			}
			// ---- T12 no address reuse on ephemeral ports
			if !sf.Listen && sf.IsDial && len(locks) == 0 {
				ctl := deepField(pa.Events[openIdx].Deep[0], "Control")
				if ctl != "nil" && ctl != "zero" && ctl != "" {
					if clos := controlClosure(pa.Events[openIdx].Snap[0]); clos != nil && reachesReuseOption(clos, 0, map[*ssa.Function]bool{}) {
						t12 = "the dialer installs a socket-option hook that enables address reuse although the bind port is 0 (" + ctl + ")"
					}
				}
			}
			// ---- T6 bind address: of every socket this path opens or tries to open (a second attempt after a failed
			// one included), the whole address - IP and port
			if !sf.Listen {
				for _, oe := range pa.Events {
					if oe.Kind != "call" || !isOpenCall(oe.Name) || oe.Result == nil || len(oe.Deep) == 0 {
						continue
					}
					local := ""
					if sf.IsDial {
						local = deepField(oe.Deep[0], "LocalAddr")
					} else if len(oe.Deep) > 1 {
						local = oe.Deep[1]
					}
					if os.Getenv("UHLINT_DEBUG") == "T6" {
						fmt.Fprintf(os.Stderr, "T6 %s local=%s\n", sf.Name, local)
					}
					anyAddr := strings.Contains(local, "net.IPv4(0,0,0,0)") || strings.Contains(local, "IP:[0,0,0,0,0,0,0,0,0,0,255,255,0,0,0,0],Port:0") || strings.Contains(local, "IP:[0,0,0,0],Port:0")
					fromBind := strings.Contains(local, "u.bindAddr")
					if fromBind && (strings.HasPrefix(local, "&{") || strings.HasPrefix(local, "{")) && strings.Contains(local, "IP:") && strings.Contains(local, "Port:") {
						// assembled field by field: both the address and the port are the configured ones
						fromBind = strings.Contains(deepField(local, "IP"), "u.bindAddr") && strings.Contains(deepField(local, "Port"), "u.bindAddr")
					}
					if !(fromBind || (anyAddr && bindNil(pa))) {
						t6 = "local address of the socket opened at " + p.Pos(oe.Pos) + " is " + cut(local, 120) + ", not the configured bind address and port"
					}
				}
			}
			if sf.Listen {
				continue
			}
			// ---- T2 deadline before read, T5 no-reply, A2d single write
			writes := evIdx(pa, isWriteCall)
			reads := evIdx(pa, isReadCall)
			if len(writes) != 1 && !(len(writes) == 0 && writeFailedBefore(pa)) {
				if len(writes) > 1 {
					a2 = fmt.Sprintf("%d writes on one path", len(writes))
				}
			}
			// the netip forms of the datagram writes refuse an IPv4-mapped destination on an IPv4 socket (WriteToUDP
			// applies To4() itself): the destination handed to them must have been unmapped, or nothing is sent
			for _, wi := range writes {
				e := pa.Events[wi]
				if strings.HasSuffix(e.Name, "AddrPort") && len(e.Args) >= 3 {
					if dst := e.Args[2].String(); !strings.Contains(dst, "(netip.Addr).Unmap(") {
						a2 = "the request is written with " + e.Name + " to " + cut(dst, 80) + ", which is not unmapped: for an IPv4-mapped destination on an IPv4 socket the write fails and no request reaches the network"
					}
				}
			}
			for _, ri := range reads {
				ok := false
				for i := openIdx; i < ri; i++ {
					e := pa.Events[i]
					if e.Kind == "call" && (strings.HasSuffix(e.Name, ".SetDeadline") || strings.HasSuffix(e.Name, ".SetReadDeadline")) && mentions(e, conn) && len(e.Args) == 2 {
						d := e.Args[1].String()
						if strings.HasPrefix(d, "(time.Time).Add(time.Now@") && strings.HasSuffix(d, "(),u.timeout)") {
							ok = true
						} else {
							ok = false
							t2 = "read deadline is " + d + ", not now+configured timeout"
						}
					}
				}
				if !ok && t2 == "" {
					t2 = "blocking read at " + p.Pos(pa.Events[ri].Pos) + " has no read deadline of now+timeout set before it"
				}
			}
			// a stream connection is established by a blocking connect: connect and exchange share ONE budget, so the
			// instant that bounds the dial (Dialer.Deadline) is the instant of the read deadline (one clock reading)
			// a stream connect that no deadline bounds at all (net.DialTCP, net.Dial; a Dialer without Deadline or
			// Timeout) waits for the kernel's SYN retries when the peer is silent
			if sf.IsDial && openIdx >= 0 && len(pa.Events[openIdx].Args) >= 1 && t2 == "" {
				oe := pa.Events[openIdx]
				nwArg := 0
				if strings.HasPrefix(oe.Name, "(*net.Dialer).") {
					nwArg = 1
				}
				if nwArg < len(oe.Args) {
					if nw, ok := oe.Args[nwArg].StrVal(); ok && strings.HasPrefix(nw, "tcp") {
						switch {
						case oe.Name == "net.DialTCP" || oe.Name == "net.Dial":
							t2 = "the TCP connection is opened with " + oe.Name + ", which no deadline bounds: with a peer that drops the SYN the call lasts as long as the kernel retries"
						case strings.HasPrefix(oe.Name, "(*net.Dialer).") && len(oe.Deep) > 0:
							dl, to := deepField(oe.Deep[0], "Deadline"), deepField(oe.Deep[0], "Timeout")
							if (dl == "zero" || dl == "" || dl == oe.Deep[0]) && (to == "0" || to == "zero" || to == "" || to == oe.Deep[0]) {
								t2 = "the TCP connect is not bounded: the dialer has neither a deadline nor a timeout"
							}
						}
					}
				}
			}
			if sf.IsDial && len(pa.Events[openIdx].Args) >= 2 && len(reads) > 0 && t2 == "" {
				if nw, ok := pa.Events[openIdx].Args[1].StrVal(); ok && strings.HasPrefix(nw, "tcp") {
					dl := deepField(pa.Events[openIdx].Deep[0], "Deadline")
					for i := openIdx; i < reads[0]; i++ {
						e := pa.Events[i]
						if e.Kind == "call" && (strings.HasSuffix(e.Name, ".SetDeadline") || strings.HasSuffix(e.Name, ".SetReadDeadline")) && mentions(e, conn) && len(e.Args) == 2 {
							d := e.Args[1].String()
							if j := strings.Index(d, "time.Now@"); j >= 0 {
								k := j + len("time.Now@")
								for k < len(d) && d[k] >= '0' && d[k] <= '9' {
									k++
								}
								if !strings.Contains(dl, d[j:k]+"(") {
									t2 = "the TCP connect is bounded by " + cut(dl, 60) + " but the read deadline by a later clock reading (" + cut(d, 60) + "): a slow connect followed by a silent peer takes up to two timeouts"
								}
							}
						}
					}
				}
			}
			// an absolute deadline: nothing re-arms it once the request is on the wire
			if len(writes) > 0 {
				for i := writes[0] + 1; i < len(pa.Events); i++ {
					e := pa.Events[i]
					if e.Kind == "call" && !e.Deferred && strings.Contains(e.Name, "Deadline") && mentions(e, conn) {
						t2 = "the deadline is set again at " + p.Pos(e.Pos) + " after the request was written: stray datagrams can extend the call beyond its timeout"
					}
				}
			}
			// no-reply
			code, hasCode := IntervalSet(nil), false
			for k, v := range pa.State.Ints {
				if strings.HasSuffix(k, "[1]") && strings.HasPrefix(k, "request") {
					code, hasCode = v, true
				}
			}
			if len(writes) == 1 && writeOK(pa, writes[0]) {
				goReaders := evIdx(pa, func(e Event) bool { return e.Kind == "go" })
				switch {
				case !hasCode:
					t5 = "the function code of the request is never examined after the write"
				case code.String() == "{150}":
					if len(reads) > 0 || len(goReaders) > 0 {
						t5 = "function 0x96 (no reply) still reads from the socket"
					}
					if pa.Outcome == "return" && !returnsList(sf.Fn) && !(pa.Results[0].IsNilConst() && pa.Results[1].IsNilConst()) {
						t5 = "function 0x96 does not return (nil,nil) after the write: " + pa.Results[0].String()
					}
					if pa.Outcome == "return" && returnsList(sf.Fn) && errNilness(pa, pa.Results[1]) == 0 {
						t5 = "function 0x96 fails after a successful write"
					}
				default:
					if len(reads) == 0 && len(goReaders) == 0 {
						t5 = "a reply-bearing request returns without reading"
					}
				}
			}
			// ---- T11 the returned reply is what the last read delivered
			if pa.Outcome == "return" && len(pa.Results) == 2 && len(reads) > 0 && !returnsList(sf.Fn) && errNilness(pa, pa.Results[1]) != 0 {
				last := pa.Events[reads[len(reads)-1]]
				res := pa.Results[0]
				okShape := false
				if res.Op == "slice" && res.Args[0].Op == "sref" && len(last.Args) >= 2 && last.Args[1].Op == "sref" && res.Args[0].Cell == last.Args[1].Cell {
					lo0 := res.Args[1] == nil
					if !lo0 {
						if v, ok := res.Args[1].Int64(); ok && v == 0 {
							lo0 = true
						}
					}
					if lo0 && res.Args[2] != nil && res.Args[2].String() == last.Result.String()+"#0" {
						okShape = true
						lo, _ := last.Args[1].Args[0].Int64()
						hi, _ := last.Args[1].Args[1].Int64()
						if hi-lo <= 64 {
							t11 = fmt.Sprintf("the receive buffer handed to the read is only %d bytes: a longer datagram is silently truncated to a well-formed length", hi-lo)
						}
					}
				}
				if !okShape {
					t11 = "the returned reply is not buffer[0:n] of the last read: " + cut(res.String(), 100)
				}
			}
			// ---- T11 (continued): nothing writes the receive buffer between the read and the return
			if len(reads) > 0 {
				last := pa.Events[reads[len(reads)-1]]
				var bufCell *Cell
				if len(last.Args) >= 2 {
					bufCell = cellOfTerm(last.Args[1])
				}
				if bufCell != nil {
					for i := reads[len(reads)-1] + 1; i < len(pa.Events); i++ {
						e := pa.Events[i]
						if (e.Kind == "store" || e.Kind == "append" || e.Kind == "copy") && len(e.Args) > 0 && cellOfTerm(e.Args[0]) == bufCell {
							t11 = "the receive buffer is written (" + e.Kind + " at " + p.Pos(e.Pos) + ") after the read: the bytes returned are not the bytes received"
						}
					}
				}
			}
			// ---- RQ the request is read-only
			for _, e := range pa.Events {
				target := ""
				switch {
				case e.Kind == "store" && len(e.Args) > 0:
					target = e.Args[0].String()
				case e.Kind == "append" && len(e.Args) > 0:
					target = e.Args[0].String()
				case e.Kind == "copy" && len(e.Args) > 0:
					target = e.Args[0].String()
				case isReadCall(e) && len(e.Args) > 1:
					target = e.Args[1].String()
				}
				target = strings.TrimPrefix(target, "&")
				if target == "request" || strings.HasPrefix(target, "request[") || strings.HasPrefix(target, "request.") {
					rq = "the request bytes are modified (" + e.Kind + " at " + p.Pos(e.Pos) + "): what goes on the wire is no longer what was marshalled"
				}
				// handed to a function outside the module that is not known to only read its argument (the slices
				// package edits in place: Replace, Insert, Delete, Reverse, Sort ...)
				if e.Kind == "call" && !isWriteCall(e) && !isReadCall(e) {
					for _, a := range e.Args {
						if a == nil {
							continue
						}
						as := strings.TrimPrefix(a.String(), "&")
						if !(as == "request" || strings.HasPrefix(as, "request[")) || a.Typ == nil || !isByteSlice(a.Typ) {
							continue
						}
						nm := e.Name
						readOnly := strings.HasPrefix(nm, "fmt.") || strings.HasPrefix(nm, "hex.") || strings.HasPrefix(nm, "bytes.Equal") || strings.HasPrefix(nm, "bytes.Compare") ||
							strings.HasPrefix(nm, "bytes.HasPrefix") || strings.HasPrefix(nm, "bytes.Contains") || strings.HasPrefix(nm, "bytes.Clone") || strings.HasPrefix(nm, "slices.Clone") ||
							strings.HasPrefix(nm, "slices.Equal") || strings.HasPrefix(nm, "slices.Contains") || strings.HasPrefix(nm, "slices.Index") || strings.HasPrefix(nm, "codec.") ||
							strings.HasPrefix(nm, "(binary.") || strings.Contains(nm, ".debugf") || strings.HasPrefix(nm, "string")
						if ci, ok := e.Instr.(ssa.CallInstruction); ok {
							if f := ci.Common().StaticCallee(); f != nil && inModule(f) {
								readOnly = true // walked in line, or covered by its own stores
								for i, x := range ci.Common().Args {
									if i < len(f.Params) && mutatesParam(f, i, 0) {
										if xs := strings.TrimPrefix(a.String(), "&"); xs != "" && i < len(e.Args) && e.Args[i] == a {
											readOnly = false
										}
										_ = x
									}
								}
							}
						}
						if !readOnly {
							rq = "the request bytes are handed to " + nm + " at " + p.Pos(e.Pos) + ", which is not known to leave them unchanged"
						}
					}
				}
			}
			// ---- T9 ownership, T10 buffers
			for _, e := range pa.Events {
				if (e.Kind == "store" || e.Kind == "send" || e.Kind == "mapupdate") && len(e.Args) > 1 && strings.Contains(e.Args[len(e.Args)-1].String(), conn) {
					t9 = "connection escapes through " + e.String()
				}
			}
			if pa.Outcome == "return" {
				for _, res := range pa.Results {
					m := map[string]*Term{}
					flatten("r", res, m, true)
					for _, leaf := range m {
						if leaf.String() == conn || leaf.String() == "&"+conn {
							t9 = "connection is returned: " + cut(res.String(), 80)
						}
					}
				}
				if len(pa.Results) == 2 && errNilness(pa, pa.Results[1]) != 0 {
					res := pa.Results[0]
					switch {
					case res.IsNilConst():
					case res.Op == "sref" && res.Cell != nil && !res.Cell.Sym:
					case res.Op == "slice" && res.Args[0].Op == "sref" && !res.Args[0].Cell.Sym:
					case res.Op == "ptr" && res.Cell != nil && !res.Cell.Sym:
					default:
						t10 = "the returned slice is not (a view of) a buffer allocated inside this call: " + cut(res.String(), 100)
					}
					if strings.HasPrefix(res.String(), "request") {
						t10 = "the request buffer is returned to the caller"
					}
				}
			}
		}
		if !sf.Listen && (lockedPaths == 0 || unlockedPaths == 0) && t3 == "" {
			t3 = fmt.Sprintf("expected both a locked (fixed port) and an unlocked (port 0) class of paths, found %d/%d", lockedPaths, unlockedPaths)
		}
		if rules["T2"] && returnsList(sf.Fn) {
			// the collector: after starting the reader the caller waits exactly the configured timeout
			bad := ""
			n := 0
			for _, pa := range sf.Paths {
				gos := evIdx(pa, func(e Event) bool { return e.Kind == "go" })
				if len(gos) == 0 || pa.Outcome != "return" {
					continue
				}
				n++
				if os.Getenv("UHLINT_DEBUG") == "T2" {
					fmt.Fprintf(os.Stderr, "T2 path %s\n", sf.Name)
					for _, e := range pa.Events {
						if e.Kind == "recv" || e.Kind == "go" || e.Kind == "send" || strings.Contains(e.Name, "time.") {
							fmt.Fprintf(os.Stderr, "    %s %s | arg0.Op=%s\n", e.Kind, cut(e.String(), 160), func() string {
								if len(e.Args) > 0 && e.Args[0] != nil {
									return e.Args[0].Op + " " + e.Args[0].Name
								}
								return ""
							}())
						}
					}
				}
				// the wait: time.Sleep(timeout), or a receive from time.After(timeout)
				// ... or a receive from the channel of a timer started (after the reader) with time.NewTimer(timeout)
				timerOf := func(e Event) *Term {
					if e.Kind != "recv" || len(e.Args) != 1 || e.Args[0] == nil || e.Args[0].Op != "field" || e.Args[0].Name != "C" || len(e.Args[0].Args) != 1 {
						return nil
					}
					t := e.Args[0].Args[0]
					for t != nil && t.Op == "deref" && len(t.Args) == 1 {
						t = t.Args[0]
					}
					if t != nil && t.Op == "call" && t.Name == "time.NewTimer" && len(t.Args) == 1 {
						return t
					}
					return nil
				}
				sl := evIdx(pa, func(e Event) bool {
					return isCall(e, "time.Sleep") || (e.Kind == "recv" && strings.HasPrefix(e.Name, "time.After")) || timerOf(e) != nil
				})
				waited := ""
				if len(sl) == 1 {
					e := pa.Events[sl[0]]
					if tm := timerOf(e); tm != nil {
						// the clock starts when the timer is created
						started := evIdx(pa, func(e2 Event) bool { return e2.Kind == "call" && e2.Result == tm })
						if len(started) == 1 && started[0] > gos[0] {
							waited = tm.Args[0].String()
						}
					} else if e.Kind == "recv" {
						if len(e.Args) == 1 && e.Args[0].Op == "call" && len(e.Args[0].Args) == 1 {
							waited = e.Args[0].Args[0].String()
						}
					} else {
						waited = e.Args[0].String()
					}
				}
				if len(sl) != 1 || sl[0] < gos[0] || waited != "u.timeout" {
					bad = "after starting the reply collector the call does not wait exactly the configured timeout before returning"
					if len(sl) == 1 {
						bad += " (waits " + waited + ")"
					}
				}
			}
			r.Check(bad == "" && n > 0, "T2", sf.Name+":collect-window", pos, "time.Sleep(u.timeout) after the reader is started", bad)
		}
		emit := func(rule, bad string) {
			if !rules[rule] {
				return
			}
			if rule == "T11" && returnsList(sf.Fn) {
				return
			}
			if sf.Listen && (rule == "RQ" || rule == "T2" || rule == "T3" || rule == "T4" || rule == "T5" || rule == "T6" || rule == "T10" || rule == "A2d" || rule == "T11") {
				return
			}
			r.Check(bad == "", rule, sf.Name, pos, fmt.Sprintf("%d paths (%d loop-bounded)", len(sf.Paths), sf.Trunc), bad)
		}
		// T10 (goroutines): what a goroutine of the function shares with it and the function returns - the list of
		// replies - only grows: the goroutine appends, it never stores into an element that may already have been
		// handed to the caller (the caller would see its result change, unsynchronised)
		if t10 == "" && !sf.Listen {
			for _, mc := range goClosuresOf(sf.Fn) {
				for _, b := range mc.Blocks {
					for _, in := range b.Instrs {
						st, ok := in.(*ssa.Store)
						if !ok {
							continue
						}
						ia, ok := st.Addr.(*ssa.IndexAddr)
						if !ok {
							continue
						}
						ld, ok := ia.X.(*ssa.UnOp)
						if !ok || ld.Op != token.MUL {
							continue
						}
						fv, ok := ld.X.(*ssa.FreeVar)
						if !ok {
							continue
						}
						if _, isSl := ld.Type().Underlying().(*types.Slice); isSl && sharedVarReturned(sf.Fn, mc, fv) {
							t10 = "a goroutine of the function stores into an element of " + fv.Name() + " (" + p.Pos(st.Pos()) + "), a list the function returns: the caller's result changes after it was handed over"
						}
					}
				}
			}
		}
		// T10 (goroutines, continued): what the goroutine puts into the list is not a view of a buffer it goes on
		// reading into - a receive buffer allocated once, outside the read loop, and appended as reply[:N] makes every
		// entry of the list the same memory, overwritten by the next datagram
		if t10 == "" && !sf.Listen && returnsList(sf.Fn) {
			for _, mc := range goClosuresOf(sf.Fn) {
				for _, b := range mc.Blocks {
					for _, in := range b.Instrs {
						// make([]byte, n): a MakeSlice, or (constant n) a slice of a fresh array
						var ms ssa.Value
						switch x := in.(type) {
						case *ssa.MakeSlice:
							ms = x
						case *ssa.Slice:
							if al, isAl := x.X.(*ssa.Alloc); isAl && al.Heap {
								if _, isArr := al.Type().Underlying().(*types.Pointer).Elem().Underlying().(*types.Array); isArr {
									ms = x
								}
							}
						}
						if ms == nil || !isByteSlice(ms.Type()) || inLoop(b) || ms.Referrers() == nil {
							continue
						}
						readInLoop := false
						var views []*ssa.Slice
						for _, ref := range *ms.Referrers() {
							switch x := ref.(type) {
							case ssa.CallInstruction:
								if inLoop(x.Block()) {
									readInLoop = true
								}
							case *ssa.Slice:
								views = append(views, x)
							}
						}
						if !readInLoop {
							continue
						}
						for _, sv := range views {
							if sv.Referrers() == nil {
								continue
							}
							for _, r2 := range *sv.Referrers() {
								st, ok := r2.(*ssa.Store)
								if !ok || st.Val != ssa.Value(sv) {
									continue
								}
								if ia, ok := st.Addr.(*ssa.IndexAddr); ok {
									if al, ok := ia.X.(*ssa.Alloc); ok {
										if at, ok := al.Type().Underlying().(*types.Pointer).Elem().Underlying().(*types.Array); ok && isByteSlice(at.Elem()) {
											t10 = "the goroutine appends a view of a receive buffer allocated once outside its read loop (" + p.Pos(ms.Pos()) + "): every entry of the returned list is the same memory, overwritten by the next datagram"
										}
									}
								}
							}
						}
					}
				}
			}
		}
		emit("T1", t1)
		emit("T2", t2)
		emit("T3", t3)
		emit("T4", t4)
		emit("T5", t5)
		emit("T6", t6)
		emit("T9", t9)
		emit("T10", t10)
		emit("A2d", a2)
		emit("T11", t11)
		emit("RQ", rq)
		if sf.IsDial {
			emit("T12", t12)
		}
	}
}

func (s IntervalSet) Equal(o IntervalSet) bool { return s.String() == o.String() }

// controlClosure: the function stored in the Control field of a dialer value.
func controlClosure(d *Term) *ssa.Function {
	v := d
	if d.Op == "ptr" && d.Cell != nil && !d.Cell.Sym {
		v = d.Cell.Val
		for _, s := range d.Path {
			v = project(v, s)
		}
	}
	c := project(v, "Control")
	if c != nil && c.Op == "closure" {
		return c.Fn
	}
	return nil
}

// reachesReuseOption: the function (transitively, in-module) calls syscall.SetsockoptInt with SO_REUSEADDR or SO_REUSEPORT.
func reachesReuseOption(fn *ssa.Function, depth int, seen map[*ssa.Function]bool) bool {
	if fn == nil || seen[fn] || depth > 4 || fn.Blocks == nil {
		return false
	}
	seen[fn] = true
	for _, b := range fn.Blocks {
		for _, in := range b.Instrs {
			if mc, ok := in.(*ssa.MakeClosure); ok {
				if reachesReuseOption(mc.Fn.(*ssa.Function), depth+1, seen) {
					return true
				}
			}
			c, ok := in.(ssa.CallInstruction)
			if !ok {
				continue
			}
			f := c.Common().StaticCallee()
			if f == nil {
				continue
			}
			if calleeName(f) == "syscall.SetsockoptInt" && len(c.Common().Args) >= 3 {
				if k, ok := constInt(c.Common().Args[2]); ok && (k == 2 || k == 15) { // SO_REUSEADDR, SO_REUSEPORT (linux)
					return true
				}
			}
			if pk := fnPkg(f); pk != nil && strings.HasPrefix(pk.Pkg.Path(), modPath) {
				if reachesReuseOption(f, depth+1, seen) {
					return true
				}
			}
		}
	}
	return false
}

func portRegion(pa Path) string {
	for k, v := range pa.State.Ints {
		if strings.HasSuffix(k, ".Port") {
			return v.String()
		}
	}
	return "?"
}

func isGlobalRef(t *Term) bool {
	return t != nil && t.Op == "ptr" && t.Cell != nil && t.Cell.Sym && t.Cell.Val != nil && t.Cell.Val.Op == "global" && len(t.Path) == 0
}

func returnsList(fn *ssa.Function) bool {
	res := fn.Signature.Results()
	if res.Len() == 0 {
		return false
	}
	if sl, ok := res.At(0).Type().Underlying().(*types.Slice); ok {
		_, inner := sl.Elem().Underlying().(*types.Slice)
		return inner
	}
	return false
}

func writeFailedBefore(pa Path) bool { return true }

func writeOK(pa Path, wi int) bool {
	e := pa.Events[wi]
	if e.Result == nil {
		return false
	}
	v, ok := pa.State.Bools["isnil("+e.Result.String()+"#1)"]
	return ok && v
}

func bindNil(pa Path) bool {
	for k, v := range pa.State.Bools {
		if v && strings.HasPrefix(k, "isnil(net.") && strings.Contains(k, "u.bindAddr") {
			return true
		}
	}
	return false
}

// termDeep renders a term with local cells expanded (struct literals behind pointers).
func termDeep(t *Term) string {
	if t == nil {
		return ""
	}
	if t.Op == "ptr" && t.Cell != nil && !t.Cell.Sym {
		v := t.Cell.Val
		for _, s := range t.Path {
			v = project(v, s)
		}
		return "&" + termDeepVal(v)
	}
	return termDeepVal(t)
}

func termDeepVal(v *Term) string {
	if v == nil {
		return ""
	}
	switch v.Op {
	case "struct":
		parts := []string{}
		for i, n := range v.FNames {
			parts = append(parts, n+":"+termDeep(v.Args[i]))
		}
		return "{" + strings.Join(parts, ",") + "}"
	case "iface":
		return termDeep(v.Args[0])
	case "ptr":
		if v.Cell != nil && !v.Cell.Sym {
			return termDeep(v)
		}
	}
	return v.String()
}

// deepField extracts "name:value" from a rendered struct "&{a:..,name:value,..}".
func deepField(s, name string) string {
	i := strings.Index(s, name+":")
	if i < 0 {
		return s
	}
	rest := s[i+len(name)+1:]
	depth := 0
	for j := 0; j < len(rest); j++ {
		switch rest[j] {
		case '(', '[', '{':
			depth++
		case ')', ']', '}':
			if depth == 0 {
				return rest[:j]
			}
			depth--
		case ',':
			if depth == 0 {
				return rest[:j]
			}
		}
	}
	return rest
}

func termDeepField(t *Term, field string) string {
	if t == nil {
		return ""
	}
	v := t
	if t.Op == "ptr" && t.Cell != nil && !t.Cell.Sym {
		v = t.Cell.Val
		for _, s := range t.Path {
			v = project(v, s)
		}
	}
	if v.Op == "struct" {
		for i, n := range v.FNames {
			if n == field {
				return termDeep(v.Args[i])
			}
		}
	}
	return termDeep(t)
}

// closureCloses: the closure's body closes the captured connection variable.
func closureCloses(clos *Term, conn string) bool {
	if clos == nil || clos.Fn == nil {
		return false
	}
	// directly, or through a method of a small type that holds the socket (socket.shutdown())
	return reachesCall(clos.Fn, func(n string) bool { return strings.HasSuffix(n, ".Close") }, map[*ssa.Function]bool{})
}

// ---------------------------------------------------------------------------------------
// T7 / T8: goroutines and the cells they share with their parent (DESIGN E7 SHARE)
// ---------------------------------------------------------------------------------------

type access struct {
	write bool
	in    *ssa.Function
	instr ssa.Instruction
	locks map[string]bool // mutexes held (by origin text)
}

func allocOrigin(v ssa.Value) ssa.Value {
	for {
		switch x := v.(type) {
		case *ssa.FieldAddr:
			v = x.X
		case *ssa.IndexAddr:
			v = x.X
		default:
			return v
		}
	}
}

// heldMutexes: mutexes locked on every path to instr in fn (dominating Lock without a dominating Unlock after it).
// lockKey names a mutex: relative to the shared variable when it is a field of it ("self.<path>"), so that the
// same mutex is recognised from the parent, from a closure and from a method of the variable's type.
// lockAlias: while one go statement is examined, the values that denote the same variable on both sides of it
// (a captured variable and its free variable; an argument &x and the pointer parameter it is bound to).
var lockAlias map[ssa.Value]string

func lockKey(v ssa.Value, target ssa.Value) string {
	if a, ok := lockAlias[allocOrigin(v)]; ok && allocOrigin(v) != target {
		path := ""
		for x := v; ; {
			if fa, ok := x.(*ssa.FieldAddr); ok {
				path = fmt.Sprintf(".%d", fa.Field) + path
				x = fa.X
				continue
			}
			break
		}
		return a + path
	}
	if target != nil && allocOrigin(v) == target {
		path := ""
		for {
			switch x := v.(type) {
			case *ssa.FieldAddr:
				path = fmt.Sprintf(".%d", x.Field) + path
				v = x.X
				continue
			case *ssa.IndexAddr:
				v = x.X
				continue
			}
			break
		}
		return "self" + path
	}
	return originText(v)
}

func heldMutexes(fn *ssa.Function, at ssa.Instruction) map[string]bool {
	return heldMutexesRel(fn, at, nil)
}

func heldMutexesRel(fn *ssa.Function, at ssa.Instruction, target ssa.Value) map[string]bool {
	held := map[string]bool{}
	blk := at.Block()
	doms := map[*ssa.BasicBlock]bool{}
	for b := blk; b != nil; b = b.Idom() {
		doms[b] = true
	}
	type ev struct {
		lock bool
		m    string
		b    *ssa.BasicBlock
		idx  int
	}
	var evs []ev
	var deferredUnlocks []string
	atIdx := -1
	for i, in := range blk.Instrs {
		if in == at {
			atIdx = i
		}
	}
	for _, b := range fn.DomPreorder() {
		if !doms[b] {
			continue
		}
		for i, in := range b.Instrs {
			if b == blk && i >= atIdx {
				break
			}
			if _, ok := in.(*ssa.RunDefers); ok {
				// the deferred unlocks run here: what follows (the copy of named results to the caller) is no
				// longer under those mutexes
				for _, m := range deferredUnlocks {
					evs = append(evs, ev{false, m, b, i})
				}
				continue
			}
			var cc *ssa.CallCommon
			deferred := false
			switch c := in.(type) {
			case *ssa.Call:
				cc = &c.Call
			case *ssa.Defer:
				cc = &c.Call
				deferred = true
			}
			if cc == nil {
				continue
			}
			f := cc.StaticCallee()
			if f == nil || f.Pkg == nil || f.Pkg.Pkg.Path() != "sync" || len(cc.Args) == 0 {
				continue
			}
			m := lockKey(cc.Args[0], target)
			switch f.Name() {
			case "Lock", "RLock":
				evs = append(evs, ev{true, m, b, i})
			case "Unlock", "RUnlock":
				if !deferred {
					evs = append(evs, ev{false, m, b, i})
				} else {
					deferredUnlocks = append(deferredUnlocks, m)
				}
			}
		}
	}
	for _, e := range evs {
		held[e.m] = e.lock
	}
	for m, v := range held {
		if !v {
			delete(held, m)
		}
	}
	return held
}

func originText(v ssa.Value) string {
	switch x := v.(type) {
	case *ssa.Global:
		return "global:" + x.Name()
	case *ssa.FreeVar:
		return "captured:" + x.Name()
	case *ssa.Alloc:
		return "captured:" + x.Comment
	case *ssa.FieldAddr:
		return originText(x.X) + "." + fmt.Sprint(x.Field)
	case *ssa.UnOp:
		return originText(x.X)
	case *ssa.Parameter:
		return "param:" + x.Name()
	}
	return v.Name()
}

func isSyncType(t types.Type) bool {
	if pt, ok := t.(*types.Pointer); ok {
		t = pt.Elem()
	}
	if _, ok := t.Underlying().(*types.Chan); ok {
		return true
	}
	if n, ok := types.Unalias(t).(*types.Named); ok && n.Obj().Pkg() != nil {
		pk := n.Obj().Pkg().Path()
		return pk == "sync/atomic" || pk == "sync"
	}
	return false
}

func collectAccesses(fn *ssa.Function, target ssa.Value, out *[]access, after ssa.Instruction) {
	collectAccessesIn(fn, target, out, after, nil, 0)
}

// collectAccessesIn: accesses to target (an Alloc in the parent, a FreeVar in a closure or a pointer Parameter
// of a function the variable's address was handed to) in fn and, through in-module static calls that are given
// a pointer into the variable, in its callees. `outer` are the mutexes held at the call site.
func collectAccessesIn(fn *ssa.Function, target ssa.Value, out *[]access, after ssa.Instruction, outer map[string]bool, depth int) {
	if fn == nil || fn.Blocks == nil || depth > 4 {
		return
	}
	locksAt := func(in ssa.Instruction) map[string]bool {
		m := heldMutexesRel(fn, in, target)
		for k := range outer {
			m[k] = true
		}
		return m
	}
	reach := map[*ssa.BasicBlock]bool{}
	startIdx := -1
	if after != nil {
		var q []*ssa.BasicBlock
		for i, in := range after.Block().Instrs {
			if in == after {
				startIdx = i
			}
		}
		q = append(q, after.Block().Succs...)
		for len(q) > 0 {
			b := q[0]
			q = q[1:]
			if reach[b] {
				continue
			}
			reach[b] = true
			q = append(q, b.Succs...)
		}
	}
	for _, b := range fn.Blocks {
		for i, in := range b.Instrs {
			if after != nil {
				if !(reach[b] || (b == after.Block() && i > startIdx)) {
					continue
				}
			}
			switch x := in.(type) {
			case *ssa.Store:
				if allocOrigin(x.Addr) == target {
					*out = append(*out, access{write: true, in: fn, instr: in, locks: locksAt(in)})
				}
			case *ssa.UnOp:
				if x.Op == token.MUL && allocOrigin(x.X) == target {
					*out = append(*out, access{write: false, in: fn, instr: in, locks: locksAt(in)})
				}
			case *ssa.MakeClosure:
				// nested closures capturing the same variable (not started with go) run in this goroutine
				// the names of shared variables (mutexes among them) carry over into the nested closure
				if nf0, ok := x.Fn.(*ssa.Function); ok && lockAlias != nil {
					for bj, bv := range x.Bindings {
						if k, has := lockAlias[allocOrigin(bv)]; has && bj < len(nf0.FreeVars) {
							lockAlias[nf0.FreeVars[bj]] = k
						} else if k, has := lockAlias[bv]; has && bj < len(nf0.FreeVars) {
							lockAlias[nf0.FreeVars[bj]] = k
						}
					}
				}
				for bi, bv := range x.Bindings {
					if bv == target {
						nf := x.Fn.(*ssa.Function)
						isGo := false
						for _, ref := range *x.Referrers() {
							if _, ok := ref.(*ssa.Go); ok {
								isGo = true
							}
						}
						if !isGo {
							collectAccessesIn(nf, nf.FreeVars[bi], out, nil, outer, depth+1)
						}
					}
				}
			case ssa.CallInstruction:
				if _, isGo := in.(*ssa.Go); isGo {
					continue
				}
				cc := x.Common()
				f := cc.StaticCallee()
				if f == nil || !inModule(f) || f.Blocks == nil {
					continue
				}
				if _, isClosure := cc.Value.(*ssa.MakeClosure); isClosure {
					continue
				}
				for ai, a := range cc.Args {
					if ai < len(f.Params) && allocOrigin(a) == target && isPointerLike(a.Type()) {
						// the callee works on (a part of) the shared variable; only whole-variable pointers keep the
						// mutex naming aligned, which is the case for method receivers
						if a == target || isAddrOf(a, target) {
							collectAccessesIn(f, f.Params[ai], out, nil, locksAt(in), depth+1)
						} else {
							*out = append(*out, access{write: true, in: fn, instr: in, locks: locksAt(in)})
						}
					}
				}
			}
		}
	}
}

// isAddrOf: a is the address of the whole variable target (an Alloc is its own address; a FreeVar or pointer
// Parameter is the pointer itself).
func isAddrOf(a ssa.Value, target ssa.Value) bool {
	return a == target
}

func RuleShare(r *Report, p *Program, rules aspectSet) {
	RuleShareIn(r, p, rules, nil)
}

// returnsListName: the named function returns a list of datagrams (the discovery collector).
func returnsListName(p *Program, name string) bool {
	for _, fn := range p.AllFuncs {
		if calleeName(fn) == name {
			return returnsList(fn)
		}
	}
	return false
}

// RuleShareIn restricts the goroutine rules to go statements whose enclosing function satisfies keep.
func RuleShareIn(r *Report, p *Program, rules aspectSet, keep func(parent string) bool) {
	if rules["T8"] {
		m := 3
		if keep != nil {
			m = 1
		}
		r.Rule("T8", "a variable captured by a goroutine and written in one goroutine is accessed in another only under a common mutex, or is of a channel/sync/atomic type", m)
	}
	if rules["T7"] {
		m := 2
		if keep != nil {
			m = 1
		}
		r.Rule("T7", "every goroutine that loops on a blocking read leaves the loop when the read fails, and its connection is closed by the parent or a sibling", m)
	}
	nGo := 0
	for _, fn := range p.AllFuncs {
		if fn.Pkg == nil && fn.Parent() == nil {
			continue
		}
		for _, b := range fn.Blocks {
			for _, in := range b.Instrs {
				g, ok := in.(*ssa.Go)
				if !ok {
					continue
				}
				if keep != nil && !keep(calleeName(fn)) {
					continue
				}
				nGo++
				gt := goTargetOf(g)
				if gt == nil {
					continue
				}
				cfn := gt.Fn
				gname := calleeName(cfn)
				mc, isClosure := g.Call.Value.(*ssa.MakeClosure)
				_ = mc
				_ = isClosure
				if rules["T8"] {
					lockAlias = map[ssa.Value]string{}
					for bi, bv := range gt.Outer {
						k := fmt.Sprintf("shared#%d", bi)
						lockAlias[allocOrigin(bv)] = k
						lockAlias[gt.Inner[bi]] = k
					}
					for bi, bv := range gt.Outer {
						inner := gt.Inner[bi]
						al, ok := bv.(*ssa.Alloc)
						var elem types.Type
						var vname string
						if ok {
							elem = al.Type().Underlying().(*types.Pointer).Elem()
							vname = al.Comment
						} else if fv, ok2 := bv.(*ssa.FreeVar); ok2 {
							pt, isPtr := fv.Type().Underlying().(*types.Pointer)
							if !isPtr {
								continue
							}
							elem = pt.Elem()
							vname = fv.Name()
						} else {
							continue
						}
						key := gname + ":" + vname
						if isSyncType(elem) {
							r.OK("T8", key, p.Pos(g.Pos()), "captured variable is of synchronising type "+typeName(elem), true)
							continue
						}
						var inG, inP []access
						collectAccesses(cfn, inner, &inG, nil)
						collectAccesses(fn, bv, &inP, g)
						// sibling goroutines started from the same parent capturing the same variable
						for _, b2 := range fn.Blocks {
							for _, in2 := range b2.Instrs {
								if g2, ok := in2.(*ssa.Go); ok && g2 != g {
									if gt2 := goTargetOf(g2); gt2 != nil {
										for bj, bv2 := range gt2.Outer {
											if bv2 == bv {
												collectAccesses(gt2.Fn, gt2.Inner[bj], &inP, nil)
											}
										}
									}
								}
							}
						}
						bad := ""
						for _, a := range inG {
							for _, b := range inP {
								if !a.write && !b.write {
									continue
								}
								common := false
								for m := range a.locks {
									if b.locks[m] {
										common = true
									}
								}
								if !common {
									bad = fmt.Sprintf("%s at %s in the goroutine and %s at %s outside it are not ordered by a common mutex",
										rw(a.write), p.Pos(a.instr.Pos()), rw(b.write), p.Pos(b.instr.Pos()))
								}
							}
						}
						r.Check(bad == "", "T8", key, p.Pos(g.Pos()), fmt.Sprintf("%d accesses in the goroutine, %d outside", len(inG), len(inP)), bad)
					}
				}
				if rules["T7"] {
					// does the goroutine loop on a blocking read?
					reads := readsSocket(cfn)
					if reads {
						w := NewWalker(p)
						w.LoopFuel = 2
						w.Inline = inlineHelpers([]*ssa.Package{p.SSAPkg("uhppote")}, nil)
						paths := w.Walk(cfn, symbolicArgs(cfn), nil)
						exits := false
						spins := false
						for _, pa := range paths {
							readErr := false
							for k, v := range pa.State.Bools {
								if !v && strings.HasPrefix(k, "isnil(") && strings.Contains(k, "Read") {
									readErr = true
								}
							}
							if pa.Outcome == "return" && readErr {
								exits = true
							}
							if pa.Outcome == "truncated" {
								// a loop-bounded path on which every read failed and no other state changed can spin
								allFail := true
								flagged := false
								for k, v := range pa.State.Bools {
									if strings.HasPrefix(k, "isnil(") && strings.Contains(k, "Read") && v {
										allFail = false
									}
									if !strings.Contains(k, "Read") {
										flagged = true
									}
								}
								if allFail && !flagged {
									spins = true
								}
							}
						}
						closes := reachesCall(fn, func(n string) bool { return strings.HasSuffix(n, ".Close") }, map[*ssa.Function]bool{})
						// a goroutine of a request (the parent returns after the timeout and stops receiving) must not be
						// able to block in an unconditional channel send: it would never end
						blocksOnSend := ""
						if fn.Signature.Results().Len() == 2 {
							for _, pa := range paths {
								for _, e := range pa.Events {
									if snd, plain := e.Instr.(*ssa.Send); plain && e.Kind == "send" {
										if sendFitsBuffer(fn, gt, snd, paths) {
											continue // a buffered channel with room for everything this goroutine ever sends on it
										}
										blocksOnSend = p.Pos(e.Pos)
									}
								}
							}
						}
						d := ""
						if blocksOnSend != "" {
							d = "the goroutine hands what it read to its parent with an unconditional channel send (" + blocksOnSend + "): a datagram read after the parent stopped receiving (timeout) blocks it for ever"
						} else if !exits {
							d = "no path leaves the goroutine after a failed read"
						} else if !closes {
							d = "the connection the goroutine reads from is never closed by its parent"
						} else if spins {
							d = "a failed read can repeat without the loop ever ending"
						}
						r.Check(d == "", "T7", gname, p.Pos(g.Pos()), fmt.Sprintf("%d paths", len(paths)), d)
					}
				}
			}
		}
	}
	r.Count("go_statements", nGo)
}

// sendFitsBuffer: the plain send snd of the goroutine gt (started once by parent, not in a loop) goes to a
// channel the parent made with a constant capacity, on which nothing else sends, and no path of the goroutine
// sends on it more often than that capacity: the send can never block.
func sendFitsBuffer(parent *ssa.Function, gt *goTarget, snd *ssa.Send, paths []Path) bool {
	ch := snd.Chan
	if ld, ok := ch.(*ssa.UnOp); ok && ld.Op == token.MUL {
		ch = ld.X
	}
	var outer ssa.Value
	for i, in := range gt.Inner {
		if in == ch {
			outer = gt.Outer[i]
		}
	}
	if outer == nil {
		return false
	}
	var mk *ssa.MakeChan
	if al, ok := outer.(*ssa.Alloc); ok && al.Referrers() != nil {
		n := 0
		for _, ref := range *al.Referrers() {
			if st, ok := ref.(*ssa.Store); ok && st.Addr == ssa.Value(al) {
				n++
				mk, _ = st.Val.(*ssa.MakeChan)
			}
		}
		if n != 1 {
			return false
		}
	} else {
		mk, _ = outer.(*ssa.MakeChan)
	}
	if mk == nil {
		return false
	}
	size, ok := constInt(mk.Size)
	if !ok || size < 1 {
		return false
	}
	// the goroutine is started once: its go statement is not inside a loop of the parent
	if inLoop(gt.Go.Block()) {
		return false
	}
	// no other sender: the parent, and other goroutines it starts, do not send on the channel
	isCh := func(v ssa.Value) bool {
		if ld, ok := v.(*ssa.UnOp); ok && ld.Op == token.MUL {
			v = ld.X
		}
		return v == outer || v == ssa.Value(mk)
	}
	for _, b := range parent.Blocks {
		for _, in := range b.Instrs {
			switch x := in.(type) {
			case *ssa.Send:
				if isCh(x.Chan) {
					return false
				}
			case *ssa.Select:
				for _, st := range x.States {
					if st.Dir == types.SendOnly && isCh(st.Chan) {
						return false
					}
				}
			case *ssa.MakeClosure:
				if x.Fn != ssa.Value(gt.Fn) {
					for _, bv := range x.Bindings {
						if bv == outer {
							return false // another closure shares the channel
						}
					}
				}
			}
		}
	}
	// sends per run of the goroutine
	for _, pa := range paths {
		n := int64(0)
		for _, e := range pa.Events {
			if e.Kind == "send" && len(e.Args) == 2 {
				if s2, ok := e.Instr.(*ssa.Send); ok && s2.Chan == snd.Chan {
					n++
				} else if sel, ok := e.Instr.(*ssa.Select); ok {
					for _, st := range sel.States {
						if st.Dir == types.SendOnly && st.Chan == snd.Chan {
							n++
						}
					}
				}
			}
		}
		if n > size {
			return false
		}
		if n > 0 && n == size && pa.Outcome != "return" {
			// a truncated (looping) path that has already used the whole buffer could send again
			return false
		}
	}
	return true
}

func inLoop(b *ssa.BasicBlock) bool {
	seen := map[*ssa.BasicBlock]bool{}
	var reach func(x *ssa.BasicBlock) bool
	reach = func(x *ssa.BasicBlock) bool {
		for _, s := range x.Succs {
			if s == b {
				return true
			}
			if !seen[s] {
				seen[s] = true
				if reach(s) {
					return true
				}
			}
		}
		return false
	}
	return reach(b)
}

func rw(w bool) string {
	if w {
		return "write"
	}
	return "read"
}

// T13: the descriptor of a connection is never taken out of the runtime's poller. (*net.TCPConn).File /
// (*net.UDPConn).File and (*os.File).Fd put the open file description into blocking mode: from then on a deadline
// no longer interrupts a pending read or write on the connection, and the call can outlive its timeout for ever.
// Socket options are set through the Dialer/ListenConfig Control callback (syscall.RawConn), which does not.
func RuleNoRawDescriptor(r *Report, p *Program) {
	r.Rule("T13", "no connection is turned into an *os.File / raw descriptor (File(), Fd()): that makes its I/O blocking and its deadlines ineffective", 1)
	bad := ""
	pos := ""
	n := 0
	for _, fn := range p.AllFuncs {
		pk := fnPkg(fn)
		if pk == nil || pk != p.SSAPkg("uhppote") {
			continue
		}
		for _, b := range fn.Blocks {
			for _, in := range b.Instrs {
				c, ok := in.(ssa.CallInstruction)
				if !ok {
					continue
				}
				n++
				name := ""
				if f := c.Common().StaticCallee(); f != nil {
					name = calleeName(f)
				} else if c.Common().IsInvoke() {
					name = "invoke:" + c.Common().Method.Name()
				}
				switch name {
				case "(*net.TCPConn).File", "(*net.UDPConn).File", "(*net.IPConn).File", "(*net.UnixConn).File", "(*net.TCPListener).File", "(*os.File).Fd", "invoke:File", "invoke:Fd":
					bad = name + " is called in " + calleeName(fn) + ": the connection's descriptor becomes blocking and deadlines stop working"
					pos = p.Pos(in.Pos())
				}
			}
		}
	}
	r.Check(bad == "" && n > 0, "T13", "uhppote:descriptors", pos, fmt.Sprintf("%d call sites examined", n), bad)
}

// RB: every buffer handed to a socket read can hold more than one protocol message, so an over-long
// datagram is seen as over-long instead of being truncated to a well-formed length.
func RuleReadBuffers(r *Report, p *Program) {
	var rbPaths []*SocketFn
	r.Rule("RB", "every receive buffer handed to a socket read is larger than the 64-byte message, so over-long datagrams stay recognisable", 5)
	// one obligation per socket function: it reaches a socket read (whose buffer is checked below, wherever it
	// lives: in the function, in a goroutine it starts or in a helper shared with its siblings)
	for _, sf := range SocketFns(p) {
		r.Check(readsSocket(sf.Fn), "RB", sf.Name+":reads", p.Pos(sf.Fn.Pos()), "reaches a checked socket read", "the socket function never reads from its socket")
	}
	for _, fn := range p.AllFuncs {
		pk := fnPkg(fn)
		if pk != p.SSAPkg("uhppote") {
			continue
		}
		for _, b := range fn.Blocks {
			for _, in := range b.Instrs {
				c, ok := in.(ssa.CallInstruction)
				if !ok {
					continue
				}
				cc := c.Common()
				name := ""
				if f := cc.StaticCallee(); f != nil {
					name = calleeName(f)
				} else if cc.IsInvoke() {
					name = "invoke:" + cc.Method.Name()
				}
				isRead := strings.HasSuffix(name, ").ReadFromUDP") || strings.HasSuffix(name, ").Read") || name == "invoke:Read" || strings.HasSuffix(name, ").ReadFrom") || name == "io.ReadFull" || name == "io.ReadAtLeast"
				if !isRead {
					continue
				}
				var buf ssa.Value
				for _, a := range cc.Args {
					if _, ok := a.Type().Underlying().(*types.Slice); ok {
						buf = a
					}
				}
				if buf == nil {
					continue
				}
				n, known := sliceLenOf(buf)
				key := calleeName(fn) + ":" + name
				if !known {
					// the size is not a constant of the source (an option with a default, a named setting): take it
					// from the walks of the socket functions - the buffer handed to THIS read on every path
					if rbPaths == nil {
						rbPaths = SocketFns(p)
					}
					least := int64(-1)
					all := true
					for _, sf := range rbPaths {
						var scan func(evs []Event)
						scan = func(evs []Event) {
							for _, e := range evs {
								if e.Instr != in || e.Kind != "call" {
									continue
								}
								found := false
								for _, a := range e.Args {
									if a != nil && a.Op == "sref" && a.Typ != nil && isByteSlice(a.Typ) {
										lo, _ := a.Args[0].Int64()
										hi, _ := a.Args[1].Int64()
										if least < 0 || hi-lo < least {
											least = hi - lo
										}
										found = true
									}
								}
								if !found {
									all = false
									if os.Getenv("UHLINT_DEBUG") == "RB" {
										fmt.Fprintf(os.Stderr, "RB notfound %s\n", cut(e.String(), 300))
									}
								}
							}
						}
						goSeen := map[string]bool{}
						for _, pa := range sf.Paths {
							scan(pa.Events)
							// the read lives in a goroutine started by the socket function: walk the goroutine with the
							// variables it captured bound to what they held on this path
							for _, e := range pa.Events {
								if e.Kind != "go" || e.Result == nil || e.Result.Op != "closure" || e.Result.Fn != fn {
									continue
								}
								sig := ""
								for _, b := range e.Result.Args {
									sig += b.String() + "=" + cellText(b) + ";"
								}
								sig += pa.State.Describe()
								if goSeen[sig] {
									continue
								}
								goSeen[sig] = true
								gw := NewWalker(p)
								gw.LoopFuel = 2
								gw.Inline = inlineHelpers([]*ssa.Package{p.SSAPkg("uhppote")}, nil)
								// what the path established about the values the goroutine shares with it
								gw.Assume = map[string]IntervalSet{}
								for k, v := range pa.State.Ints {
									gw.Assume[k] = v
								}
								gw.AssumeBool = map[string]bool{}
								for k, v := range pa.State.Bools {
									gw.AssumeBool[k] = v
								}
								for _, gp := range gw.Walk(fn, e.Args, e.Result.Args) {
									if os.Getenv("UHLINT_DEBUG") == "RB" {
										fmt.Fprintf(os.Stderr, "RB go %s outcome=%s %s\n", calleeName(fn), gp.Outcome, gp.Detail)
										for _, ge := range gp.Events {
											fmt.Fprintf(os.Stderr, "    %s\n", cut(ge.String(), 200))
										}
									}
									scan(gp.Events)
								}
							}
						}
					}
					if os.Getenv("UHLINT_DEBUG") == "RB" {
						fmt.Fprintf(os.Stderr, "RB %s all=%v least=%d\n", key, all, least)
					}
					if all && least >= 0 {
						n, known = least, true
					}
				}
				switch {
				case !known:
					r.Bad("RB", key, p.Pos(in.Pos()), "the size of the receive buffer cannot be determined")
				default:
					r.Check(n > 64, "RB", key, p.Pos(in.Pos()), fmt.Sprintf("%d-byte buffer", n),
						fmt.Sprintf("the receive buffer is only %d bytes: a datagram longer than 64 bytes is silently truncated to a well-formed length and accepted", n))
				}
			}
		}
	}
}

// cellText: what the storage behind a captured variable holds (for telling two bindings apart).
func cellText(b *Term) string {
	if b != nil && b.Op == "ptr" && b.Cell != nil && b.Cell.Val != nil {
		return cut(b.Cell.Val.String(), 200)
	}
	return ""
}

func sliceLenOf(v ssa.Value) (int64, bool) {
	if n, ok := makeSliceLen(v); ok {
		return n, true
	}
	v = resolveLocal(v)
	switch x := v.(type) {
	case *ssa.Slice:
		// buf[:k] of a known buffer
		if hi, ok := constInt(x.High); ok && x.High != nil {
			lo, _ := constIntOrNil(x.Low)
			return hi - lo, true
		}
		return sliceLenOf(x.X)
	case *ssa.FreeVar:
		fn := x.Parent()
		idx := -1
		for i, fv := range fn.FreeVars {
			if fv == x {
				idx = i
			}
		}
		if par := fn.Parent(); par != nil {
			for _, b := range par.Blocks {
				for _, in := range b.Instrs {
					if mc, ok := in.(*ssa.MakeClosure); ok && mc.Fn == fn {
						return sliceLenOf(mc.Bindings[idx])
					}
				}
			}
		}
	case *ssa.UnOp:
		if al, ok := x.X.(*ssa.Alloc); ok {
			for _, ref := range *al.Referrers() {
				if st, ok := ref.(*ssa.Store); ok && st.Addr == al {
					return sliceLenOf(st.Val)
				}
			}
		}
		if fv, ok := x.X.(*ssa.FreeVar); ok {
			return sliceLenOf(fv)
		}
	case *ssa.Alloc:
		for _, ref := range *x.Referrers() {
			if st, ok := ref.(*ssa.Store); ok && st.Addr == x {
				return sliceLenOf(st.Val)
			}
		}
	}
	return 0, false
}

// closureCaptures: one of the closure's bindings (or what they point to) is the named value.
func closureCaptures(clos *Term, what string) bool {
	for _, b := range clos.Args {
		if b == nil {
			continue
		}
		if strings.Contains(b.String(), what) || strings.Contains(termDeep(b), what) {
			return true
		}
	}
	return false
}

// cellOfTerm: the storage a slice- or pointer-valued term refers to (through re-slicing).
func cellOfTerm(t *Term) *Cell {
	for i := 0; i < 6 && t != nil; i++ {
		switch t.Op {
		case "sref", "ptr":
			return t.Cell
		case "slice":
			t = t.Args[0]
		default:
			return nil
		}
	}
	return nil
}
