package main

import (
	"fmt"
	"os"
	"runtime/debug"
	"sort"
	"time"
)

type checkFn func(r *Report, p *Program, tier string)

// deep is set by the thorough tier: the bounded explorations (datagrams per discovery, iterations of reader and
// consumer loops, elements of collections of unknown size) are carried one step further. The rules are loop
// invariant, so the quick tier's bounds already exercise every rule; the deeper bounds enumerate more paths.
var deep bool

func bound(quick, thorough int) int {
	if deep {
		return thorough
	}
	return quick
}

var checks = map[string]checkFn{}

func runCheck(prop, tier string) int {
	deep = tier == "thorough"
	fn, ok := checks[prop]
	if !ok {
		fmt.Fprintf(os.Stderr, "no check for %s\n", prop)
		return 2
	}
	// a check that does not terminate is a broken check, not a pass
	watchdog := time.AfterFunc(10*time.Minute, func() {
		fmt.Printf("%s: [ENGINE] timeout: the analysis did not finish within 10 minutes\n", prop)
		os.Exit(2)
	})
	defer watchdog.Stop()
	r := NewReport(prop, tier)
	code := 2
	func() {
		defer func() {
			if e := recover(); e != nil {
				// a checker panic is never a pass
				r.Fatal("ENGINE", "panic", fmt.Sprintf("%v\n%s", e, debug.Stack()))
			}
		}()
		p, err := Load(repoDir(), nil)
		if err != nil {
			r.Fatal("LOAD", repoDir(), err.Error())
			return
		}
		r.Count("packages", len(p.Pkgs))
		r.Count("functions", len(p.AllFuncs))
		fn(r, p, tier)
	}()
	code = r.Finish()
	return code
}

// runAll (self-test only: `uhlint check ALL`) loads the tree once and runs every property's check on it.
func runAll(tier string) int {
	p, err := Load(repoDir(), nil)
	if err != nil {
		fmt.Fprintln(os.Stderr, err)
		return 2
	}
	deep = tier == "thorough"
	ids := []string{}
	for id := range checks {
		ids = append(ids, id)
	}
	sort.Strings(ids)
	worst := 0
	for _, id := range ids {
		r := NewReport(id, tier)
		func() {
			defer func() {
				if e := recover(); e != nil {
					r.Fatal("ENGINE", "panic", fmt.Sprintf("%v\n%s", e, debug.Stack()))
				}
			}()
			r.Count("packages", len(p.Pkgs))
			r.Count("functions", len(p.AllFuncs))
			checks[id](r, p, tier)
		}()
		if c := r.Finish(); c > worst {
			worst = c
		}
	}
	return worst
}
