package main

import (
	"fmt"
	"os"
	"runtime/debug"
)

type checkFn func(r *Report, p *Program, tier string)

var checks = map[string]checkFn{}

func runCheck(prop, tier string) int {
	fn, ok := checks[prop]
	if !ok {
		fmt.Fprintf(os.Stderr, "no check for %s\n", prop)
		return 2
	}
	r := NewReport(prop, tier)
	code := 2
	func() {
		defer func() {
			if e := recover(); e != nil {
				// a checker panic is never a pass
				r.Fatal("ENGINE", "panic", fmt.Sprintf("%v\n%s", e, debug.Stack()))
			}
		}()
		p, err := Load("/repo", nil)
		if err != nil {
			r.Fatal("LOAD", "/repo", err.Error())
			return
		}
		r.Count("packages", len(p.Pkgs))
		r.Count("functions", len(p.AllFuncs))
		fn(r, p, tier)
	}()
	code = r.Finish()
	return code
}
