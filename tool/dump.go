package main

import (
	"encoding/json"
	"fmt"
	"os"
	"sort"
	"strings"
	"unicode/utf8"

	"golang.org/x/tools/go/ssa"
)

func dumpLayouts(p *Program) {
	e, err := NewLayoutEngine(p)
	if err != nil {
		fmt.Fprintln(os.Stderr, err)
		os.Exit(2)
	}
	fmt.Println("offset regexp:", e.ReOffSrc)
	fmt.Println("value regexp: ", e.ReValSrc)
	for _, n := range e.Order {
		l := e.Layouts[n]
		code, _ := l.MsgCode()
		fmt.Printf("%s code=0x%02x\n", n, code)
		for _, f := range l.Fields {
			fmt.Printf("   %-18s %-20s ptr=%v off=%v(%d) val=%v(%d) %s\n", f.Path, f.Kind, f.Pointer, f.HasOff, f.Offset, f.HasVal, f.Value, f.ValErr)
		}
	}
}

func jsonOut(v any) {
	b, _ := json.MarshalIndent(v, "", " ")
	fmt.Println(string(b))
}

// dumpWire prints a wire.json draft from the current tree (used once, then reviewed by hand and frozen).
func dumpWire(p *Program) {
	e, _ := NewLayoutEngine(p)
	out := map[string]map[string][]string{"requests": {}, "responses": {}}
	for dir, fn := range map[string]string{"requests": "UnmarshalRequest", "responses": "UnmarshalResponse"} {
		v := registryUsedBy(p, p.Func("messages", fn))
		reg, err := extractRegistry(p, v)
		if err != nil {
			fmt.Fprintln(os.Stderr, err)
			os.Exit(2)
		}
		for _, ent := range reg.Entries {
			l := e.Layouts[ent.Type]
			fs := []string{}
			for _, f := range l.Fields {
				if f.HasOff {
					fs = append(fs, fmt.Sprintf("%d:%s", f.Offset, f.Kind))
				}
			}
			out[dir][fmt.Sprintf("0x%02x", ent.Key)] = fs
		}
	}
	jsonOut(out)
}

func dumpWalk(p *Program, rel, name string, inline bool) {
	fn := p.Func(rel, name)
	if fn == nil {
		fmt.Println("no such function")
		return
	}
	w := NewWalker(p)
	if inline {
		w.Inline = func(f *ssa.Function, d int) bool {
			return f.Pkg != nil && strings.HasPrefix(f.Pkg.Pkg.Path(), modPath) || f.Parent() != nil
		}
	} else {
		w.Inline = func(f *ssa.Function, d int) bool { return f.Parent() != nil }
	}
	paths := w.Walk(fn, nil, nil)
	for i, pa := range paths {
		fmt.Printf("--- path %d outcome=%s %s\n    cond: %s\n", i, pa.Outcome, pa.Detail, pa.State.Describe())
		for _, e := range pa.Events {
			fmt.Printf("    ev: %s @%s\n", e.String(), p.Pos(e.Pos))
		}
		for _, r := range pa.Results {
			fmt.Printf("    ret: %s\n", r.String())
		}
	}
	fmt.Println("paths:", len(paths), "exploded:", w.Exploded)
}

func dumpOps(p *Program, only string) {
	l, err := NewLayoutEngine(p)
	if err != nil {
		fmt.Println(err)
		return
	}
	a, err := NewAPI(p, l)
	if err != nil {
		fmt.Println(err)
		return
	}
	for _, name := range a.OpNames {
		if only != "" && only != name {
			continue
		}
		paths, w, err := a.WalkOp(name, 2)
		if err != nil {
			fmt.Println(name, err)
			continue
		}
		fmt.Printf("=== %s paths=%d exploded=%v\n", name, len(paths), w.Exploded)
		for i, op := range paths {
			fmt.Printf(" -- %d %s %s senderr=%d errnil=%d err=%s\n    cond: %s\n", i, op.Outcome, op.Detail, op.SendErr, op.ErrNil, cut(op.ErrTerm, 60), op.Cond)
			for _, s := range op.Sends {
				keys := []int{}
				for k := range s.Fields {
					keys = append(keys, k)
				}
				sort.Ints(keys)
				fs := []string{}
				for _, k := range keys {
					fs = append(fs, fmt.Sprintf("%d:%s", k, s.Fields[k]))
				}
				fmt.Printf("    send %s serial=%s req=%s reply=%s %s extra=%v\n", s.Kind, s.Serial, s.ReqType, s.ReplyType, strings.Join(fs, " "), s.Extra)
			}
			keys := []string{}
			for k := range op.Results {
				keys = append(keys, k)
			}
			sort.Strings(keys)
			for _, k := range keys {
				fmt.Printf("    %s = %s\n", k, op.Results[k].String())
			}
			for _, e := range op.Stores {
				fmt.Printf("    STORE %s\n", e.String())
			}
		}
	}
}

func cut(s string, n int) string {
	if len(s) > n {
		for n > 0 && !utf8.RuneStart(s[n]) {
			n--
		}
		return s[:n] + "..."
	}
	return s
}

func dumpKinds(p *Program) {
	l, _ := NewLayoutEngine(p)
	ks, err := MarshalerKinds(p, l)
	if err != nil {
		fmt.Println(err)
		return
	}
	for _, k := range ks {
		fmt.Printf("%s sig=%s width=%d widths=%v read=%d open=%v unrel=%v nilpanics=%v alias=%v enczero=%s deczero=%v morder=%v uorder=%v detail=%s\n",
			k.Name, k.Sig, k.Width, k.Widths, k.ReadExtent, k.ReadOpen, k.ReadUnrel, k.NilPanics, k.Alias, k.EncZeroImg, k.DecZeroSet, k.MOrder, k.UOrder, k.SigDetail)
	}
	for _, dir := range []string{"marshal", "unmarshal"} {
		cf, err := walkCodec(p, l, dir)
		if err != nil {
			fmt.Println(err)
			continue
		}
		fmt.Printf("== codec.%s paths=%d exploded=%v buf=%s offset=%s typevars=%v\n", dir, len(cf.Paths), cf.Exploded, cf.Buf, cut(cf.Offset, 40), cf.TypeVars)
		for _, cp := range cf.Paths {
			acc := []string{}
			for _, a := range cp.Access {
				acc = append(acc, fmt.Sprintf("%s[%d:%d abs=%v unrel=%v]", a.What, a.Lo, a.Hi, a.Abs, a.Unrel))
			}
			calls := []string{}
			for _, c := range cp.Calls {
				if strings.Contains(c.Name, "Endian") || strings.Contains(c.Name, "ParseUint") || strings.Contains(c.Name, "Set") || strings.Contains(c.Name, "marshal") || strings.Contains(c.Name, "invoke") {
					calls = append(calls, cut(c.String(), 90))
				}
			}
			fmt.Printf("   kind=%-20s val=%d errnil=%d out=%s acc=%v calls=%v\n", cp.Kind, cp.ValTag, cp.ErrNil, cp.Path.Outcome, acc, calls)
		}
	}
}

func dumpInit(p *Program, rel string) {
	sp := p.SSAPkg(rel)
	if sp == nil {
		fmt.Println("no such package")
		return
	}
	st := p.initStateOf(sp)
	fmt.Println("ok:", st.ok, "why:", st.why)
	for g, v := range st.vals {
		fmt.Printf("  %s frozen=%v table=%v = %s\n", g.Name(), p.initFrozen(g), tableValue(v, 0), cut(v.String(), 200))
	}
}
