package main

import (
	"fmt"
	"go/constant"
	"go/token"
	"go/types"
	"math"
	"sort"
	"strings"

	"golang.org/x/tools/go/ssa"
)

// ---------------------------------------------------------------------------------------
// Terms: the canonical origin of a value ("value expression", DESIGN E3).
// A Term is never evaluated on concrete data; it names where a value comes from.
// ---------------------------------------------------------------------------------------

type Term struct {
	Op   string // const param global field index lookup lookupok len call extract bin un cmp not conv struct mapv slicev ptr closure tuple iface zero deref elem recv phiunk typeis append slice string
	Name string
	Args []*Term
	Typ  types.Type
	C    constant.Value // Op==const
	Nil  bool           // Op==const and the value is nil

	// struct
	FNames []string
	// mapv: Args alternates key,value ; slicev: Args are elements
	Cell *Cell    // ptr
	Path []string // ptr path inside the cell
	Fn   *ssa.Function
	Dyn  types.Type // iface: dynamic type
	ID   int        // instance number of an impure call / fresh value
	Pos  token.Pos
	str  string
	// Settled: a constant that stands for a symbolic comparison the path condition had already decided (not a
	// constant of the program: loops on it are still loops over symbolic data)
	Settled bool
	// Pinned: settled by a path condition that leaves the compared value exactly one possibility (len(x) in {4})
	Pinned bool
}

type Cell struct {
	ID   int
	Name string
	Val  *Term
	Typ  types.Type // element type
	Sym  bool       // storage not allocated on this path (parameter / global / receiver memory)
	Heap bool
}

func mkConst(v constant.Value, t types.Type) *Term { return &Term{Op: "const", C: v, Typ: t} }
func mkInt(n int64, t types.Type) *Term            { return mkConst(constant.MakeInt64(n), t) }
func mkBool(b bool) *Term                          { return mkConst(constant.MakeBool(b), types.Typ[types.Bool]) }
func mkNil(t types.Type) *Term                     { return &Term{Op: "const", Nil: true, Typ: t} }

func (t *Term) IsConst() bool { return t != nil && t.Op == "const" }
func (t *Term) IsNilConst() bool {
	return t != nil && t.Op == "const" && t.Nil
}
func (t *Term) Int64() (int64, bool) {
	if t == nil || t.Op != "const" || t.C == nil {
		return 0, false
	}
	if t.C.Kind() == constant.Int {
		if v, ok := constant.Int64Val(t.C); ok {
			return v, true
		}
		if u, ok := constant.Uint64Val(t.C); ok && u > math.MaxInt64 {
			return math.MaxInt64, true // clamped; documented in DESIGN (uint64 top half not distinguished)
		}
	}
	if t.C.Kind() == constant.Float {
		if v, ok := constant.Int64Val(constant.ToInt(t.C)); ok {
			return v, true
		}
	}
	return 0, false
}
func (t *Term) BoolVal() (bool, bool) {
	if t == nil || t.Op != "const" || t.C == nil || t.C.Kind() != constant.Bool {
		return false, false
	}
	return constant.BoolVal(t.C), true
}
func (t *Term) StrVal() (string, bool) {
	if t == nil || t.Op != "const" || t.C == nil || t.C.Kind() != constant.String {
		return "", false
	}
	return constant.StringVal(t.C), true
}

func isIntType(t types.Type) bool {
	if t == nil {
		return false
	}
	b, ok := t.Underlying().(*types.Basic)
	return ok && b.Info()&types.IsInteger != 0
}

func isBoolType(t types.Type) bool {
	if t == nil {
		return false
	}
	b, ok := t.Underlying().(*types.Basic)
	return ok && b.Info()&types.IsBoolean != 0
}

func isStringType(t types.Type) bool {
	if t == nil {
		return false
	}
	b, ok := t.Underlying().(*types.Basic)
	return ok && b.Info()&types.IsString != 0
}

func intRange(t types.Type) (lo, hi int64) {
	if t == nil {
		return math.MinInt64, math.MaxInt64
	}
	b, ok := t.Underlying().(*types.Basic)
	if !ok {
		return math.MinInt64, math.MaxInt64
	}
	switch b.Kind() {
	case types.Uint8:
		return 0, 255
	case types.Uint16:
		return 0, 65535
	case types.Uint32:
		return 0, 4294967295
	case types.Uint, types.Uint64, types.Uintptr:
		return 0, math.MaxInt64
	case types.Int8:
		return -128, 127
	case types.Int16:
		return -32768, 32767
	case types.Int32:
		return math.MinInt32, math.MaxInt32
	}
	return math.MinInt64, math.MaxInt64
}

// String is the canonical form used for identity, spec comparison and reports.
func (t *Term) String() string {
	if t == nil {
		return "<nil>"
	}
	if t.str != "" {
		return t.str
	}
	s := t.render()
	switch t.Op {
	case "ptr", "mapv", "slicev", "struct", "sref":
		// mutable or large: do not cache
		return s
	}
	t.str = s
	return s
}

func (t *Term) render() string {
	switch t.Op {
	case "const":
		if t.Nil {
			return "nil"
		}
		if t.C == nil {
			return "const?"
		}
		if t.C.Kind() == constant.String {
			return fmt.Sprintf("%q", constant.StringVal(t.C))
		}
		if v, ok := t.Int64(); ok {
			return fmt.Sprintf("%d", v)
		}
		return t.C.ExactString()
	case "param", "global", "fresh":
		return t.Name
	case "zero":
		return "zero"
	case "deref":
		return "*" + t.Args[0].String()
	case "field":
		return baseStr(t.Args[0]) + "." + canonField(t.Name)
	case "index":
		return baseStr(t.Args[0]) + "[" + t.Args[1].String() + "]"
	case "lookup":
		return baseStr(t.Args[0]) + "[" + t.Args[1].String() + "]"
	case "lookupok":
		return "has(" + baseStr(t.Args[0]) + "," + t.Args[1].String() + ")"
	case "len":
		return "len(" + baseStr(t.Args[0]) + ")"
	case "call":
		as := make([]string, len(t.Args))
		for i, a := range t.Args {
			as[i] = a.String()
		}
		id := ""
		if t.ID > 0 {
			id = fmt.Sprintf("@%d", t.ID)
		}
		return t.Name + id + "(" + strings.Join(as, ",") + ")"
	case "extract":
		return t.Args[0].String() + "#" + t.Name
	case "bin":
		return "(" + t.Args[0].String() + t.Name + t.Args[1].String() + ")"
	case "cmp":
		return "(" + t.Args[0].String() + t.Name + t.Args[1].String() + ")"
	case "un":
		return t.Name + t.Args[0].String()
	case "not":
		return "!" + t.Args[0].String()
	case "conv":
		return "conv<" + t.Name + ">(" + t.Args[0].String() + ")"
	case "struct":
		parts := []string{}
		for i, n := range t.FNames {
			if t.Args[i] != nil && t.Args[i].Op == "zero" {
				continue
			}
			parts = append(parts, n+":"+t.Args[i].String())
		}
		return "{" + strings.Join(parts, ",") + "}"
	case "mapv":
		parts := []string{}
		for i := 0; i+1 < len(t.Args); i += 2 {
			parts = append(parts, t.Args[i].String()+":"+t.Args[i+1].String())
		}
		return "map{" + strings.Join(parts, ",") + "}"
	case "slicev":
		parts := []string{}
		for _, a := range t.Args {
			parts = append(parts, a.String())
		}
		return "[" + strings.Join(parts, ",") + "]"
	case "sref":
		lo, _ := t.Args[0].Int64()
		hi, _ := t.Args[1].Int64()
		if hi-lo > 16 {
			return fmt.Sprintf("&%s[%d:%d]", t.Cell.Name, lo, hi)
		}
		parts := []string{}
		for i := lo; i < hi; i++ {
			parts = append(parts, project(t.Cell.Val, fmt.Sprintf("#%d", i)).String())
		}
		return "[" + strings.Join(parts, ",") + "]"
	case "ptr":
		base := fmt.Sprintf("&%s", t.Cell.Name)
		if t.Cell.Sym && t.Cell.Val != nil {
			base = "&" + t.Cell.Val.String()
		}
		for _, seg := range t.Path {
			base += "." + canonField(seg)
		}
		return base
	case "strv":
		parts := []string{}
		for _, a := range t.Args {
			parts = append(parts, a.String())
		}
		return "text[" + strings.Join(parts, ",") + "]"
	case "closure":
		return "closure:" + t.Fn.Name()
	case "rtype":
		return "rtype(" + t.Name + ")"
	case "ctx":
		return fmt.Sprintf("ctx@%d(%s)", t.ID, t.Args[0].String())
	case "rvalue":
		return "rvalue(" + t.Args[0].String() + ")"
	case "tuple":
		parts := []string{}
		for _, a := range t.Args {
			parts = append(parts, a.String())
		}
		return "(" + strings.Join(parts, ",") + ")"
	case "iface":
		return t.Args[0].String()
	case "elem":
		return "elem(" + t.Args[0].String() + ")" + fmt.Sprintf("@%d", t.ID)
	case "recv":
		return "recv(" + t.Args[0].String() + ")" + fmt.Sprintf("@%d", t.ID)
	case "typeis":
		return "typeis(" + t.Args[0].String() + "," + t.Name + ")"
	case "append":
		parts := []string{}
		for _, a := range t.Args {
			parts = append(parts, a.String())
		}
		return "append(" + strings.Join(parts, ",") + ")"
	case "slice":
		parts := []string{}
		as := t.Args[1:]
		if len(as) == 3 && as[2] == nil {
			as = as[:2]
		}
		for _, a := range as {
			if a == nil {
				parts = append(parts, "")
			} else {
				parts = append(parts, a.String())
			}
		}
		return baseStr(t.Args[0]) + "[" + strings.Join(parts, ":") + "]"
	}
	return t.Op + "?"
}

// baseStr: selectors apply through pointers implicitly, as in Go source (u.devices, not (*u).devices).
func baseStr(t *Term) string {
	if t.Op == "deref" {
		return t.Args[0].String()
	}
	return t.String()
}

func typeName(t types.Type) string {
	if t == nil {
		return "?"
	}
	return types.TypeString(t, func(p *types.Package) string { return relPkg(p.Path()) })
}

// ---------------------------------------------------------------------------------------
// Interval sets over int64
// ---------------------------------------------------------------------------------------

type Interval struct{ Lo, Hi int64 }
type IntervalSet []Interval // sorted, disjoint, non-adjacent

func fullSet(t types.Type) IntervalSet {
	lo, hi := intRange(t)
	return IntervalSet{{lo, hi}}
}

func (s IntervalSet) Empty() bool { return len(s) == 0 }

func (s IntervalSet) String() string {
	parts := []string{}
	for _, i := range s {
		if i.Lo == i.Hi {
			parts = append(parts, fmt.Sprintf("%d", i.Lo))
		} else {
			lo, hi := fmt.Sprint(i.Lo), fmt.Sprint(i.Hi)
			if i.Lo == math.MinInt64 {
				lo = "-inf"
			}
			if i.Hi == math.MaxInt64 {
				hi = "+inf"
			}
			parts = append(parts, lo+".."+hi)
		}
	}
	return "{" + strings.Join(parts, ",") + "}"
}

func (s IntervalSet) Intersect(o IntervalSet) IntervalSet {
	var out IntervalSet
	for _, a := range s {
		for _, b := range o {
			lo, hi := a.Lo, a.Hi
			if b.Lo > lo {
				lo = b.Lo
			}
			if b.Hi < hi {
				hi = b.Hi
			}
			if lo <= hi {
				out = append(out, Interval{lo, hi})
			}
		}
	}
	sort.Slice(out, func(i, j int) bool { return out[i].Lo < out[j].Lo })
	return out
}

// satisfying returns the set of x with (x op c).
func satisfying(op token.Token, c int64) IntervalSet {
	const mn, mx = math.MinInt64, math.MaxInt64
	switch op {
	case token.EQL:
		return IntervalSet{{c, c}}
	case token.NEQ:
		var out IntervalSet
		if c > mn {
			out = append(out, Interval{mn, c - 1})
		}
		if c < mx {
			out = append(out, Interval{c + 1, mx})
		}
		return out
	case token.LSS:
		if c == mn {
			return nil
		}
		return IntervalSet{{mn, c - 1}}
	case token.LEQ:
		return IntervalSet{{mn, c}}
	case token.GTR:
		if c == mx {
			return nil
		}
		return IntervalSet{{c + 1, mx}}
	case token.GEQ:
		return IntervalSet{{c, mx}}
	}
	return nil
}

func negOp(op token.Token) token.Token {
	switch op {
	case token.EQL:
		return token.NEQ
	case token.NEQ:
		return token.EQL
	case token.LSS:
		return token.GEQ
	case token.LEQ:
		return token.GTR
	case token.GTR:
		return token.LEQ
	case token.GEQ:
		return token.LSS
	}
	return op
}

func flipOp(op token.Token) token.Token {
	switch op {
	case token.LSS:
		return token.GTR
	case token.LEQ:
		return token.GEQ
	case token.GTR:
		return token.LSS
	case token.GEQ:
		return token.LEQ
	}
	return op
}

// relation bit sets for pairs of symbolic integers
const (
	relLT = 1
	relEQ = 2
	relGT = 4
)

func relSat(op token.Token) uint8 {
	switch op {
	case token.EQL:
		return relEQ
	case token.NEQ:
		return relLT | relGT
	case token.LSS:
		return relLT
	case token.LEQ:
		return relLT | relEQ
	case token.GTR:
		return relGT
	case token.GEQ:
		return relGT | relEQ
	}
	return 0
}

func relFlip(r uint8) uint8 {
	var o uint8
	if r&relLT != 0 {
		o |= relGT
	}
	if r&relGT != 0 {
		o |= relLT
	}
	if r&relEQ != 0 {
		o |= relEQ
	}
	return o
}

func relString(r uint8) string {
	s := ""
	if r&relLT != 0 {
		s += "<"
	}
	if r&relEQ != 0 {
		s += "="
	}
	if r&relGT != 0 {
		s += ">"
	}
	return s
}

// ---------------------------------------------------------------------------------------
// Path state: what is known on the current path about symbolic leaves.
// ---------------------------------------------------------------------------------------

type strFacts struct {
	eq *string
	ne map[string]bool
}

type PathState struct {
	Ints  map[string]IntervalSet
	IntT  map[string]*Term
	Rels  map[string]uint8 // key "a\x00b" with a<b lexically; relation of a to b
	Bools map[string]bool
	BoolT map[string]*Term
	Strs  map[string]*strFacts
}

func newPathState() *PathState {
	return &PathState{Ints: map[string]IntervalSet{}, IntT: map[string]*Term{}, Rels: map[string]uint8{}, Bools: map[string]bool{}, BoolT: map[string]*Term{}, Strs: map[string]*strFacts{}}
}

// Describe renders the path condition canonically (sorted).
func (ps *PathState) Describe() string {
	parts := []string{}
	for k, v := range ps.Ints {
		parts = append(parts, k+"∈"+v.String())
	}
	for k, v := range ps.Rels {
		ab := strings.SplitN(k, "\x00", 2)
		parts = append(parts, ab[0]+relString(v)+ab[1])
	}
	for k, v := range ps.Bools {
		if v {
			parts = append(parts, k)
		} else {
			parts = append(parts, "!"+k)
		}
	}
	for k, v := range ps.Strs {
		if v.eq != nil {
			parts = append(parts, fmt.Sprintf("%s==%q", k, *v.eq))
		} else {
			ne := []string{}
			for s := range v.ne {
				ne = append(ne, fmt.Sprintf("%q", s))
			}
			sort.Strings(ne)
			parts = append(parts, k+"∉{"+strings.Join(ne, ",")+"}")
		}
	}
	sort.Strings(parts)
	return strings.Join(parts, " ∧ ")
}
