package main

import (
	"fmt"
	"os"
	"strings"

	"golang.org/x/tools/go/ssa"
)

// RuleBCD: the B rules are shared by several properties; within one process (the self-test `check ALL`) they are
// computed once per loaded program and replayed into each report.
var bcdMemo = map[*Program]*Report{}

func RuleBCD(r *Report, p *Program) {
	tmp, ok := bcdMemo[p]
	if !ok {
		tmp = NewReport(r.Property, r.Tier)
		func() {
			defer func() {
				if e := recover(); e != nil {
					tmp.Fatal("ENGINE", "panic", fmt.Sprintf("B rules: %v", e))
				}
			}()
			ruleBCD(tmp, p)
		}()
		bcdMemo[p] = tmp
	}
	for id, doc := range tmp.ruleDoc {
		r.Rule(id, doc, tmp.minCount[id])
	}
	for _, o := range tmp.Obs {
		r.add(o)
	}
	r.fatal = append(r.fatal, tmp.fatal...)
}

// B1-B3: the per-symbol maps of the BCD coder, one symbol / one byte at a time.
func ruleBCD(r *Report, p *Program) {
	r.Rule("B1", "Encode maps exactly the runes '0'..'9' to the nibbles 0..9 and every other rune to the error result", 1)
	r.Rule("B2", "Decode maps each nibble 0..9 to its digit, high nibble first, and any other nibble to the error result", 1)
	enc := p.Func("encoding/bcd", "Encode")
	dec := p.Func("encoding/bcd", "Decode")
	if enc == nil || dec == nil {
		r.Fatal("B1", "bcd", "Encode/Decode not found")
		return
	}
	// Both functions are walked for exactly one input symbol with finite-domain refinement (finite.go): every
	// path ends with the exact set of symbol values that take it, whatever idiom (switch, range test and
	// arithmetic, mask, shift, lookup table) the code uses; the emitted nibble / characters are expressions of
	// that symbol and are tabulated over the set.
	// ---- Encode, exactly one symbol
	w := NewWalker(p)
	w.LoopFuel = 3
	w.Finite = true
	w.Inline = inlineHelpers([]*ssa.Package{pkgOf(enc)}, func(f *ssa.Function) bool { return f.Object() != nil && f.Object().Exported() })
	w.AssumeBool = map[string]bool{"more(s)#1": true, "more(s)#2": false}
	w.Assume = map[string]IntervalSet{"len(s)": {{1, 1}}}
	bad := ""
	digitSeen := map[int64]bool{}
	for _, pa := range w.Walk(enc, []*Term{{Op: "param", Name: "s", Typ: enc.Params[0].Type()}}, nil) {
		if os.Getenv("UHLINT_DEBUG") == "B1" {
			fmt.Fprintf(os.Stderr, "B1 path %s %s cond=%s\n", pa.Outcome, pa.Detail, cut(pa.State.Describe(), 300))
			for _, rv := range pa.Results {
				fmt.Fprintf(os.Stderr, "   result op=%s %s\n", rv.Op, cut(rv.String(), 300))
			}
			for _, e := range pa.Events {
				fmt.Fprintf(os.Stderr, "   ev %s\n", cut(e.String(), 200))
			}
		}
		if pa.Outcome != "return" {
			bad = "path ends in " + pa.Outcome + ": " + pa.Detail
			continue
		}
		leaf := ""
		for _, k := range []string{"elem(s)@1", "s[0]"} {
			if _, has := pa.State.Ints[k]; has {
				leaf = k
			}
		}
		if leaf == "" {
			bad = "the symbol is never examined"
			continue
		}
		reg := pa.State.Ints[leaf]
		en := errNilness(pa, pa.Results[1])
		var added *Term
		for _, e := range pa.Events {
			if e.Kind == "store" && len(e.Args) == 2 && e.Args[1].Op == "bin" && (e.Args[1].Name == "+" || e.Args[1].Name == "|") {
				added = e.Args[1].Args[1]
			}
		}
		inDigits := reg.Intersect(IntervalSet{{'0', '9'}})
		switch {
		case en == 0:
			if !inDigits.Empty() {
				bad = fmt.Sprintf("the digits %s are rejected by Encode", inDigits.String())
			}
			if !pa.Results[0].IsNilConst() {
				bad = "Encode returns a value together with an error"
			}
		case en == 1:
			if !inDigits.Equal(reg) {
				bad = fmt.Sprintf("runes %s are accepted by Encode", reg.Intersect(complement(IntervalSet{{'0', '9'}})).String())
				continue
			}
			if added == nil {
				// the encoder may build its result without a read-modify-write of the output byte: take the byte
				// it returns for this one symbol
				if res := pa.Results[0]; res.Op == "ptr" && res.Cell != nil && !res.Cell.Sym && res.Cell.Val != nil && res.Cell.Val.Op == "sref" {
					if els := srefElems(res.Cell.Val); len(els) == 1 {
						added = els[0]
					}
				}
			}
			if added == nil {
				bad = "no nibble is merged into the output for an accepted symbol"
				continue
			}
			for _, v := range valuesOf(reg) {
				n, ok := evalAt(added, leaf, v)
				if !ok {
					bad = "the nibble stored for an accepted symbol is not an expression of that symbol: " + cut(added.String(), 80)
					break
				}
				if n != v-'0' {
					bad = fmt.Sprintf("rune %q encodes to nibble %d, expected %d", rune(v), n, v-'0')
					break
				}
				digitSeen[v] = true
			}
		default:
			bad = "error result of unknown nilness"
		}
	}
	if bad == "" && len(digitSeen) != 10 {
		bad = fmt.Sprintf("%d digit symbols are mapped, expected 10", len(digitSeen))
	}
	r.Check(bad == "", "B1", "bcd.Encode", p.Pos(enc.Pos()), "10 digits mapped, all other runes rejected", bad)

	// ---- Decode, exactly one byte
	w2 := NewWalker(p)
	w2.LoopFuel = 3
	w2.Finite = true
	w2.Inline = inlineHelpers([]*ssa.Package{pkgOf(dec)}, func(f *ssa.Function) bool { return f.Object() != nil && f.Object().Exported() })
	w2.Assume = map[string]IntervalSet{"len(b)": {{1, 1}}}
	w2.AssumeBool = map[string]bool{"more(b)#1": true, "more(b)#2": false}
	bad = ""
	okBytes := map[int64]bool{}
	covered := map[int64]bool{}
	paths := w2.Walk(dec, []*Term{{Op: "param", Name: "b", Typ: dec.Params[0].Type()}}, nil)
	for _, pa := range paths {
		if os.Getenv("UHLINT_DEBUG") == "B2" {
			fmt.Fprintf(os.Stderr, "B2 path %s %s cond=%s\n", pa.Outcome, pa.Detail, cut(pa.State.Describe(), 300))
			for _, rv := range pa.Results {
				fmt.Fprintf(os.Stderr, "   result op=%s %s\n", rv.Op, cut(rv.String(), 300))
				for _, ra := range rv.Args {
					fmt.Fprintf(os.Stderr, "      arg op=%s\n", ra.Op)
				}
			}
			for _, e := range pa.Events {
				fmt.Fprintf(os.Stderr, "   ev %s\n", cut(e.String(), 200))
			}
		}
		if pa.Outcome != "return" {
			bad = "path ends in " + pa.Outcome + ": " + pa.Detail
			continue
		}
		leaf := ""
		for _, k := range []string{"b[0]", "elem(b)@1"} {
			if _, has := pa.State.Ints[k]; has {
				leaf = k
			}
		}
		reg, has := pa.State.Ints[leaf]
		if !has {
			reg = IntervalSet{{0, 255}}
			leaf = "b[0]"
		}
		en := errNilness(pa, pa.Results[1])
		var writes []*Term
		for _, e := range pa.Events {
			if e.Kind == "call" && (strings.HasSuffix(e.Name, ".WriteRune") || strings.HasSuffix(e.Name, ".WriteByte")) && len(e.Args) == 2 {
				writes = append(writes, e.Args[1])
			}
			if e.Kind == "call" && strings.HasSuffix(e.Name, ".Write") && len(e.Args) == 2 {
				// several characters appended at once: each element of the slice is one character
				if els := w2.ElemsOf(e.Args[1]); els != nil {
					writes = append(writes, els...)
				} else {
					writes = append(writes, e.Args[1])
				}
			}
		}
		if len(writes) == 0 && len(pa.Results) > 0 && pa.Results[0].Op == "strv" {
			writes = pa.Results[0].Args // the text is returned as a whole instead of being written piecewise
		}
		if res := pa.Results; len(writes) == 0 && len(res) > 0 && res[0].Op == "conv" && len(res[0].Args) == 1 && isStringType(res[0].Typ) {
			// string(bytes) of the characters collected in a byte slice
			switch bs := res[0].Args[0]; bs.Op {
			case "slicev":
				writes = bs.Args
			case "sref":
				writes = srefElems(bs)
			}
		}
		for _, v := range valuesOf(reg) {
			covered[v] = true
			hi, lo := v>>4, v&15
			valid := hi <= 9 && lo <= 9
			switch {
			case en == 1 && !valid:
				bad = fmt.Sprintf("byte %#02x with a non-decimal nibble decodes without error", v)
			case en == 0 && valid:
				bad = fmt.Sprintf("byte %#02x (two decimal nibbles) is rejected", v)
			case en == 1:
				if len(writes) != 2 {
					bad = fmt.Sprintf("a decoded byte appends %d characters through the string builder, expected 2", len(writes))
					break
				}
				c0, ok0 := evalAt(writes[0], leaf, v)
				c1, ok1 := evalAt(writes[1], leaf, v)
				if !ok0 || !ok1 {
					bad = "an emitted character is not an expression of the decoded byte: " + cut(writes[0].String(), 60)
				} else if c0 != '0'+hi || c1 != '0'+lo {
					bad = fmt.Sprintf("byte %#02x decodes to %q%q, expected %q%q (high nibble first)", v, rune(c0), rune(c1), rune('0'+hi), rune('0'+lo))
				} else {
					okBytes[v] = true
				}
			case en == -1:
				bad = "error result of unknown nilness"
			}
			if bad != "" {
				break
			}
		}
	}
	if bad == "" && len(covered) != 256 {
		bad = fmt.Sprintf("the paths cover %d of the 256 byte values", len(covered))
	}
	if bad == "" && len(okBytes) != 100 {
		bad = fmt.Sprintf("%d byte values decode, expected 100", len(okBytes))
	}
	// B3: nothing in either function is reserved for longer inputs. The per-symbol verdicts above hold for every
	// length only if the code that handles a symbol is the code that was walked: every block of Encode and Decode
	// (and of the package's helpers they use) is entered by the walks for inputs of 0, 1 and 2 symbols.
	{
		r.Rule("B3", "every block of Encode and Decode is exercised by inputs of at most two symbols: no code path is reserved for longer inputs (a length-specialised fast path would escape the per-symbol analysis)", 2)
		for _, fn := range []*ssa.Function{enc, dec} {
			cov := map[*ssa.BasicBlock]bool{}
			pname := fn.Params[0].Name()
			for n := int64(0); n <= 2; n++ {
				wc := NewWalker(p)
				wc.LoopFuel = 4
				wc.Finite = true
				wc.Covered = cov
				wc.Inline = inlineHelpers([]*ssa.Package{pkgOf(fn)}, func(f *ssa.Function) bool { return f.Object() != nil && f.Object().Exported() })
				wc.Assume = map[string]IntervalSet{"len(" + pname + ")": {{n, n}}}
				wc.AssumeBool = map[string]bool{}
				for i := int64(1); i <= 3; i++ {
					wc.AssumeBool[fmt.Sprintf("more(%s)#%d", pname, i)] = i <= n
				}
				wc.Walk(fn, []*Term{{Op: "param", Name: pname, Typ: fn.Params[0].Type()}}, nil)
			}
			missing := ""
			total := 0
			var scan func(f *ssa.Function, seen map[*ssa.Function]bool)
			scan = func(f *ssa.Function, seen map[*ssa.Function]bool) {
				if f == nil || seen[f] || f.Blocks == nil {
					return
				}
				seen[f] = true
				for _, blk := range f.Blocks {
					total++
					if !cov[blk] && missing == "" && len(blk.Instrs) > 0 {
						// a block that only panics (unreachable default) is not a code path for valid or invalid input
						if _, isPanic := blk.Instrs[len(blk.Instrs)-1].(*ssa.Panic); isPanic {
							continue
						}
						missing = p.Pos(blk.Instrs[0].Pos())
						if missing == "-" {
							for _, in := range blk.Instrs {
								if in.Pos().IsValid() {
									missing = p.Pos(in.Pos())
									break
								}
							}
						}
					}
				}
				for _, cal := range staticCallees(f) {
					if pkgOf(cal) == pkgOf(fn) && (cal.Object() == nil || !cal.Object().Exported()) {
						scan(cal, seen)
					}
				}
			}
			scan(fn, map[*ssa.Function]bool{})
			r.Check(missing == "", "B3", "bcd."+fn.Name(), p.Pos(fn.Pos()), fmt.Sprintf("%d blocks, all entered for inputs of 0..2 symbols", total),
				"code at "+missing+" is not reached by any input of up to two symbols: a path reserved for longer inputs is not covered by the per-symbol analysis")
		}
	}
	r.Check(bad == "", "B2", "bcd.Decode", p.Pos(dec.Pos()), fmt.Sprintf("%d paths, 100 digit pairs in high-then-low order, the other 156 byte values rejected", len(paths)), bad)
}

func multiples16() IntervalSet {
	var s IntervalSet
	for i := int64(0); i < 256; i += 16 {
		s = append(s, Interval{i, i})
	}
	return s
}

func regionOf(pa Path, base string, mask int64) (IntervalSet, bool) {
	key := fmt.Sprintf("(%s&%d)", base, mask)
	v, ok := pa.State.Ints[key]
	return v, ok
}
