package main

import (
	"fmt"
	"strings"

	"golang.org/x/tools/go/ssa"
)

// B1-B3: the per-symbol maps of the BCD coder, one symbol / one byte at a time.
func RuleBCD(r *Report, p *Program) {
	r.Rule("B1", "Encode maps exactly the runes '0'..'9' to the nibbles 0..9 and every other rune to the error result", 1)
	r.Rule("B2", "Decode maps each nibble 0..9 to its digit, high nibble first, and any other nibble to the error result", 1)
	enc := p.Func("encoding/bcd", "Encode")
	dec := p.Func("encoding/bcd", "Decode")
	if enc == nil || dec == nil {
		r.Fatal("B1", "bcd", "Encode/Decode not found")
		return
	}
	// ---- Encode, exactly one symbol
	w := NewWalker(p)
	w.LoopFuel = 3
	w.Inline = func(f *ssa.Function, d int) bool { return false }
	w.AssumeBool = map[string]bool{"more(s)#1": true, "more(s)#2": false}
	bad := ""
	digits := 0
	covered := IntervalSet{}
	for _, pa := range w.Walk(enc, []*Term{{Op: "param", Name: "s", Typ: enc.Params[0].Type()}}, nil) {
		if pa.Outcome != "return" {
			bad = "path ends in " + pa.Outcome + ": " + pa.Detail
			continue
		}
		reg, has := pa.State.Ints["elem(s)@1"]
		if !has {
			bad = "the symbol is never examined"
			continue
		}
		covered = append(covered, reg...)
		en := errNilness(pa, pa.Results[1])
		var added *Term
		for _, e := range pa.Events {
			if e.Kind == "store" && len(e.Args) == 2 && e.Args[1].Op == "bin" && (e.Args[1].Name == "+" || e.Args[1].Name == "|") {
				added = e.Args[1].Args[1]
			}
		}
		single := len(reg) == 1 && reg[0].Lo == reg[0].Hi
		if single && reg[0].Lo >= '0' && reg[0].Lo <= '9' {
			want := reg[0].Lo - '0'
			v, isc := int64(-1), false
			if added != nil {
				v, isc = added.Int64()
			}
			if en != 1 || !isc || v != want {
				bad = fmt.Sprintf("rune %q encodes to %v (error nil=%d), expected nibble %d", rune(reg[0].Lo), added, en, want)
			} else {
				digits++
			}
			continue
		}
		inDigits := reg.Intersect(IntervalSet{{'0', '9'}})
		if inDigits.Empty() {
			if en != 0 || !pa.Results[0].IsNilConst() {
				bad = fmt.Sprintf("runes %s are accepted by Encode", reg.String())
			}
			continue
		}
		// a range idiom: accepted only when the region is inside '0'..'9' and the nibble is rune-'0'
		if inDigits.Equal(reg) && en == 1 && added != nil && strings.Contains(added.String(), "elem(s)@1") && strings.Contains(added.String(), "48") {
			digits += int(reg[0].Hi - reg[0].Lo + 1)
			continue
		}
		bad = fmt.Sprintf("runes %s straddle the digit range on one path", reg.String())
	}
	if bad == "" && digits != 10 {
		bad = fmt.Sprintf("%d digit symbols are mapped, expected 10", digits)
	}
	r.Check(bad == "", "B1", "bcd.Encode", p.Pos(enc.Pos()), "10 digits mapped, all other runes rejected", bad)

	// ---- Decode, exactly one byte
	w2 := NewWalker(p)
	w2.LoopFuel = 3
	w2.Inline = func(f *ssa.Function, d int) bool { return false }
	w2.Assume = map[string]IntervalSet{"len(b)": {{1, 1}}}
	bad = ""
	pairs := 0
	paths := w2.Walk(dec, []*Term{{Op: "param", Name: "b", Typ: dec.Params[0].Type()}}, nil)
	for _, pa := range paths {
		if pa.Outcome != "return" {
			bad = "path ends in " + pa.Outcome + ": " + pa.Detail
			continue
		}
		hi, hasHi := regionOf(pa, "b[0]", 240)
		lo, hasLo := regionOf(pa, "b[0]", 15)
		en := errNilness(pa, pa.Results[1])
		var writes []int64
		for _, e := range pa.Events {
			if e.Kind == "call" && (strings.HasSuffix(e.Name, ".WriteRune") || strings.HasSuffix(e.Name, ".WriteByte")) && len(e.Args) == 2 {
				if v, ok := e.Args[1].Int64(); ok {
					writes = append(writes, v)
				} else {
					writes = append(writes, -1)
				}
			}
		}
		hiDigit := hasHi && len(hi) == 1 && hi[0].Lo == hi[0].Hi && hi[0].Lo%16 == 0 && hi[0].Lo/16 <= 9
		loDigit := hasLo && len(lo) == 1 && lo[0].Lo == lo[0].Hi && lo[0].Lo <= 9
		switch {
		case hiDigit && loDigit:
			if en != 1 || len(writes) != 2 || writes[0] != '0'+hi[0].Lo/16 || writes[1] != '0'+lo[0].Lo {
				bad = fmt.Sprintf("byte with nibbles %d,%d decodes to %v (error nil=%d)", hi[0].Lo/16, lo[0].Lo, writes, en)
			} else {
				pairs++
			}
		case hasHi && !hiDigit && hi.Intersect(multiples16()).Empty() == false && hi.Intersect(IntervalSet{{0, 0x9f}}).Intersect(multiples16()).Empty():
			if en != 0 {
				bad = "a high nibble above 9 is accepted"
			}
		default:
			if en != 0 {
				// a success path must have decided both nibbles as digits
				bad = fmt.Sprintf("decode succeeds under [%s] without both nibbles being decimal", cut(pa.State.Describe(), 120))
			}
		}
	}
	if bad == "" && pairs != 100 {
		bad = fmt.Sprintf("%d (high,low) digit pairs decode, expected 100", pairs)
	}
	r.Check(bad == "", "B2", "bcd.Decode", p.Pos(dec.Pos()), fmt.Sprintf("%d paths, 100 digit pairs in high-then-low order, everything else rejected", len(paths)), bad)
}

func multiples16() IntervalSet {
	var s IntervalSet
	for i := int64(0); i < 256; i += 16 {
		s = append(s, Interval{i, i})
	}
	return s
}

func regionOf(pa Path, base string, mask int64) (IntervalSet, bool) {
	key := fmt.Sprintf("(%s&%d)", base, mask)
	v, ok := pa.State.Ints[key]
	return v, ok
}
