package main

import (
	"fmt"
	"strings"

	"golang.org/x/tools/go/ssa"
)

// RD: every goroutine that loops on a blocking datagram read hands each datagram it read without error to its
// consumer before it reads again or ends: the listener's reader calls the handler for every such datagram
// (whatever its length: the handler turns a malformed one into the one error callback), the discovery
// collector keeps every datagram that could be a reply (64 bytes) and never stops collecting on a successful read.
//
// listener == true: the driver's Listen; false: functions returning a list of replies.
func RuleDelivered(r *Report, p *Program, listener bool) {
	r.Rule("RD", "reader goroutines: every datagram read without error is handed on (handler call / appended to the shared list) before the next read, and the loop is left only after a failed read", 1)
	for _, sf := range SocketFns(p) {
		if listener != sf.Listen {
			continue
		}
		if !listener && !returnsList(sf.Fn) {
			continue
		}
		for _, gt := range goTargetsIn(sf.Fn) {
			cfn := gt.Fn
			if !readsSocket(cfn) {
				continue
			}
			w := NewWalker(p)
			w.LoopFuel = bound(2, 3)
			w.Inline = inlineHelpers([]*ssa.Package{p.SSAPkg("uhppote")}, nil)
			paths := w.Walk(cfn, symbolicArgs(cfn), nil)
			bad := ""
			nOK := 0
			for _, pa := range paths {
				for i, e := range pa.Events {
					if !isReadCall(e) || e.Result == nil || len(e.Args) < 2 {
						continue
					}
					res := e.Result.String()
					// the read succeeded on this path?
					okRead, known := false, false
					for k, v := range pa.State.Bools {
						if k == "isnil("+res+"#2)" || k == "isnil("+res+"#1)" {
							okRead, known = v, true
						}
					}
					if !known || !okRead {
						continue
					}
					nOK++
					delivered := false
					next := len(pa.Events)
					for j := i + 1; j < len(pa.Events); j++ {
						pe := pa.Events[j]
						if isReadCall(pe) {
							next = j
							break
						}
						hands := false
						if pe.Kind == "call" && strings.HasPrefix(pe.Name, "dyn:") {
							hands = true
						}
						if pe.Kind == "store" && len(pe.Args) > 0 {
							// a store into storage that was not allocated on this path: a variable shared with the
							// parent (captured, or reached through a pointer the goroutine was given)
							if a := pe.Args[0]; a.Op != "ptr" || (a.Cell != nil && a.Cell.Sym) {
								hands = true
							}
						}
						if hands {
							for _, a := range pe.Args {
								s := a.String()
								if strings.Contains(s, res+"#0") && strings.Contains(s, e.Args[1].String()) {
									delivered = true
								}
							}
						}
					}
					if !delivered {
						n := pa.State.Ints[res+"#0"]
						could64 := n == nil || !n.Intersect(IntervalSet{{64, 64}}).Empty()
						if listener || could64 {
							bad = fmt.Sprintf("the datagram read at %s is not handed on when [%s]", p.Pos(e.Pos), cut(pa.State.Describe(), 200))
						}
					}
					if next == len(pa.Events) && pa.Outcome == "return" {
						bad = fmt.Sprintf("the goroutine ends after a successful read at %s when [%s]: later datagrams are lost", p.Pos(e.Pos), cut(pa.State.Describe(), 200))
					}
				}
			}
			r.Check(bad == "" && nOK >= 1, "RD", sf.Name+":"+calleeName(cfn), p.Pos(cfn.Pos()), fmt.Sprintf("%d paths, %d successful reads examined", len(paths), nOK), bad)
		}
	}
}
