package main

import (
	"fmt"
	"go/token"
	"go/types"
	"strings"

	"golang.org/x/tools/go/ssa"
)

// RD: every goroutine that loops on a blocking datagram read hands each datagram it read without error to its
// consumer before it reads again or ends: the listener's reader calls the handler for every such datagram
// (whatever its length: the handler turns a malformed one into the one error callback), the discovery
// collector keeps every datagram that could be a reply (64 bytes) and never stops collecting on a successful read.
//
// listener == true: the driver's Listen; false: functions returning a list of replies.
func RuleDelivered(r *Report, p *Program, listener bool) {
	r.Rule("RD", "reader goroutines: every datagram read without error is handed on (handler call / appended to the shared list) before the next read, and the loop is left only after a failed read", 1)
	for _, sf := range SocketFns(p) {
		if listener != sf.Listen {
			continue
		}
		if !listener && !returnsList(sf.Fn) {
			continue
		}
		for _, gt := range goTargetsIn(sf.Fn) {
			cfn := gt.Fn
			if !readsSocket(cfn) {
				continue
			}
			w := NewWalker(p)
			w.LoopFuel = bound(2, 3)
			w.Inline = inlineHelpers([]*ssa.Package{p.SSAPkg("uhppote")}, nil)
			paths := w.Walk(cfn, symbolicArgs(cfn), nil)
			bad := ""
			nOK := 0
			// the parent's "I have returned" signal (a channel it closes by defer, a context it cancels by defer):
			// a path of the goroutine that has received it runs after the call is over
			sentOn := map[string]bool{}
			doneName := ""
			if _, ch := doneSignalChan(sf.Fn.Blocks, gt); ch != nil {
				doneName = freeChanName(ch)
			}
			for _, pa := range paths {
				parentGone := len(pa.Events)
				for j, pe := range pa.Events {
					if doneName != "" && pe.Kind == "recv" && len(pe.Args) == 1 && pe.Args[0].String() == doneName {
						parentGone = j
						break
					}
				}
				for i, e := range pa.Events {
					if i > parentGone {
						break
					}
					if !isReadCall(e) || e.Result == nil || len(e.Args) < 2 {
						continue
					}
					res := e.Result.String()
					// the read succeeded on this path?
					okRead, known := false, false
					for k, v := range pa.State.Bools {
						if k == "isnil("+res+"#2)" || k == "isnil("+res+"#1)" {
							okRead, known = v, true
						}
					}
					if !known || !okRead {
						continue
					}
					nOK++
					delivered := false
					next := len(pa.Events)
					for j := i + 1; j < len(pa.Events); j++ {
						pe := pa.Events[j]
						if isReadCall(pe) {
							next = j
							break
						}
						hands := false
						if pe.Kind == "call" && strings.HasPrefix(pe.Name, "dyn:") {
							hands = true
						}
						if pe.Kind == "store" && len(pe.Args) > 0 {
							// a store into storage that was not allocated on this path: a variable shared with the
							// parent (captured, or reached through a pointer the goroutine was given)
							if a := pe.Args[0]; a.Op != "ptr" || (a.Cell != nil && a.Cell.Sym) {
								hands = true
							}
						}
						if pe.Kind == "send" && len(pe.Args) == 2 && strings.Contains(pe.Args[0].String(), "free:") && !listener {
							// sent to the parent on a channel both share: handed on if the parent keeps what it receives
							// from that channel (checked on the parent's paths below)
							hands = true
							sentOn[pe.Args[0].String()] = true
						}
						if hands {
							for _, a := range pe.Args {
								s := a.String()
								if strings.Contains(s, res+"#0") && strings.Contains(s, e.Args[1].String()) {
									delivered = true
								}
							}
						}
					}
					if next > parentGone {
						continue // the call had returned before this datagram could be handed over: it came too late
					}
					if !delivered {
						n := pa.State.Ints[res+"#0"]
						could64 := n == nil || !n.Intersect(IntervalSet{{64, 64}}).Empty()
						if listener || could64 {
							bad = fmt.Sprintf("the datagram read at %s is not handed on when [%s]", p.Pos(e.Pos), cut(pa.State.Describe(), 200))
						}
					}
					if next == len(pa.Events) && pa.Outcome == "return" {
						bad = fmt.Sprintf("the goroutine ends after a successful read at %s when [%s]: later datagrams are lost", p.Pos(e.Pos), cut(pa.State.Describe(), 200))
					}
				}
			}
			if len(sentOn) > 0 {
				// the parent's half of a hand-over by channel: every datagram it receives is part of what it returns
				for _, pa := range sf.Paths {
					if pa.Outcome != "return" || len(pa.Results) == 0 {
						continue
					}
					res := pa.Results[0].String()
					if c := cellOfTerm(pa.Results[0]); c != nil && c.Val != nil {
						res += " " + c.Val.String()
					}
					for _, e := range pa.Events {
						if e.Kind == "recv" && e.Result != nil && e.Result.Typ != nil && isByteSlice(e.Result.Typ) && !strings.Contains(res, e.Result.String()) {
							bad = fmt.Sprintf("a datagram the call receives from its reader goroutine at %s is not part of the replies it returns (%s)", p.Pos(e.Pos), cut(res, 80))
						}
						// while the call waits for the collection window to pass it must be receiving: a wait that is a
						// sleep (or a bare receive from a timer) leaves the reader blocked in its send once the channel's
						// buffer is full, and what arrives after that is lost
						waits := isCall(e, "time.Sleep")
						if e.Kind == "recv" && len(e.Args) == 1 && (strings.HasPrefix(e.Name, "time.After") || strings.Contains(e.Name, "time.NewTimer")) {
							waits = true
							if sel, ok := e.Instr.(*ssa.Select); ok {
								for _, st := range sel.States {
									if ch, isCh := st.Chan.Type().Underlying().(*types.Chan); isCh && st.Dir == types.RecvOnly && isByteSlice(ch.Elem()) {
										waits = false // the wait is one case of a select that also receives the datagrams
									}
								}
							}
						}
						if waits {
							bad = fmt.Sprintf("the reader goroutine hands its datagrams over on a channel, but while the call waits at %s it does not receive from it: once the channel's buffer is full the reader blocks and later replies are lost", p.Pos(e.Pos))
						}
					}
				}
			}
			r.Check(bad == "" && nOK >= 1, "RD", sf.Name+":"+calleeName(cfn), p.Pos(cfn.Pos()), fmt.Sprintf("%d paths, %d successful reads examined", len(paths), nOK), bad)
		}
	}
}

// freeChanName: how the walker renders a channel expression of a goroutine body that is a captured variable
// (or the Done() channel of a captured context).
func freeChanName(ch ssa.Value) string {
	if ld, ok := ch.(*ssa.UnOp); ok && ld.Op == token.MUL {
		if fv, ok := ld.X.(*ssa.FreeVar); ok {
			return "*free:" + fv.Name()
		}
	}
	if fv, ok := ch.(*ssa.FreeVar); ok {
		return "free:" + fv.Name()
	}
	return ""
}
