package main

import (
	"go/constant"
	"go/types"
	"strings"

	"golang.org/x/tools/go/ssa"
)

// ---------------------------------------------------------------------------------------
// Range-over-func (Go 1.23). `for x := range seq` compiles to a call of the iterator with a synthetic yield
// closure, plus two protocol checks that panic: "yield function called after range loop exit" (in the yield
// closure) and "iterator call did not preserve panic" (after the call). Neither can fire when the iterator keeps
// the protocol: it calls yield only while every earlier call returned true, does not keep or hand on yield, and
// does not recover panics. That is checked for every iterator-shaped function of the module (a parameter of type
// func(...) bool that is called); iterators of the standard library are trusted to keep the protocol they define.
// ---------------------------------------------------------------------------------------

func isRangeFuncPanic(x *ssa.Panic) bool {
	if x.Pos().IsValid() {
		return false
	}
	mi, ok := x.X.(*ssa.MakeInterface)
	if !ok {
		return false
	}
	c, ok := mi.X.(*ssa.Const)
	if !ok || c.Value == nil || c.Value.Kind() != constant.String {
		return false
	}
	s := constant.StringVal(c.Value)
	return strings.HasPrefix(s, "yield function called after range loop exit") || strings.HasPrefix(s, "iterator call did not preserve panic")
}

var iteratorsOK = map[*Program]int{}

// moduleIteratorsKeepProtocol: every function of the module that takes and calls a yield-shaped parameter keeps
// the range-over-func protocol.
func moduleIteratorsKeepProtocol(p *Program) (bool, string) {
	for _, fn := range p.AllFuncs {
		if !inModule(fn) || fn.Blocks == nil || fn.Synthetic == "range-over-func yield" {
			continue
		}
		// an iterator function (Go spec, "range over function"): func(yield func(...) bool), no results
		if fn.Signature.Params().Len() != 1 || fn.Signature.Results().Len() != 0 {
			continue
		}
		for _, prm := range fn.Params {
			sig, ok := prm.Type().Underlying().(*types.Signature)
			if !ok || sig.Results().Len() != 1 || !isBoolType(sig.Results().At(0).Type()) {
				continue
			}
			if why := yieldMisuse(fn, prm); why != "" {
				return false, calleeName(fn) + ": " + why
			}
		}
	}
	return true, ""
}

func yieldMisuse(fn *ssa.Function, yield *ssa.Parameter) string {
	refs := yield.Referrers()
	if refs == nil {
		return ""
	}
	var calls []*ssa.Call
	for _, r := range *refs {
		switch x := r.(type) {
		case *ssa.Call:
			if x.Call.Value != ssa.Value(yield) {
				return "hands its yield function to another function"
			}
			calls = append(calls, x)
		case *ssa.DebugRef:
		default:
			return "keeps or hands on its yield function"
		}
	}
	if len(calls) == 0 {
		return ""
	}
	// no recover in the iterator
	for _, b := range fn.Blocks {
		for _, in := range b.Instrs {
			if d, ok := in.(*ssa.Defer); ok {
				if f, ok := d.Call.Value.(*ssa.MakeClosure); ok {
					if reachesCall(f.Fn.(*ssa.Function), func(n string) bool { return n == "builtin:recover" }, map[*ssa.Function]bool{}) || usesRecover(f.Fn.(*ssa.Function)) {
						return "recovers panics of the loop body"
					}
				}
			}
		}
	}
	isYieldCall := func(in ssa.Instruction) bool {
		c, ok := in.(*ssa.Call)
		return ok && c.Call.Value == ssa.Value(yield)
	}
	reachHasYield := func(start *ssa.BasicBlock, fromIdx int) bool {
		seen := map[*ssa.BasicBlock]bool{}
		var visit func(b *ssa.BasicBlock, from int) bool
		visit = func(b *ssa.BasicBlock, from int) bool {
			for i := from; i < len(b.Instrs); i++ {
				if isYieldCall(b.Instrs[i]) {
					return true
				}
			}
			for _, s := range b.Succs {
				if !seen[s] {
					seen[s] = true
					if visit(s, 0) {
						return true
					}
				}
			}
			return false
		}
		return visit(start, fromIdx)
	}
	for _, c := range calls {
		cr := c.Referrers()
		used := false
		if cr != nil {
			for _, u := range *cr {
				cond := ssa.Value(c)
				neg := false
				if un, ok := u.(*ssa.UnOp); ok && un.Op.String() == "!" {
					cond, neg = un, true
					if un.Referrers() != nil {
						for _, uu := range *un.Referrers() {
							if ifi, ok := uu.(*ssa.If); ok && ifi.Cond == cond {
								used = true
								falseSucc := ifi.Block().Succs[0] // !yield true => yield returned false
								_ = neg
								if reachHasYield(falseSucc, 0) {
									return "may call yield again after it returned false"
								}
							}
						}
					}
					continue
				}
				if ifi, ok := u.(*ssa.If); ok && ifi.Cond == cond {
					used = true
					if reachHasYield(ifi.Block().Succs[1], 0) {
						return "may call yield again after it returned false"
					}
				}
				if _, ok := u.(*ssa.Return); ok {
					used = true // `return yield(x)`: nothing follows
				}
			}
		}
		if !used {
			// the result is ignored (or combined): then this must be the last call on every path
			idx := 0
			for i, in := range c.Block().Instrs {
				if in == ssa.Instruction(c) {
					idx = i + 1
				}
			}
			// a short-circuit `ok && !yield(..)` is compiled to branches, so "combined" forms are rare: be strict
			if reachHasYield(c.Block(), idx) {
				return "ignores the result of yield and may call it again"
			}
		}
	}
	return ""
}

func usesRecover(fn *ssa.Function) bool {
	for _, b := range fn.Blocks {
		for _, in := range b.Instrs {
			if c, ok := in.(ssa.CallInstruction); ok {
				if bi, ok := c.Common().Value.(*ssa.Builtin); ok && bi.Name() == "recover" {
					return true
				}
			}
		}
	}
	return false
}
