package main

import (
	"fmt"
	"go/token"
	"go/types"
	"os"
	"reflect"
	"regexp"
	"sort"
	"strconv"
	"strings"
	"time"

	"golang.org/x/tools/go/ssa"
)

// ---------------------------------------------------------------------------------------
// K10 decode domains, W26 card format, J1-J5 text/JSON pairs
// ---------------------------------------------------------------------------------------

func methodOf(p *Program, t *types.Named, name string) *ssa.Function {
	for _, typ := range []types.Type{t, types.NewPointer(t)} {
		sel := p.SSA.MethodSets.MethodSet(typ).Lookup(t.Obj().Pkg(), name)
		if sel != nil {
			return p.SSA.MethodValue(sel)
		}
	}
	return nil
}

func namedTypes(p *Program, rel string) []*types.Named {
	var out []*types.Named
	pk := p.Pkg(rel)
	sc := pk.Types.Scope()
	for _, n := range sc.Names() {
		if tn, ok := sc.Lookup(n).(*types.TypeName); ok {
			if nt, ok := tn.Type().(*types.Named); ok {
				out = append(out, nt)
			}
		}
	}
	return out
}

func walkSimple(p *Program, fn *ssa.Function, names []string, inline func(f *ssa.Function, d int) bool) []Path {
	w := NewWalker(p)
	w.LoopFuel = 5
	if inline == nil {
		inline = func(f *ssa.Function, d int) bool { return false }
	}
	w.Inline = inline
	args := make([]*Term, len(fn.Params))
	for i, prm := range fn.Params {
		nm := prm.Name()
		if i < len(names) {
			nm = names[i]
		}
		args[i] = &Term{Op: "param", Name: nm, Typ: prm.Type()}
	}
	return w.Walk(fn, args, nil)
}

// findStructTerms collects struct terms of the given named type reachable from results and stores.
func findStructTerms(pa Path, typeName_ string) []*Term {
	var out []*Term
	seen := map[*Term]bool{}
	visit := func(t *Term) {
		visitTerm(t, seen, func(x *Term) {
			if x.Op == "struct" && x.Typ != nil && strings.HasSuffix(typeName(x.Typ), typeName_) {
				out = append(out, x)
			}
		})
	}
	for _, r := range pa.Results {
		visit(r)
	}
	for _, e := range pa.Events {
		if e.Kind == "store" {
			for _, a := range e.Args {
				visit(a)
			}
		}
	}
	for _, c := range pa.SymCells {
		visit(c.Val)
	}
	return out
}

func regionOrFull(pa Path, t *Term) IntervalSet {
	if c, ok := t.Int64(); ok {
		return IntervalSet{{c, c}}
	}
	if v, ok := pa.State.Ints[t.String()]; ok {
		return v
	}
	return fullSet(t.Typ)
}

var kindsSpecMemo *KindsSpec

func kindsSpec() *KindsSpec {
	if kindsSpecMemo == nil {
		ks := &KindsSpec{}
		if err := loadJSON("/verif/spec/kinds.json", ks); err != nil {
			panic("kinds.json: " + err.Error())
		}
		kindsSpecMemo = ks
	}
	return kindsSpecMemo
}

func RuleK10(r *Report, p *Program) {
	RuleK10Only(r, p, map[string]bool{"K10": true, "K10a": true, "K10b": true})
}

func RuleK10Only(r *Report, p *Program, which map[string]bool) {
	tmp := NewReport(r.Property, r.Tier)
	ruleK10All(tmp, p)
	docs := map[string]string{
		"K10":  "every HH:mm parser accepts exactly the domain: hours 0..23 with minutes 0..59, and 24:00 (nothing beyond it is constructed, nothing inside it is rejected)",
		"K10a": "a decoder returns (nil, error) when the BCD digits are not decimal",
		"K10b": "a calendar-impossible date or time never yields a fabricated value: the decoder returns the zero value or an error",
	}
	mins := map[string]int{"K10": 3, "K10a": 5, "K10b": 4}
	for id := range which {
		r.Rule(id, docs[id], mins[id])
	}
	for _, o := range tmp.Obs {
		if which[o.Rule] {
			r.add(o)
		}
	}
	for _, f := range tmp.fatal {
		r.Fatal("K10", "engine", f)
	}
}

// K10c: every BCD date/time decoder validates the calendar with the layout its encoder formats with.
func RuleK10c(r *Report, c *Codec) {
	r.Rule("K10c", "a BCD date/time decoder parses the digits with exactly the time layout its encoder formats with (calendar validation by package time, same component order)", 4)
	for _, kf := range c.Kinds {
		if !strings.HasPrefix(kf.Sig, "bcd:") || strings.Contains(kf.Sig, "%") || kf.UnmarshalFn == nil {
			continue
		}
		layout := strings.TrimPrefix(kf.Sig, "bcd:")
		got := map[string]bool{}
		collectCallConsts(kf.UnmarshalFn, "time.ParseInLocation", 0, got, 0, c.P)
		collectCallConsts(kf.UnmarshalFn, "time.Parse", 0, got, 0, c.P)
		r.Check(len(got) == 1 && got[layout], "K10c", kf.Name, c.P.Pos(kf.UnmarshalFn.Pos()), "parses with "+layout,
			fmt.Sprintf("decoder parses with layouts {%s}, the encoder formats with %q: impossible dates are not rejected by package time / components may be permuted", keysOf(got), layout))
	}
}

func ruleK10All(r *Report, p *Program) {
	tp := p.SSAPkg("types")
	for _, fn := range p.AllFuncs {
		if fn.Pkg != tp || fn.Parent() != nil {
			continue
		}
		// entry points only (exported functions and methods): unexported helpers are walked as part of them
		if fn.Object() == nil || (!fn.Object().Exported() && fn.Signature.Recv() == nil) {
			continue
		}
		// the parsers of HH:mm: entry points that build an HHmm value from parsed components, whatever they parse
		// with (regexp groups and Atoi, strings.Cut and digit arithmetic, ...), directly or through another
		// constructor of the package (which is then walked in line)
		buildsHHmm := reachesInstr(fn, tp, func(in ssa.Instruction) bool {
			if al, ok := in.(*ssa.Alloc); ok {
				return strings.HasSuffix(typeName(al.Type().Underlying().(*types.Pointer).Elem()), "types.HHmm")
			}
			if st, ok := in.(*ssa.Store); ok {
				if strings.HasSuffix(typeName(st.Val.Type()), "types.HHmm") {
					return true
				}
				if fa, ok := st.Addr.(*ssa.FieldAddr); ok { // *h = HHmm{...} compiled to one store per field
					if pt, ok := fa.X.Type().Underlying().(*types.Pointer); ok {
						return strings.HasSuffix(typeName(pt.Elem()), "types.HHmm")
					}
				}
			}
			return false
		}, map[*ssa.Function]bool{})
		returnsHHmm := func(f *ssa.Function) bool {
			rs := f.Signature.Results()
			for i := 0; i < rs.Len(); i++ {
				tn := typeName(rs.At(i).Type())
				if strings.HasSuffix(tn, "types.HHmm") {
					return true
				}
			}
			return false
		}
		helpers := inlineHelpers([]*ssa.Package{tp}, func(f *ssa.Function) bool {
			return f.Object() != nil && f.Object().Exported() && !returnsHHmm(f)
		})
		name := calleeName(fn)
		// a parser takes text or bytes; constructors from numbers or instants (NewHHmm, HHmmFromTime) have no format
		takesText := false
		for _, prm := range fn.Params {
			if isStringType(prm.Type()) {
				takesText = true
			}
			if sl, ok := prm.Type().Underlying().(*types.Slice); ok {
				if b, ok := sl.Elem().Underlying().(*types.Basic); ok && b.Kind() == types.Uint8 {
					takesText = true
				}
			}
		}
		if buildsHHmm && takesText {
			paths := walkSimple(p, fn, nil, helpers)
			bad := ""
			n := 0
			var grid [25][60]bool
			for _, pa := range paths {
				if pa.Outcome != "return" {
					continue
				}
				for _, st := range findStructTerms(pa, "types.HHmm") {
					f0, f1 := "hours", "minutes"
					if stt, ok := st.Typ.Underlying().(*types.Struct); ok && stt.NumFields() == 2 {
						f0, f1 = stt.Field(0).Name(), stt.Field(1).Name()
					}
					h, m := project(st, f0), project(st, f1)
					if h.IsConst() && m.IsConst() {
						continue
					}
					n++
					if ho, mo := sourceOrder(h), sourceOrder(m); ho < 0 || mo < 0 || ho >= mo {
						bad = "the hours are not taken from the part of the text that precedes the minutes: " + cut(h.String(), 60) + " / " + cut(m.String(), 60)
					}
					// components computed from characters: every character used must have been checked to be a digit
					for _, comp := range []*Term{h, m} {
						visitTerm(comp, map[*Term]bool{}, func(x *Term) {
							if (x.Op == "index" || x.Op == "lookup") && x.Typ != nil && isIntType(x.Typ) && len(x.Args) == 2 && (isStringType(x.Args[0].Typ) || isByteSlice(x.Args[0].Typ)) {
								if packedDigits(pa, comp, x) {
									return // a message byte that bcd.Decode accepted, taken apart as its two decimal nibbles
								}
								if cr := intervalOf(pa, x, 0); !cr.Intersect(complement(IntervalSet{{'0', '9'}})).Empty() {
									bad = "the character " + cut(x.String(), 40) + " enters the value without being restricted to '0'..'9' (accepts " + cr.Intersect(complement(IntervalSet{{'0', '9'}})).String() + ")"
								}
							}
						})
					}
					// components read with Atoi/ParseInt from a piece cut out of the text by position: these accept a sign
					// ("+1", "-0"), so every character of the piece must have been restricted to '0'..'9'
					for _, comp := range []*Term{h, m} {
						visitTerm(comp, map[*Term]bool{}, func(x *Term) {
							if x.Op != "call" || (x.Name != "strconv.Atoi" && x.Name != "strconv.ParseInt") || len(x.Args) == 0 {
								return
							}
							piece := x.Args[0]
							if os.Getenv("UHLINT_DEBUG") == "K10s" {
								fmt.Fprintf(os.Stderr, "K10s %s piece op=%s %s\n", x.Name, piece.Op, piece.String())
							}
							if piece.Op != "slice" || len(piece.Args) < 3 || piece.Args[2] == nil {
								return
							}
							lo, ok1 := int64(0), true
							if piece.Args[1] != nil {
								lo, ok1 = piece.Args[1].Int64()
							}
							hi, ok2 := piece.Args[2].Int64()
							if !ok1 || !ok2 || hi-lo > 8 {
								return
							}
							for i := lo; i < hi; i++ {
								ch := &Term{Op: "index", Args: []*Term{piece.Args[0], mkInt(i, types.Typ[types.Int])}, Typ: types.Typ[types.Uint8]}
								if os.Getenv("UHLINT_DEBUG") == "K10s" {
									fmt.Fprintf(os.Stderr, "K10s   ch %s in %s\n", ch.String(), intervalOf(pa, ch, 0).String())
								}
								if cr := intervalOf(pa, ch, 0); !cr.Intersect(complement(IntervalSet{{'0', '9'}})).Empty() {
									bad = "the piece " + cut(piece.String(), 30) + " is read with " + x.Name + ", which accepts a sign, and its character " + fmt.Sprint(i) + " is not restricted to '0'..'9': texts such as \"+1:30\" are accepted"
								}
							}
						})
					}
					hr, mr := intervalOf(pa, h, 0), intervalOf(pa, m, 0)
					if !hr.Intersect(complement(IntervalSet{{0, 24}})).Empty() {
						bad = "hours may be " + hr.Intersect(complement(IntervalSet{{0, 24}})).String()
					}
					if !mr.Intersect(complement(IntervalSet{{0, 59}})).Empty() {
						bad = "a time with minutes " + mr.Intersect(complement(IntervalSet{{0, 59}})).String() + " is accepted (hours " + hr.String() + ")"
					}
					if !hr.Intersect(IntervalSet{{24, 24}}).Empty() && !mr.Equal(IntervalSet{{0, 0}}) {
						bad = "24:" + mr.String() + " is accepted"
					}
					for _, h := range valuesOf(hr.Intersect(IntervalSet{{0, 24}})) {
						for _, m := range valuesOf(mr.Intersect(IntervalSet{{0, 59}})) {
							grid[h][m] = true
						}
					}
				}
			}
			if n > 0 {
				// completeness: everything the writer can emit is accepted (00:00..23:59 and 24:00)
				if bad == "" {
					for h := 0; h <= 24 && bad == ""; h++ {
						for m := 0; m <= 59; m++ {
							if h == 24 && m > 0 {
								break
							}
							if !grid[h][m] {
								bad = fmt.Sprintf("the valid time %02d:%02d is not accepted", h, m)
								break
							}
						}
					}
				}
				r.Check(bad == "", "K10", name, p.Pos(fn.Pos()), fmt.Sprintf("%d constructions; accepts exactly 00:00..23:59 and 24:00", n), bad)
			}
		}
		if fn.Name() == "UnmarshalUT0311L0x" {
			paths := walkSimple(p, fn, []string{"d", "b"}, helpers)
			nDec, badA := 0, ""
			nParse, badB := 0, ""
			for _, pa := range paths {
				if pa.Outcome != "return" || len(pa.Results) != 2 {
					continue
				}
				for k, v := range pa.State.Bools {
					if strings.HasPrefix(k, "isnil(bcd.Decode(") && !v {
						nDec++
						if !(pa.Results[0].IsNilConst() && errNilness(pa, pa.Results[1]) == 0) {
							badA = "non-decimal BCD digits do not fail the decode: returns " + cut(pa.Results[0].String(), 60)
						}
					}
					if (strings.HasPrefix(k, "isnil(time.ParseInLocation(") || strings.HasPrefix(k, "isnil(time.Parse(")) && !v {
						nParse++
						m := map[string]*Term{}
						flatten("r", pa.Results[0], m, true)
						isZero := len(m) == 1 && m["r"] != nil && (m["r"].Name == "zero" || m["r"].Name == "nil")
						if !(isZero || errNilness(pa, pa.Results[1]) == 0) {
							badB = "a calendar-invalid value yields " + cut(pa.Results[0].String(), 60)
						}
						// the zero value is an answer only for encodings that have a 'no value' in the protocol (kinds.json:
						// the dates); for the others (system time, system date) zero is an ordinary value (00:00:00)
						if isZero && errNilness(pa, pa.Results[1]) != 0 {
							if q := strings.Index(k, "\""); q >= 0 {
								if e := strings.Index(k[q+1:], "\""); e >= 0 {
									layout := k[q+1 : q+1+e]
									if sp, known := kindsSpec().Signatures["bcd:"+layout]; known && !sp.NoValue {
										badB = "a calendar-invalid " + layout + " field decodes to the zero value without an error: for this encoding zero is an ordinary value (00:00:00), so an impossible value is reported as a valid one"
									}
								}
							}
						}
					}
				}
			}
			if nDec > 0 {
				r.Check(badA == "", "K10a", name, p.Pos(fn.Pos()), "BCD error propagated", badA)
			}
			if nParse > 0 {
				r.Check(badB == "", "K10b", name, p.Pos(fn.Pos()), "zero value or error", badB)
			}
		}
	}
}

// packedDigits: comp is computed from the message byte x alone, x lies inside a field that bcd.Decode accepted
// on this path (both nibbles are decimal: B2), and comp is the number its two nibbles spell: 10*hi+lo for
// every accepted byte value.
func packedDigits(pa Path, comp, x *Term) bool {
	if !isByteSlice(x.Args[0].Typ) {
		return false
	}
	ix, ok := x.Args[1].Int64()
	if !ok {
		return false
	}
	covered := false
	for _, e := range pa.Events {
		if e.Kind != "call" || e.Name != "bcd.Decode" || len(e.Args) != 1 || e.Result == nil {
			continue
		}
		a := e.Args[0]
		if a.Op != "slice" || len(a.Args) < 3 || a.Args[0] == nil || a.Args[0].String() != x.Args[0].String() || a.Args[2] == nil {
			continue
		}
		lo := int64(0)
		if a.Args[1] != nil {
			if lo, ok = a.Args[1].Int64(); !ok {
				continue
			}
		}
		hi, ok := a.Args[2].Int64()
		if !ok || ix < lo || ix >= hi {
			continue
		}
		if isnil, has := pa.State.Bools["isnil("+e.Result.String()+"#1)"]; has && isnil {
			covered = true
		}
	}
	if !covered {
		return false
	}
	ls := leavesOf(comp)
	if len(ls) != 1 || ls[0].String() != x.String() {
		return false
	}
	n := 0
	for v := int64(0); v < 256; v++ {
		if v>>4 > 9 || v&15 > 9 {
			continue
		}
		got, ok := evalAt(comp, x.String(), v)
		if !ok || got != 10*(v>>4)+(v&15) {
			return false
		}
		n++
	}
	return n == 100
}

// W26: the card-format predicate reached from PutCard.
func RuleW26(r *Report, p *Program) {
	r.Rule("W26", "a card number is accepted as Wiegand-26 only if it has exactly eight decimal digits: facility code 0..255 followed by a five-digit number 0..65535", 1)
	r.Rule("W26f", "with an empty format list every card number is accepted; an accepted number matches at least one listed format; a number is refused only after every listed format was consulted and none of them is 'any'", 1)
	l, _ := NewLayoutEngine(p)
	a, err := NewAPI(p, l)
	if err != nil {
		r.Fatal("W26", "api", err.Error())
		return
	}
	// the predicate: the unexported bool function with (card number, list of formats) parameters that PutCard
	// reaches through in-package static calls (directly, or through a validation helper split off PutCard)
	put := a.Ops["PutCard"]
	var pred *ssa.Function
	isFormatPred := func(f *ssa.Function) bool {
		if f == nil || f.Blocks == nil || pkgOf(f) != p.SSAPkg("uhppote") || f.Object() == nil || f.Object().Exported() {
			return false
		}
		if f.Signature.Results().Len() != 1 || !isBoolType(f.Signature.Results().At(0).Type()) || len(f.Params) != 2 {
			return false
		}
		sl, ok := f.Params[1].Type().Underlying().(*types.Slice)
		if !ok || !isIntType(f.Params[0].Type()) {
			return false
		}
		n, ok := types.Unalias(sl.Elem()).(*types.Named)
		return ok && n.Obj().Pkg() != nil && strings.HasSuffix(n.Obj().Pkg().Path(), "/types") && isIntType(n)
	}
	if put != nil {
		seen := map[*ssa.Function]bool{}
		queue := []*ssa.Function{put}
		for len(queue) > 0 && pred == nil {
			f := queue[0]
			queue = queue[1:]
			if seen[f] {
				continue
			}
			seen[f] = true
			for _, g := range staticCallees(f) {
				if isFormatPred(g) {
					pred = g
					break
				}
				if pkgOf(g) == p.SSAPkg("uhppote") && g.Blocks != nil && a.Senders[g] == "" {
					queue = append(queue, g)
				}
			}
		}
	}
	if pred == nil {
		r.Fatal("W26", "format-predicate", "PutCard calls no in-package format predicate")
		return
	}
	w := NewWalker(p)
	w.LoopFuel = 2
	w.ForceBool = true
	// format lists of 0, 1 and 2 elements; expressions of up to two elements (a bit set built from the list) are
	// split exactly over the small domain of the format type
	w.Finite = true
	w.RangeCap = 2
	up := p.SSAPkg("uhppote")
	w.Inline = func(f *ssa.Function, d int) bool {
		if pk := pkgOf(f); pk != nil && (pk.Pkg.Path() == "slices" || pk.Pkg.Path() == "cmp") {
			return true // small pure generic helpers of the standard library (ContainsFunc, IndexFunc, ...)
		}
		return pkgOf(f) == up
	}
	w.MaxDepth = 6
	paths := w.Walk(pred, []*Term{{Op: "param", Name: "card", Typ: pred.Params[0].Type()}, {Op: "param", Name: "formats", Typ: pred.Params[1].Type()}}, nil)
	bad, badF := "", ""
	nW26, nEmpty := 0, 0
	for _, pa := range paths {
		if pa.Outcome != "return" {
			continue
		}
		res, isc := pa.Results[0].BoolVal()
		if !isc {
			bad = "verdict not decided: " + pa.Results[0].String()
			continue
		}
		ln, hasLen := pa.State.Ints["len(formats)"]
		if hasLen && ln.Equal(IntervalSet{{0, 0}}) {
			nEmpty++
			if !res {
				badF = "an empty format list rejects the card"
			}
			continue
		}
		if !res {
			// rejected only for these reasons: a card is refused only after every listed format has been consulted
			// and none accepted - the whole list was looked at, and no element of it is the 'any' format
			hi := int64(-1)
			if hasLen && len(ln) > 0 && ln[len(ln)-1].Hi <= 16 {
				hi = ln[len(ln)-1].Hi
			}
			if hi < 0 {
				badF = "a card is rejected although the format list (of unbounded length on this path) has not been consulted to its end: [" + cut(pa.State.Describe(), 160) + "]"
				continue
			}
			for k := int64(0); k < hi; k++ {
				v, seen := pa.State.Ints[fmt.Sprintf("formats[%d]", k)]
				if !seen {
					v, seen = pa.State.Ints[fmt.Sprintf("elem(formats)@%d", k+1)]
				}
				switch {
				case !seen:
					badF = fmt.Sprintf("a card is rejected without format #%d of the list having been consulted: [%s]", k, cut(pa.State.Describe(), 160))
				case !v.Intersect(IntervalSet{{0, 0}}).Empty():
					badF = fmt.Sprintf("a card is rejected although format #%d of the list may be 'any': [%s]", k, cut(pa.State.Describe(), 160))
				}
			}
			continue
		}
		// which format accepted? some element of the list is known to be it (in whatever order the code examines
		// the list: element by element, or collected into a set first); 'any' accepts every number
		wiegand26 := false
		anyFmt := false
		for k, v := range pa.State.Ints {
			if strings.HasPrefix(k, "formats[") {
				if v.Equal(IntervalSet{{1, 1}}) {
					wiegand26 = true
				}
				if v.Equal(IntervalSet{{0, 0}}) {
					anyFmt = true
				}
			}
		}
		if anyFmt {
			wiegand26 = false
		}
		if !wiegand26 && !anyFmt {
			badF = "a card is accepted without matching a listed format: [" + cut(pa.State.Describe(), 160) + "]"
			continue
		}
		if !wiegand26 {
			continue
		}
		// the accepting element is Wiegand-26 unless an 'any' element accepted earlier: look at the digits facts
		var fac, num IntervalSet
		hasFac, hasNum := false, false
		eight := false
		if cr, ok := pa.State.Ints["card"]; ok && cr.Intersect(complement(IntervalSet{{0, 99999999}})).Empty() {
			eight = true
		}
		for k, v := range pa.State.Ints {
			switch {
			case strings.HasPrefix(k, "len(fmt.Sprintf(\"%08") && v.Equal(IntervalSet{{8, 8}}):
				eight = true
			case strings.Contains(k, "strconv.Atoi(") && strings.Contains(k, "[:3]"):
				fac, hasFac = v, true
			case strings.Contains(k, "strconv.Atoi(") && strings.Contains(k, "[3:]"):
				num, hasNum = v, true
			case k == "(card/100000)":
				fac, hasFac, eight = v, true, true
			case k == "(card%100000)":
				num, hasNum = v, true
			}
		}

		nW26++
		switch {
		case !hasFac || !hasNum:
			bad = "Wiegand-26 acceptance does not bound both the facility code and the card number (unrecognised idiom): [" + cut(pa.State.Describe(), 200) + "]"
		case !fac.Intersect(complement(IntervalSet{{0, 255}})).Empty():
			bad = "facility codes " + fac.Intersect(complement(IntervalSet{{0, 255}})).String() + " are accepted"
		case !num.Intersect(complement(IntervalSet{{0, 65535}})).Empty():
			bad = "card numbers " + num.Intersect(complement(IntervalSet{{0, 65535}})).String() + " are accepted"
		case !eight:
			bad = "numbers with nine or ten decimal digits reach acceptance: the %08v text is split at position 3 without checking that it has exactly 8 digits (e.g. 100000000 -> facility 100, number 000000)"
		}
	}
	r.Check(bad == "" && nW26 > 0, "W26", "format-predicate:wiegand26", p.Pos(pred.Pos()), fmt.Sprintf("%d accepting paths", nW26), bad)
	r.Check(badF == "" && nEmpty > 0, "W26f", "format-predicate:list", p.Pos(pred.Pos()), "empty list accepts; acceptance implies a matching element", badF)
}

func RuleJSON(r *Report, p *Program) {
	r.Rule("J1", "every public type with a hand-written JSON encoder has a hand-written JSON decoder", 12)
	r.Rule("J2", "the layout/format a writer emits is one its reader accepts (time layouts, HH:mm, PIN width)", 6)
	r.Rule("J3", "numeric task-type bounds agree with the 13-entry task table in both parsers", 2)
	r.Rule("J4", "every text a reader accepts maps to the value whose writer emits that text (control states, weekday names)", 2)
	r.Rule("J5", "a decoder that stores into a map reached through its receiver first makes sure the map is not nil", 2)
	r.Rule("J8", "a JSON decoder of a map type stores the decoded entries into the map its receiver holds on return (allocated and assigned first when that was nil)", 2)
	tps := namedTypes(p, "types")
	for _, nt := range tps {
		mj := methodOf(p, nt, "MarshalJSON")
		uj := methodOf(p, nt, "UnmarshalJSON")
		name := "types." + nt.Obj().Name()
		if mj != nil {
			r.Check(uj != nil, "J1", name, p.Pos(mj.Pos()), "MarshalJSON/UnmarshalJSON pair", "has MarshalJSON but no UnmarshalJSON")
		}
		if mj != nil && uj != nil {
			wl, rl := map[string]bool{}, map[string]bool{}
			collectCallConsts(mj, "(time.Time).Format", 1, wl, 0, p)
			collectCallConsts(uj, "time.ParseInLocation", 0, rl, 0, p)
			collectCallConsts(uj, "time.Parse", 0, rl, 0, p)
			if len(wl) > 0 {
				ok := true
				for l := range wl {
					if !rl[l] {
						ok = false
					}
				}
				r.Check(ok, "J2", name+":json-layout", p.Pos(uj.Pos()), "writer {"+keysOf(wl)+"} ⊆ reader {"+keysOf(rl)+"}", "JSON writer layouts {"+keysOf(wl)+"} are not all accepted by the reader {"+keysOf(rl)+"}")
				// the MST verb writes the zone abbreviation, which for unnamed zones is a numeric offset that may
				// carry minutes (+0530, +0545, +0845); the MST verb parses letters and ±hh only (package time),
				// so a reader of MST text needs the numeric-offset layout as well
				for l := range wl {
					if strings.Contains(l, "MST") {
						alt := strings.Replace(l, "MST", "-0700", 1)
						r.Check(rl[alt], "J2", name+":json-zone-offset", p.Pos(uj.Pos()), "reader also accepts "+alt,
							"the writer emits the zone abbreviation ("+l+"): in zones without a name it is a numeric offset with minutes (e.g. +0530 in Asia/Colombo, +0545 in Asia/Kathmandu) which the reader's layouts {"+keysOf(rl)+"} cannot parse, so decode(encode(v)) fails there")
					}
				}
			}
			wf, rx := map[string]bool{}, map[string]bool{}
			collectCallConsts(mj, "fmt.Sprintf", 0, wf, 0, p)
			for _, pat := range usedRegexPatterns(uj, p) {
				rx[pat] = true
			}
			if len(wf) > 0 && len(rx) > 0 {
				ok := true
				d := ""
				for f := range wf {
					if !strings.Contains(f, "%02d") {
						continue
					}
					for _, sample := range [][]any{{0, 0}, {9, 5}, {24, 0}, {23, 59}} {
						txt := fmt.Sprintf(f, sample...)
						matched := false
						for re := range rx {
							if rr, err := regexp.Compile(re); err == nil && rr.MatchString(txt) {
								matched = true
							}
						}
						if !matched {
							ok, d = false, fmt.Sprintf("writer format %q produces %q which no reader pattern {%s} accepts", f, txt, keysOf(rx))
						}
					}
				}
				r.Check(ok, "J2", name+":json-format", p.Pos(uj.Pos()), "writer format accepted by reader pattern", d)
			}
		}
		// String()/parser pairs
		if st := methodOf(p, nt, "String"); st != nil {
			wl := map[string]bool{}
			collectCallConsts(st, "(time.Time).Format", 1, wl, 0, p)
			if len(wl) > 0 {
				// parsers: package-level functions returning this type
				rl := map[string]bool{}
				for _, fn := range p.AllFuncs {
					if fn.Pkg != p.SSAPkg("types") || fn.Signature.Recv() != nil || fn.Parent() != nil || fn.Signature.Results().Len() == 0 {
						continue
					}
					rt := fn.Signature.Results().At(0).Type()
					if pt, ok := rt.(*types.Pointer); ok {
						rt = pt.Elem()
					}
					if types.Identical(rt, nt) && fn.Signature.Params().Len() == 1 && isStringType(fn.Signature.Params().At(0).Type()) {
						collectCallConsts(fn, "time.ParseInLocation", 0, rl, 0, p)
					}
				}
				if len(rl) > 0 {
					ok := true
					for l := range wl {
						if !rl[l] {
							ok = false
						}
					}
					r.Check(ok, "J2", name+":text-layout", p.Pos(st.Pos()), "String {"+keysOf(wl)+"} ⊆ parser {"+keysOf(rl)+"}", "String() layout {"+keysOf(wl)+"} is not accepted by the text parser {"+keysOf(rl)+"}")
				}
			}
		}
	}
	// PIN: writer bound vs reader pattern width
	if nt := lookupNamed(p, "types", "PIN"); nt != nil {
		mj, uj := methodOf(p, nt, "MarshalJSON"), methodOf(p, nt, "UnmarshalJSON")
		if mj != nil && uj != nil {
			rx := map[string]bool{}
			for _, pat := range usedRegexPatterns(uj, p) {
				rx[pat] = true
			}
			bound := int64(-1)
			for _, pa := range walkSimple(p, mj, []string{"pin"}, typesHelpers(p)) {
				if v, ok := pa.State.Ints["pin"]; ok && len(pa.Results) > 0 {
					for _, iv := range v {
						if iv.Lo > 0 && iv.Hi > bound && iv.Hi < 1<<31 {
							// the largest PIN that is written out as digits (the text depends on the value)
							if strings.Contains(pa.Results[0].String(), "pin") {
								bound = iv.Hi
							}
						}
					}
				}
			}
			ok := false
			d := fmt.Sprintf("writer emits PINs up to %d; reader patterns {%s}", bound, keysOf(rx))
			for re := range rx {
				rr, err := regexp.Compile(re)
				if err != nil {
					continue
				}
				if bound > 0 && rr.MatchString(fmt.Sprint(bound)) && !rr.MatchString(fmt.Sprint(bound+1)) && rr.MatchString("1") && rr.MatchString("") {
					ok = true
				}
			}
			if len(rx) == 0 && bound > 0 {
				// a hand-written predicate: the reader bounds the length of the text with a constant
				maxLen := int64(-1)
				visitInstrs(uj, nil, 0, map[*ssa.Function]bool{}, func(in ssa.Instruction, env *cfEnv) {
					bo, isB := in.(*ssa.BinOp)
					if !isB {
						return
					}
					isLenOfString := func(v ssa.Value) bool {
						c, ok := v.(*ssa.Call)
						if !ok {
							return false
						}
						b, ok := c.Call.Value.(*ssa.Builtin)
						return ok && b.Name() == "len" && isStringType(c.Call.Args[0].Type())
					}
					var k int64
					var okc bool
					op := bo.Op
					switch {
					case isLenOfString(bo.X):
						k, okc = constInt(bo.Y)
					case isLenOfString(bo.Y):
						k, okc = constInt(bo.X)
						op = flipOp(op)
					}
					if !okc {
						return
					}
					switch op {
					case token.GTR, token.LEQ: // len > k rejects / len <= k accepts
						maxLen = k
					case token.GEQ, token.LSS:
						maxLen = k - 1
					}
				})
				d = fmt.Sprintf("writer emits PINs up to %d; reader accepts texts of at most %d characters", bound, maxLen)
				ok = maxLen == int64(len(fmt.Sprint(bound)))
			}
			r.Check(ok, "J2", "types.PIN:json-width", p.Pos(uj.Pos()), d, "PIN width disagreement: "+d)
			if bound > 0 {
				rulePINDomain(r, p, uj, bound)
			}
		}
	}
	ruleTaskType(r, p)
	ruleControlState(r, p)
	ruleWeekdays(r, p)
	ruleNilMaps(r, p)
	ruleMapReceivers(r, p)
	ruleCalendarDelegation(r, p)
}

// J9: calendar validation is delegated to package time. A parser of dates (text, JSON or BCD digits) hands the
// date constructor -- any function taking (year int, month time.Month, day int), time.Date included -- only the
// Year/Month/Day of an instant that time.Parse / ParseInLocation returned on this path: a hand-rolled month-length
// or leap-year rule in front of it (a "fast path") would accept dates the calendar does not have.
func ruleCalendarDelegation(r *Report, p *Program) {
	r.Rule("J9", "a parser of dates builds the date only from the year, month and day of an instant that package time parsed (no hand-rolled calendar arithmetic decides which dates exist)", 3)
	tp := p.SSAPkg("types")
	isCtor := func(f *ssa.Function) bool {
		if f == nil {
			return false
		}
		ps := f.Signature.Params()
		if ps.Len() < 3 {
			return false
		}
		return isIntType(ps.At(0).Type()) && typeName(ps.At(1).Type()) == "time.Month" && isIntType(ps.At(2).Type())
	}
	for _, fn := range p.AllFuncs {
		if fn.Pkg != tp || fn.Parent() != nil || fn.Object() == nil || (!fn.Object().Exported() && fn.Signature.Recv() == nil) {
			continue
		}
		takesText := false
		for _, prm := range fn.Params {
			if isStringType(prm.Type()) || isByteSlice(prm.Type()) {
				takesText = true
			}
		}
		if !takesText || isCtor(fn) {
			continue
		}
		if !reachesInstr(fn, tp, func(in ssa.Instruction) bool {
			c, ok := in.(ssa.CallInstruction)
			return ok && isCtor(c.Common().StaticCallee())
		}, map[*ssa.Function]bool{}) {
			continue
		}
		w := NewWalker(p)
		w.LoopFuel = 12
		// exported parsers that return the same kind of value are walked in line (UnmarshalJSON delegating to
		// ParseDate); the constructor itself stays an event
		w.Inline = inlineHelpers([]*ssa.Package{tp}, func(f *ssa.Function) bool {
			if isCtor(f) {
				return true
			}
			if f.Object() != nil && f.Object().Exported() {
				for _, prm := range f.Params {
					if isStringType(prm.Type()) {
						return false
					}
				}
				// a public constructor from an instant (DateFromTime(t) = Date(civil(t.Date()))) is part of the parser
				return !publicHelper(f, fn, isCtor)
			}
			return false
		})
		args := make([]*Term, len(fn.Params))
		for i, prm := range fn.Params {
			args[i] = &Term{Op: "param", Name: prm.Name(), Typ: prm.Type()}
		}
		bad := ""
		n := 0
		for _, pa := range w.Walk(fn, args, nil) {
			for _, e := range pa.Events {
				if os.Getenv("UHLINT_DEBUG") == "J9" {
					fmt.Fprintln(os.Stderr, "J9", calleeName(fn), pa.Outcome, e.Kind, e.Name, len(e.Args))
				}
				if e.Kind != "call" || len(e.Args) < 3 {
					continue
				}
				ce, ok := e.Instr.(ssa.CallInstruction)
				if !ok || !isCtor(ce.Common().StaticCallee()) {
					continue
				}
				n++
				want := []string{".Year(", ".Month(", ".Day("}
				for i := 0; i < 3; i++ {
					a := e.Args[i]
					for a != nil && a.Op == "conv" && len(a.Args) == 1 {
						a = a.Args[0]
					}
					as := a.String()
					parsed := strings.Contains(as, "time.Parse(") || strings.Contains(as, "time.ParseInLocation(")
					// t.Date() returns (year, month, day): component i of it is the same selector
					if a.Op == "extract" && a.Name == fmt.Sprint(i) && len(a.Args) == 1 && a.Args[0].Op == "call" && a.Args[0].Name == "(time.Time).Date" && parsed {
						continue
					}
					if !(a.Op == "call" && strings.HasPrefix(as, "(time.Time)"+want[i]) && parsed) {
						bad = fmt.Sprintf("the %s handed to %s at %s is %s, not the %s of an instant parsed by package time", []string{"year", "month", "day"}[i], e.Name, p.Pos(e.Pos), cut(as, 60), want[i][1:len(want[i])-1])
					}
				}
			}
		}
		if n > 0 {
			r.Check(bad == "", "J9", calleeName(fn), p.Pos(fn.Pos()), fmt.Sprintf("%d constructor calls", n), bad)
		}
	}
}

// J10: whatever form of JSON the PIN reader accepts, what it stores is a PIN of the domain. On every path that
// reports success the stored value is a constant in 0..bound, the unsigned base-10 reading of a text the path has
// bounded to the width of bound (by a pattern or a length test), or an integer the path condition keeps in 0..bound.
func rulePINDomain(r *Report, p *Program, uj *ssa.Function, bound int64) {
	r.Rule("J10", "every value the PIN reader stores on a successful path lies in 0..999999 (whatever JSON form it was read from)", 1)
	width := int64(len(fmt.Sprint(bound)))
	bad := ""
	n := 0
	for _, pa := range walkSimple(p, uj, []string{"p", "bytes"}, typesHelpers(p)) {
		if pa.Outcome != "return" || len(pa.Results) != 1 || errNilness(pa, pa.Results[0]) != 1 {
			continue
		}
		for _, e := range pa.Events {
			if e.Kind != "store" || len(e.Args) != 2 || !strings.HasSuffix(typeName(e.Args[1].Typ), "PIN") {
				continue
			}
			n++
			v := e.Args[1]
			for v.Op == "conv" && len(v.Args) == 1 {
				v = v.Args[0]
			}
			if k, ok := v.Int64(); ok {
				if k < 0 || k > bound {
					bad = fmt.Sprintf("the constant %d is stored as a PIN", k)
				}
				continue
			}
			if reg, ok := pa.State.Ints[v.String()]; ok && len(reg) > 0 && reg[0].Lo >= 0 && reg[len(reg)-1].Hi <= bound {
				continue
			}
			okText := false
			var call *Term
			visitTerm(v, map[*Term]bool{}, func(x *Term) {
				if x.Op == "call" && (x.Name == "strconv.ParseUint" || x.Name == "strconv.Atoi" || x.Name == "strconv.ParseInt") && len(x.Args) >= 1 {
					call = x
				}
			})
			if call != nil && (v.Op == "extract" || v.Op == "call") {
				txt := call.Args[0].String()
				unsigned := call.Name == "strconv.ParseUint"
				base10 := call.Name == "strconv.Atoi"
				if len(call.Args) >= 2 {
					if b, ok := call.Args[1].Int64(); ok && b == 10 {
						base10 = true
					}
				}
				// the text is bounded to the width by a length test ...
				if reg, ok := pa.State.Ints["len("+txt+")"]; ok && len(reg) > 0 && reg[len(reg)-1].Hi <= width && unsigned && base10 {
					okText = true
				}
				// ... or by a pattern it matched on this path: nothing wider than the bound's digits, no sign
				for k, truth := range pa.State.Bools {
					if !truth || !strings.Contains(k, "MatchString(") || !strings.Contains(k, txt) {
						continue
					}
					i, j := strings.Index(k, "MustCompile(\""), strings.LastIndex(k, "\")")
					if i < 0 || j < i {
						continue
					}
					pat, err := strconv.Unquote(k[i+len("MustCompile(") : j+1])
					if err != nil {
						continue
					}
					rr, err := regexp.Compile(pat)
					if err != nil {
						continue
					}
					nines := strings.Repeat("9", int(width))
					if base10 && rr.MatchString(nines) && !rr.MatchString(nines+"9") && !rr.MatchString("1"+strings.Repeat("0", int(width))) && !rr.MatchString("-1") && !rr.MatchString("+1") && !rr.MatchString(" 1") && !rr.MatchString("1_0") {
						okText = true
					}
				}
			}
			if !okText {
				bad = fmt.Sprintf("the reader stores %s under [%s], which is not known to lie in 0..%d", cut(e.Args[1].String(), 70), cut(pa.State.Describe(), 160), bound)
			}
		}
	}
	r.Check(bad == "" && n > 0, "J10", "types.PIN.UnmarshalJSON", p.Pos(uj.Pos()), fmt.Sprintf("%d stores on successful paths within 0..%d", n, bound), bad)
}

func lookupNamed(p *Program, rel, name string) *types.Named {
	pk := p.Pkg(rel)
	if pk == nil {
		return nil
	}
	if tn, ok := pk.Types.Scope().Lookup(name).(*types.TypeName); ok {
		nt, _ := tn.Type().(*types.Named)
		return nt
	}
	return nil
}

// tableLen: the length of the array/slice literal a String-like method indexes with its receiver.
func tableLen(fn *ssa.Function) int64 {
	if fn == nil {
		return -1
	}
	for _, b := range fn.Blocks {
		for _, in := range b.Instrs {
			if ix, ok := in.(*ssa.Index); ok {
				if at, ok := ix.X.Type().Underlying().(*types.Array); ok {
					if _, isConst := ix.Index.(*ssa.Const); !isConst {
						return at.Len()
					}
				}
			}
			if ia, ok := in.(*ssa.IndexAddr); ok {
				// a package-level array of the names
				if g, ok := ia.X.(*ssa.Global); ok {
					if at, ok := g.Type().Underlying().(*types.Pointer).Elem().Underlying().(*types.Array); ok {
						if _, isConst := ia.Index.(*ssa.Const); !isConst {
							return at.Len()
						}
					}
				}
				if al, ok := ia.X.(*ssa.Alloc); ok {
					if at, ok := al.Type().Underlying().(*types.Pointer).Elem().Underlying().(*types.Array); ok {
						if _, isConst := ia.Index.(*ssa.Const); !isConst {
							return at.Len()
						}
					}
				}
				if sl, ok := ia.X.(*ssa.Slice); ok {
					if al, ok := sl.X.(*ssa.Alloc); ok {
						if at, ok := al.Type().Underlying().(*types.Pointer).Elem().Underlying().(*types.Array); ok {
							if _, isConst := ia.Index.(*ssa.Const); !isConst {
								return at.Len()
							}
						}
					}
				}
			}
		}
	}
	return -1
}

func ruleTaskType(r *Report, p *Program) {
	nt := lookupNamed(p, "types", "TaskType")
	if nt == nil {
		r.Fatal("J3", "types.TaskType", "not found")
		return
	}
	n := tableLen(methodOf(p, nt, "String"))
	for _, m := range []string{"UnmarshalJSON", "UnmarshalTSV"} {
		fn := methodOf(p, nt, m)
		if fn == nil {
			r.Fatal("J3", "types.TaskType."+m, "not found")
			continue
		}
		// function literals and the unexported helpers of the package (taskTypeFromCode(n), taskTypeFromText(s)) are
		// part of the reader
		paths := walkSimple(p, fn, []string{"tt", "in"}, typesHelpers(p))
		accepted := IntervalSet{}
		bad := ""
		for _, pa := range paths {
			if pa.Outcome != "return" {
				continue
			}
			en := errNilness(pa, pa.Results[len(pa.Results)-1])
			for k, v := range pa.State.Ints {
				if strings.HasPrefix(k, "strconv.Atoi(") && strings.HasSuffix(k, "#0") && en == 1 {
					accepted = append(accepted, v...)
					// stored value must be v-1
					found := false
					pathTerms(pa, func(t *Term) {
						if t.Op == "bin" && t.Name == "-" && t.Args[0].String() == k {
							if c, ok := t.Args[1].Int64(); ok && c == 1 {
								found = true
							}
						}
					})
					if !found {
						bad = "accepted numeric task type is not stored as n-1"
					}
				}
			}
		}
		got := normaliseUnion(accepted)
		want := IntervalSet{{1, n}}
		if bad == "" && !got.Equal(want) {
			bad = fmt.Sprintf("numeric task types %s are accepted, the task table has %d entries (1..%d)", got.String(), n, n)
		}
		r.Check(bad == "" && n > 0, "J3", "types.TaskType."+m, p.Pos(fn.Pos()), fmt.Sprintf("accepts %s, table of %d", got.String(), n), bad)
	}
}

func ruleControlState(r *Report, p *Program) {
	nt := lookupNamed(p, "types", "ControlState")
	if nt == nil {
		r.Fatal("J4", "types.ControlState", "not found")
		return
	}
	uj, mj := methodOf(p, nt, "UnmarshalJSON"), methodOf(p, nt, "MarshalJSON")
	if uj == nil || mj == nil {
		r.Fatal("J4", "types.ControlState", "JSON methods not found")
		return
	}
	// the writer as a map value -> text (whatever its form: table, switch, map): walked over the 256 values of
	// the underlying byte with finite-domain refinement
	table := writerTexts(p, mj)
	if len(table) == 0 {
		// the writer may delegate to String()
		if st := methodOf(p, nt, "String"); st != nil {
			table = writerTexts(p, st)
		}
	}
	bad := ""
	n := 0
	// a parser of the text the reader delegates to (ParseControlState(s), unexported or a small public helper) is
	// part of the reader
	inl := inlineHelpers([]*ssa.Package{p.SSAPkg("types")}, func(f *ssa.Function) bool {
		return f.Object() != nil && f.Object().Exported() && !publicHelper(f, uj)
	})
	for _, pa := range walkSimple(p, uj, []string{"v", "in"}, inl) {
		if pa.Outcome != "return" || errNilness(pa, pa.Results[0]) != 1 {
			continue
		}
		var text *string
		for _, f := range pa.State.Strs {
			if f.eq != nil {
				text = f.eq
			}
		}
		var stored *Term
		for _, e := range pa.Events {
			if e.Kind == "store" && len(e.Args) == 2 {
				stored = e.Args[1]
			}
		}
		if text == nil || stored == nil {
			bad = "a success path of the reader stores nothing or matched no text"
			continue
		}
		v, ok := stored.Int64()
		if !ok || v < 0 || int(v) >= len(table) || table[v] != *text {
			bad = fmt.Sprintf("reader maps %q to %s, the writer's table is %q", *text, stored.String(), table)
		}
		n++
	}
	// every non-empty table entry must be readable
	if bad == "" && n != nonEmpty(table) {
		bad = fmt.Sprintf("reader accepts %d texts, the writer emits %d distinct non-empty texts", n, nonEmpty(table))
	}
	r.Check(bad == "" && n > 0, "J4", "types.ControlState", p.Pos(uj.Pos()), fmt.Sprintf("%d texts round-trip", n), bad)
}

// writerTexts: for a method of a small integer type that returns a string, the text per receiver value
// (index = value; "" where the text is empty or not a constant).
func writerTexts(p *Program, fn *ssa.Function) []string {
	if fn == nil || len(fn.Params) == 0 || !isIntType(fn.Params[0].Type()) {
		return nil
	}
	lo, hi := intRange(fn.Params[0].Type())
	if lo < -65536 || hi > 65536 {
		// a wide type: only the values 0..255 can come from a protocol byte
		lo, hi = 0, 255
	}
	w := NewWalker(p)
	w.Finite = true
	w.LoopFuel = 5
	w.Inline = typesHelpers(p)
	out := map[int64]string{}
	max := int64(-1)
	for _, pa := range w.Walk(fn, []*Term{{Op: "param", Name: "v", Typ: fn.Params[0].Type()}}, nil) {
		if pa.Outcome != "return" || len(pa.Results) == 0 {
			continue
		}
		reg, ok := pa.State.Ints["v"]
		if !ok {
			reg = IntervalSet{{lo, hi}}
		}
		reg = reg.Intersect(IntervalSet{{lo, hi}})
		res := pa.Results[0]
		for _, v := range valuesOf(reg) {
			txt := ""
			if s, ok := res.StrVal(); ok {
				txt = s
			} else if (res.Op == "index" || res.Op == "lookup") && len(res.Args) == 2 {
				if i, ok := evalAt(res.Args[1], "v", v); ok {
					els := res.Args[0].Args
					if res.Args[0].Op == "sref" {
						els = srefElems(res.Args[0])
					}
					if i >= 0 && int(i) < len(els) {
						txt, _ = els[i].StrVal()
					}
				}
			}
			if txt != "" {
				out[v] = txt
				if v > max {
					max = v
				}
			}
		}
	}
	if max < 0 {
		return nil
	}
	table := make([]string, max+1)
	for v, t := range out {
		if v >= 0 {
			table[v] = t
		}
	}
	return table
}

func nonEmpty(t []string) int {
	n := 0
	for _, s := range t {
		if s != "" {
			n++
		}
	}
	return n
}

// stringTable: the constants stored into the array literal a method indexes.
func stringTable(fn *ssa.Function) []string {
	var out []string
	for _, b := range fn.Blocks {
		for _, in := range b.Instrs {
			st, ok := in.(*ssa.Store)
			if !ok {
				continue
			}
			ia, ok := st.Addr.(*ssa.IndexAddr)
			if !ok {
				continue
			}
			idx, ok := ia.Index.(*ssa.Const)
			if !ok {
				continue
			}
			i := int(idx.Int64())
			for len(out) <= i {
				out = append(out, "")
			}
			if c, ok := st.Val.(*ssa.Const); ok && c.Value != nil {
				if s, err := unquote(c.Value.ExactString()); err == nil {
					out[i] = s
				}
			}
		}
	}
	return out
}

func ruleWeekdays(r *Report, p *Program) {
	nt := lookupNamed(p, "types", "Weekdays")
	if nt == nil {
		r.Fatal("J4", "types.Weekdays", "not found")
		return
	}
	uj := methodOf(p, nt, "UnmarshalJSON")
	if uj == nil {
		r.Fatal("J4", "types.Weekdays", "UnmarshalJSON not found")
		return
	}
	// reader: switch cases on lower-cased tokens -> map key set to true. Scan SSA for (string const compared) followed by MapUpdate(key const, true)
	bad := ""
	n := 0
	for _, b := range uj.Blocks {
		// a case block: single predecessor ending in If on a BinOp EQL with a string constant
		if len(b.Preds) != 1 {
			continue
		}
		pred := b.Preds[0]
		ifi, ok := pred.Instrs[len(pred.Instrs)-1].(*ssa.If)
		if !ok || pred.Succs[0] != b {
			continue
		}
		bo, ok := ifi.Cond.(*ssa.BinOp)
		if !ok {
			continue
		}
		var text string
		for _, op := range []ssa.Value{bo.X, bo.Y} {
			if c, ok := op.(*ssa.Const); ok && c.Value != nil {
				if s, err := unquote(c.Value.ExactString()); err == nil {
					text = s
				}
			}
		}
		if text == "" {
			continue
		}
		for _, in := range b.Instrs {
			if mu, ok := in.(*ssa.MapUpdate); ok {
				if k, ok := mu.Key.(*ssa.Const); ok {
					day := time.Weekday(k.Int64())
					n++
					if strings.ToLower(day.String()) != text {
						bad = fmt.Sprintf("reader maps %q to %v, whose written name is %q", text, day, day.String())
					}
				}
			}
		}
	}
	if n == 0 {
		// a lookup table text -> weekday, filled by the package initialiser and looked up by the reader
		visitInstrs(uj, nil, 0, map[*ssa.Function]bool{}, func(in ssa.Instruction, env *cfEnv) {
			lk, ok := in.(*ssa.Lookup)
			if !ok {
				return
			}
			g := globalLoaded(lk.X, env, 0)
			if g == nil {
				return
			}
			init := initFn(g)
			for _, sv := range storedInto(init, g) {
				mm, ok := sv.(*ssa.MakeMap)
				if !ok {
					continue
				}
				for _, b := range init.Blocks {
					for _, in2 := range b.Instrs {
						mu, ok := in2.(*ssa.MapUpdate)
						if !ok || mu.Map != ssa.Value(mm) {
							continue
						}
						kc, ok1 := mu.Key.(*ssa.Const)
						vc, ok2 := mu.Value.(*ssa.Const)
						if !ok1 || !ok2 || kc.Value == nil || vc.Value == nil || !isStringType(kc.Type()) {
							continue
						}
						text, err := unquote(kc.Value.ExactString())
						if err != nil {
							continue
						}
						day := time.Weekday(vc.Int64())
						n++
						if strings.ToLower(day.String()) != text {
							bad = fmt.Sprintf("reader maps %q to %v, whose written name is %q", text, day, day.String())
						}
					}
				}
			}
		})
	}
	r.Check(bad == "" && n == 7, "J4", "types.Weekdays", p.Pos(uj.Pos()), fmt.Sprintf("%d weekday names", n), bad+fmt.Sprintf(" (%d of 7 names handled)", n))
	// the empty set is written as "" (no names): a reader that rejects a token may do so only after it has found the
	// token (or the text) not to be empty - otherwise the writer's own image of the empty set does not read back
	w := NewWalker(p)
	w.LoopFuel = 1 // the first token: what holds for it holds for the only token of ""
	w.Inline = typesHelpers(p)
	args := make([]*Term, len(uj.Params))
	for i, prm := range uj.Params {
		args[i] = &Term{Op: "param", Name: []string{"w", "bytes"}[i%2], Typ: prm.Type()}
	}
	badE := ""
	nE := 0
	for _, pa := range w.Walk(uj, args, nil) {
		if os.Getenv("UHLINT_DEBUG") == "J4e" {
			fmt.Fprintf(os.Stderr, "J4e %s %v [%s]\n", pa.Outcome, pa.Results, pa.State.Describe())
		}
		if pa.Outcome != "return" || len(pa.Results) != 1 || errNilness(pa, pa.Results[0]) != 0 {
			continue
		}
		res := pa.Results[0].String()
		if strings.Contains(res, "json.Unmarshal") {
			continue // the JSON value is not a string: the decoder's own error
		}
		nE++
		nonEmpty := false
		for _, f := range pa.State.Strs {
			if f.ne[""] || (f.eq != nil && *f.eq != "") {
				nonEmpty = true
			}
		}
		for k, reg := range pa.State.Ints {
			if t := pa.State.IntT[k]; t != nil && strings.HasPrefix(k, "len(") && len(t.Args) == 1 && t.Args[0].Typ != nil && isStringType(t.Args[0].Typ) && len(reg) > 0 && reg[0].Lo >= 1 {
				nonEmpty = true
			}
		}
		if !nonEmpty {
			badE = "the reader rejects a text under [" + cut(pa.State.Describe(), 200) + "] without having found it (or the token) non-empty: the empty set, written as \"\", does not read back"
		}
	}
	r.Check(badE == "", "J4", "types.Weekdays:empty", p.Pos(uj.Pos()), fmt.Sprintf("%d rejecting paths, each after a non-empty token", nE), badE)
}

// J5 / P5: stores into a map reached through a pointer receiver.
func ruleNilMaps(r *Report, p *Program) {
	for _, fn := range p.AllFuncs {
		if fn.Pkg == nil || fn.Signature.Recv() == nil || fn.Parent() != nil {
			continue
		}
		recv := fn.Params[0]
		pt, ok := recv.Type().Underlying().(*types.Pointer)
		if !ok {
			continue
		}
		if _, isMap := pt.Elem().Underlying().(*types.Map); !isMap {
			continue
		}
		writes := false
		for _, b := range fn.Blocks {
			for _, in := range b.Instrs {
				if _, ok := in.(*ssa.MapUpdate); ok {
					writes = true
				}
			}
		}
		if !writes {
			continue
		}
		name := calleeName(fn)
		paths := walkSimple(p, fn, []string{"m", "in"}, nil)
		bad := ""
		n := 0
		for _, pa := range paths {
			for _, e := range pa.Events {
				if e.Kind != "mapupdate" || e.Args[0].String() != "*m" {
					continue
				}
				n++
				// established non-nil on this path? (a nil check of *m, or *m assigned a fresh map)
				okNil := false
				if v, has := pa.State.Bools["isnil(*m)"]; has && !v {
					okNil = true
				}
				if !okNil {
					bad = "stores into the map behind the receiver without establishing that it is non-nil: decoding into a zero-valued variable panics (" + p.Pos(e.Pos) + ")"
				}
			}
		}
		if n == 0 {
			// all map updates went to a locally made map: fine
			r.OK("J5", name, p.Pos(fn.Pos()), "map allocated before use", true)
			continue
		}
		r.Check(bad == "", "J5", name, p.Pos(fn.Pos()), "non-nil established before every store", bad)
	}
}

// J8: what a successful decode writes, it writes into the receiver's map
func ruleMapReceivers(r *Report, p *Program) {
	for _, fn := range p.AllFuncs {
		if fn.Pkg != p.SSAPkg("types") || fn.Name() != "UnmarshalJSON" || fn.Signature.Recv() == nil {
			continue
		}
		pt, ok := fn.Params[0].Type().Underlying().(*types.Pointer)
		if !ok {
			continue
		}
		if _, isMap := pt.Elem().Underlying().(*types.Map); !isMap {
			continue
		}
		name := calleeName(fn)
		tp := p.SSAPkg("types")
		paths := walkSimple(p, fn, []string{"m", "in"}, inlineHelpers([]*ssa.Package{tp}, func(f *ssa.Function) bool {
			return f.Object() != nil && (f.Object().Exported() || f.Signature.Recv() != nil)
		}))
		bad := ""
		n := 0
		for _, pa := range paths {
			if pa.Outcome != "return" || len(pa.Results) != 1 || errNilness(pa, pa.Results[0]) != 1 {
				continue
			}
			if v, has := pa.State.Bools["isnil(m)"]; has && v {
				continue // decoding into a nil pointer: nothing to fill
			}
			var final *Term
			for _, c := range pa.SymCells {
				if c.Name == "m" {
					final = c.Val
				}
			}
			n++
			for _, mv := range pa.Maps {
				if len(mv.Args) > 0 && types.Identical(mv.Typ, pt.Elem()) && mv != final {
					bad = "the decoded entries are stored in a map that the receiver does not hold when the decoder returns: decoding into a zero-valued (nil) variable silently yields nothing"
				}
			}
			for _, e := range pa.Events {
				if e.Kind == "mapupdate" && types.Identical(e.Args[0].Typ, pt.Elem()) {
					if final == nil || e.Args[0].String() != final.String() {
						bad = "entries are stored into " + cut(e.Args[0].String(), 60) + ", which is not the map the receiver holds when the decoder returns (" + p.Pos(e.Pos) + ")"
					}
				}
			}
		}
		r.Check(bad == "" && n > 0, "J8", name, p.Pos(fn.Pos()), fmt.Sprintf("%d successful paths", n), bad)
	}
}

var _ = sort.Strings

// ---- J6 / J7 ------------------------------------------------------------------------------

func jsonKeys(st *types.Struct) map[string]string {
	out := map[string]string{}
	for i := 0; i < st.NumFields(); i++ {
		tag := reflect.StructTag(st.Tag(i)).Get("json")
		name := strings.Split(tag, ",")[0]
		if name == "-" {
			continue
		}
		if name == "" {
			name = st.Field(i).Name()
		}
		out[name] = st.Field(i).Name()
	}
	return out
}

// structPassedTo: the struct type behind the pointer/value handed to json.Marshal / json.Unmarshal in fn.
func structPassedTo(fn *ssa.Function, callee string, argIdx int) *types.Struct {
	for _, b := range fn.Blocks {
		for _, in := range b.Instrs {
			c, ok := in.(*ssa.Call)
			if !ok {
				continue
			}
			f := c.Call.StaticCallee()
			if f == nil || calleeName(f) != callee || argIdx >= len(c.Call.Args) {
				continue
			}
			if mi, ok := c.Call.Args[argIdx].(*ssa.MakeInterface); ok {
				t := mi.X.Type()
				if pt, ok := t.Underlying().(*types.Pointer); ok {
					t = pt.Elem()
				}
				if st, ok := t.Underlying().(*types.Struct); ok {
					return st
				}
			}
		}
	}
	return nil
}

func RuleJSONStructs(r *Report, p *Program) {
	r.Rule("J6", "for every struct type with a hand-written JSON decoder: the JSON keys the decoder reads are exactly the keys the encoder writes, and each field of the value is filled from the decoded field of the same name", 3)
	r.Rule("J7", "the firmware version is written and read with the same format", 1)
	for _, nt := range namedTypes(p, "types") {
		st, ok := nt.Underlying().(*types.Struct)
		if !ok {
			continue
		}
		uj := methodOf(p, nt, "UnmarshalJSON")
		if uj == nil {
			continue
		}
		name := "types." + nt.Obj().Name()
		reader := structPassedTo(uj, "json.Unmarshal", 1)
		if reader == nil {
			continue // decodes through a string or another type's decoder: covered by J2/AD0
		}
		writer := st
		if mj := methodOf(p, nt, "MarshalJSON"); mj != nil {
			if ws := structPassedTo(mj, "json.Marshal", 0); ws != nil {
				writer = ws
			}
		}
		rk, wk := jsonKeys(reader), jsonKeys(writer)
		rs, ws := map[string]bool{}, map[string]bool{}
		for k := range rk {
			rs[k] = true
		}
		for k := range wk {
			ws[k] = true
		}
		bad := ""
		if keysOf(rs) != keysOf(ws) {
			bad = "the encoder writes the keys {" + keysOf(ws) + "}, the decoder reads {" + keysOf(rs) + "}"
		}
		// field wiring on the success path
		// unexported helpers of the package (a DTO's conversion method, say) are part of the decoder
		paths := walkSimple(p, uj, []string{"dst", "in"}, typesHelpers(p))
		nOK := 0
		for _, pa := range paths {
			if pa.Outcome != "return" || errNilness(pa, pa.Results[0]) != 1 {
				continue
			}
			var final *Term
			for _, c := range pa.SymCells {
				if c.Name == "dst" {
					final = c.Val
				}
			}
			// the value assigned as a whole (*t = T(decoded)): its fields are the fields of what was decoded
			for final != nil && final.Op == "conv" && len(final.Args) == 1 && final.Args[0].Typ != nil {
				if _, isSt := final.Args[0].Typ.Underlying().(*types.Struct); !isSt {
					break
				}
				final = final.Args[0]
			}
			if final != nil && final.Op != "struct" && final.Op != "deref" && final.Typ != nil {
				if ms := materialiseStruct(final); ms != nil {
					final = ms
				}
			}
			if final == nil || final.Op != "struct" {
				continue
			}
			nOK++
			for i, f := range final.FNames {
				m := map[string]bool{}
				termLeaves(final.Args[i], m)
				okf := false
				for leaf := range m {
					if strings.HasSuffix(leaf, "."+f) || strings.Contains(leaf, "."+f+"[") || strings.Contains(leaf, "."+f+")") {
						okf = true
					}
				}
				if !okf && len(m) > 0 {
					ls := []string{}
					for l := range m {
						ls = append(ls, l)
					}
					sort.Strings(ls)
					bad = "field " + f + " is filled from " + cut(strings.Join(ls, ","), 120)
				}
				if len(m) == 0 && final.Args[i].Op != "mapv" {
					// not assigned at all on the success path
					if final.Args[i].Op == "field" && strings.HasPrefix(final.Args[i].String(), "dst.") {
						bad = "field " + f + " is never assigned by the decoder"
					}
				}
			}
		}
		r.Check(bad == "" && nOK > 0, "J6", name, p.Pos(uj.Pos()), fmt.Sprintf("%d keys, %d success paths", len(rk), nOK), bad)
	}
	if nt := lookupNamed(p, "types", "Version"); nt != nil {
		mj, uj := methodOf(p, nt, "MarshalJSON"), methodOf(p, nt, "UnmarshalJSON")
		if mj != nil && uj != nil {
			w, rd := map[string]bool{}, map[string]bool{}
			collectCallConsts(mj, "fmt.Sprintf", 0, w, 0, p)
			collectCallConsts(mj, "fmt.Appendf", 1, w, 0, p)
			collectCallConsts(mj, "fmt.Fprintf", 1, w, 0, p)
			collectCallConsts(uj, "fmt.Sscanf", 1, rd, 0, p)
			collectCallConsts(uj, "fmt.Fscanf", 1, rd, 0, p)
			if len(w) == 0 {
				// hex.EncodeToString of the value's bytes, most significant first, is the same text as %0Nx (2N digits)
				tpk := p.SSAPkg("types")
				for _, pa := range walkSimple(p, mj, []string{"v"}, func(f *ssa.Function, d int) bool { return pkgOf(f) == tpk && f != mj }) {
					for _, e := range pa.Events {
						if e.Kind == "call" && e.Name == "hex.EncodeToString" && len(e.Args) == 1 && e.Args[0].Op == "sref" {
							els := srefElems(e.Args[0])
							if ord, src := encodedOrder(els); ord == "be" && strings.HasPrefix(src, "v") {
								w[fmt.Sprintf("%%0%dx", 2*len(els))] = true
							}
						}
					}
				}
			}
			r.Check(len(w) == 1 && keysOf(w) == keysOf(rd), "J7", "types.Version", p.Pos(uj.Pos()), keysOf(w), "version is written with {"+keysOf(w)+"} and read with {"+keysOf(rd)+"}")
		}
	}
}
