package main

import (
	"go/types"
	"strings"

	"golang.org/x/tools/go/ssa"
)

// ---------------------------------------------------------------------------------------
// Memo tables. A package-level sync.Map that is only used through Load / Store / LoadOrStore and into which
// only values are stored that are a pure function of the key they are stored under (constants, pure calls,
// read-only package variables, and the key) is a cache of that function, not state: a hit returns what the
// miss path computes. The walker therefore takes the miss path (Load reports "absent"), and G1 lists the table
// as a memo instead of shared mutable state. Anything else about such a variable (another method, a value that
// depends on more than the key) keeps it an ordinary shared object, which G1 reports.
// ---------------------------------------------------------------------------------------

var memoCache = map[*ssa.Global]*memoInfo{}

type memoInfo struct {
	ok        bool
	valueType types.Type
}

func isSyncMapType(t types.Type) bool {
	n, ok := types.Unalias(t).(*types.Named)
	return ok && n.Obj().Pkg() != nil && n.Obj().Pkg().Path() == "sync" && n.Obj().Name() == "Map"
}

func (p *Program) memoTable(g *ssa.Global) *memoInfo {
	if mi, ok := memoCache[g]; ok {
		return mi
	}
	mi := &memoInfo{}
	memoCache[g] = mi
	if !isSyncMapType(g.Type().Underlying().(*types.Pointer).Elem()) {
		return mi
	}
	stores := 0
	for _, fn := range p.AllFuncs {
		for _, b := range fn.Blocks {
			for _, in := range b.Instrs {
				uses := false
				for _, op := range in.Operands(nil) {
					if *op == ssa.Value(g) {
						uses = true
					}
				}
				if !uses {
					continue
				}
				ci, ok := in.(ssa.CallInstruction)
				if !ok || len(ci.Common().Args) == 0 || ci.Common().Args[0] != ssa.Value(g) {
					return mi
				}
				f := ci.Common().StaticCallee()
				if f == nil {
					return mi
				}
				switch calleeName(f) {
				case "(*sync.Map).Load":
				case "(*sync.Map).Store", "(*sync.Map).LoadOrStore":
					args := ci.Common().Args
					if len(args) != 3 {
						return mi
					}
					key := stripIface(args[1])
					val := stripIface(args[2])
					if !pureFunctionOf(val, key, fn, 0, map[ssa.Value]bool{}) {
						return mi
					}
					// whether an entry exists must say nothing beyond the key: a store that happens only under a condition
					// on something else (the formats of this call, a flag) turns "present" into remembered state
					if !storeConditionsPure(ci, g, key) {
						return mi
					}
					if mi.valueType != nil && !types.Identical(mi.valueType, val.Type()) {
						return mi
					}
					// a value with reference semantics is shared by every later hit: nobody may write through it
					if isRefType(val.Type()) && !p.memoValueReadOnly(fn, val) {
						return mi
					}
					mi.valueType = val.Type()
					stores++
				default:
					return mi
				}
			}
		}
	}
	mi.ok = stores > 0
	return mi
}

// storeConditionsPure: every branch condition in a block that dominates the store is a function of the key (a
// lookup of the key in the same table included).
func storeConditionsPure(st ssa.CallInstruction, g *ssa.Global, key ssa.Value) bool {
	fn := st.Parent()
	sb := st.Block()
	for _, b := range fn.Blocks {
		if b == sb || !b.Dominates(sb) || len(b.Instrs) == 0 {
			continue
		}
		ifi, ok := b.Instrs[len(b.Instrs)-1].(*ssa.If)
		if !ok {
			continue
		}
		if !pureOrLookup(ifi.Cond, g, key, fn, 0) {
			return false
		}
	}
	return true
}

func pureOrLookup(v ssa.Value, g *ssa.Global, key ssa.Value, fn *ssa.Function, depth int) bool {
	if depth > 8 {
		return false
	}
	switch x := v.(type) {
	case *ssa.Extract:
		if call, ok := x.Tuple.(*ssa.Call); ok {
			if f := call.Call.StaticCallee(); f != nil && strings.HasPrefix(calleeName(f), "(*sync.Map).Load") && len(call.Call.Args) >= 2 && call.Call.Args[0] == ssa.Value(g) {
				return pureFunctionOf(stripIface(call.Call.Args[1]), key, fn, 0, map[ssa.Value]bool{})
			}
		}
		if ta, ok := x.Tuple.(*ssa.TypeAssert); ok {
			return pureOrLookup(ta.X, g, key, fn, depth+1)
		}
	case *ssa.UnOp:
		return pureOrLookup(x.X, g, key, fn, depth+1)
	case *ssa.BinOp:
		return pureOrLookup(x.X, g, key, fn, depth+1) && pureOrLookup(x.Y, g, key, fn, depth+1)
	}
	return pureFunctionOf(v, key, fn, 0, map[ssa.Value]bool{})
}

func stripIface(v ssa.Value) ssa.Value {
	for {
		switch x := v.(type) {
		case *ssa.MakeInterface:
			v = x.X
		case *ssa.ChangeInterface:
			v = x.X
		default:
			return v
		}
	}
}

// pureFunctionOf: v is computed from `key`, constants, read-only package variables and pure calls only.
func pureFunctionOf(v, key ssa.Value, fn *ssa.Function, depth int, seen map[ssa.Value]bool) bool {
	if v == key {
		return true
	}
	if depth > 16 {
		return false
	}
	if seen[v] {
		return true
	}
	seen[v] = true
	switch x := v.(type) {
	case *ssa.Const:
		return true
	case *ssa.Global:
		return true // read-only by rule G1 (a package-level variable written at run time is reported there)
	case *ssa.Parameter, *ssa.FreeVar:
		return false
	case *ssa.Alloc:
		// a local: everything stored into it must be pure too
		for _, b := range fn.Blocks {
			for _, in := range b.Instrs {
				if st, ok := in.(*ssa.Store); ok && rootOf(st.Addr) == ssa.Value(x) {
					if !pureFunctionOf(st.Val, key, fn, depth+1, seen) {
						return false
					}
				}
			}
		}
		return true
	case *ssa.MakeSlice:
		// a fresh slice: its extent and everything stored into it must be pure too
		if !pureFunctionOf(x.Len, key, fn, depth+1, seen) || !pureFunctionOf(x.Cap, key, fn, depth+1, seen) {
			return false
		}
		for _, b := range fn.Blocks {
			for _, in := range b.Instrs {
				if st, ok := in.(*ssa.Store); ok && rootOf(st.Addr) == ssa.Value(x) {
					if !pureFunctionOf(st.Val, key, fn, depth+1, seen) || !pureFunctionOf(st.Addr, key, fn, depth+1, seen) {
						return false
					}
				}
			}
		}
		return true
	case *ssa.Call:
		if x.Call.IsInvoke() {
			// the methods of reflect.Type only describe a type
			if !isPureName("invoke:" + typeName(x.Call.Value.Type()) + "." + x.Call.Method.Name()) {
				return false
			}
			if !pureFunctionOf(x.Call.Value, key, fn, depth+1, seen) {
				return false
			}
			for _, a := range x.Call.Args {
				if !pureFunctionOf(a, key, fn, depth+1, seen) {
					return false
				}
			}
			return true
		}
		if b, ok := x.Call.Value.(*ssa.Builtin); ok {
			switch b.Name() {
			case "len", "cap", "min", "max":
				for _, a := range x.Call.Args {
					if !pureFunctionOf(a, key, fn, depth+1, seen) {
						return false
					}
				}
				return true
			}
			return false
		}
		f := x.Call.StaticCallee()
		if f == nil || !isPureName(calleeName(f)) || strings.HasPrefix(calleeName(f), "time.Now") {
			return false
		}
		for _, a := range x.Call.Args {
			if !pureFunctionOf(a, key, fn, depth+1, seen) {
				return false
			}
		}
		return true
	case *ssa.Phi:
		for _, e := range x.Edges {
			if !pureFunctionOf(e, key, fn, depth+1, seen) {
				return false
			}
		}
		return true
	case *ssa.UnOp:
		return pureFunctionOf(x.X, key, fn, depth+1, seen)
	case *ssa.BinOp:
		return pureFunctionOf(x.X, key, fn, depth+1, seen) && pureFunctionOf(x.Y, key, fn, depth+1, seen)
	case *ssa.Convert:
		return pureFunctionOf(x.X, key, fn, depth+1, seen)
	case *ssa.ChangeType:
		return pureFunctionOf(x.X, key, fn, depth+1, seen)
	case *ssa.MakeInterface:
		return pureFunctionOf(x.X, key, fn, depth+1, seen)
	case *ssa.Extract:
		return pureFunctionOf(x.Tuple, key, fn, depth+1, seen)
	case *ssa.Field:
		return pureFunctionOf(x.X, key, fn, depth+1, seen)
	case *ssa.FieldAddr:
		return pureFunctionOf(x.X, key, fn, depth+1, seen)
	case *ssa.IndexAddr:
		return pureFunctionOf(x.X, key, fn, depth+1, seen) && pureFunctionOf(x.Index, key, fn, depth+1, seen)
	case *ssa.Index:
		return pureFunctionOf(x.X, key, fn, depth+1, seen) && pureFunctionOf(x.Index, key, fn, depth+1, seen)
	case *ssa.Lookup:
		return pureFunctionOf(x.X, key, fn, depth+1, seen) && pureFunctionOf(x.Index, key, fn, depth+1, seen)
	case *ssa.Slice:
		return pureFunctionOf(x.X, key, fn, depth+1, seen)
	}
	return false
}

func isRefType(t types.Type) bool {
	switch t.Underlying().(type) {
	case *types.Slice, *types.Map, *types.Pointer, *types.Chan:
		return true
	}
	return false
}

// memoValueReadOnly: the cached value (a slice, map or pointer) is never written after it was stored: in the
// function that stores it, the value itself and whatever is loaded back from the table are only read or
// returned, and every in-module caller only reads what it gets back.
func (p *Program) memoValueReadOnly(fn *ssa.Function, val ssa.Value) bool {
	readOnlyOrReturned := func(v ssa.Value) bool {
		refs := v.Referrers()
		if refs == nil {
			return true
		}
		for _, ref := range *refs {
			switch r := ref.(type) {
			case *ssa.Return, *ssa.DebugRef, *ssa.MakeInterface, *ssa.Range, *ssa.Phi:
			case *ssa.IndexAddr:
				// element stores that build the value happen before it is published (checked as pure); reads after
				if v != val && !readOnlyUses(r, 0) {
					return false
				}
			case *ssa.FieldAddr:
				// the fields of a record built before it is published (checked as pure); only read after
				if v != val && !readOnlyUses(r, 0) {
					return false
				}
			case *ssa.Index, *ssa.Lookup, *ssa.Slice, *ssa.Field:
			case ssa.CallInstruction:
				if b, ok := r.Common().Value.(*ssa.Builtin); ok && (b.Name() == "len" || b.Name() == "cap") {
					continue
				}
				if f := r.Common().StaticCallee(); f != nil && strings.HasPrefix(calleeName(f), "(*sync.Map).") {
					continue
				}
				return false
			default:
				return false
			}
		}
		return true
	}
	if !readOnlyOrReturned(val) {
		return false
	}
	// values loaded back from the table in this function
	for _, b := range fn.Blocks {
		for _, in := range b.Instrs {
			if ta, ok := in.(*ssa.TypeAssert); ok && types.Identical(ta.AssertedType, val.Type()) {
				var v ssa.Value = ta
				if ta.CommaOk {
					continue
				}
				if !readOnlyOrReturned(v) {
					return false
				}
			}
		}
	}
	// callers: what they receive is only read
	if fn.Object() != nil && fn.Object().Exported() {
		return false
	}
	for _, caller := range p.AllFuncs {
		for _, b := range caller.Blocks {
			for _, in := range b.Instrs {
				c, ok := in.(*ssa.Call)
				if !ok || c.Call.StaticCallee() != fn {
					continue
				}
				if !valueReadOnly(c, 0) {
					return false
				}
			}
		}
	}
	return true
}
