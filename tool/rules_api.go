package main

import (
	"encoding/json"
	"fmt"
	"golang.org/x/tools/go/ssa"
	"os"
	"sort"
	"strconv"
	"strings"
)

// ---------------------------------------------------------------------------------------
// Rules A1-A7: API operations against /verif/spec/ops.json
// ---------------------------------------------------------------------------------------

type ReplyCase struct {
	When        string            `json:"when"`
	Error       bool              `json:"error"`
	Result      map[string]string `json:"result"`
	ResultEach  map[string]string `json:"result_each"`
	ResultEmpty map[string]string `json:"result_empty"`
}

type OpSpec struct {
	Code       string            `json:"code"`
	Via        string            `json:"via"`
	Reject     string            `json:"reject"`
	Request    map[string]string `json:"request"`
	Reply      []ReplyCase       `json:"reply"`
	NoReply    bool              `json:"no_reply"`
	MapEntries []string          `json:"map_entries"`
}

type OpsSpec struct {
	Magic int64              `json:"magic"`
	Ops   map[string]*OpSpec `json:"ops"`
}

func loadOpsSpec() (*OpsSpec, error) {
	b, err := os.ReadFile("/verif/spec/ops.json")
	if err != nil {
		return nil, err
	}
	var s OpsSpec
	if err := json.Unmarshal(b, &s); err != nil {
		return nil, err
	}
	return &s, nil
}

type aspectSet map[string]bool

type opVerdict struct {
	ok      bool
	detail  string
	checked int
}

type opAcc struct {
	m     map[string]*opVerdict
	order []string
}

func (a *opAcc) note(key string, ok bool, detail string) {
	v := a.m[key]
	if v == nil {
		v = &opVerdict{ok: true}
		a.m[key] = v
		a.order = append(a.order, key)
	}
	v.checked++
	if !ok && v.ok {
		v.ok = false
		v.detail = detail
	}
}

func normaliseResult(m map[string]string, entries []string) map[string]string {
	out := map[string]string{}
	for k, v := range m {
		if v == "zero" || v == "0" || v == "false" || v == `""` {
			if !strings.Contains(k, ".") && !strings.Contains(k, "[") {
				out[k] = v // top-level value
			}
			continue
		}
		if strings.HasPrefix(v, "fromopt{") && v == "fromopt{}" {
			continue
		}
		out[k] = v
	}
	for _, e := range entries {
		has := false
		for k := range out {
			if k == e || strings.HasPrefix(k, e+".") || strings.HasPrefix(k, e+"[") {
				has = true
			}
		}
		if !has {
			out[e] = "zero"
		}
	}
	return out
}

// mapEntryPrefixes finds "x[k]" prefixes of leaves "x[k].f" in a flattened code result.
func codeResultStrings(res map[string]*Term) map[string]string {
	out := map[string]string{}
	for k, t := range res {
		out[k] = t.String()
	}
	return out
}

// absentLookup: t reads (a field of) m[k] on a path on which k is known not to be a key of m: the zero value.
func absentLookup(t *Term, ps *PathState) bool {
	for t != nil && t.Op == "field" && len(t.Args) == 1 {
		t = t.Args[0]
	}
	if t == nil || t.Op != "lookup" || ps == nil {
		return false
	}
	ok := &Term{Op: "lookupok", Args: t.Args}
	has, known := ps.Bools[ok.String()]
	return known && !has
}

func compareResult(specVals map[string]string, code0 map[string]*Term, entries []string, ps *PathState) (bool, string) {
	cs := map[string]string{}
	code := map[string]*Term{}
	for k, t := range code0 {
		if absentLookup(t, ps) {
			continue // reading a missing map entry yields the zero value
		}
		code[k] = t
		cs[k] = t.String()
	}
	if _, bare := specVals["r0"]; bare {
		entries = nil
	}
	sv := normaliseResult(specVals, entries)
	keys := map[string]bool{}
	for k := range cs {
		keys[k] = true
	}
	for k := range sv {
		keys[k] = true
	}
	ks := []string{}
	for k := range keys {
		ks = append(ks, k)
	}
	sort.Strings(ks)
	for _, k := range ks {
		want, have := sv[k], cs[k]
		switch {
		case strings.HasPrefix(want, "from{"):
			t := code[k]
			if t == nil {
				return false, fmt.Sprintf("%s: expected a value derived from %s, code yields zero", k, want)
			}
			if got := "from{" + leafSet(t) + "}"; got != want {
				return false, fmt.Sprintf("%s: expected origins %s, code value %s has origins %s", k, want, have, got)
			}
		case strings.HasPrefix(want, "fromopt{"):
			t := code[k]
			if t == nil || have == "" {
				continue
			}
			if got := "fromopt{" + leafSet(t) + "}"; got != want {
				return false, fmt.Sprintf("%s: expected origins %s, code value %s has origins %s", k, want, have, got)
			}
		default:
			if want != have {
				if want == "" {
					return false, fmt.Sprintf("%s: code yields %s, the contract leaves it zero", k, have)
				}
				if have == "" {
					return false, fmt.Sprintf("%s: contract requires %s, code yields zero/absent", k, want)
				}
				return false, fmt.Sprintf("%s: contract requires %s, code yields %s", k, want, have)
			}
		}
	}
	return true, ""
}

// checkOp compares every path of one operation with its contract.
func checkOp(r *Report, a *API, name string, spec *OpSpec, aspects aspectSet) {
	nRep := []int{2}
	if spec.Via == "broadcast" {
		nRep = []int{0, 1, 2}
		if deep {
			nRep = append(nRep, 3)
		}
	}
	acc := &opAcc{m: map[string]*opVerdict{}}
	fn := a.Ops[name]
	pos := a.P.Pos(fn.Pos())
	rejectE, err := ParseSpec(spec.Reject)
	if err != nil {
		r.Fatal("A0", name, err.Error())
		return
	}
	code, _ := strconv.ParseInt(spec.Code, 0, 64)
	for _, n := range nRep {
		paths, w, err := a.WalkOp(name, n)
		if err != nil || w.Exploded {
			r.Fatal("A0", name, fmt.Sprintf("walk failed: %v exploded=%v", err, w != nil && w.Exploded))
			return
		}
		r.Count("paths", len(paths))
		for _, p := range paths {
			if p.Outcome != "return" {
				acc.note("A0 "+name, false, fmt.Sprintf("path ends in %s (%s) under %s", p.Outcome, p.Detail, p.Cond))
				continue
			}
			// conditions to determine on this path
			conds := []*SExpr{rejectE}
			type reqv struct {
				off int
				e   *SExpr
			}
			var reqs []reqv
			for k, v := range spec.Request {
				e, err := ParseSpec(v)
				if err != nil {
					r.Fatal("A0", name, err.Error())
					return
				}
				off, _ := strconv.Atoi(k)
				reqs = append(reqs, reqv{off, e})
				collectConds(e, &conds)
			}
			type rcase struct {
				when *SExpr
				c    ReplyCase
				vals map[string]*SExpr
			}
			var cases []rcase
			if len(p.Sends) > 0 && p.SendErr == 1 {
				for _, c := range spec.Reply {
					we, err := ParseSpec(c.When)
					if err != nil {
						r.Fatal("A0", name, err.Error())
						return
					}
					rc := rcase{when: we, c: c, vals: map[string]*SExpr{}}
					res := c.Result
					if c.ResultEach != nil {
						res = map[string]string{}
						for i := 0; i < n; i++ {
							for k, v := range c.ResultEach {
								res[fmt.Sprintf("r0[%d].%s", i, k)] = strings.ReplaceAll(v, "{i}", strconv.Itoa(i))
							}
						}
						if n == 0 {
							res = c.ResultEmpty
						}
					}
					for k, v := range res {
						e, err := ParseSpec(v)
						if err != nil {
							r.Fatal("A0", name, err.Error())
							return
						}
						rc.vals[k] = e
						collectConds(e, &conds)
					}
					conds = append(conds, we)
					cases = append(cases, rc)
				}
			}
			Refine(conds, p.State, nil, 0, func(ps *PathState, vals []Tri) {
				cond := ps.Describe()
				reject := vals[0] == TTrue
				sent := len(p.Sends)
				if reject {
					acc.note("A5 "+name, sent == 0 && p.ErrNil == 0,
						fmt.Sprintf("contract rejects the call when [%s] but the code %s", cond, describeOutcome(p)))
					acc.note("A2 "+name, sent == 0, fmt.Sprintf("a request is sent although the call must be rejected when [%s]", cond))
					return
				}
				if sent == 0 {
					acc.note("A5 "+name, false, fmt.Sprintf("undocumented rejection: nothing is sent when [%s] (%s)", cond, describeOutcome(p)))
					return
				}
				acc.note("A5 "+name, true, "")
				acc.note("A2 "+name, sent == 1, fmt.Sprintf("%d requests sent on one path when [%s]", sent, cond))
				s := p.Sends[0]
				acc.note("A2 "+name+" via", s.Kind == spec.Via, fmt.Sprintf("request goes out via the %s helper, contract says %s", s.Kind, spec.Via))
				if s.Kind == "directed" {
					acc.note("A4 "+name+" serial", s.Serial == "arg0", fmt.Sprintf("send helper is given serial %s, contract says arg0", s.Serial))
				}
				// A3 function codes
				if l := a.L.Layouts[s.ReqType]; l != nil {
					c, ok := l.MsgCode()
					acc.note("A3 "+name+" request-code", ok && c == code, fmt.Sprintf("request type carries function code 0x%02x, contract says %s", c, spec.Code))
				} else {
					acc.note("A3 "+name+" request-code", false, "request type "+s.ReqType+" has no layout")
				}
				if spec.NoReply {
					acc.note("A3 "+name+" reply-code", strings.HasSuffix(s.ReplyType, ".none") || a.L.Layouts[s.ReplyType] == nil, "no-reply operation decodes a reply of type "+s.ReplyType)
				} else if l := a.L.Layouts[s.ReplyType]; l != nil {
					c, ok := l.MsgCode()
					acc.note("A3 "+name+" reply-code", ok && c == code, fmt.Sprintf("reply type carries function code 0x%02x, contract says %s", c, spec.Code))
				} else {
					acc.note("A3 "+name+" reply-code", false, "reply type "+s.ReplyType+" has no layout")
				}
				// A4 request wiring
				seen := map[int]bool{}
				for _, rq := range reqs {
					want := evalValue(rq.e, ps, nil)
					have := s.Fields[rq.off]
					seen[rq.off] = true
					if want == "zero" {
						want = ""
					}
					acc.note(fmt.Sprintf("A4 %s@%d", name, rq.off), want == have,
						fmt.Sprintf("byte offset %d must carry %s, the code sends %s when [%s]", rq.off, orZero(want), orZero(have), cond))
				}
				for off, v := range s.Fields {
					if !seen[off] {
						acc.note(fmt.Sprintf("A4 %s@%d", name, off), false, fmt.Sprintf("byte offset %d carries %s but the contract leaves it zero", off, v))
					}
				}
				for _, x := range s.Extra {
					acc.note("A4 "+name+" untagged", false, "request field without an offset is set: "+x)
				}
				// reply side
				switch p.SendErr {
				case -1:
					acc.note("A6 "+name+" send-error", false, fmt.Sprintf("the error of the send helper is never examined when [%s]", cond))
				case 0:
					acc.note("A6 "+name+" send-error", p.ErrNil == 0, fmt.Sprintf("send/receive failed but the call returns %s", describeOutcome(p)))
				case 1:
					vi := 1 + 0
					_ = vi
					// the 'when' conditions are the last len(cases) entries... locate by evaluation
					matched := false
					for _, rc := range cases {
						t, _ := evalCond(rc.when, ps, nil)
						if t != TTrue {
							continue
						}
						matched = true
						if rc.c.Error {
							acc.note("A6 "+name+" sentinel "+rc.c.When, p.ErrNil == 0, fmt.Sprintf("reply with %s must be an error, the code %s when [%s]", rc.c.When, describeOutcome(p), cond))
							break
						}
						acc.note("A6 "+name+" success", p.ErrNil == 1, fmt.Sprintf("contract returns a value when [%s], the code returns error %s", cond, p.ErrTerm))
						want := map[string]string{}
						for k, e := range rc.vals {
							want[k] = evalValue(e, ps, nil)
						}
						ok, d := compareResult(want, p.Results, spec.MapEntries, ps)
						key := "A6 " + name + " result"
						if rc.c.When != "true" {
							key += " " + rc.c.When
						}
						acc.note(key, ok, d+" when ["+cond+"]")
						break
					}
					if !matched {
						acc.note("A6 "+name+" cases", false, "no contract case applies when ["+cond+"]")
					}
				}
			})
			for _, e := range p.Events {
				if e.Kind == "nilderef" {
					acc.note("A0 "+name+" nil-dereference", false, fmt.Sprintf("dereferences the reply field %s, which is nil when its bytes did not decode, without a nil check on this path (%s) [%s]", e.Name, a.P.Pos(e.Pos), cut(p.Cond, 200)))
				}
			}
			acc.note("A0 "+name+" nil-dereference", true, "")
			// A7 arguments untouched
			for _, e := range p.Stores {
				tgt := e.Args[0].String()
				if strings.Contains(tgt, "arg") {
					acc.note("A7 "+name, false, fmt.Sprintf("writes through an argument: %s at %s", e.String(), a.P.Pos(e.Pos)))
				}
				if strings.HasPrefix(strings.TrimPrefix(tgt, "&"), "u.") || strings.HasPrefix(tgt, "u.") {
					acc.note("IM1 "+name, false, fmt.Sprintf("writes client state: %s at %s", e.String(), a.P.Pos(e.Pos)))
				}
			}
			// ... nor through a function that is not walked in line (an exported method of another package): its
			// summary says whether it can write storage reachable from the parameter that receives the argument
			for _, e := range p.Events {
				if e.Kind != "call" {
					continue
				}
				ci, ok := e.Instr.(ssa.CallInstruction)
				if !ok {
					continue
				}
				callee := ci.Common().StaticCallee()
				if callee == nil || !inModule(callee) {
					continue
				}
				for i, at := range e.Args {
					if i < len(callee.Params) && at != nil && strings.Contains(at.String(), "arg") && mutatesParam(callee, i, 0) {
						acc.note("A7 "+name, false, fmt.Sprintf("hands an argument (%s) to %s, which writes storage reachable from it (at %s)", cut(at.String(), 40), e.Name, a.P.Pos(e.Pos)))
					}
				}
			}
			acc.note("A7 "+name, true, "")
			acc.note("IM1 "+name, true, "")
		}
	}
	for _, key := range acc.order {
		rule := strings.SplitN(key, " ", 2)[0]
		if !aspects[rule] {
			continue
		}
		v := acc.m[key]
		construct := strings.SplitN(key, " ", 2)[1]
		if v.ok {
			r.OK(rule, construct, pos, fmt.Sprintf("held on %d refined path states", v.checked), true)
		} else {
			r.Bad(rule, construct, pos, v.detail)
		}
	}
}

func orZero(s string) string {
	if s == "" {
		return "zero"
	}
	return s
}

func describeOutcome(p OpPath) string {
	res := []string{}
	keys := []string{}
	for k := range p.Results {
		keys = append(keys, k)
	}
	sort.Strings(keys)
	for _, k := range keys {
		res = append(res, k+"="+p.Results[k].String())
	}
	e := "error " + p.ErrTerm
	switch p.ErrNil {
	case 1:
		e = "nil error"
	case -1:
		e = "error? " + p.ErrTerm
	}
	s := "returns (" + strings.Join(res, ",") + "; " + e + ")"
	if len(p.Sends) > 0 {
		s = "sends and " + s
	} else {
		s = "sends nothing and " + s
	}
	return cut(s, 300)
}

// RuleAPI runs the API rules for the aspects wanted by a property.
func RuleAPI(r *Report, p *Program, aspects aspectSet, only map[string]bool) {
	l, err := NewLayoutEngine(p)
	if err != nil {
		r.Fatal("A0", "layout", err.Error())
		return
	}
	a, err := NewAPI(p, l)
	if err != nil {
		r.Fatal("A0", "api", err.Error())
		return
	}
	spec, err := loadOpsSpec()
	if err != nil {
		r.Fatal("A0", "ops.json", err.Error())
		return
	}
	names := []string{}
	for n := range spec.Ops {
		names = append(names, n)
	}
	sort.Strings(names)
	// A1 inventory
	if aspects["A1"] {
		for _, n := range names {
			_, ok := a.Ops[n]
			r.Check(ok, "A1", n, "", "operation present on the client interface", "operation "+n+" of the contract is missing from the client interface")
		}
	}
	for _, n := range names {
		if only != nil && !only[n] {
			continue
		}
		if _, ok := a.Ops[n]; !ok {
			continue
		}
		checkOp(r, a, n, spec.Ops[n], aspects)
		r.Count("operations", 1)
	}
}
