package main

import (
	"go/types"
	"sort"

	"golang.org/x/tools/go/ssa"
)

// ---------------------------------------------------------------------------------------
// What a field can hold. An unexported field of a struct declared in the module is written only by code of its
// own package - all of which is in the program. Collecting every store into the field (composite literals are
// field stores too) gives the set of values it can ever hold besides its zero value:
//   * never written: the field is its zero value everywhere (a seam for tests - an injectable dial function, an
//     options struct, a clock - that production code leaves unset, so the accessor's default applies);
//   * an interface field into which only values of ONE concrete type are stored: when it is not nil its dynamic
//     type is that type, so a method call through it is a call of that type's method.
// Anything else (values of several types, values computed elsewhere) leaves the field symbolic. Writes through
// reflection or unsafe are outside the model (the module has none).
// ---------------------------------------------------------------------------------------

type fieldFact struct {
	known     bool
	neverSet  bool
	singleDyn types.Type    // interface field: the one concrete type ever stored (nil values aside)
	singleFn  *ssa.Function // function field: the one function ever stored (nil aside)
	consts    []int64       // integer field: every store is one of these constants (the zero value aside)
}

type fieldKey struct {
	t *types.Named
	f string
}

var fieldFactMemo = map[fieldKey]*fieldFact{}

func namedStruct(t types.Type) *types.Named {
	for {
		switch u := types.Unalias(t).(type) {
		case *types.Pointer:
			t = u.Elem()
			continue
		case *types.Named:
			if _, ok := u.Underlying().(*types.Struct); ok {
				return u
			}
		}
		return nil
	}
}

func (p *Program) fieldFactOf(nt *types.Named, field string) *fieldFact {
	k := fieldKey{nt, field}
	if ff, ok := fieldFactMemo[k]; ok {
		return ff
	}
	ff := &fieldFact{}
	fieldFactMemo[k] = ff
	if nt.Obj().Pkg() == nil || len(nt.Obj().Pkg().Path()) < len(modPath) || nt.Obj().Pkg().Path()[:len(modPath)] != modPath {
		return ff
	}
	st := nt.Underlying().(*types.Struct)
	idx := -1
	for i := 0; i < st.NumFields(); i++ {
		if st.Field(i).Name() == field {
			idx = i
		}
	}
	if idx < 0 || st.Field(idx).Exported() || st.Field(idx).Embedded() {
		return ff
	}
	ft := st.Field(idx).Type()
	var dyn types.Type
	var oneFn *ssa.Function
	var consts []int64
	stores := 0
	ok := true
	for _, fn := range p.AllFuncs {
		for _, b := range fn.Blocks {
			for _, in := range b.Instrs {
				fa, isFA := in.(*ssa.FieldAddr)
				if !isFA || fa.Field != idx || namedStruct(fa.X.Type()) == nil || !types.Identical(namedStruct(fa.X.Type()), nt) {
					continue
				}
				if fa.Referrers() == nil {
					continue
				}
				for _, ref := range *fa.Referrers() {
					switch x := ref.(type) {
					case *ssa.Store:
						if x.Addr != ssa.Value(fa) {
							continue // the address itself stored somewhere: escapes
						}
						stores++
						switch v := x.Val.(type) {
						case *ssa.Const:
							if v.Value == nil { // nil / zero
								stores--
								continue
							}
							if isIntType(ft) {
								consts = append(consts, v.Int64())
								continue
							}
							ok = false
						case *ssa.MakeInterface:
							if dyn != nil && !types.Identical(dyn, v.X.Type()) {
								ok = false
							}
							dyn = v.X.Type()
						case *ssa.Function:
							if oneFn != nil && oneFn != v {
								ok = false
							}
							oneFn = v
						case *ssa.ChangeType:
							if f, isF := v.X.(*ssa.Function); isF {
								if oneFn != nil && oneFn != f {
									ok = false
								}
								oneFn = f
							} else {
								ok = false
							}
						default:
							// a copy of the same field of another value of the type adds nothing new
							if sameFieldOf(x.Val, nt, idx) {
								stores--
								continue
							}
							ok = false
						}
					case *ssa.UnOp, *ssa.DebugRef, *ssa.FieldAddr, *ssa.IndexAddr:
						// loads and addresses of parts: a part written through such an address is a write of the field
						if sub, isAddr := ref.(*ssa.FieldAddr); isAddr && writtenThrough(sub, 0) {
							ok = false
							stores++
						}
						if sub, isAddr := ref.(*ssa.IndexAddr); isAddr && writtenThrough(sub, 0) {
							ok = false
							stores++
						}
					default:
						// the address is passed on (a call argument, a closure binding): unknown writers
						ok = false
						stores++
					}
				}
			}
		}
	}
	ff.known = true
	if stores == 0 {
		ff.neverSet = true
		return ff
	}
	if ok && dyn != nil && oneFn == nil {
		if _, isIface := ft.Underlying().(*types.Interface); isIface {
			ff.singleDyn = dyn
		}
	}
	if ok && len(consts) > 0 && len(consts) == stores && isIntType(ft) {
		ff.consts = consts
	}
	if ok && oneFn != nil && dyn == nil {
		if _, isSig := ft.Underlying().(*types.Signature); isSig {
			ff.singleFn = oneFn
		}
	}
	return ff
}

func writtenThrough(addr ssa.Value, depth int) bool {
	if depth > 4 || addr.Referrers() == nil {
		return depth > 4
	}
	for _, ref := range *addr.Referrers() {
		switch x := ref.(type) {
		case *ssa.Store:
			if x.Addr == addr {
				return true
			}
			return true // the address stored elsewhere
		case *ssa.UnOp, *ssa.DebugRef:
		case *ssa.FieldAddr:
			if writtenThrough(x, depth+1) {
				return true
			}
		case *ssa.IndexAddr:
			if writtenThrough(x, depth+1) {
				return true
			}
		default:
			return true
		}
	}
	return false
}

// applyFieldFacts refines a value loaded from symbolic storage: field f of a module struct.
func (w *Walker) applyFieldFacts(v *Term) *Term {
	if v == nil || v.Op != "field" || len(v.Args) != 1 || v.Args[0] == nil || v.Args[0].Typ == nil || w.InitPkg != nil {
		return v
	}
	nt := namedStruct(v.Args[0].Typ)
	if nt == nil {
		return v
	}
	ff := w.P.fieldFactOf(nt, v.Name)
	if !ff.known {
		return v
	}
	if ff.neverSet && v.Typ != nil {
		return zeroOf(v.Typ)
	}
	if ff.singleDyn != nil && v.Dyn == nil {
		c := *v
		c.Dyn = ff.singleDyn
		return &c
	}
	if len(ff.consts) > 0 {
		// every value the field can hold: one of the stored constants or zero
		key := v.String()
		if _, has := w.state.Ints[key]; !has {
			vals := append([]int64{0}, ff.consts...)
			sort.Slice(vals, func(i, j int) bool { return vals[i] < vals[j] })
			uniq := vals[:0]
			for i, x := range vals {
				if i == 0 || x != vals[i-1] {
					uniq = append(uniq, x)
				}
			}
			w.state.Ints[key] = setOf(uniq)
			w.state.IntT[key] = v
		}
		return v
	}
	if ff.singleFn != nil && v.Fn == nil {
		c := *v
		c.Fn = ff.singleFn // when it is not nil it is this function
		return &c
	}
	return v
}

// sameFieldOf: v is the value of field idx of (another) value of struct type nt.
func sameFieldOf(v ssa.Value, nt *types.Named, idx int) bool {
	switch x := v.(type) {
	case *ssa.UnOp:
		if fa, ok := x.X.(*ssa.FieldAddr); ok && x.Op.String() == "*" && fa.Field == idx {
			if n := namedStruct(fa.X.Type()); n != nil && types.Identical(n, nt) {
				return true
			}
		}
	case *ssa.Field:
		if x.Field == idx {
			if n := namedStruct(x.X.Type()); n != nil && types.Identical(n, nt) {
				return true
			}
		}
	}
	return false
}
