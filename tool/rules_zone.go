package main

import (
	"fmt"
	"go/types"
	"strings"

	"golang.org/x/tools/go/ssa"
)

// ---------------------------------------------------------------------------------------
// Z1-Z4: civil dates and the process time zone (C13)
// ---------------------------------------------------------------------------------------

func isTimeLocal(v ssa.Value) bool {
	if u, ok := v.(*ssa.UnOp); ok {
		if g, ok := u.X.(*ssa.Global); ok {
			return g.Pkg != nil && g.Pkg.Pkg.Path() == "time" && g.Name() == "Local"
		}
	}
	return false
}

func isTimeUTC(v ssa.Value) bool {
	if u, ok := v.(*ssa.UnOp); ok {
		if g, ok := u.X.(*ssa.Global); ok {
			return g.Pkg != nil && g.Pkg.Pkg.Path() == "time" && g.Name() == "UTC"
		}
	}
	return false
}

func constInt(v ssa.Value) (int64, bool) {
	if c, ok := v.(*ssa.Const); ok && c.Value != nil {
		return c.Int64(), true
	}
	return 0, false
}

func constStr(v ssa.Value) (string, bool) {
	if c, ok := v.(*ssa.Const); ok && c.Value != nil {
		if s, err := unquote(c.Value.ExactString()); err == nil {
			return s, true
		}
	}
	return "", false
}

// civilOnlyUse: every use of a time value (or of the tuple it is extracted from) is a civil-field accessor.
func civilOnlyUse(v ssa.Value, depth int) bool {
	if depth > 4 {
		return false
	}
	refs := v.Referrers()
	if refs == nil {
		return false
	}
	for _, ref := range *refs {
		switch x := ref.(type) {
		case *ssa.Extract:
			if x.Index == 0 {
				if !civilOnlyUse(x, depth+1) {
					return false
				}
			}
		case *ssa.DebugRef:
		case *ssa.Call:
			f := x.Call.StaticCallee()
			if f == nil {
				return false
			}
			switch calleeName(f) {
			case "(time.Time).Year", "(time.Time).Month", "(time.Time).Day", "(time.Time).Date", "(time.Time).YearDay", "(time.Time).Hour", "(time.Time).Minute", "(time.Time).Second":
			default:
				// handed to a helper of the module: what the helper does with that parameter
				if !inModule(f) || f.Blocks == nil || x.Call.IsInvoke() {
					return false
				}
				for i, a := range x.Call.Args {
					if a == v {
						if i >= len(f.Params) || !civilOnlyUse(f.Params[i], depth+1) {
							return false
						}
					}
				}
			}
		case *ssa.Store:
			// spilled into a local that is only read back: follow the alloc
			if al, ok := x.Addr.(*ssa.Alloc); ok && x.Val == v {
				for _, r2 := range *al.Referrers() {
					if ld, ok := r2.(*ssa.UnOp); ok {
						if !civilOnlyUse(ld, depth+1) {
							return false
						}
					} else if r2 != ref {
						if _, isDbg := r2.(*ssa.DebugRef); !isDbg {
							return false
						}
					}
				}
			} else {
				return false
			}
		default:
			return false
		}
	}
	return true
}

// dayExamined: the function compares the civil day of some time value after constructing it.
func dayExamined(fn *ssa.Function) bool {
	for _, b := range fn.Blocks {
		for _, in := range b.Instrs {
			c, ok := in.(*ssa.Call)
			if !ok {
				continue
			}
			f := c.Call.StaticCallee()
			if f == nil {
				continue
			}
			n := calleeName(f)
			if n != "(time.Time).Day" && n != "(time.Time).YearDay" && n != "(time.Time).Date" {
				continue
			}
			for _, ref := range *c.Referrers() {
				switch r := ref.(type) {
				case *ssa.BinOp:
					return true
				case *ssa.Extract:
					for _, r2 := range *r.Referrers() {
						if _, ok := r2.(*ssa.BinOp); ok {
							return true
						}
					}
				}
			}
		}
	}
	return false
}

// dependsOnClockFields: the value is computed from Hour/Minute/Second accessor results.
func dependsOnClockFields(v ssa.Value, depth int, seen map[ssa.Value]bool) string {
	if v == nil || depth > 8 || seen[v] {
		return ""
	}
	seen[v] = true
	switch x := v.(type) {
	case *ssa.Call:
		if f := x.Call.StaticCallee(); f != nil {
			switch calleeName(f) {
			case "(time.Time).Hour", "(time.Time).Minute", "(time.Time).Second", "(time.Time).Clock":
				return calleeName(f)
			}
		}
		for _, a := range x.Call.Args {
			if d := dependsOnClockFields(a, depth+1, seen); d != "" {
				return d
			}
		}
	case *ssa.BinOp:
		if d := dependsOnClockFields(x.X, depth+1, seen); d != "" {
			return d
		}
		return dependsOnClockFields(x.Y, depth+1, seen)
	case *ssa.Convert:
		return dependsOnClockFields(x.X, depth+1, seen)
	case *ssa.ChangeType:
		return dependsOnClockFields(x.X, depth+1, seen)
	case *ssa.Extract:
		return dependsOnClockFields(x.Tuple, depth+1, seen)
	case *ssa.Phi:
		for _, e := range x.Edges {
			if d := dependsOnClockFields(e, depth+1, seen); d != "" {
				return d
			}
		}
	case *ssa.UnOp:
		if al, ok := x.X.(*ssa.Alloc); ok {
			for _, ref := range *al.Referrers() {
				if st, ok := ref.(*ssa.Store); ok && st.Addr == al {
					if d := dependsOnClockFields(st.Val, depth+1, seen); d != "" {
						return d
					}
				}
			}
		}
		return dependsOnClockFields(x.X, depth+1, seen)
	case *ssa.FieldAddr:
		if x.X.Type().String() != "" && (strings.HasSuffix(typeName(x.X.Type()), "types.HHmm")) {
			return "an HH:mm value"
		}
	}
	return ""
}

// dayEstablished: on every returning path of a local-midnight constructor the returned instant's civil day has been
// compared equal to the requested day (the day parameter, or the day of the same civil date built in UTC).
func dayEstablished(p *Program, fn *ssa.Function) string {
	w := NewWalker(p)
	w.LoopFuel = 3
	w.Inline = typesHelpers(p)
	args := make([]*Term, len(fn.Params))
	dayParam := ""
	for i, prm := range fn.Params {
		args[i] = &Term{Op: "param", Name: prm.Name(), Typ: prm.Type()}
	}
	// the day argument: third argument of the time.Date(..., time.Local) call
	for _, b := range fn.Blocks {
		for _, in := range b.Instrs {
			if c, ok := in.(*ssa.Call); ok {
				if f := c.Call.StaticCallee(); f != nil && calleeName(f) == "time.Date" && isTimeLocal(c.Call.Args[7]) {
					if prm, ok := c.Call.Args[2].(*ssa.Parameter); ok {
						dayParam = prm.Name()
					}
				}
			}
		}
	}
	n := 0
	for _, pa := range w.Walk(fn, args, nil) {
		if pa.Outcome != "return" || len(pa.Results) == 0 {
			continue
		}
		n++
		res := stripConv(pa.Results[0]).String()
		want := "(time.Time).Day(" + res + ")"
		ok := false
		for k, v := range pa.State.Rels {
			if v != relEQ {
				continue
			}
			ab := strings.SplitN(k, "\x00", 2)
			for i := 0; i < 2; i++ {
				if ab[i] != want {
					continue
				}
				other := ab[1-i]
				if other == dayParam || (strings.HasPrefix(other, "(time.Time).Day(time.Date(") && strings.HasSuffix(other, "time.UTC))")) {
					ok = true
				}
				// the day component of t.Date() of the same UTC construction
				if strings.HasPrefix(other, "(time.Time).Date(time.Date(") && strings.HasSuffix(other, "time.UTC))#2") {
					ok = true
				}
			}
		}
		if !ok {
			return "on the path [" + cut(pa.State.Describe(), 220) + "] the function returns " + cut(res, 80) + " without having established that its civil day is the requested one"
		}
	}
	if n == 0 {
		return "no returning path could be followed"
	}
	return ""
}

func RuleZone(r *Report, p *Program, c *Codec) {
	r.Rule("Z1", "civil dates and times are built and parsed in the process-local zone; a UTC parse is tolerated only when its result is used solely through civil-field accessors", 10)
	r.Rule("Z2", "encoders format the civil fields of the stored instant itself", 4)
	r.Rule("Z3", "a date-only value (local midnight) is never produced without re-checking the civil day of the result: where a DST change removes 00:00 time.Date/ParseInLocation resolve to the previous day", 1)
	r.Rule("Z5", "no civil time of day is produced by adding hours/minutes/seconds as a duration to an instant (wrong by the DST delta on transition days): civil date-times are parsed or built as a whole in the local zone", 1)
	r.Rule("Z4", "the controller system date and time are recombined with the layouts they were formatted with, in the process-local zone, identically for GetStatus and the event listener", 1)
	for _, fn := range p.AllFuncs {
		if fn.Pkg == nil && fn.Parent() == nil {
			continue
		}
		pk := fn.Pkg
		if pk == nil && fn.Parent() != nil {
			pk = fn.Parent().Pkg
		}
		if pk != p.SSAPkg("types") && pk != p.SSAPkg("uhppote") {
			continue
		}
		for _, b := range fn.Blocks {
			for _, in := range b.Instrs {
				call, ok := in.(*ssa.Call)
				if !ok {
					continue
				}
				f := call.Call.StaticCallee()
				if f == nil {
					continue
				}
				n := calleeName(f)
				site := calleeName(fn) + ":" + n
				pos := p.Pos(call.Pos())
				args := call.Call.Args
				switch n {
				case "time.Date":
					loc := args[7]
					switch {
					case isTimeLocal(loc):
						r.OK("Z1", site, pos, "time.Local", true)
						h, okh := constInt(args[3])
						mi, okm := constInt(args[4])
						s, oks := constInt(args[5])
						if okh && okm && oks && h == 0 && mi == 0 && s == 0 {
							okEx := dayExamined(fn)
							r.Check(okEx, "Z3", site, pos, "civil day re-checked",
								"builds local midnight of a civil date without checking the result's day: in zones whose DST change removes 00:00 (America/Santiago, America/Havana, Atlantic/Azores, America/Sao_Paulo ...) the value lands on the previous day")
							if okEx {
								d := dayEstablished(p, fn)
								r.Check(d == "", "Z3", site+":established", pos, "every returned instant has its civil day established equal to the requested day", d)
							}
						}
					case civilOnlyUse(call, 0):
						r.OK("Z1", site, pos, "non-local instant used only for its civil fields", true)
					default:
						r.Bad("Z1", site, pos, "time.Date in a zone other than time.Local on a date path")
					}
				case "time.ParseInLocation", "time.Parse":
					var loc ssa.Value
					if n == "time.ParseInLocation" {
						loc = args[2]
					}
					layout, _ := constStr(args[0])
					switch {
					case loc != nil && isTimeLocal(loc):
						r.OK("Z1", site, pos, "time.Local", true)
						if layout != "" && !strings.Contains(layout, "15") && !strings.Contains(layout, "03") && strings.Contains(layout, "2") {
							// date-only layout
							if strings.Contains(layout, "01") || strings.Contains(layout, "Jan") {
								r.Check(dayExamined(fn), "Z3", site, pos, "civil day re-checked",
									"parses a date-only text ("+layout+") as local midnight without checking the result's day: in zones whose DST change removes 00:00 the value lands on the previous day")
							}
						}
					case civilOnlyUse(call, 0):
						r.OK("Z1", site, pos, "UTC parse used only for its civil fields", true)
					default:
						r.Bad("Z1", site, pos, "parses a date/time outside time.Local and lets the instant escape")
					}
				case "(time.Time).Add":
					if d := dependsOnClockFields(args[1], 0, map[ssa.Value]bool{}); d != "" {
						r.Bad("Z5", site, pos, "adds a time of day taken from "+d+" as a duration to an instant: on a day with a daylight-saving change local midnight + hh:mm:ss is not the civil time hh:mm:ss (one hour off after the change)")
					} else {
						r.OK("Z5", site, pos, "duration does not derive from civil clock fields", true)
					}
				case "(time.Time).UTC", "(time.Time).In", "(time.Time).Local":
					if civilOnlyUse(call, 0) {
						r.OK("Z1", site, pos, "converted instant used only for its civil fields", true)
					} else {
						r.Bad("Z1", site, pos, "re-zones an instant on a date path")
					}
				}
			}
		}
	}
	// Z2 from the kind facts
	if c != nil {
		for _, kf := range c.Kinds {
			if !strings.HasPrefix(kf.Sig, "bcd:") || strings.Contains(kf.Sig, "%") {
				continue
			}
			r.Check(!strings.Contains(kf.SigDetail, "Format receiver"), "Z2", kf.Name, p.Pos(kf.MarshalFn.Pos()), "formats the stored instant", kf.SigDetail)
		}
	}
	// Z4: the two recombination sites
	type recomb struct {
		fn                   *ssa.Function
		dateL, timeL, parseL string
		local                bool
		sep                  string
	}
	var sites []recomb
	for _, fn := range p.AllFuncs {
		pk := fn.Pkg
		if pk == nil && fn.Parent() != nil {
			pk = fn.Parent().Pkg
		}
		if pk != p.SSAPkg("uhppote") {
			continue
		}
		var rc recomb
		rc.fn = fn
		nFmt := 0
		for _, b := range fn.Blocks {
			for _, in := range b.Instrs {
				call, ok := in.(*ssa.Call)
				if !ok {
					continue
				}
				f := call.Call.StaticCallee()
				if f == nil {
					continue
				}
				n := calleeName(f)
				if strings.HasSuffix(n, ".Format") && len(call.Call.Args) == 2 {
					if s, ok := constStr(call.Call.Args[1]); ok {
						recvT := typeName(call.Call.Args[0].Type())
						if strings.Contains(recvT, "Date") {
							rc.dateL = s
						} else {
							rc.timeL = s
						}
						nFmt++
					}
				}
				if n == "time.ParseInLocation" {
					rc.parseL, _ = constStr(call.Call.Args[0])
					rc.local = isTimeLocal(call.Call.Args[2])
				}
			}
			for _, in := range b.Instrs {
				if bo, ok := in.(*ssa.BinOp); ok && isStringType(bo.Type()) {
					if s, ok := constStr(bo.Y); ok && len(s) == 1 {
						rc.sep = s
					}
				}
			}
		}
		if nFmt == 2 && rc.parseL != "" {
			sites = append(sites, rc)
		}
		// the other way of recombining them: time.Date(civil fields of the date, clock fields of the time, 0,
		// time.Local) - the instant package time builds for the parsed text
		if nFmt == 0 {
			for _, b := range fn.Blocks {
				for _, in := range b.Instrs {
					call, ok := in.(*ssa.Call)
					if !ok || call.Call.StaticCallee() == nil || calleeName(call.Call.StaticCallee()) != "time.Date" || len(call.Call.Args) != 8 {
						continue
					}
					dOK, cOK := civilTriple(call.Call.Args[0:3], "(time.Time).Date", []string{"(time.Time).Year", "(time.Time).Month", "(time.Time).Day"}, "SystemDate"),
						civilTriple(call.Call.Args[3:6], "(time.Time).Clock", []string{"(time.Time).Hour", "(time.Time).Minute", "(time.Time).Second"}, "SystemTime")
					if !dOK && !cOK {
						continue // not a recombination of the two status fields
					}
					ns, isC := constInt(call.Call.Args[6])
					rc2 := recomb{fn: fn, dateL: "civil fields", timeL: "clock fields", sep: "+", parseL: "civil fields+clock fields", local: isTimeLocal(call.Call.Args[7])}
					if !(dOK && cOK && isC && ns == 0) {
						rc2.parseL = "time.Date of other components"
					}
					sites = append(sites, rc2)
				}
			}
		}
	}
	for _, s := range sites {
		ok := s.local && s.parseL == s.dateL+s.sep+s.timeL
		r.Check(ok, "Z4", calleeName(s.fn), p.Pos(s.fn.Pos()), fmt.Sprintf("%q = %q+%q+%q in time.Local", s.parseL, s.dateL, s.sep, s.timeL),
			fmt.Sprintf("system date and time are formatted as %q and %q joined by %q but parsed with %q (local=%v)", s.dateL, s.timeL, s.sep, s.parseL, s.local))
	}
	if len(sites) == 2 {
		a, b := sites[0], sites[1]
		same := a.dateL == b.dateL && a.timeL == b.timeL && a.parseL == b.parseL && a.sep == b.sep && a.local == b.local
		r.Check(same, "Z4", "siblings", "", "GetStatus and Listen recombine identically", "the two status recombination sites use different layouts")
	}
	_ = types.Typ
}

// civilTriple: the three values are, in order, the three results of one call of multi (t.Date(), t.Clock()) or the
// results of the three single-component accessors on one and the same value, and that value is (a conversion of)
// a value whose type name contains typeHint.
func civilTriple(vs []ssa.Value, multi string, singles []string, typeHint string) bool {
	var recv ssa.Value
	for i, v := range vs {
		var r ssa.Value
		switch x := v.(type) {
		case *ssa.Extract:
			call, ok := x.Tuple.(*ssa.Call)
			if !ok || x.Index != i || call.Call.StaticCallee() == nil || calleeName(call.Call.StaticCallee()) != multi || len(call.Call.Args) != 1 {
				return false
			}
			r = call
		case *ssa.Call:
			if x.Call.StaticCallee() == nil || calleeName(x.Call.StaticCallee()) != singles[i] || len(x.Call.Args) != 1 {
				return false
			}
			r = x.Call.Args[0]
		default:
			return false
		}
		if i > 0 && r != recv {
			return false
		}
		recv = r
	}
	// the receiver: the call itself (multi) or the common argument
	var src ssa.Value = recv
	if c, ok := recv.(*ssa.Call); ok && c.Call.StaticCallee() != nil && calleeName(c.Call.StaticCallee()) == multi {
		src = c.Call.Args[0]
	}
	for i := 0; i < 4; i++ {
		switch x := src.(type) {
		case *ssa.ChangeType:
			src = x.X
			continue
		case *ssa.Convert:
			src = x.X
			continue
		}
		break
	}
	return strings.Contains(typeName(src.Type()), typeHint)
}

// Z6: the zero test of the date types is the zero test of the instant they wrap.
// Z7: an instant parsed from a civil date-time text (a layout with an hour) is kept as parsed: the value a
// decoder returns or stores is the parse result itself (whole-second truncation aside) — no offset is added to
// it, and it is not rebuilt from its civil fields (which picks the other occurrence of a repeated local time).
func RuleInstants(r *Report, p *Program) {
	r.Rule("Z6", "IsZero of a date / date-time type is exactly IsZero of the wrapped instant (independent of location)", 2)
	r.Rule("Z7", "a decoder that parses a civil date and time returns or stores exactly the parsed instant (optionally truncated to the second): no arithmetic on it, no rebuilding from civil fields", 2)
	tp := p.SSAPkg("types")
	for _, nt := range namedTypes(p, "types") {
		if !strings.HasSuffix(nt.Underlying().String(), "time.Time") && nt.Underlying().String() != "struct{wall uint64; ext int64; loc *time.Location}" {
			continue
		}
		if fn := methodOf(p, nt, "IsZero"); fn != nil {
			name := "types." + nt.Obj().Name() + ".IsZero"
			paths := walkSimple(p, fn, []string{"d"}, typesHelpers(p))
			ok := len(paths) == 1 && len(paths[0].Results) == 1 && paths[0].Results[0].String() == "(time.Time).IsZero(d)"
			got := ""
			if len(paths) > 0 && len(paths[0].Results) == 1 {
				got = paths[0].Results[0].String()
			}
			r.Check(ok, "Z6", name, p.Pos(fn.Pos()), "(time.Time).IsZero(d)", "the zero test is "+cut(got, 100)+", not the zero test of the wrapped instant: a 'missing' value built in another location is no longer recognised")
		}
	}
	for _, fn := range p.AllFuncs {
		if pkgOf(fn) != tp || fn.Parent() != nil || fn.Signature.Recv() == nil {
			continue
		}
		if fn.Name() != "UnmarshalUT0311L0x" && fn.Name() != "UnmarshalJSON" {
			continue
		}
		// parses with an hour verb?
		lay := map[string]bool{}
		collectCallConsts(fn, "time.ParseInLocation", 0, lay, 0, p)
		collectCallConsts(fn, "time.Parse", 0, lay, 0, p)
		hasHour := false
		for l := range lay {
			if strings.Contains(l, "15") {
				hasHour = true
			}
		}
		if !hasHour {
			continue
		}
		name := calleeName(fn)
		bad := ""
		n := 0
		for _, pa := range walkSimple(p, fn, []string{"d", "b"}, typesHelpers(p)) {
			if pa.Outcome != "return" {
				continue
			}
			// the parse results of this path that succeeded
			var parsed []string
			for _, e := range pa.Events {
				if e.Kind == "call" && (e.Name == "time.ParseInLocation" || e.Name == "time.Parse") && e.Result != nil {
					if okp, known := pa.State.Bools["isnil("+e.Result.String()+"#1)"]; known && okp {
						parsed = append(parsed, e.Result.String()+"#0")
					}
				}
			}
			if len(parsed) == 0 {
				continue
			}
			// values that leave the decoder: results and stores through the receiver
			var outs []*Term
			for _, res := range pa.Results {
				outs = append(outs, res)
			}
			for _, e := range pa.Events {
				if e.Kind == "store" && len(e.Args) == 2 {
					outs = append(outs, e.Args[1])
				}
			}
			for _, c := range pa.Cells {
				if c.Val != nil && c.Heap {
					outs = append(outs, c.Val)
				}
			}
			for _, o := range outs {
				seen := map[*Term]bool{}
				visitTerm(o, seen, func(x *Term) {
					if x.Op != "call" {
						return
					}
					uses := false
					for _, pr := range parsed {
						if strings.Contains(x.String(), pr) {
							uses = true
						}
					}
					if !uses {
						return
					}
					switch {
					case x.Name == "(time.Time).Truncate" || x.Name == "(time.Time).Round":
					case x.Name == "time.ParseInLocation" || x.Name == "time.Parse":
					case x.Name == "(time.Time).Add" || x.Name == "(time.Time).AddDate" || x.Name == "(time.Time).In" || x.Name == "(time.Time).UTC" || x.Name == "(time.Time).Local":
						bad = "the parsed instant is altered by " + x.Name + " before it leaves the decoder (" + p.Pos(x.Pos) + ")"
					case x.Name == "time.Date":
						bad = "the parsed instant is rebuilt from its civil fields with time.Date: of the two occurrences of a repeated local time (end of daylight saving) the other one may be chosen"
					}
				})
			}
			n++
		}
		if n > 0 {
			r.Check(bad == "", "Z7", name, p.Pos(fn.Pos()), fmt.Sprintf("%d paths with a successful parse", n), bad)
		}
	}
}
