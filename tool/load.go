package main

import (
	"fmt"
	"go/token"
	"go/types"
	"os"
	"sort"
	"strings"

	"golang.org/x/tools/go/packages"
	"golang.org/x/tools/go/ssa"
	"golang.org/x/tools/go/ssa/ssautil"
)

const modPath = "github.com/uhppoted/uhppote-core"

// Program is the loaded, type-checked and SSA-built view of /repo's working tree.
type Program struct {
	Dir      string
	Fset     *token.FileSet
	Pkgs     []*packages.Package
	ByPath   map[string]*packages.Package
	SSA      *ssa.Program
	SSAPkgs  map[string]*ssa.Package
	AllFuncs []*ssa.Function // every source function (incl. closures, instantiations) of the module
	Env      []string
}

// Load type-checks github.com/uhppoted/uhppote-core/... from dir (no tests) and builds SSA.
// Any load or type error is fatal for the caller: silence is never the default.
func Load(dir string, extraEnv []string) (*Program, error) {
	env := []string{}
	for _, e := range os.Environ() {
		if strings.HasPrefix(e, "GOWORK=") || strings.HasPrefix(e, "GOFLAGS=") {
			continue
		}
		env = append(env, e)
	}
	env = append(env, "GOWORK=off", "GOFLAGS=-mod=mod", "GOPROXY=off", "GOSUMDB=off", "GOTOOLCHAIN=local")
	env = append(env, extraEnv...)

	cfg := &packages.Config{
		Mode:  packages.LoadAllSyntax,
		Dir:   dir,
		Env:   env,
		Tests: false,
	}
	pkgs, err := packages.Load(cfg, modPath+"/...")
	if err != nil {
		return nil, fmt.Errorf("load: %w", err)
	}
	var errs []string
	packages.Visit(pkgs, nil, func(p *packages.Package) {
		for _, e := range p.Errors {
			errs = append(errs, e.Error())
		}
	})
	if len(errs) > 0 {
		return nil, fmt.Errorf("load: %d package errors, first: %s", len(errs), errs[0])
	}
	if len(pkgs) < 6 {
		return nil, fmt.Errorf("load: expected at least 6 packages of %s, found %d", modPath, len(pkgs))
	}
	sort.Slice(pkgs, func(i, j int) bool { return pkgs[i].PkgPath < pkgs[j].PkgPath })

	prog, spkgs := ssautil.AllPackages(pkgs, ssa.InstantiateGenerics)
	prog.Build()

	p := &Program{Dir: dir, Pkgs: pkgs, ByPath: map[string]*packages.Package{}, SSA: prog, SSAPkgs: map[string]*ssa.Package{}, Env: env}
	for i, pk := range pkgs {
		p.Fset = pk.Fset
		p.ByPath[pk.PkgPath] = pk
		if spkgs[i] == nil {
			return nil, fmt.Errorf("load: no SSA for %s", pk.PkgPath)
		}
		p.SSAPkgs[pk.PkgPath] = spkgs[i]
	}
	for fn := range ssautil.AllFunctions(prog) {
		if fn.Pkg != nil && strings.HasPrefix(fn.Pkg.Pkg.Path(), modPath) && fn.Blocks != nil {
			p.AllFuncs = append(p.AllFuncs, fn)
		} else if fn.Pkg == nil && fn.Origin() != nil && fn.Origin().Pkg != nil && strings.HasPrefix(fn.Origin().Pkg.Pkg.Path(), modPath) && fn.Blocks != nil {
			p.AllFuncs = append(p.AllFuncs, fn)
		}
	}
	sort.Slice(p.AllFuncs, func(i, j int) bool { return p.AllFuncs[i].String() < p.AllFuncs[j].String() })
	computeFieldAliases(p)
	lintProgram = p
	return p, nil
}

func (p *Program) Pos(pos token.Pos) string {
	if !pos.IsValid() {
		return "-"
	}
	ps := p.Fset.Position(pos)
	f := strings.TrimPrefix(ps.Filename, p.Dir+"/")
	return fmt.Sprintf("%s:%d", f, ps.Line)
}

// Pkg returns the go/types package for a module-relative path ("" = root, "types", ...).
func (p *Program) Pkg(rel string) *packages.Package {
	path := modPath
	if rel != "" {
		path += "/" + rel
	}
	return p.ByPath[path]
}

func (p *Program) SSAPkg(rel string) *ssa.Package {
	path := modPath
	if rel != "" {
		path += "/" + rel
	}
	return p.SSAPkgs[path]
}

// Func finds a package-level function or a method ("(*T).M" / "T.M") in a module package.
func (p *Program) Func(rel, name string) *ssa.Function {
	// name$N selects the N-th anonymous function (debugging aid)
	if i := strings.LastIndex(name, "$"); i > 0 {
		f := p.Func(rel, name[:i])
		n := 0
		fmt.Sscanf(name[i+1:], "%d", &n)
		if f == nil || n < 1 || n > len(f.AnonFuncs) {
			return nil
		}
		return f.AnonFuncs[n-1]
	}
	sp := p.SSAPkg(rel)
	if sp == nil {
		return nil
	}
	if !strings.Contains(name, ".") {
		return sp.Func(name)
	}
	ptr := false
	n := name
	if strings.HasPrefix(n, "(*") {
		ptr = true
		n = strings.TrimPrefix(n, "(*")
		n = strings.Replace(n, ")", "", 1)
	}
	parts := strings.SplitN(n, ".", 2)
	obj := sp.Pkg.Scope().Lookup(parts[0])
	if obj == nil {
		return nil
	}
	var t types.Type = obj.Type()
	if ptr {
		t = types.NewPointer(t)
	}
	sel := p.SSA.MethodSets.MethodSet(t).Lookup(sp.Pkg, parts[1])
	if sel == nil {
		return nil
	}
	return p.SSA.MethodValue(sel)
}
