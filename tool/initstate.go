package main

import (
	"go/types"
	"strings"

	"golang.org/x/tools/go/ssa"
)

// ---------------------------------------------------------------------------------------
// Package state after initialisation. A table may be filled by the package initialiser as a program instead
// of a literal: `func init() { register(0x20, ...); register(0x30, ...) }`, a loop over prototypes, a helper
// that refuses duplicates. The package's `init` function (variable initialisers in dependency order, then the
// init functions) is walked once with the walker's own transfer functions: the package's variables are
// concrete cells that start at their zero value, functions of the package are entered, the initialisers of
// imported packages are opaque. Initialisation takes no input, so the walk must have exactly ONE path, ending
// in a return (no panic, no fork on an unknown): then the final cell values are the values every later call of
// the package's functions starts from, provided nothing writes the variable after initialisation
// (initFrozen). Anything else leaves the variables symbolic, as before.
// ---------------------------------------------------------------------------------------

type initState struct {
	ok    bool
	why   string
	vals  map[*ssa.Global]*Term
	cells map[*ssa.Global]*Cell
}

var initStateMemo = map[*ssa.Package]*initState{}

func (p *Program) initStateOf(pk *ssa.Package) *initState {
	if st, ok := initStateMemo[pk]; ok {
		return st
	}
	st := &initState{vals: map[*ssa.Global]*Term{}, cells: map[*ssa.Global]*Cell{}}
	initStateMemo[pk] = st
	init := pk.Func("init")
	if init == nil || init.Blocks == nil {
		st.why = "no initialiser"
		return st
	}
	w := NewWalker(p)
	w.InitPkg = pk
	w.LoopFuel = 6
	w.MaxPaths = 8
	w.MaxDepth = 6
	w.Inline = func(f *ssa.Function, d int) bool {
		return f.Blocks != nil && pkgOf(f) == pk && f != init
	}
	paths := w.Walk(init, nil, nil)
	if len(paths) != 1 {
		st.why = "initialisation has more than one path"
		return st
	}
	pa := paths[0]
	if pa.Outcome != "return" {
		st.why = "initialisation ends in " + pa.Outcome + ": " + pa.Detail
		return st
	}
	if len(pa.Decisions) != 0 {
		st.why = "initialisation depends on " + strings.Join(pa.Decisions, ", ")
		return st
	}
	byName := map[string]*ssa.Global{}
	for _, m := range pk.Members {
		if g, ok := m.(*ssa.Global); ok {
			byName[shortPkg(pk.Pkg)+"."+g.Name()] = g
		}
	}
	for _, c := range pa.SymCells {
		if g, ok := byName[c.Name]; ok {
			st.vals[g] = c.Val
			st.cells[g] = c
		}
	}
	st.ok = true
	return st
}

// initOnly: fn runs only during package initialisation: the package initialiser, an init function, or a
// function all of whose uses are static calls from such functions (closures: their parent).
var initOnlyMemo = map[*ssa.Function]int{}

func (p *Program) initOnly(fn *ssa.Function) bool {
	if fn == nil {
		return false
	}
	switch initOnlyMemo[fn] {
	case 1:
		return true
	case 2:
		return false
	case 3:
		return true // recursion among initialisation helpers
	}
	if fn.Synthetic == "package initializer" || (fn.Parent() == nil && fn.Signature.Recv() == nil && strings.HasPrefix(fn.Name(), "init#")) {
		initOnlyMemo[fn] = 1
		return true
	}
	if fn.Parent() != nil {
		r := p.initOnly(fn.Parent())
		if r {
			initOnlyMemo[fn] = 1
		} else {
			initOnlyMemo[fn] = 2
		}
		return r
	}
	if fn.Object() == nil || fn.Object().Exported() {
		initOnlyMemo[fn] = 2
		return false
	}
	initOnlyMemo[fn] = 3
	calls := 0
	ok := true
scan:
	for _, caller := range p.AllFuncs {
		for _, b := range caller.Blocks {
			for _, in := range b.Instrs {
				for _, op := range in.Operands(nil) {
					if *op != ssa.Value(fn) {
						continue
					}
					ci, isCall := in.(ssa.CallInstruction)
					if !isCall || ci.Common().Value != ssa.Value(fn) {
						ok = false // used as a value
						break scan
					}
					if _, isGo := in.(*ssa.Go); isGo {
						ok = false
						break scan
					}
					if _, isDefer := in.(*ssa.Defer); isDefer && !p.initOnly(caller) {
						ok = false
						break scan
					}
					calls++
					if !p.initOnly(caller) {
						ok = false
						break scan
					}
				}
			}
		}
	}
	if ok && calls > 0 {
		initOnlyMemo[fn] = 1
		return true
	}
	initOnlyMemo[fn] = 2
	return false
}

// initFrozen: after package initialisation nothing writes g: every store into it (or into storage reached
// through it: elements, fields, map entries) is in a function that runs only during initialisation, and its
// address does not escape.
var initFrozenMemo = map[*ssa.Global]int{}

func (p *Program) initFrozen(g *ssa.Global) bool {
	switch initFrozenMemo[g] {
	case 1:
		return true
	case 2:
		return false
	}
	res := func() bool {
		for _, fn := range p.AllFuncs {
			io := -1
			isInit := func() bool {
				if io < 0 {
					io = 0
					if p.initOnly(fn) {
						io = 1
					}
				}
				return io == 1
			}
			for _, b := range fn.Blocks {
				for _, in := range b.Instrs {
					for _, op := range in.Operands(nil) {
						if *op != ssa.Value(g) {
							continue
						}
						if isInit() {
							continue
						}
						// outside initialisation: only reads
						switch x := in.(type) {
						case *ssa.UnOp:
							if x.Op.String() != "*" || !loadedReadOnly(x, 0) {
								return false
							}
						case *ssa.IndexAddr:
							if !readOnlyUses(x, 0) {
								return false
							}
						case *ssa.FieldAddr:
							if !readOnlyUses(x, 0) {
								return false
							}
						case *ssa.Slice:
							if !valueReadOnly(x, 0) {
								return false
							}
						case *ssa.DebugRef:
						default:
							return false
						}
					}
				}
			}
		}
		return true
	}()
	if res {
		initFrozenMemo[g] = 1
	} else {
		initFrozenMemo[g] = 2
	}
	return res
}

// loadedReadOnly: uses of the loaded value of a package-level variable that cannot change what the variable
// holds: for maps lookups, ranging and len; for slices what valueReadOnly allows; other values are copies.
func loadedReadOnly(v ssa.Value, depth int) bool {
	switch v.Type().Underlying().(type) {
	case *types.Map:
		refs := v.Referrers()
		if refs == nil {
			return true
		}
		for _, ref := range *refs {
			switch r := ref.(type) {
			case *ssa.Lookup, *ssa.Range, *ssa.DebugRef:
			case ssa.CallInstruction:
				if b, ok := r.Common().Value.(*ssa.Builtin); ok {
					if b.Name() != "len" {
						return false
					}
					continue
				}
				// handed to a function of the module that itself only reads it
				f := r.Common().StaticCallee()
				if f == nil || !inModule(f) || f.Blocks == nil || depth > 3 {
					return false
				}
				for i, a := range r.Common().Args {
					if a == v && (i >= len(f.Params) || !loadedReadOnly(f.Params[i], depth+1)) {
						return false
					}
				}
			default:
				return false
			}
		}
		return true
	case *types.Pointer, *types.Chan:
		return false
	}
	return valueReadOnly(v, depth)
}

// initValue: the value a table-like package variable (array, slice or map of constants, functions or nil)
// holds after initialisation, when the initialiser builds it by running code and nothing writes it afterwards.
func (w *Walker) initValue(g *ssa.Global) *Term {
	if g.Pkg == nil || !inModule(g.Pkg.Func("init")) {
		return nil
	}
	et := g.Type().Underlying().(*types.Pointer).Elem()
	switch et.Underlying().(type) {
	case *types.Array, *types.Slice, *types.Map:
	default:
		return nil
	}
	if !w.P.initFrozen(g) {
		return nil
	}
	st := w.P.initStateOf(g.Pkg)
	if !st.ok {
		return nil
	}
	v := st.vals[g]
	if v == nil || !tableValue(v, 0) {
		return nil
	}
	return v
}

// tableValue: a literal aggregate whose leaves are constants, nil, functions without captured variables, or
// reflect.Type descriptors of known types.
func tableValue(t *Term, depth int) bool {
	if t == nil || depth > 5 {
		return false
	}
	switch t.Op {
	case "const", "zero", "rtype":
		return true
	case "closure":
		// captured constants only (a rule built by a factory: segmentRule(2))
		for i, a := range t.Args {
			if a == nil {
				return false
			}
			if a.IsConst() {
				continue
			}
			// a variable captured by reference that holds a constant and is never assigned by the closure
			if a.Op == "ptr" && a.Cell != nil && !a.Cell.Sym && len(a.Path) == 0 && a.Cell.Val != nil && a.Cell.Val.IsConst() && t.Fn != nil && i < len(t.Fn.FreeVars) {
				written := false
				for _, b := range t.Fn.Blocks {
					for _, in := range b.Instrs {
						if st, ok := in.(*ssa.Store); ok && rootOf(st.Addr) == ssa.Value(t.Fn.FreeVars[i]) {
							written = true
						}
					}
				}
				if !written {
					continue
				}
			}
			return false
		}
		return true
	case "slicev", "struct":
		for _, a := range t.Args {
			if !tableValue(a, depth+1) {
				return false
			}
		}
		return true
	case "mapv":
		if len(t.Args) == 0 {
			return false
		}
		for _, a := range t.Args {
			if !tableValue(a, depth+1) {
				return false
			}
		}
		return true
	case "sref":
		if t.Cell == nil || t.Cell.Val == nil {
			return false
		}
		return tableValue(t.Cell.Val, depth+1)
	}
	return false
}
