package main

import (
	"fmt"
	"go/token"
	"go/types"
	"sort"
	"strings"

	"golang.org/x/tools/go/ssa"
)

// G2: package-level maps and slices are tables. Outside package initialisation a value loaded from a
// package-level variable of map or slice type is only read - indexed, ranged over, measured, compared with nil,
// handed to a function that only reads it - and never becomes part of another value (stored into a field or
// element, boxed for an unknown callee, returned to a caller outside the package, captured as a decode target):
// a reference to the shared table inside a result would let one call's data show up in another's.
func RuleG2(r *Report, p *Program, only string) {
	r.Rule("G2", "a package-level map or slice is only read at run time (index, range, len, read-only callees): a reference to it never becomes part of a result or of a value handed to a writer", 1)
	keepPkg := func(path string) bool { return only == "" || strings.HasSuffix(path, "/"+only) }
	type site struct{ key, pos, why string }
	var bad []site
	n := 0
	for _, fn := range p.AllFuncs {
		if fn.Name() == "init" || strings.HasPrefix(fn.Name(), "init#") || p.initOnly(fn) {
			continue
		}
		for _, b := range fn.Blocks {
			for _, in := range b.Instrs {
				ld, ok := in.(*ssa.UnOp)
				if !ok || ld.Op != token.MUL {
					continue
				}
				g, ok := ld.X.(*ssa.Global)
				if !ok || g.Pkg == nil || !strings.HasPrefix(g.Pkg.Pkg.Path(), modPath) || !keepPkg(g.Pkg.Pkg.Path()) {
					continue
				}
				switch ld.Type().Underlying().(type) {
				case *types.Map, *types.Slice:
				default:
					continue
				}
				n++
				if why := sharedRefEscapes(p, ld, 0, map[ssa.Value]bool{}); why != "" {
					bad = append(bad, site{shortPkg(g.Pkg.Pkg) + "." + g.Name() + " in " + calleeName(fn), p.Pos(ld.Pos()), why})
				}
			}
		}
	}
	sort.Slice(bad, func(i, j int) bool { return bad[i].key < bad[j].key })
	for _, s := range bad {
		r.Bad("G2", s.key, s.pos, "the shared table "+s.why)
	}
	r.OK("G2", "all-loads", "", fmt.Sprintf("%d loads of package-level maps/slices examined", n), true)
}

// sharedRefEscapes: "" when every use of v (a reference to shared storage) only reads it.
func sharedRefEscapes(p *Program, v ssa.Value, depth int, seen map[ssa.Value]bool) string {
	if depth > 6 || seen[v] {
		return ""
	}
	seen[v] = true
	refs := v.Referrers()
	if refs == nil {
		return ""
	}
	for _, ref := range *refs {
		switch x := ref.(type) {
		case *ssa.DebugRef, *ssa.Lookup, *ssa.Index, *ssa.Range, *ssa.If:
		case *ssa.IndexAddr:
			// an element address: reading through it is fine, a store through it is G1's finding
		case *ssa.BinOp:
			// comparison with nil
		case *ssa.Slice:
			if why := sharedRefEscapes(p, x, depth+1, seen); why != "" {
				return why
			}
		case *ssa.ChangeType:
			if why := sharedRefEscapes(p, x, depth+1, seen); why != "" {
				return why
			}
		case *ssa.Phi:
			if why := sharedRefEscapes(p, x, depth+1, seen); why != "" {
				return why
			}
		case *ssa.MakeInterface:
			// boxed: fine for formatting, anything else may keep or write it
			if x.Referrers() != nil {
				for _, r2 := range *x.Referrers() {
					if !boxedUseReadsOnly(r2) {
						return "is boxed into an interface value used by " + instrText(r2)
					}
				}
			}
		case *ssa.Store:
			if x.Val != v {
				continue // v is the address operand (cannot be: v is a map/slice value)
			}
			al, isLocal := x.Addr.(*ssa.Alloc)
			if !isLocal {
				return "is stored into " + x.Addr.Name() + " (a field, element or variable that outlives the read)"
			}
			// a local variable: every use of the local
			if al.Referrers() != nil {
				for _, r2 := range *al.Referrers() {
					switch y := r2.(type) {
					case *ssa.Store, *ssa.DebugRef:
					case *ssa.UnOp:
						if why := sharedRefEscapes(p, y, depth+1, seen); why != "" {
							return why
						}
					default:
						return "is kept in the local " + al.Comment + " whose address goes to " + instrText(r2)
					}
				}
			}
		case *ssa.Return:
			fn := x.Parent()
			if fn.Object() != nil && fn.Object().Exported() {
				return "is returned by the exported " + calleeName(fn)
			}
			// an unexported accessor: its callers must only read what they get
			for _, caller := range p.AllFuncs {
				for _, b := range caller.Blocks {
					for _, in := range b.Instrs {
						c, ok := in.(*ssa.Call)
						if !ok || !sameOrInstanceOf(c.Call.StaticCallee(), fn) {
							continue
						}
						var got ssa.Value = c
						if fn.Signature.Results().Len() > 1 {
							for i, res := range x.Results {
								if res != v || c.Referrers() == nil {
									continue
								}
								for _, r3 := range *c.Referrers() {
									if ex, ok := r3.(*ssa.Extract); ok && ex.Index == i {
										if why := sharedRefEscapes(p, ex, depth+1, seen); why != "" {
											return why
										}
									}
								}
							}
							continue
						}
						if why := sharedRefEscapes(p, got, depth+1, seen); why != "" {
							return why
						}
					}
				}
			}
		case ssa.CallInstruction:
			cc := x.Common()
			if bi, ok := cc.Value.(*ssa.Builtin); ok {
				switch bi.Name() {
				case "len", "cap", "print", "println":
					continue
				case "copy":
					if len(cc.Args) == 2 && cc.Args[1] == v && cc.Args[0] != v {
						continue // source of a copy
					}
					return "is the destination of a copy"
				case "append":
					if len(cc.Args) == 2 && cc.Args[1] == v && cc.Args[0] != v {
						continue // appended FROM (elements copied)
					}
					return "is appended to (may write into its spare capacity, and the result shares its storage)"
				case "delete", "clear":
					return "is modified by " + bi.Name()
				}
				continue
			}
			f := cc.StaticCallee()
			if f == nil {
				return "is handed to a call whose target is not known statically (" + instrText(ref) + ")"
			}
			if inModule(f) && f.Blocks != nil {
				for i, a := range cc.Args {
					if a == v && i < len(f.Params) {
						if why := sharedRefEscapes(p, f.Params[i], depth+1, seen); why != "" {
							return "is passed to " + calleeName(f) + ", where it " + why
						}
					}
				}
				continue
			}
			if !stdReadsOnly(calleeName(f)) {
				return "is handed to " + calleeName(f) + ", which is not known to only read it"
			}
		case *ssa.MakeClosure, *ssa.MapUpdate, *ssa.Send:
			return "is captured, stored in a map or sent (" + instrText(ref) + ")"
		default:
			return "is used by " + instrText(ref)
		}
	}
	return ""
}

func instrText(in ssa.Instruction) string {
	s := in.String()
	if len(s) > 60 {
		s = s[:60] + "..."
	}
	return s
}

// boxedUseReadsOnly: the interface value goes into a variadic argument list of a formatting / error function.
func boxedUseReadsOnly(in ssa.Instruction) bool {
	switch x := in.(type) {
	case *ssa.DebugRef:
		return true
	case *ssa.Store:
		// element of the []any of a variadic call: the slice is then passed to fmt
		if ia, ok := x.Addr.(*ssa.IndexAddr); ok {
			if al, ok := ia.X.(*ssa.Alloc); ok && al.Referrers() != nil {
				for _, r := range *al.Referrers() {
					if sl, ok := r.(*ssa.Slice); ok && sl.Referrers() != nil {
						for _, r2 := range *sl.Referrers() {
							if c, ok := r2.(ssa.CallInstruction); ok {
								if f := c.Common().StaticCallee(); f == nil || !stdReadsOnly(calleeName(f)) {
									return false
								}
							}
						}
					}
				}
				return true
			}
		}
		return false
	case ssa.CallInstruction:
		f := x.Common().StaticCallee()
		return f != nil && stdReadsOnly(calleeName(f))
	}
	return false
}

// stdReadsOnly: standard-library functions that only read a map/slice argument and keep no reference to it.
func stdReadsOnly(name string) bool {
	switch {
	case strings.HasPrefix(name, "fmt."), strings.HasPrefix(name, "errors."), strings.HasPrefix(name, "strings."), strings.HasPrefix(name, "bytes.Equal"), strings.HasPrefix(name, "bytes.Compare"), strings.HasPrefix(name, "bytes.Contains"), strings.HasPrefix(name, "bytes.Index"), strings.HasPrefix(name, "bytes.HasPrefix"):
		return true
	case strings.HasPrefix(name, "slices.Contains"), strings.HasPrefix(name, "slices.Index"), strings.HasPrefix(name, "slices.BinarySearch"), strings.HasPrefix(name, "slices.Equal"), strings.HasPrefix(name, "slices.Clone"), strings.HasPrefix(name, "slices.Max"), strings.HasPrefix(name, "slices.Min"):
		return true
	case strings.HasPrefix(name, "maps.Keys"), strings.HasPrefix(name, "maps.Values"), strings.HasPrefix(name, "maps.Clone"), strings.HasPrefix(name, "maps.Equal"):
		return true
	case strings.HasPrefix(name, "sort.Search"), strings.HasPrefix(name, "json.Marshal"), strings.HasPrefix(name, "hex.EncodeToString"), name == "reflect.ValueOf", name == "reflect.TypeOf":
		return name != "reflect.ValueOf" // a reflect.Value of a map can be written through
	}
	return false
}
