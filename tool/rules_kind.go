package main

import (
	"fmt"
	"go/token"
	"go/types"
	"os"
	"regexp"
	"sort"
	"strconv"
	"strings"
	"time"

	"golang.org/x/tools/go/ssa"
)

func builtinKinds(c *Codec) []string {
	ks := []string{}
	for k := range c.KS.Builtin {
		ks = append(ks, k)
	}
	sort.Strings(ks)
	return ks
}

func sigOrder(sig string) string {
	switch {
	case strings.HasSuffix(sig, "le"):
		return "le"
	case strings.HasSuffix(sig, "be"):
		return "be"
	}
	return ""
}

func keysOf(m map[string]bool) string {
	ks := []string{}
	for k := range m {
		ks = append(ks, k)
	}
	sort.Strings(ks)
	return strings.Join(ks, ",")
}

// K1 extents
// usedBuiltinKinds: the built-in kinds that occur in shipped message layouts.
func usedBuiltinKinds(c *Codec) map[string]bool {
	m := map[string]bool{}
	for _, l := range c.messageLayouts() {
		for _, f := range l.Fields {
			if f.HasOff {
				m[f.Kind] = true
			}
		}
	}
	return m
}

// K1Shipped restricts the built-in kinds to those shipped messages use (C01/C02/C05 speak about
// shipped messages; kinds no message uses are the business of C18).
var k1ShippedOnly = false

func RuleK1Shipped(r *Report, c *Codec) {
	k1ShippedOnly = true
	defer func() { k1ShippedOnly = false }()
	RuleK1(r, c)
}

func RuleK1(r *Report, c *Codec) {
	r.Rule("K1", "per kind: bytes written by the encoder == bytes read by the decoder == protocol width; every access to the message buffer is offset+c with c <= width", 18)
	used := usedBuiltinKinds(c)
	for _, k := range builtinKinds(c) {
		if k1ShippedOnly && !used[k] {
			continue
		}
		sig := c.KS.Builtin[k]
		width := c.KS.Signatures[sig].Width
		for _, cf := range []*CodecFacts{c.M, c.U} {
			key := "codec." + cf.Dir + ":" + k
			maxHi := int64(0)
			n := 0
			bad := ""
			for _, cp := range cf.Paths {
				if cp.Kind != k {
					continue
				}
				n++
				if os.Getenv("UHLINT_DEBUG") == "K1:"+k {
					fmt.Fprintf(os.Stderr, "K1 %s path outcome=%s %s access=%v\n", key, cp.Path.Outcome, cp.Path.Detail, cp.Access)
					for _, e := range cp.Path.Events {
						fmt.Fprintf(os.Stderr, "    ev %s\n", cut(strings.ReplaceAll(e.String(), cf.Offset, "OFF"), 400))
					}
				}
				for _, a := range cp.Access {
					if a.Unrel {
						bad = "buffer access " + a.Text + " is not of the form offset+c"
					}
					if a.Abs {
						if a.Lo > 1 {
							bad = fmt.Sprintf("field path touches absolute byte %d of the message", a.Lo)
						}
						continue
					}
					if a.Hi > maxHi {
						maxHi = a.Hi
					}
				}
			}
			switch {
			case n == 0:
				r.Bad("K1", key, c.P.Pos(cf.Fn.Pos()), "kind "+k+" is not handled by codec."+cf.Dir)
			case bad != "":
				r.Bad("K1", key, c.P.Pos(cf.Fn.Pos()), bad)
			default:
				r.Check(maxHi == width, "K1", key, c.P.Pos(cf.Fn.Pos()), fmt.Sprintf("%d bytes", width),
					fmt.Sprintf("codec.%s touches bytes offset..offset+%d for a %d-byte %s field (%s)", cf.Dir, maxHi-1, width, k, sig))
			}
		}
	}
	for _, kf := range c.Kinds {
		spec, ok := c.KS.Signatures[kf.Sig]
		pos := ""
		if kf.MarshalFn != nil {
			pos = c.P.Pos(kf.MarshalFn.Pos())
		}
		if !ok {
			r.Bad("K1", kf.Name+":encoder", pos, "encoder signature "+kf.Sig+" is not a protocol encoding (kinds.json)"+kf.SigDetail)
			continue
		}
		r.Check(kf.Width == spec.Width && kf.SigDetail == "", "K1", kf.Name+":encoder", pos, fmt.Sprintf("%s, %d bytes", kf.Sig, kf.Width),
			fmt.Sprintf("encoder emits %d bytes (%v), protocol width of %s is %d%s", kf.Width, kf.Widths, kf.Sig, spec.Width, kf.SigDetail))
		if kf.UnmarshalFn != nil {
			upos := c.P.Pos(kf.UnmarshalFn.Pos())
			ok := kf.ReadExtent == spec.Width && !kf.ReadOpen && len(kf.ReadUnrel) == 0
			r.Check(ok, "K1", kf.Name+":decoder", upos, fmt.Sprintf("reads %d bytes", kf.ReadExtent),
				fmt.Sprintf("decoder reads bytes 0..%d (open-ended=%v, non-constant=%v), protocol width of %s is %d", kf.ReadExtent-1, kf.ReadOpen, kf.ReadUnrel, kf.Sig, spec.Width))
		}
	}
	// IPv4 reader: the four address bytes are taken in wire order
	{
		bad := ""
		n := 0
		for _, cp := range c.U.Paths {
			if cp.Kind != "ipv4" {
				continue
			}
			for _, e := range cp.Calls {
				if e.Name != "net.IPv4" || len(e.Args) != 4 {
					continue
				}
				n++
				for i, a := range e.Args {
					d := int64(-1)
					if a.Op == "index" && a.Args[0].String() == c.U.Buf {
						ix := a.Args[1]
						if v, ok := relOffset(ix, c.U.Offset); ok {
							d = v
						} else if ix.Op == "fresh" {
							if ix.Name == c.U.Offset {
								d = 0
							} else {
								fmt.Sscanf(strings.TrimPrefix(ix.Name, "("+c.U.Offset+"+"), "%d)", &d)
							}
						}
					}
					if d != int64(i) {
						bad = fmt.Sprintf("address byte %d is read from offset+%d", i, d)
					}
				}
			}
		}
		r.Check(bad == "" && n > 0, "K1", "codec.unmarshal:ipv4:order", c.P.Pos(c.U.Fn.Pos()), "bytes offset+0..3 in order", bad)
	}
	// the set of derived signatures must be the expected one (anti-vacuity and drift detection)
	have := map[string]bool{}
	for _, kf := range c.Kinds {
		have[kf.Sig] = true
	}
	want := map[string]bool{}
	for _, s := range c.KS.Expected {
		want[s] = true
	}
	missing := []string{}
	for s := range want {
		if !have[s] {
			missing = append(missing, s)
		}
	}
	sort.Strings(missing)
	r.Check(len(missing) == 0, "K1", "types:signature-set", "", keysOf(have), "protocol encodings {"+strings.Join(missing, ",")+"} are no longer produced by any field type (derived: {"+keysOf(have)+"})")
}

// K14: a "does it fit" guard may reject a field only if it extends beyond the buffer: a field ending on the last byte fits.
func RuleK14(r *Report, c *Codec) {
	r.Rule("K14", "the codec rejects a field as not fitting only when offset+width exceeds the buffer length: a field that ends exactly on the last byte is encoded and decoded", 2)
	for _, cf := range []*CodecFacts{c.M, c.U} {
		bad := ""
		n := 0
		lenKey := "len(" + cf.Buf + ")"
		for _, cp := range cf.Paths {
			n++
			if cp.ErrNil != 0 {
				continue
			}
			// relations between an end expression and the buffer length
			for key, bits := range cp.Path.State.Rels {
				ab := strings.SplitN(key, "\x00", 2)
				var e string
				rel := bits
				switch {
				case ab[1] == lenKey:
					e = ab[0]
				case ab[0] == lenKey:
					e = ab[1]
					rel = relFlip(bits)
				default:
					continue
				}
				if !strings.Contains(e, cf.Offset) {
					continue
				}
				// e (rel) len on a rejecting path
				minusOne := strings.HasSuffix(e, "-1)")
				if rel&relEQ != 0 && !minusOne {
					bad = fmt.Sprintf("a %s field with %s == %s (it ends on the last byte) is rejected", cp.Kind, cut(e, 60), lenKey)
				}
				if rel&relLT != 0 {
					bad = fmt.Sprintf("a %s field that lies inside the buffer (%s < %s) is rejected", cp.Kind, cut(e, 60), lenKey)
				}
			}
			for key, reg := range cp.Path.State.Ints {
				if !strings.Contains(key, cf.Offset) || !strings.HasPrefix(key, "(") {
					continue
				}
				// (offset+c) compared with constants: 64 must not be in a rejecting region unless the term is an index (…-1)
				if !reg.Intersect(IntervalSet{{0, 64}}).Empty() && strings.Contains(key, "+") && !strings.HasSuffix(key, "-1)") {
					// a rejecting path whose end expression may be <= 64
					if onlyDecidedBy(cp.Path, key) {
						bad = fmt.Sprintf("a %s field with %s in %s is rejected although it fits in 64 bytes", cp.Kind, cut(key, 60), reg.Intersect(IntervalSet{{0, 64}}).String())
					}
				}
			}
		}
		r.Check(bad == "" && n > 0, "K14", "codec."+cf.Dir, c.P.Pos(cf.Fn.Pos()), fmt.Sprintf("%d paths examined", n), bad)
	}
}

// K15: a field of a Marshaler type that was encoded without error is written: the encoder never skips it silently.
func RuleK15(r *Report, c *Codec) {
	r.Rule("K15", "when a field's MarshalUT0311L0x succeeds its bytes are copied into the message at the field's offset on every path that does not fail: no guard lets the encoder silently leave such a field out (only a nil pointer field is skipped)", 1)
	bad := ""
	skipped := ""
	n := 0
	for _, cp := range c.M.Paths {
		if cp.Kind != "marshaler" || cp.ErrNil == 0 || cp.Path.Outcome != "return" {
			continue
		}
		var res *Term
		for _, e := range cp.Path.Events {
			if e.Kind == "call" && strings.HasSuffix(e.Name, ".MarshalUT0311L0x") && e.Result != nil {
				res = e.Result
			}
		}
		if res == nil {
			// the encoder was not asked: only a nil pointer field may be left out like that
			isNilPtr := false
			for k, v := range cp.Path.State.Bools {
				if v && strings.HasPrefix(k, "(reflect.Value).IsNil(") {
					isNilPtr = true
				}
			}
			if !isNilPtr {
				skipped = "a field with an encoder is left out without its encoder having been called, and not because it is a nil pointer, when [" + cut(cp.Path.State.Describe(), 240) + "]"
			}
			continue
		}
		if ok, known := cp.Path.State.Bools["isnil("+res.String()+"#1)"]; !known || !ok {
			continue // the field's own encoder failed
		}
		n++
		copied := false
		for _, e := range cp.Path.Events {
			if e.Kind == "copy" && len(e.Args) == 2 && strings.Contains(e.Args[0].String(), c.M.Buf) && strings.Contains(e.Args[1].String(), res.String()+"#0") {
				copied = true
			}
		}
		if !copied {
			bad = "an encoded field is not written to the message when [" + cut(cp.Path.State.Describe(), 240) + "]"
		}
	}
	r.Check(bad == "" && n > 0, "K15", "codec.marshal:marshaler", c.P.Pos(c.M.Fn.Pos()), fmt.Sprintf("%d successful field encodings, all copied", n), bad)
	r.Check(skipped == "", "K15", "codec.marshal:marshaler-asked", c.P.Pos(c.M.Fn.Pos()), "the encoder of every non-nil field is called", skipped)
}

// K17: a field decoder called on a non-nil receiver never returns (nil, nil): the codec stores the result of a
// value field without a nil test (reflect.Indirect of a nil pointer is the zero Value, and Set panics on it).
func RuleK17(r *Report, c *Codec) {
	r.Rule("K17", "UnmarshalUT0311L0x called on a non-nil receiver returns a non-nil value whenever it returns no error (the codec stores it into a value field unconditionally)", 5)
	for _, kf := range c.Kinds {
		if kf.UnmarshalFn == nil {
			continue
		}
		bad := ""
		n := 0
		for _, pa := range kf.UPaths {
			if pa.Outcome != "return" || len(pa.Results) != 2 || errNilness(pa, pa.Results[1]) != 1 {
				continue
			}
			if v, ok := pa.State.Bools["isnil(d)"]; ok && v {
				continue // nil receiver: the pointer-field protocol
			}
			n++
			if pa.Results[0].IsNilConst() {
				bad = "returns (nil, nil) on a non-nil receiver when [" + cut(pa.State.Describe(), 160) + "]: decoding a value field of this type panics in the codec"
			}
			// a typed nil pointer inside the interface is as fatal: the value handed back must be known to be a
			// pointer to something (a fresh value, the receiver, a pointer the path has tested)
			inner := pa.Results[0]
			for inner != nil && inner.Op == "iface" && len(inner.Args) == 1 {
				inner = inner.Args[0]
			}
			if inner != nil && inner != pa.Results[0] && inner.Typ != nil {
				if _, isPtr := inner.Typ.Underlying().(*types.Pointer); isPtr && nilness(inner) == -1 && inner.Op != "param" {
					if ptrOfSuccessfulConstructor(c.P, pa, inner) {
						continue // (p, nil) from a constructor of the module that returns a non-nil pointer with every nil error
					}
					if v, ok := pa.State.Bools["isnil("+inner.String()+")"]; !ok || v {
						bad = "returns " + cut(inner.String(), 60) + ", a pointer never shown to be non-nil, with a nil error when [" + cut(pa.State.Describe(), 120) + "]: a nil pointer inside the interface makes the codec's store into a value field panic"
					}
				}
			}
		}
		if n > 0 {
			r.Check(bad == "", "K17", kf.Name, c.P.Pos(kf.UnmarshalFn.Pos()), fmt.Sprintf("%d success paths", n), bad)
		}
	}
}

// ptrOfSuccessfulConstructor: t is the pointer result of a call f(...) of a module function returning (*T, error),
// the path has established that the call's error is nil, and f returns a non-nil pointer on every one of its own
// paths whose error may be nil (a summary obtained by walking f).
var ctorSummary = map[*ssa.Function]int{}

func ptrOfSuccessfulConstructor(p *Program, pa Path, t *Term) bool {
	if t == nil || t.Op != "extract" || t.Name != "0" || len(t.Args) != 1 || t.Args[0].Op != "call" {
		return false
	}
	call := t.Args[0]
	if isnil, known := pa.State.Bools["isnil("+call.String()+"#1)"]; !known || !isnil {
		if os.Getenv("UHLINT_DEBUG") == "K17" {
			fmt.Fprintf(os.Stderr, "K17 ctor: error of %s not known nil (known=%v)\n", cut(call.String(), 80), known)
			for k := range pa.State.Bools {
				fmt.Fprintf(os.Stderr, "     key %s\n", cut(k, 200))
			}
		}
		return false
	}
	var f *ssa.Function
	for _, fn := range p.AllFuncs {
		if fn.Parent() == nil && calleeName(fn) == call.Name {
			if f != nil {
				return false // ambiguous name
			}
			f = fn
		}
	}
	if f == nil || f.Signature.Results().Len() != 2 {
		return false
	}
	if os.Getenv("UHLINT_DEBUG") == "K17" {
		fmt.Fprintf(os.Stderr, "K17 ctor %s found=%v\n", call.Name, f != nil)
	}
	switch ctorSummary[f] {
	case 1:
		return true
	case 2:
		return false
	}
	ctorSummary[f] = 2
	w := NewWalker(p)
	w.Inline = typesHelpers(p)
	paths := w.Walk(f, symbolicArgs(f), nil)
	if w.Exploded || len(paths) == 0 {
		return false
	}
	for _, fp := range paths {
		if os.Getenv("UHLINT_DEBUG") == "K17" {
			fmt.Fprintf(os.Stderr, "K17 ctor path %s %s results=%d\n", fp.Outcome, fp.Detail, len(fp.Results))
			for _, rv := range fp.Results {
				fmt.Fprintf(os.Stderr, "    %s nilness=%d\n", cut(rv.String(), 100), nilness(rv))
			}
		}
		if fp.Outcome == "panic" {
			continue
		}
		if fp.Outcome != "return" || len(fp.Results) != 2 {
			return false
		}
		if errNilness(fp, fp.Results[1]) == 0 {
			continue // fails: the pointer is not used
		}
		if nilness(fp.Results[0]) != 0 {
			return false
		}
	}
	ctorSummary[f] = 1
	return true
}

// K21: the field encoders are total. The codec leaves out a field whose encoder returns an error (the request is
// still sent, with zeros in its place), so an encoder may fail only where the protocol has no encoding at all:
// when the BCD packing of the digits it formatted fails. A failure decided by a comparison on the value, or by
// another parse of its text, silently turns an argument into zeros on the wire.
func RuleK21(r *Report, c *Codec) {
	r.Rule("K21", "a field encoder (MarshalUT0311L0x) returns an error only when bcd.Encode failed or returned nothing: on no other ground is a value refused (the codec would send zeros in its place)", 5)
	for _, kf := range c.Kinds {
		if kf.MarshalFn == nil {
			continue
		}
		bad := ""
		n := 0
		for _, pa := range kf.MPaths {
			if pa.Outcome != "return" || len(pa.Results) != 2 {
				continue
			}
			n++
			if errNilness(pa, pa.Results[1]) == 1 {
				continue
			}
			justified := false
			for k, v := range pa.State.Bools {
				if strings.HasPrefix(k, "isnil(bcd.Encode(") {
					if (strings.HasSuffix(k, "#1)") && !v) || (strings.HasSuffix(k, "#0)") && v) {
						justified = true
					}
				}
			}
			if !justified {
				bad = "the encoder fails under [" + cut(pa.State.Describe(), 200) + "]: the codec then leaves the field out and the message goes out with zeros in its place"
			}
		}
		if n > 0 {
			r.Check(bad == "", "K21", kf.Name+":encoder", c.P.Pos(kf.MarshalFn.Pos()), fmt.Sprintf("%d paths", n), bad)
		}
	}
}

// K22: the field loop goes on after a nested walk. A field walker that calls a field walker (the recursion into an
// embedded struct) may return that call's error only on the branch where it is non-nil: `return marshal(f, bytes)`
// inside the loop ends the walk after the embedded struct and silently leaves out every field declared after it.
func RuleK22(r *Report, c *Codec) {
	r.Rule("K22", "the error of a nested field walk (embedded struct) is returned only where it was found non-nil: on success the field loop continues with the next field", 1)
	for _, cf := range []*CodecFacts{c.M, c.U} {
		fn := cf.Fn
		bad := ""
		n := 0
		var fns []*ssa.Function
		fns = append(fns, fn)
		for _, g := range c.P.AllFuncs {
			if g != fn && (isFieldHelper(c.P, g) || (g.Parent() == fn)) {
				fns = append(fns, g)
			}
		}
		for _, g := range fns {
			for _, b := range g.Blocks {
				for _, in := range b.Instrs {
					call, ok := in.(*ssa.Call)
					if !ok || call.Call.StaticCallee() == nil || !isFieldWalker(call.Call.StaticCallee()) {
						continue
					}
					if call.Type().String() != "error" {
						continue
					}
					switch {
					case g.Parent() != nil && isFieldWalker(g.Parent()) && strings.Contains(g.Synthetic, "range-over-func"):
						// the body of a range-over-func field loop: its returns are compiled into the iterator
						// protocol (a state variable examined after the loop); counted, not analysed
						n++
					case isFieldWalker(g) && underLoopHeader(call.Block()):
						n++
						if why := returnedOnlyWhenNonNil(call); why != "" {
							bad = c.P.Pos(call.Pos()) + ": " + why
						}
					}
				}
			}
		}
		if n > 0 {
			r.Check(bad == "", "K22", "codec."+cf.Dir+":nested", c.P.Pos(fn.Pos()), fmt.Sprintf("%d nested walks", n), bad)
		}
	}
}

// underLoopHeader: blk is inside a loop body - it, or one of its dominators, lies on a cycle of the control-flow
// graph (a block that returns is not itself on a cycle, its loop header is).
func underLoopHeader(blk *ssa.BasicBlock) bool {
	for d := blk; d != nil; d = d.Idom() {
		if inLoop(d) {
			return true
		}
	}
	return false
}

// returnedOnlyWhenNonNil: every way the error value v reaches a return (directly or through phis) lies on the
// true branch of `v != nil` (or the false branch of `v == nil`).
func returnedOnlyWhenNonNil(v ssa.Value) string {
	nonNilBlock := func(blk *ssa.BasicBlock) bool {
		child := blk
		for d := blk.Idom(); ; child, d = d, d.Idom() {
			if d == nil {
				return false
			}
			ifi, ok := d.Instrs[len(d.Instrs)-1].(*ssa.If)
			if !ok {
				continue
			}
			bo, ok := ifi.Cond.(*ssa.BinOp)
			if !ok || (bo.X != v && bo.Y != v) {
				continue
			}
			other := bo.Y
			if bo.Y == v {
				other = bo.X
			}
			if k, ok := other.(*ssa.Const); !ok || !k.IsNil() {
				continue
			}
			inTrue := (d.Succs[0] == child || dominates(d.Succs[0], child)) && len(d.Succs[0].Preds) == 1
			inFalse := (d.Succs[1] == child || dominates(d.Succs[1], child)) && len(d.Succs[1].Preds) == 1
			if bo.Op == token.NEQ && inTrue {
				return true
			}
			if bo.Op == token.EQL && inFalse {
				return true
			}
		}
	}
	seen := map[ssa.Value]bool{}
	var visit func(x ssa.Value, at *ssa.BasicBlock) string
	visit = func(x ssa.Value, at *ssa.BasicBlock) string {
		if seen[x] {
			return ""
		}
		seen[x] = true
		if x.Referrers() == nil {
			return ""
		}
		for _, ref := range *x.Referrers() {
			switch r := ref.(type) {
			case *ssa.Return:
				if !nonNilBlock(r.Block()) {
					return "the nested walk's result is returned on a path where it may be nil: the field loop ends there and the fields declared after the embedded struct are skipped"
				}
			case *ssa.Phi:
				for i, e := range r.Edges {
					if e == x && !nonNilBlock(r.Block().Preds[i]) && r.Block().Preds[i] != x.(ssa.Instruction).Block() {
						// carried along a path where it was not found non-nil
						if why := visit(r, r.Block()); why != "" {
							return why
						}
					} else if e == x && r.Block().Preds[i] == x.(ssa.Instruction).Block() && !nonNilBlock(r.Block().Preds[i]) {
						if why := visit(r, r.Block()); why != "" {
							return why
						}
					}
				}
			}
		}
		return ""
	}
	return visit(v, nil)
}

// K16: the value-tag grammar. The pattern constant the codec matches `value:` tags with is tabulated over every
// one-byte literal in its decimal and hexadecimal spellings (an analysis of a constant of the program: the
// codec is not run).
func RuleK16(r *Report, c *Codec) {
	r.Rule("K16", "the codec's value-tag pattern matches every one-byte constant written in decimal (0..255) or hexadecimal (0x00..0xff, either case of prefix and digits), capturing exactly the literal", 1)
	re, err := regexp.Compile(c.L.ReValSrc)
	if err != nil || c.L.ReValSrc == "" {
		r.Bad("K16", "codec:value-pattern", "", "the value-tag pattern is not a constant regular expression")
		return
	}
	bad := ""
	n := 0
	for v := 0; v <= 255; v++ {
		for _, lit := range []string{fmt.Sprintf("%d", v), fmt.Sprintf("0x%02x", v), fmt.Sprintf("0x%02X", v), fmt.Sprintf("0x%x", v), fmt.Sprintf("0X%02x", v), fmt.Sprintf("0X%X", v)} {
			for _, tag := range []string{"value:" + lit, "offset:8, value:" + lit} {
				n++
				m := re.FindStringSubmatch(tag)
				if m == nil || len(m) < 2 {
					bad = fmt.Sprintf("the tag %q is not recognised as a fixed value by the pattern %s", tag, c.L.ReValSrc)
				} else if got, err := strconv.ParseUint(m[1], 0, 8); err != nil || int(got) != v {
					bad = fmt.Sprintf("the tag %q yields %q, not the value %d", tag, m[1], v)
				}
			}
		}
	}
	r.Check(bad == "", "K16", "codec:value-pattern", "", fmt.Sprintf("%d spellings of the 256 byte values recognised", n), bad)
}

// onlyDecidedBy: the error of this path is attributable to the comparison on key (no failed nested call or tag parse on the path).
func onlyDecidedBy(pa Path, key string) bool {
	for k, v := range pa.State.Bools {
		if strings.HasPrefix(k, "isnil(") && !v && !strings.Contains(k, "FindStringSubmatch") {
			return false
		}
	}
	return true
}

// K2 byte order
func RuleK2(r *Report, c *Codec) {
	r.Rule("K2", "encoder and decoder of a kind use the same byte order, the protocol's (little-endian integers, PIN, serial; big-endian version)", 6)
	for _, k := range builtinKinds(c) {
		want := sigOrder(c.KS.Builtin[k])
		if want == "" {
			continue
		}
		for _, cf := range []*CodecFacts{c.M, c.U} {
			seen := map[string]bool{}
			for _, cp := range cf.Paths {
				if cp.Kind != k {
					continue
				}
				for _, e := range cp.Calls {
					if en := endianOf(e.Name); en != "" {
						seen[en] = true
					}
				}
				// the bytes written out / assembled explicitly (shifts, a loop over the width) instead of a helper
				if ord := explicitOrder(cf, cp); ord != "" {
					seen[ord] = true
				}
			}
			r.Check(keysOf(seen) == want, "K2", "codec."+cf.Dir+":"+k, c.P.Pos(cf.Fn.Pos()), want, "byte order helpers used: {"+keysOf(seen)+"}, protocol says "+want)
		}
	}
	for _, kf := range c.Kinds {
		want := sigOrder(kf.Sig)
		if want == "" || strings.HasPrefix(kf.Sig, "bcd") || strings.HasPrefix(kf.Sig, "raw") {
			continue
		}
		ok := keysOf(kf.MOrder) == want && (kf.UnmarshalFn == nil || keysOf(kf.UOrder) == want)
		r.Check(ok, "K2", kf.Name, c.P.Pos(kf.MarshalFn.Pos()), want, fmt.Sprintf("encoder order {%s}, decoder order {%s}, protocol %s", keysOf(kf.MOrder), keysOf(kf.UOrder), want))
	}
}

// explicitOrder: the byte order of a field that the codec encodes or decodes without a byte-order helper:
// encode: stores bytes[offset+c] = byte(v >> 8k); decode: an or/sum of bytes[offset+c] << 8k.
func explicitOrder(cf *CodecFacts, cp CodecPath) string {
	var pos, sh []int64
	if cf.Dir == "marshal" {
		for _, e := range cp.Path.Events {
			if e.Kind != "store" || len(e.Args) < 2 || e.Args[0].Op != "ptr" || e.Args[0].Cell == nil || len(e.Args[0].Path) != 1 {
				continue
			}
			sel := strings.TrimPrefix(e.Args[0].Path[0], "#")
			c := int64(-1)
			// a store through a view of the buffer handed to a helper: bytes[offset+a : ..][k]
			if v := e.Args[0].Cell.Val; e.Args[0].Cell.Name != cf.Buf {
				if v != nil && v.Op == "slice" && v.Args[0].String() == cf.Buf && v.Args[1] != nil {
					if d, okd := relOffset(v.Args[1], cf.Offset); okd {
						var k int64
						if _, err := fmt.Sscanf(sel, "%d", &k); err == nil && fmt.Sprint(k) == sel {
							if _, sk, ok := shiftOf(e.Args[1]); ok {
								pos = append(pos, d+k)
								sh = append(sh, sk)
							}
						}
					}
				}
				continue
			}
			switch {
			case sel == cf.Offset:
				c = 0
			case strings.HasPrefix(sel, "("+cf.Offset+"+") && strings.HasSuffix(sel, ")"):
				fmt.Sscanf(sel[len(cf.Offset)+2:len(sel)-1], "%d", &c)
			}
			_, k, ok := shiftOf(e.Args[1])
			if c < 0 || !ok {
				continue
			}
			pos = append(pos, c)
			sh = append(sh, k)
		}
	} else {
		for _, e := range cp.Calls {
			if !strings.HasSuffix(e.Name, ".SetUint") || len(e.Args) != 2 {
				continue
			}
			ok := true
			var visit func(x *Term)
			visit = func(x *Term) {
				x = stripConvs(x)
				if x == nil || !ok {
					return
				}
				if x.Op == "bin" && (x.Name == "|" || x.Name == "+") {
					visit(x.Args[0])
					visit(x.Args[1])
					return
				}
				if c, isC := x.Int64(); isC && c == 0 {
					return
				}
				k := int64(0)
				if x.Op == "bin" && x.Name == "<<" {
					c, isC := x.Args[1].Int64()
					if !isC {
						ok = false
						return
					}
					k = c
					x = stripConvs(x.Args[0])
				}
				if x.Op != "index" || len(x.Args) != 2 {
					ok = false
					return
				}
				base, idx := x.Args[0], x.Args[1]
				add := int64(0)
				if base.Op == "slice" && base.Args[0].String() == cf.Buf && base.Args[1] != nil {
					// an element of a view bytes[offset+a : ...]
					if d, okd := relOffset(base.Args[1], cf.Offset); okd {
						if i, isC := idx.Int64(); isC {
							pos = append(pos, d+i)
							sh = append(sh, k)
							return
						}
					}
					ok = false
					return
				}
				if base.String() != cf.Buf {
					ok = false
					return
				}
				d, okd := relOffset(idx, cf.Offset)
				if !okd {
					if os.Getenv("UHLINT_DEBUG") == "K2" {
						fmt.Fprintf(os.Stderr, "K2 relOffset fails: idx.Op=%s name=%s args=%d %s\n", idx.Op, idx.Name, len(idx.Args), strings.ReplaceAll(idx.String(), cf.Offset, "OFF"))
					}
					ok = false
					return
				}
				pos = append(pos, d+add)
				sh = append(sh, k)
			}
			visit(e.Args[1])
			if os.Getenv("UHLINT_DEBUG") == "K2" {
				fmt.Fprintf(os.Stderr, "K2 %s ok=%v pos=%v sh=%v arg=%s\n", cp.Kind, ok, pos, sh, strings.ReplaceAll(e.Args[1].String(), cf.Offset, "OFF"))
			}
			if !ok {
				return ""
			}
		}
	}
	if len(pos) < 2 {
		return ""
	}
	return orderOfPairs(pos, sh)
}

// K3 booleans
func RuleK3(r *Report, c *Codec) {
	r.Rule("K3", "boolean encoder emits exactly 0/1; decoder maps 1->true, 0->false and rejects every other byte", 2)
	// encoder
	vals := map[string]string{}
	for _, cp := range c.M.Paths {
		if cp.Kind != "bool" {
			continue
		}
		truth := ""
		for k, v := range cp.Path.State.Bools {
			if strings.HasPrefix(k, "(reflect.Value).Bool(") {
				truth = fmt.Sprint(v)
			}
		}
		for _, e := range cp.Path.Events {
			if e.Kind == "store" && len(e.Args) == 2 {
				vals[truth] = e.Args[1].String()
			}
		}
	}
	r.Check(vals["true"] == "1" && vals["false"] == "0" && len(vals) == 2, "K3", "codec.marshal:bool", c.P.Pos(c.M.Fn.Pos()), "true->1 false->0",
		fmt.Sprintf("boolean encoder emits %v", vals))
	// decoder
	okAll := true
	detail := ""
	n := 0
	offKey := c.U.Buf + "[" + c.U.Offset + "]"
	for _, cp := range c.U.Paths {
		if cp.Kind != "bool" {
			continue
		}
		n++
		region, has := cp.Path.State.Ints[offKey]
		set := ""
		for _, e := range cp.Calls {
			if strings.HasSuffix(e.Name, ".SetBool") && len(e.Args) == 2 {
				set = e.Args[1].String()
			}
		}
		switch {
		case has && region.String() == "{1}":
			if !(set == "true" && cp.ErrNil == 1) {
				okAll, detail = false, fmt.Sprintf("byte 1 decodes to %q (error nil=%d)", set, cp.ErrNil)
			}
		case has && region.String() == "{0}":
			if !(set == "false" && cp.ErrNil == 1) {
				okAll, detail = false, fmt.Sprintf("byte 0 decodes to %q (error nil=%d)", set, cp.ErrNil)
			}
		default:
			if !(set == "" && cp.ErrNil == 0) {
				okAll, detail = false, fmt.Sprintf("byte in %s decodes to %q without an error", region.String(), set)
			}
		}
	}
	r.Check(okAll && n >= 3, "K3", "codec.unmarshal:bool", c.P.Pos(c.U.Fn.Pos()), "1->true 0->false other->error", detail+fmt.Sprintf(" (%d decision regions)", n))
}

// HC1: the HH:mm constructor keeps what it is given. 24:00 (end of day) is a value of the domain; a constructor that
// normalises its arguments folds it onto 00:00 before any encoder sees it.
func RuleHC1(r *Report, p *Program) {
	r.Rule("HC1", "NewHHmm(h, m) yields exactly the hours and minutes it is given (no normalisation: 24:00 stays 24:00)", 1)
	fn := p.Func("types", "NewHHmm")
	if fn == nil || len(fn.Params) != 2 {
		return // no such constructor: nothing to decide
	}
	bad := ""
	n := 0
	for _, pa := range walkSimple(p, fn, []string{"hours", "minutes"}, typesHelpers(p)) {
		if pa.Outcome != "return" || len(pa.Results) == 0 {
			bad = "a path of the constructor ends in " + pa.Outcome
			continue
		}
		n++
		m := map[string]*Term{}
		flatten("r", pa.Results[0], m, true)
		got := []string{}
		for _, v := range m {
			for v != nil && v.Op == "conv" && len(v.Args) == 1 {
				v = v.Args[0]
			}
			got = append(got, v.String())
		}
		sort.Strings(got)
		if strings.Join(got, ",") != "hours,minutes" {
			bad = "the constructor yields {" + cut(strings.Join(got, ", "), 120) + "} under [" + cut(pa.State.Describe(), 120) + "], not exactly its arguments"
		}
	}
	r.Check(bad == "" && n > 0, "HC1", "types.NewHHmm", p.Pos(fn.Pos()), fmt.Sprintf("%d paths return the arguments unchanged", n), bad)
}

// K23: no value-dependent substitution in the built-in kinds: what the decoder sets is computed from the field's
// bytes and what the encoder writes is computed from the field's value, on every successful path.
func RuleK23(r *Report, c *Codec) {
	r.Rule("K23", "for the built-in kinds (integers, addresses, MAC) every successful decode sets the field to a value computed from the field's bytes, and every successful encode writes bytes computed from the field's value: no constant is substituted for particular values", 10)
	mentions := func(t *Term, pred func(x *Term) bool) bool {
		found := false
		visitTerm(t, map[*Term]bool{}, func(x *Term) {
			if pred(x) {
				found = true
			}
		})
		return found
	}
	for _, k := range builtinKinds(c) {
		if k == "bool" {
			continue // K3: the two constants are the decoding
		}
		// decoder
		bad := ""
		n := 0
		fromBuf := func(x *Term) bool {
			return (x.Op == "index" || x.Op == "slice") && len(x.Args) > 0 && x.Args[0] != nil && x.Args[0].String() == c.U.Buf
		}
		for _, cp := range c.U.Paths {
			if cp.Kind != k || cp.ErrNil != 1 || cp.Path.Outcome != "return" {
				continue
			}
			sets := 0
			for _, e := range cp.Calls {
				if !strings.HasPrefix(e.Name, "(reflect.Value).Set") || len(e.Args) != 2 {
					continue
				}
				sets++
				if !mentions(e.Args[1], fromBuf) {
					bad = fmt.Sprintf("%s at %s sets the field to %s, which is not computed from the message bytes", e.Name, c.P.Pos(e.Pos), cut(e.Args[1].String(), 80))
				}
			}
			if sets > 0 {
				n++
			}
		}
		if n > 0 || bad != "" {
			r.Check(bad == "", "K23", "codec.unmarshal:"+k, c.P.Pos(c.U.Fn.Pos()), fmt.Sprintf("%d successful paths set a value computed from the bytes", n), bad)
		}
		// encoder
		bad = ""
		n = 0
		fromField := func(x *Term) bool { return x.Op == "param" && x.Name != c.M.Buf }
		for _, cp := range c.M.Paths {
			if cp.Kind != k || cp.ErrNil != 1 || cp.Path.Outcome != "return" {
				continue
			}
			writes := 0
			for _, e := range cp.Path.Events {
				var val *Term
				switch {
				case e.Kind == "store" && len(e.Args) == 2 && strings.Contains(e.Args[0].String(), c.M.Buf+"["):
					val = e.Args[1]
				case e.Kind == "copy" && len(e.Args) == 2 && strings.Contains(e.Args[0].String(), c.M.Buf+"["):
					val = e.Args[1]
				default:
					continue
				}
				writes++
				if !mentions(val, fromField) {
					bad = fmt.Sprintf("the bytes written at %s are %s, which is not computed from the field's value", c.P.Pos(e.Pos), cut(val.String(), 80))
				}
			}
			if writes > 0 {
				n++
			}
		}
		if n > 0 || bad != "" {
			r.Check(bad == "", "K23", "codec.marshal:"+k, c.P.Pos(c.M.Fn.Pos()), fmt.Sprintf("%d successful paths write bytes computed from the value", n), bad)
		}
	}
	// ... and the integer and raw kinds of package types (serial number, PIN, version, MAC): the kinds written in BCD
	// have their 'no value' and out-of-domain tables (K9, K10)
	isParam := func(name string) func(x *Term) bool {
		return func(x *Term) bool { return x.Op == "param" && x.Name == name }
	}
	for _, kf := range c.Kinds {
		if _, known := c.KS.Signatures[kf.Sig]; !known || strings.HasPrefix(kf.Sig, "bcd:") {
			continue
		}
		if kf.UnmarshalFn != nil {
			bad := ""
			n := 0
			for _, pa := range kf.UPaths {
				if pa.Outcome != "return" || len(pa.Results) != 2 || errNilness(pa, pa.Results[1]) != 1 {
					continue
				}
				n++
				dep := mentions(pa.Results[0], isParam("b"))
				for _, e := range pa.Events {
					if e.Kind == "store" && len(e.Args) == 2 && mentions(e.Args[1], isParam("b")) {
						dep = true
					}
				}
				for _, cell := range pa.Cells {
					if cell.Val != nil && mentions(cell.Val, isParam("b")) && mentions(pa.Results[0], func(x *Term) bool { return x.Cell == cell }) {
						dep = true
					}
				}
				if !dep {
					bad = "a successful path of the decoder yields " + cut(termDeepVal(pa.Results[0]), 60) + ", which is not computed from the bytes, under [" + cut(pa.State.Describe(), 160) + "]"
				}
			}
			if n > 0 {
				r.Check(bad == "", "K23", kf.Name+":decoder", c.P.Pos(kf.UnmarshalFn.Pos()), fmt.Sprintf("%d successful paths yield a value computed from the bytes", n), bad)
			}
		}
		if kf.MarshalFn != nil {
			bad := ""
			n := 0
			for _, pa := range kf.MPaths {
				if pa.Outcome != "return" || len(pa.Results) != 2 || errNilness(pa, pa.Results[1]) != 1 {
					continue
				}
				n++
				dep := mentions(pa.Results[0], isParam("v"))
				for _, cell := range pa.Cells {
					if cell.Val != nil && mentions(cell.Val, isParam("v")) && mentions(pa.Results[0], func(x *Term) bool { return x.Cell == cell }) {
						dep = true
					}
				}
				// written by a callee that is handed the buffer and the value (binary.LittleEndian.PutUint32(bytes, uint32(v)))
				if res := pa.Results[0]; !dep && res.Cell != nil {
					for _, e := range pa.Events {
						if e.Kind != "call" && e.Kind != "copy" {
							continue
						}
						buf, val := false, false
						for _, a := range e.Args {
							if a != nil && mentions(a, func(x *Term) bool { return x.Cell == res.Cell }) {
								buf = true
							}
							if a != nil && mentions(a, isParam("v")) {
								val = true
							}
						}
						if buf && val {
							dep = true
						}
					}
				}
				if !dep {
					bad = "a successful path of the encoder emits " + cut(termDeepVal(pa.Results[0]), 60) + ", which is not computed from the value, under [" + cut(pa.State.Describe(), 160) + "]"
				}
			}
			if n > 0 {
				r.Check(bad == "", "K23", kf.Name+":encoder", c.P.Pos(kf.MarshalFn.Pos()), fmt.Sprintf("%d successful paths emit bytes computed from the value", n), bad)
			}
		}
	}
}

// K4 no aliasing of the input buffer
func RuleK4(r *Report, c *Codec) {
	r.Rule("K4", "decoded values share no memory with the input buffer: a slice of the message may flow only to read-only sinks", 12)
	for _, k := range append(builtinKinds(c), "unmarshaler-value", "unmarshaler-pointer", "msgtype") {
		bad := ""
		n := 0
		for _, cp := range c.U.Paths {
			if cp.Kind != k {
				continue
			}
			n++
			for _, e := range cp.Calls {
				if !strings.Contains(e.Name, "(reflect.Value).Set") {
					continue
				}
				var al []string
				for _, a := range e.Args[1:] {
					checkAliasOf(a, c.U.Buf, "argument of "+e.Name, &al)
				}
				if len(al) > 0 {
					bad = al[0] + " at " + c.P.Pos(e.Pos)
				}
			}
		}
		if n == 0 {
			continue
		}
		r.Check(bad == "", "K4", "codec.unmarshal:"+k, c.P.Pos(c.U.Fn.Pos()), "no view of the message escapes", bad)
	}
	for _, kf := range c.Kinds {
		if kf.UnmarshalFn == nil {
			continue
		}
		r.Check(len(kf.Alias) == 0, "K4", kf.Name, c.P.Pos(kf.UnmarshalFn.Pos()), "result built from copies", strings.Join(kf.Alias, "; "))
	}
}

func checkAliasOf(t *Term, buf, where string, out *[]string) {
	seen := map[*Term]bool{}
	var walk func(x *Term)
	walk = func(x *Term) {
		if x == nil || seen[x] {
			return
		}
		seen[x] = true
		switch x.Op {
		case "slice":
			if x.Args[0].String() == buf {
				*out = append(*out, where+" is a view of the message: "+cut(x.String(), 80))
			}
			return
		case "param":
			if x.Name == buf {
				*out = append(*out, where+" is the message itself")
			}
			return
		case "index", "lookup", "len", "cmp", "bin":
			return
		case "arrval":
			return // [N]byte(s): the array VALUE loaded through the conversion is a copy of the elements
		case "call":
			// reflect.ValueOf / reflect.Indirect keep the reference; std decoders and constructors
			// (net.IPv4, ByteOrder.UintNN, ...) return fresh values (trusted base)
			if strings.HasPrefix(x.Name, "reflect.") {
				for _, a := range x.Args {
					walk(a)
				}
			}
			return
		case "ptr":
			if x.Cell != nil && !x.Cell.Sym {
				walk(x.Cell.Val)
			}
			return
		case "sref":
			if x.Cell != nil {
				walk(x.Cell.Val)
			}
			return
		}
		for _, a := range x.Args {
			walk(a)
		}
	}
	walk(t)
}

// K5 nested decode errors are enforced
func RuleK5(r *Report, c *Codec) {
	r.Rule("K5", "inside the decoder every error of a nested decode (embedded struct, Unmarshaler, binary unmarshal) is propagated; only the pointer-field path may turn it into a nil field", 3)
	type site struct {
		examined, propagated bool
		seenErrPath          bool
		swallowed            string
		pos                  string
		kind                 string
	}
	sites := map[string]*site{}
	for _, cp := range c.U.Paths {
		for _, e := range cp.Calls {
			isNested := strings.HasSuffix(e.Name, "codec.unmarshal") || strings.Contains(e.Name, ".UnmarshalUT0311L0x") || strings.Contains(e.Name, ").UnmarshalBinary")
			if !isNested || e.Result == nil {
				continue
			}
			ci, ok := e.Instr.(ssa.CallInstruction)
			if !ok {
				continue
			}
			res := ci.Common().Signature().Results()
			errTerm := e.Result.String()
			if res.Len() > 1 {
				errTerm = fmt.Sprintf("%s#%d", errTerm, res.Len()-1)
			}
			key := e.Name
			if i := strings.Index(key, "("); i == 0 {
				// method names are already canonical
			}
			key = fmt.Sprintf("%s@%s", shortCallee(e.Name), cp.Kind)
			s := sites[key]
			if s == nil {
				s = &site{pos: c.P.Pos(e.Pos), kind: cp.Kind}
				sites[key] = s
			}
			v, ok := cp.Path.State.Bools["isnil("+errTerm+")"]
			if ok {
				s.examined = true
				if !v {
					s.seenErrPath = true
					if cp.ErrNil == 0 {
						s.propagated = true
					}
				}
			}
			// a path on which the decoder does not fail although the nested error is, or may be, non-nil
			if cp.ErrNil != 0 && cp.Path.Outcome == "return" && (!ok || !v) && s.swallowed == "" {
				s.swallowed = cut(cp.Path.State.Describe(), 200)
			}
		}
	}
	keys := []string{}
	for k := range sites {
		keys = append(keys, k)
	}
	sort.Strings(keys)
	for _, k := range keys {
		s := sites[k]
		switch {
		case !s.examined:
			r.Bad("K5", k, s.pos, "the error of this nested decode is discarded: malformed or mismatching bytes inside it are accepted")
		case s.kind == "unmarshaler-pointer":
			r.OK("K5", k, s.pos, "pointer field: error examined, field stays nil (accepted idiom)", true)
		default:
			switch {
			case !s.propagated:
				r.Bad("K5", k, s.pos, "error is examined but the decoder still returns success")
			case s.swallowed != "":
				r.Bad("K5", k, s.pos, "the decoder can return success although this nested decode failed: ["+s.swallowed+"]")
			default:
				r.OK("K5", k, s.pos, "propagated on every path", true)
			}
		}
	}
}

func shortCallee(n string) string {
	n = strings.TrimPrefix(n, "invoke:")
	return n
}

// K6 one numeric base for value tags
func RuleK6(r *Report, c *Codec) {
	r.Rule("K6", "every value: tag is parsed with base 0 (the tag grammar admits 0x.. and decimal) on encode and decode alike", 5)
	for _, cf := range []*CodecFacts{c.M, c.U} {
		bases := map[string]map[string]string{}
		for _, cp := range cf.Paths {
			for _, e := range cp.Calls {
				if e.Name == "strconv.ParseUint" && len(e.Args) == 3 {
					if bases[cp.Kind] == nil {
						bases[cp.Kind] = map[string]string{}
					}
					bases[cp.Kind][e.Args[1].String()] = c.P.Pos(e.Pos)
				}
			}
		}
		kinds := []string{}
		for k := range bases {
			kinds = append(kinds, k)
		}
		sort.Strings(kinds)
		for _, k := range kinds {
			bs := []string{}
			pos := ""
			for b, p := range bases[k] {
				bs = append(bs, b)
				pos = p
			}
			sort.Strings(bs)
			r.Check(len(bs) == 1 && bs[0] == "0", "K6", "codec."+cf.Dir+":"+k, pos, "base 0",
				"value tag of a "+k+" field is parsed with base "+strings.Join(bs, ",")+": `value:0x16` is an error and `value:16` means 0x16")
		}
	}
}

// K19 a value: tag is honoured for every value of its constant
func RuleK19(r *Report, c *Codec) {
	r.Rule("K19", "a field with a value: tag is encoded as the tag's constant and decoded only from that constant, whatever the constant is: on encode the byte stored is the parsed constant on every path that has the tag, on decode every accepting path has compared the message byte with it (no value of the constant - 0, say - switches the tag off)", 4)
	for _, cf := range []*CodecFacts{c.M, c.U} {
		per := map[string][]string{}
		for _, cp := range cf.Paths {
			if cp.ValTag != 1 || cp.ErrNil != 1 || cp.Path.Outcome != "return" {
				continue
			}
			if cp.Kind != "som" && cp.Kind != "msgtype" && cp.Kind != "uint8" {
				continue
			}
			if cf.Dir == "unmarshal" && cp.Kind == "som" {
				continue // the protocol id is checked by the entry points before the field walk
			}
			bad := ""
			if cf.Dir == "marshal" {
				n := 0
				for _, e := range cp.Path.Events {
					if e.Kind != "store" || len(e.Args) < 2 || e.Args[0].Op != "ptr" || e.Args[0].Cell == nil || e.Args[0].Cell.Name != cf.Buf {
						continue
					}
					n++
					v := e.Args[1].String()
					if !strings.Contains(v, "strconv.ParseUint(") || strings.Contains(v, "(reflect.Value).Uint(") {
						bad = "with the tag present the byte stored is " + cut(v, 60) + " under [" + cut(cp.Path.State.Describe(), 160) + "]"
					}
				}
				if os.Getenv("UHLINT_DEBUG") == "K19" {
					fmt.Fprintf(os.Stderr, "K19 %s %s stores=%d\n", cf.Dir, cp.Kind, n)
					for _, e := range cp.Path.Events {
						fmt.Fprintf(os.Stderr, "   %s\n", cut(e.String(), 200))
					}
				}
				if n == 0 && bad == "" {
					bad = "with the tag present no byte is stored under [" + cut(cp.Path.State.Describe(), 160) + "]"
				}
			} else {
				compared := false
				for k := range cp.Path.State.Bools {
					if strings.Contains(k, "strconv.ParseUint(") && strings.Contains(k, cf.Buf+"[") {
						compared = true
					}
				}
				for k := range cp.Path.State.Ints {
					if strings.Contains(k, "strconv.ParseUint(") && strings.Contains(k, cf.Buf+"[") {
						compared = true
					}
				}
				// the relational part of the path condition: bytes[k] = <constant of the tag>
				for _, cj := range strings.Split(cp.Path.State.Describe(), " ∧ ") {
					if strings.HasPrefix(cj, cf.Buf+"[") && strings.Contains(cj, "strconv.ParseUint(") && strings.Contains(cj, "=") && !strings.Contains(cj, "≠") {
						compared = true
					}
				}
				if os.Getenv("UHLINT_DEBUG") == "K19" {
					fmt.Fprintf(os.Stderr, "K19 %s %s compared=%v\n  state=%s\n", cf.Dir, cp.Kind, compared, cp.Path.State.Describe())
				}
				if !compared {
					bad = "a message is accepted without comparing the byte with the tag's constant under [" + cut(cp.Path.State.Describe(), 160) + "]"
				}
			}
			per[cp.Kind] = append(per[cp.Kind], bad)
		}
		kinds := []string{}
		for k := range per {
			kinds = append(kinds, k)
		}
		sort.Strings(kinds)
		for _, k := range kinds {
			bad := ""
			for _, b := range per[k] {
				if b != "" {
					bad = b
				}
			}
			r.Check(bad == "", "K19", "codec."+cf.Dir+":"+k, c.P.Pos(cf.Fn.Pos()), fmt.Sprintf("%d paths with the tag", len(per[k])), bad)
		}
	}
}

// K20 one destination per message
func RuleK20(r *Report, c *Codec) {
	r.Rule("K20", "an entry point that decodes several messages (an array of replies) decodes each into a value created for that message: no two field walks of one call share their destination (a field the decoder leaves untouched - a nil-tolerant pointer whose bytes are zero - would otherwise keep the previous message's value)", 1)
	pk := c.P.SSAPkg(codecRel)
	walkerFn := c.U.Fn
	n := 0
	for _, m := range pk.Members {
		fn, ok := m.(*ssa.Function)
		if !ok || fn.Object() == nil || !fn.Object().Exported() || fn.Blocks == nil {
			continue
		}
		if !reachesInstr(fn, pk, func(in ssa.Instruction) bool {
			ci, ok := in.(ssa.CallInstruction)
			return ok && ci.Common().StaticCallee() == walkerFn
		}, map[*ssa.Function]bool{}) {
			continue
		}
		w := NewWalker(c.P)
		w.LoopFuel = 3
		w.Inline = inlineHelpers([]*ssa.Package{pk}, func(f *ssa.Function) bool {
			return f == walkerFn || (f.Object() != nil && f.Object().Exported() && f != fn)
		})
		bad := ""
		prefilled := ""
		fresh := 0
		multi := 0
		for _, pa := range w.Walk(fn, symbolicArgs(fn), nil) {
			// a destination the entry point creates itself (reflect.New) reaches the field walk as created: nothing
			// is stored into it first (a copy of the prototype would survive in every field the decoder leaves alone)
			var sets []*Term
			for _, e := range pa.Events {
				if e.Kind != "call" || len(e.Args) < 1 {
					continue
				}
				if strings.HasPrefix(e.Name, "(reflect.Value).Set") && len(e.Args) >= 2 {
					sets = append(sets, e.Args[0])
					continue
				}
				ci, ok := e.Instr.(ssa.CallInstruction)
				if !ok || ci.Common().StaticCallee() != walkerFn {
					continue
				}
				for _, a := range e.Args {
					if a == nil || a.Typ == nil || typeName(a.Typ) != "reflect.Value" || !strings.Contains(a.String(), "reflect.New(") {
						continue
					}
					fresh++
					for _, st := range sets {
						if st == a || st.String() == a.String() {
							prefilled = "the value " + cut(a.String(), 60) + " created for the message is written (reflect.Value.Set...) before it is decoded into: fields the decoder leaves untouched keep what was put there"
						}
					}
				}
			}
			// reflect.New is a pure call to the walker: two evaluations render alike; what tells a value made per
			// message from one made once is whether the SAME evaluation (term object) reaches two field walks
			seen := map[*Term]bool{}
			k := 0
			for _, e := range pa.Events {
				if e.Kind != "call" || len(e.Args) < 2 {
					continue
				}
				ci, ok := e.Instr.(ssa.CallInstruction)
				if !ok || ci.Common().StaticCallee() != walkerFn {
					continue
				}
				k++
				var dst *Term
				for _, a := range e.Args {
					if a != nil && a.Typ != nil && typeName(a.Typ) == "reflect.Value" {
						dst = a
					}
				}
				if dst == nil {
					continue
				}
				if seen[dst] {
					bad = "two messages of one call are decoded into the same value " + cut(dst.String(), 60)
				}
				seen[dst] = true
			}
			if k >= 2 {
				multi++
			}
		}
		if multi > 0 {
			n++
			r.Check(bad == "", "K20", "codec."+fn.Name(), c.P.Pos(fn.Pos()), fmt.Sprintf("%d paths decoding several messages", multi), bad)
		}
		if fresh > 0 {
			r.Check(prefilled == "", "K20", "codec."+fn.Name()+":fresh", c.P.Pos(fn.Pos()), fmt.Sprintf("%d decodes into values created for them, untouched before the field walk", fresh), prefilled)
		}
	}
	_ = n
}

// K7 symmetric kind sets
func RuleK7(r *Report, c *Codec) {
	r.Rule("K7", "the built-in kinds handled by the encoder are exactly those handled by the decoder and those of the protocol", 1)
	set := func(cf *CodecFacts) map[string]bool {
		m := map[string]bool{}
		for k := range cf.Kinds {
			if _, ok := c.KS.Builtin[k]; ok {
				m[k] = true
			}
		}
		return m
	}
	want := map[string]bool{}
	for k := range c.KS.Builtin {
		want[k] = true
	}
	m, u := set(c.M), set(c.U)
	r.Check(keysOf(m) == keysOf(u) && keysOf(m) == keysOf(want), "K7", "codec:kinds", c.P.Pos(c.M.Fn.Pos()), keysOf(m),
		"encoder handles {"+keysOf(m)+"}, decoder handles {"+keysOf(u)+"}, protocol kinds {"+keysOf(want)+"}")
	hasM := c.M.Kinds["marshaler"]
	hasU := c.U.Kinds["unmarshaler-value"] && c.U.Kinds["unmarshaler-pointer"]
	r.Check(hasM && hasU, "K7", "codec:interface-dispatch", c.P.Pos(c.U.Fn.Pos()), "Marshaler and value/pointer Unmarshaler paths present", "interface dispatch path missing")
}

// K8 fresh zeroed buffer per Marshal
func RuleK8(r *Report, c *Codec) {
	r.Rule("K8", "Marshal allocates a fresh zeroed 64-byte buffer on every call, presets byte 0 to 0x17 and returns that buffer", 1)
	fn := c.P.Func(codecRel, "Marshal")
	if fn == nil {
		r.Fatal("K8", "codec.Marshal", "not found")
		return
	}
	w := NewWalker(c.P)
	// an exported function between Marshal and the field walk (MarshalInto(m, buffer), which Marshal hands its
	// fresh buffer) is part of Marshal; other exported functions stay visible as events
	delegate := func(f *ssa.Function) bool {
		if f == fn {
			return false
		}
		for _, g := range staticCallees(f) {
			if isFieldWalker(g) {
				return true
			}
		}
		return false
	}
	w.Inline = inlineHelpers([]*ssa.Package{c.P.SSAPkg(codecRel)}, func(f *ssa.Function) bool {
		return isFieldWalker(f) || (f.Object() != nil && f.Object().Exported() && !delegate(f))
	})
	paths := w.Walk(fn, []*Term{{Op: "param", Name: "m", Typ: fn.Params[0].Type()}}, nil)
	ok := true
	detail := ""
	succ := 0
	for _, pa := range paths {
		if pa.Outcome != "return" || len(pa.Results) != 2 {
			continue
		}
		if errNilness(pa, pa.Results[1]) != 1 {
			continue
		}
		succ++
		res := pa.Results[0]
		if res.Op != "sref" || res.Cell == nil || res.Cell.Sym || !strings.HasPrefix(res.Cell.Name, "makeslice") {
			ok, detail = false, "result is not a buffer allocated in this call: "+cut(res.String(), 60)
			continue
		}
		lo, _ := res.Args[0].Int64()
		hi, _ := res.Args[1].Int64()
		els := srefElems(res)
		if lo != 0 || hi != 64 || len(els) != 64 {
			ok, detail = false, fmt.Sprintf("buffer is [%d:%d], not 64 bytes", lo, hi)
			continue
		}
		for i, e := range els {
			v, isc := e.Int64()
			want := int64(0)
			if i == 0 {
				want = 0x17
			}
			if !isc || v != want {
				ok, detail = false, fmt.Sprintf("byte %d of the fresh buffer is preset to %s", i, e.String())
			}
		}
		// the walk of the struct must receive this very buffer
		passed := false
		for _, e := range pa.Events {
			if e.Kind == "call" && strings.HasSuffix(e.Name, "codec.marshal") {
				for _, a := range e.Args {
					if a.Op == "sref" && a.Cell == res.Cell {
						passed = true
					}
				}
			}
		}
		if !passed {
			ok, detail = false, "the field walk is not given the returned buffer"
		}
	}
	r.Check(ok && succ > 0, "K8", "codec.Marshal", c.P.Pos(fn.Pos()), fmt.Sprintf("%d success paths", succ), detail)
}

// G1: no package-level variable is written outside init
func RuleG1(r *Report, p *Program) { RuleG1In(r, p, "") }

// RuleG1In restricts the inventory to one package of the module ("" = all).
func RuleG1In(r *Report, p *Program, only string) {
	RuleG2(r, p, only)
	keepPkg := func(path string) bool {
		return only == "" || strings.HasSuffix(path, "/"+only)
	}
	r.Rule("G1", "no package-level variable of the library is written outside package initialisation (the fixed-port mutex is the only shared mutable state)", 1)
	n := 0
	for _, fn := range p.AllFuncs {
		if fn.Name() == "init" || strings.HasPrefix(fn.Name(), "init#") || fn.Synthetic != "" && strings.Contains(fn.Synthetic, "package initializer") {
			continue
		}
		if p.initOnly(fn) {
			continue // a helper that only the package initialiser calls (register(..), a table builder)
		}
		for _, b := range fn.Blocks {
			for _, in := range b.Instrs {
				n++
				st, ok := in.(*ssa.Store)
				if !ok {
					continue
				}
				root := st.Addr
				for {
					switch x := root.(type) {
					case *ssa.FieldAddr:
						root = x.X
						continue
					case *ssa.IndexAddr:
						root = x.X
						continue
					}
					break
				}
				if g, ok := root.(*ssa.Global); ok && g.Pkg != nil && strings.HasPrefix(g.Pkg.Pkg.Path(), modPath) && keepPkg(g.Pkg.Pkg.Path()) {
					r.Bad("G1", shortPkg(g.Pkg.Pkg)+"."+g.Name()+" in "+calleeName(fn), p.Pos(st.Pos()), "package-level variable written at run time")
				}
			}
		}
	}
	r.OK("G1", "all-functions", "", fmt.Sprintf("%d instructions scanned", n), true)
	// package-level mutable state inventory: sync primitives
	for _, pk := range p.Pkgs {
		if !keepPkg(pk.PkgPath) {
			continue
		}
		sc := pk.Types.Scope()
		for _, name := range sc.Names() {
			v, ok := sc.Lookup(name).(*types.Var)
			if !ok {
				continue
			}
			ts := v.Type().String()
			if isSyncMapType(v.Type()) {
				if sp := p.SSAPkgs[pk.PkgPath]; sp != nil {
					if g, ok := sp.Members[name].(*ssa.Global); ok && p.memoTable(g).ok {
						r.OK("G1", relPkg(pk.PkgPath)+"."+name, p.Pos(v.Pos()), "memo table: only values that are a pure function of their key are stored (a cache, not state)", true)
						continue
					}
				}
			}
			if strings.HasPrefix(ts, "sync.") || strings.HasPrefix(ts, "sync/atomic.") || strings.HasPrefix(ts, "*sync.") {
				isMutex := ts == "sync.Mutex" || ts == "sync.RWMutex"
				r.Check(isMutex && relPkg(pk.PkgPath) == "uhppote", "G1", relPkg(pk.PkgPath)+"."+name, p.Pos(v.Pos()), "the process-wide fixed-port mutex",
					"package-level shared object of type "+ts+": state shared between calls and clients (only the fixed-port mutex is expected)")
			}
			switch v.Type().Underlying().(type) {
			case *types.Map, *types.Slice, *types.Chan:
				if !isInitOnly(p, pk.PkgPath, name) {
					r.Bad("G1", relPkg(pk.PkgPath)+"."+name, p.Pos(v.Pos()), "package-level "+ts+" that is modified at run time")
				}
			}
		}
	}
}

// isInitOnly: a package-level map/slice is only indexed for reading outside init (no MapUpdate / element store).
func isInitOnly(p *Program, pkgPath, name string) bool {
	sp := p.SSAPkgs[pkgPath]
	if sp == nil {
		return true
	}
	for _, fn := range p.AllFuncs {
		if fn.Name() == "init" || p.initOnly(fn) {
			continue
		}
		for _, b := range fn.Blocks {
			for _, in := range b.Instrs {
				var target ssa.Value
				switch x := in.(type) {
				case *ssa.MapUpdate:
					target = x.Map
				case *ssa.Store:
					if ia, ok := x.Addr.(*ssa.IndexAddr); ok {
						target = ia.X
					}
				}
				if ld, ok := target.(*ssa.UnOp); ok {
					if g, ok := ld.X.(*ssa.Global); ok && g.Name() == name && g.Pkg == sp {
						return false
					}
				}
			}
		}
	}
	return true
}

// K9 zero "no value" symmetry
func RuleK9(r *Report, c *Codec) {
	r.Rule("K9", "for kinds with a 'no value': the byte image the encoder emits for the zero value is one the decoder maps back to the zero value, independent of the zone", 2)
	for _, kf := range c.Kinds {
		spec, ok := c.KS.Signatures[kf.Sig]
		if !ok || !spec.NoValue {
			continue
		}
		img := kf.EncZeroImg
		found := false
		for _, z := range kf.DecZeroSet {
			if z == "digits:"+img || z == "bytes:"+img {
				found = true
			}
		}
		r.Check(img != "" && found, "K9", kf.Name, c.P.Pos(kf.UnmarshalFn.Pos()), "zero image "+img+" recognised",
			fmt.Sprintf("the zero value is encoded as BCD %s but the decoder recognises only %v as 'no value': it comes back as a non-zero instant outside UTC", img, kf.DecZeroSet))
		// ... and nothing else the decoder maps to 'no value' is the encoding of a value of the domain: an image whose
		// digits the kind's own layout reads as an existing calendar date (time) would not survive decode(encode(v))
		layout := strings.TrimPrefix(kf.Sig, "bcd:")
		if layout == kf.Sig || strings.Contains(layout, "%") {
			continue
		}
		for _, z := range kf.DecZeroSet {
			d := strings.TrimPrefix(strings.TrimPrefix(z, "digits:"), "bytes:")
			// (the digits of the zero instant itself, 0001-01-01 00:00:00, are the zero value whichever way it is written)
			if d == img || d == (time.Time{}).Format(layout) || len(d) != len(layout) || strings.Trim(d, "0123456789") != "" {
				continue
			}
			_, err := time.Parse(layout, d)
			r.Check(err != nil, "K9", kf.Name+":no-value "+d, c.P.Pos(kf.UnmarshalFn.Pos()), "not a value of the domain ("+layout+")",
				fmt.Sprintf("the decoder maps the image %s to 'no value', but it is the encoding of an existing value of the domain (layout %s): that value does not survive decode(encode(v))", d, layout))
		}
	}
}

// K11 nil tolerance of decoders that may be used through pointer fields
func RuleK11(r *Report, c *Codec) {
	r.Rule("K11", "a kind usable as a pointer field has a decoder that never dereferences its (nil) receiver", 5)
	for _, kf := range c.Kinds {
		spec, ok := c.KS.Signatures[kf.Sig]
		if !ok || !spec.Pointer || kf.UnmarshalFn == nil {
			continue
		}
		r.Check(len(kf.NilPanics) == 0, "K11", kf.Name, c.P.Pos(kf.UnmarshalFn.Pos()), "no access through the receiver", strings.Join(kf.NilPanics, "; "))
	}
}
