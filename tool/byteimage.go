package main

import (
	"strings"
)

// ---------------------------------------------------------------------------------------
// Byte images of integers. An integer field may be put on the wire by binary.ByteOrder.PutUintN, by
// AppendUintN, or by explicit shifts (byte(v), byte(v>>8), ...), and read back by UintN or by or-ing shifted
// bytes. All of these are normalised to the list of (byte position, shift) pairs; the byte order is read off the
// pairs: shift == 8*position is little-endian, shift == 8*(n-1-position) is big-endian.
// ---------------------------------------------------------------------------------------

func stripConvs(t *Term) *Term {
	for t != nil && t.Op == "conv" && len(t.Args) == 1 && isIntType(t.Typ) {
		t = t.Args[0]
	}
	return t
}

// shiftOf: t is  x >> k  (or x itself: k == 0), possibly masked with 0xff and converted.
func shiftOf(t *Term) (x *Term, k int64, ok bool) {
	t = stripConvs(t)
	if t == nil {
		return nil, 0, false
	}
	if t.Op == "bin" && t.Name == "&" {
		if m, isC := t.Args[1].Int64(); isC && m == 255 {
			t = stripConvs(t.Args[0])
		}
	}
	if t.Op == "bin" && t.Name == ">>" {
		if n, isC := t.Args[1].Int64(); isC {
			return stripConvs(t.Args[0]), n, true
		}
		return nil, 0, false
	}
	return t, 0, true
}

// orderOfPairs: (position, shift) pairs -> "le" / "be" / "".
func orderOfPairs(pos, shift []int64) string {
	n := int64(len(pos))
	if n == 0 {
		return ""
	}
	le, be := true, true
	seen := map[int64]bool{}
	for i := range pos {
		if pos[i] < 0 || pos[i] >= n || seen[pos[i]] {
			return ""
		}
		seen[pos[i]] = true
		if shift[i] != 8*pos[i] {
			le = false
		}
		if shift[i] != 8*(n-1-pos[i]) {
			be = false
		}
	}
	switch {
	case le && n == 1:
		return "le" // a single byte has no order; the protocol's integers are little-endian
	case le:
		return "le"
	case be:
		return "be"
	}
	return ""
}

// encodedOrder: the elements of an encoder's result are the bytes of one value: its byte order and source.
func encodedOrder(els []*Term) (order string, src string) {
	var pos, sh []int64
	for i, e := range els {
		x, k, ok := shiftOf(e)
		if !ok || x == nil || x.IsConst() {
			return "", ""
		}
		if src == "" {
			src = x.String()
		} else if src != x.String() {
			return "", ""
		}
		pos = append(pos, int64(i))
		sh = append(sh, k)
	}
	return orderOfPairs(pos, sh), src
}

// decodedOrder: t or-s / adds bytes of the buffer `buf` shifted into place: byte order and number of bytes.
func decodedOrder(t *Term, buf string) (order string, n int) {
	var pos, sh []int64
	ok := true
	var visit func(x *Term)
	visit = func(x *Term) {
		x = stripConvs(x)
		if x == nil || !ok {
			return
		}
		if x.Op == "bin" && (x.Name == "|" || x.Name == "+" || x.Name == "^") {
			visit(x.Args[0])
			visit(x.Args[1])
			return
		}
		k := int64(0)
		if x.Op == "bin" && x.Name == "<<" {
			c, isC := x.Args[1].Int64()
			if !isC {
				ok = false
				return
			}
			k = c
			x = stripConvs(x.Args[0])
		}
		if c, isC := x.Int64(); isC && c == 0 {
			return // the accumulator's initial value: v := T(0); v |= ...
		}
		s := x.String()
		// an element of a view of the buffer with constant bounds is an element of the buffer: b[lo:hi][k] = b[lo+k]
		base := int64(0)
		if x.Op == "index" && len(x.Args) == 2 && x.Args[0].Op == "slice" && x.Args[0].Args[0].String() == buf {
			if x.Args[0].Args[1] != nil {
				lo, isC := x.Args[0].Args[1].Int64()
				if !isC {
					ok = false
					return
				}
				base = lo
			}
			s = buf + "[" + x.Args[1].String() + "]"
		}
		if !strings.HasPrefix(s, buf+"[") || !strings.HasSuffix(s, "]") {
			ok = false
			return
		}
		var idx int64
		for _, ch := range s[len(buf)+1 : len(s)-1] {
			if ch < '0' || ch > '9' {
				ok = false
				return
			}
			idx = idx*10 + int64(ch-'0')
		}
		idx += base
		pos = append(pos, idx)
		sh = append(sh, k)
	}
	visit(t)
	if !ok || len(pos) < 2 {
		return "", 0
	}
	return orderOfPairs(pos, sh), len(pos)
}
