package main

import (
	"encoding/json"
	"fmt"
	"go/types"
	"golang.org/x/tools/go/ssa"
	"os"
	"sort"
	"strconv"
	"strings"
)

type KindsSpec struct {
	Signatures map[string]struct {
		Width   int64 `json:"width"`
		Pointer bool  `json:"pointer"`
		NoValue bool  `json:"no_value"`
	} `json:"signatures"`
	Builtin  map[string]string `json:"builtin"`
	Expected []string          `json:"marshaler_signatures_expected"`
}

type WireSpec struct {
	SOM       string              `json:"som"`
	EventSOM  string              `json:"event_som_alt"`
	NoReply   []string            `json:"no_reply"`
	Requests  map[string][]string `json:"requests"`
	Responses map[string][]string `json:"responses"`
	Events    map[string][]string `json:"events"`
}

func loadJSON(path string, v any) error {
	b, err := os.ReadFile(path)
	if err != nil {
		return err
	}
	return json.Unmarshal(b, v)
}

// Codec bundles everything the layout / kind rules need.
type Codec struct {
	P     *Program
	L     *LayoutEngine
	Kinds []*KindFacts
	ByT   map[string]*KindFacts
	KS    *KindsSpec
	WS    *WireSpec
	M     *CodecFacts
	U     *CodecFacts
}

func NewCodec(r *Report, p *Program, needWalk bool) *Codec {
	c := &Codec{P: p, ByT: map[string]*KindFacts{}}
	var err error
	if c.L, err = NewLayoutEngine(p); err != nil {
		r.Fatal("E1", "layout", err.Error())
		return nil
	}
	if c.Kinds, err = MarshalerKinds(p, c.L); err != nil {
		r.Fatal("E2", "kinds", err.Error())
		return nil
	}
	for _, k := range c.Kinds {
		c.ByT[k.Name] = k
	}
	c.KS, c.WS = &KindsSpec{}, &WireSpec{}
	if err := loadJSON("/verif/spec/kinds.json", c.KS); err != nil {
		r.Fatal("SPEC", "kinds.json", err.Error())
		return nil
	}
	if err := loadJSON("/verif/spec/wire.json", c.WS); err != nil {
		r.Fatal("SPEC", "wire.json", err.Error())
		return nil
	}
	if needWalk {
		if c.M, err = walkCodec(p, c.L, "marshal"); err != nil || c.M.Exploded {
			r.Fatal("E2", "codec.marshal", fmt.Sprintf("walk failed: %v", err))
			return nil
		}
		if c.U, err = walkCodec(p, c.L, "unmarshal"); err != nil || c.U.Exploded {
			r.Fatal("E2", "codec.unmarshal", fmt.Sprintf("walk failed: %v", err))
			return nil
		}
	}
	r.Count("tagged_structs", len(c.L.Layouts))
	r.Count("marshaler_types", len(c.Kinds))
	return c
}

// SigOf maps a layout field kind to its protocol signature ("" if none).
func (c *Codec) SigOf(kind string) string {
	if s, ok := c.KS.Builtin[kind]; ok {
		return s
	}
	if k, ok := c.ByT[kind]; ok {
		return k.Sig
	}
	return ""
}

func (c *Codec) WidthOf(kind string) (int64, bool) {
	sig := c.SigOf(kind)
	if s, ok := c.KS.Signatures[sig]; ok {
		return s.Width, true
	}
	return 0, false
}

func (c *Codec) messageLayouts() []*Layout {
	var out []*Layout
	for _, n := range c.L.Order {
		l := c.L.Layouts[n]
		if l.Pkg == "messages" || l.Pkg == "uhppote" {
			out = append(out, l)
		}
	}
	return out
}

// RuleLayout implements L1-L5 over every shipped message struct.
func RuleLayout(r *Report, c *Codec, rules aspectSet) {
	if rules["L1"] {
		r.Rule("L1", "every uhppote tag of a message struct parses under the codec's own offset/value regular expressions", 300)
	}
	if rules["L2"] {
		r.Rule("L2", "every offset-tagged field is exported and of a kind the codec supports; pointer fields only of nil-tolerant kinds", 250)
	}
	if rules["L3"] {
		r.Rule("L3", "2 <= offset and offset+width <= 64 for every field", 250)
	}
	if rules["L4"] {
		r.Rule("L4", "field byte ranges of one message are pairwise disjoint", 60)
	}
	if rules["L5"] {
		r.Rule("L5", "exactly one function-code field with a value tag per message; a start-of-message field, if any, has a value tag", 60)
	}
	for _, l := range c.messageLayouts() {
		type rng struct {
			lo, hi int64
			name   string
		}
		var ranges []rng
		nMsg := 0
		for _, f := range l.Fields {
			key := l.Name + "." + f.Path
			pos := c.P.Pos(f.Pos)
			if rules["L1"] {
				ok := true
				d := ""
				if f.Tag != "" && !f.HasOff && !f.HasVal {
					ok, d = false, fmt.Sprintf("tag %q matches neither %q nor %q: the codec would silently skip the field", f.Tag, c.L.ReOffSrc, c.L.ReValSrc)
				}
				if f.HasOff {
					if _, err := strconv.Atoi(f.OffText); err != nil {
						ok, d = false, "offset is not a decimal integer: "+f.OffText
					}
				}
				if f.HasVal && (f.Kind == "som" || f.Kind == "msgtype") && f.ValErr != "" {
					ok, d = false, "value tag does not parse as an 8-bit integer: "+f.ValErr
				}
				if f.Tag == "" && (f.Kind != "som" && f.Kind != "msgtype") {
					ok, d = false, "field without a uhppote tag in a message struct is never encoded"
				}
				r.Check(ok, "L1", key, pos, "tag "+f.Tag, d)
			}
			if f.Kind == "msgtype" {
				nMsg++
			}
			if !f.HasOff {
				continue
			}
			if rules["L2"] {
				ok, d := true, ""
				sig := c.SigOf(f.Kind)
				switch {
				case !f.Exported:
					ok, d = false, "unexported field with an offset tag (reflect cannot read/set it)"
				case strings.HasPrefix(f.Kind, "unsupported:") || strings.Contains(f.Kind, "-only:"):
					ok, d = false, "kind "+f.Kind+" reaches the codec's panic default"
				case sig == "":
					ok, d = false, "kind "+f.Kind+" has no protocol signature"
				case f.Pointer && !c.KS.Signatures[sig].Pointer:
					ok, d = false, "pointer field of kind "+f.Kind+" ("+sig+") which is not nil-tolerant"
				}
				r.Check(ok, "L2", key, pos, f.Kind+" -> "+sig, d)
			}
			w, okw := c.WidthOf(f.Kind)
			if rules["L3"] && okw {
				r.Check(f.Offset >= 2 && int64(f.Offset)+w <= 64, "L3", key, pos,
					fmt.Sprintf("bytes %d..%d", f.Offset, int64(f.Offset)+w-1),
					fmt.Sprintf("field occupies bytes %d..%d, outside 2..63", f.Offset, int64(f.Offset)+w-1))
			}
			if okw {
				ranges = append(ranges, rng{int64(f.Offset), int64(f.Offset) + w, f.Path})
			}
		}
		if rules["L4"] {
			sort.Slice(ranges, func(i, j int) bool { return ranges[i].lo < ranges[j].lo })
			ok, d := true, ""
			for i := 1; i < len(ranges); i++ {
				if ranges[i].lo < ranges[i-1].hi {
					ok = false
					d = fmt.Sprintf("%s (bytes %d..%d) overlaps %s (bytes %d..%d)", ranges[i-1].name, ranges[i-1].lo, ranges[i-1].hi-1, ranges[i].name, ranges[i].lo, ranges[i].hi-1)
				}
			}
			r.Check(ok, "L4", l.Name, c.P.Pos(l.Pos), fmt.Sprintf("%d fields disjoint", len(ranges)), d)
		}
		if rules["L5"] {
			_, okc := l.MsgCode()
			ok := nMsg == 1 && okc
			d := fmt.Sprintf("%d function-code fields, value tag present=%v", nMsg, okc)
			for _, f := range l.Fields {
				if f.Kind == "som" && !(f.HasVal && f.ValErr == "") {
					ok, d = false, "start-of-message field without a value tag"
				}
			}
			r.Check(ok, "L5", l.Name, c.P.Pos(l.Pos), d, d)
		}
	}
}

func (c *Codec) layoutSig(l *Layout) []string {
	var out []string
	for _, f := range l.Fields {
		if f.HasOff {
			out = append(out, fmt.Sprintf("%d:%s", f.Offset, c.SigOf(f.Kind)))
		}
	}
	sort.Slice(out, func(i, j int) bool {
		a, _ := strconv.Atoi(strings.SplitN(out[i], ":", 2)[0])
		b, _ := strconv.Atoi(strings.SplitN(out[j], ":", 2)[0])
		return a < b
	})
	return out
}

// RuleRegistry implements L6 and L7: dispatcher tables and wire layouts against wire.json.
func RuleRegistry(r *Report, c *Codec, dirs []string, rules aspectSet) {
	if rules["L6"] {
		r.Rule("L6", "each dispatcher entry's key equals the function code of the type its constructor allocates; key sets equal the protocol's", 31)
	}
	if rules["L7"] {
		r.Rule("L7", "layout(function code, direction) equals the protocol layout as a set of (offset, encoding)", 31)
	}
	for _, dir := range dirs {
		fnName, want := "UnmarshalRequest", c.WS.Requests
		if dir == "responses" {
			fnName, want = "UnmarshalResponse", c.WS.Responses
		}
		fn := c.P.Func("messages", fnName)
		v := registryUsedBy(c.P, fn)
		if fn == nil || v == nil {
			r.Fatal("L6", dir, "dispatcher "+fnName+" or its table not found")
			continue
		}
		reg, err := extractRegistry(c.P, v)
		if err != nil {
			r.Fatal("L6", dir, err.Error())
			continue
		}
		r.Count("registry_entries", len(reg.Entries))
		seen := map[string]bool{}
		for _, e := range reg.Entries {
			code := fmt.Sprintf("0x%02x", e.Key)
			key := dir + ":" + code
			pos := c.P.Pos(e.Pos)
			seen[code] = true
			l := c.L.Layouts[e.Type]
			if l == nil {
				if rules["L6"] {
					r.Bad("L6", key, pos, "constructor does not allocate a tagged message struct: "+e.Detail)
				}
				continue
			}
			mc, okc := l.MsgCode()
			_, inSpec := want[code]
			if rules["L6"] {
				note := "-> " + e.Type
				if !inSpec {
					note += " (function code not in the protocol table of this checker: exactness checked, layout not)"
				}
				r.Check(okc && mc == e.Key, "L6", key, pos, note,
					fmt.Sprintf("table key %s constructs %s whose function code is 0x%02x", code, e.Type, mc))
			}
			if rules["L7"] && inSpec {
				have := strings.Join(c.layoutSig(l), " ")
				wantS := strings.Join(want[code], " ")
				r.Check(have == wantS, "L7", key, c.P.Pos(l.Pos), have, fmt.Sprintf("layout is [%s], protocol says [%s]", have, wantS))
			}
		}
		// L6 (lookup): the dispatcher itself, walked with its lookup in line (a map, an array, a sorted slice
		// searched by bisection ...): every accepting path has pinned the function-code byte to ONE value and hands
		// the decoder a fresh value of the type registered for that value; every registered code has such a path
		if rules["L6"] {
			byKey := map[int64]string{}
			for _, e := range reg.Entries {
				byKey[e.Key] = e.Type
			}
			w := NewWalker(c.P)
			w.LoopFuel = 8
			w.MaxPaths = 4000
			w.Inline = inlineHelpers([]*ssa.Package{pkgOf(fn)}, func(f *ssa.Function) bool {
				return f == fn || (f.Object() != nil && f.Object().Exported())
			})
			bufName := fn.Params[0].Name()
			reached := map[int64]bool{}
			badL := ""
			for _, pa := range w.Walk(fn, []*Term{{Op: "param", Name: bufName, Typ: fn.Params[0].Type()}}, nil) {
				if pa.Outcome == "truncated" {
					badL = "the dispatcher's lookup was not followed to its end (" + pa.Detail + ")"
					continue
				}
				if pa.Outcome == "panic" {
					badL = "a message makes the dispatcher panic instead of being rejected: " + cut(pa.Detail, 120) + " under [" + cut(pa.State.Describe(), 120) + "]"
					continue
				}
				if pa.Outcome != "return" || len(pa.Results) != 2 {
					continue
				}
				var dec *Event
				for i := range pa.Events {
					e := &pa.Events[i]
					if e.Kind == "call" && strings.HasPrefix(e.Name, "codec.Unmarshal") && len(e.Args) >= 2 {
						dec = e
					}
				}
				if dec == nil {
					continue // rejected before decoding
				}
				b1, has := pa.State.Ints[bufName+"[1]"]
				if !has || len(b1) != 1 || b1[0].Lo != b1[0].Hi {
					badL = "a message reaches the decoder on a path that has not pinned its function code to one value: " + b1.String()
					continue
				}
				k := b1[0].Lo
				v := dec.Args[1]
				for v != nil && v.Op == "iface" && len(v.Args) == 1 {
					v = v.Args[0]
				}
				got := ""
				if v != nil && v.Op == "ptr" && v.Cell != nil && !v.Cell.Sym && v.Cell.Typ != nil {
					if nt, ok := types.Unalias(v.Cell.Typ).(*types.Named); ok && nt.Obj().Pkg() != nil {
						got = relPkg(nt.Obj().Pkg().Path()) + "." + nt.Obj().Name()
					}
				}
				wantT, registered := byKey[k]
				switch {
				case !registered:
					badL = fmt.Sprintf("function code 0x%02x is not in the table but reaches the decoder", k)
				case got != wantT:
					badL = fmt.Sprintf("function code 0x%02x is decoded into %s, the table registers %s for it", k, got, wantT)
				default:
					reached[k] = true
				}
			}
			for k := range byKey {
				if !reached[k] && badL == "" {
					badL = fmt.Sprintf("no path of the dispatcher decodes function code 0x%02x into the type registered for it (the lookup does not find the entry)", k)
				}
			}
			r.Check(badL == "", "L6", dir+":lookup", c.P.Pos(fn.Pos()), fmt.Sprintf("%d codes reach their registered type", len(reached)), badL)
		}
		if rules["L6"] {
			for code := range want {
				if !seen[code] {
					r.Bad("L6", dir+":"+code, c.P.Pos(reg.Pos), "function code of the protocol is missing from the dispatcher table")
				}
			}
			if dir == "responses" {
				for _, nr := range c.WS.NoReply {
					r.Check(!seen[nr], "L6", dir+":"+nr+":no-reply", c.P.Pos(reg.Pos), "absent as required", "no-reply function code has a response entry")
				}
			}
		}
	}
}

// RuleEventLayout: the unsolicited event layouts (plain and 0x19 start-of-message) against wire.json.
func RuleEventLayout(r *Report, c *Codec) {
	r.Rule("L7e", "event message layouts (function 0x20, start-of-message 0x17 and 0x19) equal the protocol's status layout", 2)
	want := strings.Join(c.WS.Events["0x20"], " ")
	n := 0
	for _, l := range c.messageLayouts() {
		code, ok := l.MsgCode()
		if !ok || code != 0x20 {
			continue
		}
		sigs := c.layoutSig(l)
		if len(sigs) < 3 {
			continue // the request
		}
		n++
		have := strings.Join(sigs, " ")
		r.Check(have == want, "L7e", l.Name, c.P.Pos(l.Pos), "status/event layout", fmt.Sprintf("layout is [%s], protocol says [%s]", have, want))
		if som, ok := l.SOM(); ok {
			alt, _ := strconv.ParseInt(c.WS.EventSOM, 0, 64)
			r.Check(som == alt, "L7e", l.Name+":som", c.P.Pos(l.Pos), c.WS.EventSOM, fmt.Sprintf("start-of-message value 0x%02x, protocol says %s", som, c.WS.EventSOM))
		}
	}
	r.Count("event_layouts", n)
}
