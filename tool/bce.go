package main

import (
	"fmt"
	"os"
	"os/exec"
	"regexp"
	"sort"
	"strings"
)

// compilerBCE asks the Go compiler which bounds checks it could not eliminate (file:line list).
// It compiles /repo's current tree with a throw-away build cache; nothing of the library is run.
func compilerBCE(p *Program) ([]string, error) {
	cache, err := os.MkdirTemp("", "uhlint-gocache")
	if err != nil {
		return nil, err
	}
	defer os.RemoveAll(cache)
	cmd := exec.Command("go", "build", "-gcflags="+modPath+"/...=-l -d=ssa/check_bce/debug=1", "./...")
	cmd.Dir = p.Dir
	cmd.Env = append(append([]string{}, p.Env...), "GOCACHE="+cache)
	out, _ := cmd.CombinedOutput()
	re := regexp.MustCompile(`(?m)^(\S+\.go):(\d+):\d+: Found Is(Slice)?InBounds`)
	set := map[string]bool{}
	for _, m := range re.FindAllStringSubmatch(string(out), -1) {
		f := strings.TrimPrefix(m[1], "./")
		set[fmt.Sprintf("%s:%s", f, m[2])] = true
	}
	if len(set) == 0 {
		return nil, fmt.Errorf("compiler reported no bounds checks (output: %s)", cut(string(out), 300))
	}
	var lines []string
	for l := range set {
		lines = append(lines, l)
	}
	sort.Strings(lines)
	return lines, nil
}
