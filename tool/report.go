package main

import (
	"bufio"
	"encoding/json"
	"fmt"
	"os"
	"path/filepath"
	"sort"
	"strings"
	"time"
)

// An Obligation is one (rule, construct) instance that a check decided.
// Identity is rule+construct, never a line number; Pos is printed for humans only.
type Obligation struct {
	Rule       string `json:"rule"`
	Construct  string `json:"construct"`
	Pos        string `json:"pos,omitempty"`
	Status     string `json:"status"` // ok | violation | known
	Detail     string `json:"detail,omitempty"`
	Nontrivial bool   `json:"nontrivial"`
}

type KnownFinding struct {
	Status    string `json:"status"` // known | fixed
	Property  string `json:"property"`
	Rule      string `json:"rule"`
	Construct string `json:"construct"`
	Commit    string `json:"commit,omitempty"`
	What      string `json:"what"`
}

type Report struct {
	Property string
	Tier     string
	Level    string
	Start    time.Time
	Obs      []Obligation
	Only     map[string]bool // when set, only these rules are recorded (a rule family shared between properties)
	// OnlyConstruct: when set (together with Only), only obligations whose construct contains it are recorded
	OnlyConstruct string
	seen          map[string]int
	Analysed      map[string]int
	minCount      map[string]int
	ruleDoc       map[string]string
	Explanation   string
	Assumptions   []string
	Exhaustive    bool
	Extra         map[string]any
	Known         []KnownFinding
	fatal         []string
}

func NewReport(prop, tier string) *Report {
	r := &Report{Property: prop, Tier: tier, Level: "other", Start: time.Now(), seen: map[string]int{},
		Analysed: map[string]int{}, minCount: map[string]int{}, ruleDoc: map[string]string{}, Extra: map[string]any{}}
	r.Known = loadKnown("/verif/known_findings.jsonl")
	return r
}

func loadKnown(path string) []KnownFinding {
	f, err := os.Open(path)
	if err != nil {
		return nil
	}
	defer f.Close()
	var out []KnownFinding
	sc := bufio.NewScanner(f)
	sc.Buffer(make([]byte, 1<<20), 1<<20)
	for sc.Scan() {
		line := strings.TrimSpace(sc.Text())
		if line == "" || strings.HasPrefix(line, "#") {
			continue
		}
		var k KnownFinding
		if err := json.Unmarshal([]byte(line), &k); err == nil {
			out = append(out, k)
		}
	}
	return out
}

// Rule declares a rule used by this check, its one-line statement and the minimum number of
// instances confirmed by hand on the pinned tree: a rule that matches fewer can never pass.
func (r *Report) Rule(id, doc string, min int) {
	if r.Only != nil && !r.Only[id] {
		return
	}
	if r.OnlyConstruct != "" && min > 1 {
		min = 1 // one kind of obligation of the rule is taken: its own instances are what must not vanish
	}
	r.ruleDoc[id] = doc
	if min > r.minCount[id] {
		r.minCount[id] = min
	}
	if _, ok := r.seen[id]; !ok {
		r.seen[id] = 0
	}
}

func (r *Report) add(o Obligation) {
	if r.Only != nil && !r.Only[o.Rule] && !strings.HasPrefix(o.Detail, "UNDECIDED") {
		return
	}
	if r.OnlyConstruct != "" && !strings.Contains(o.Construct, r.OnlyConstruct) && !strings.HasPrefix(o.Detail, "UNDECIDED") {
		return
	}
	r.seen[o.Rule]++
	r.Obs = append(r.Obs, o)
}

func (r *Report) OK(rule, construct, pos, detail string, nontrivial bool) {
	r.add(Obligation{Rule: rule, Construct: construct, Pos: pos, Status: "ok", Detail: detail, Nontrivial: nontrivial})
}

func (r *Report) Bad(rule, construct, pos, detail string) {
	r.add(Obligation{Rule: rule, Construct: construct, Pos: pos, Status: "violation", Detail: detail, Nontrivial: true})
}

// Check records ok/violation depending on cond.
func (r *Report) Check(cond bool, rule, construct, pos, okDetail, badDetail string) bool {
	if cond {
		r.OK(rule, construct, pos, okDetail, true)
	} else {
		r.Bad(rule, construct, pos, badDetail)
	}
	return cond
}

// Fatal: the engine could not decide (unresolved anchor, unsupported construct, ...). Never silent.
func (r *Report) Fatal(rule, construct, detail string) {
	r.fatal = append(r.fatal, fmt.Sprintf("%s %s: %s", rule, construct, detail))
	r.add(Obligation{Rule: rule, Construct: construct, Status: "violation", Detail: "UNDECIDED: " + detail, Nontrivial: true})
}

func (r *Report) Count(what string, n int) { r.Analysed[what] += n }

// Finish writes the evidence file, prints KNOWN-FINDING / VIOLATION lines and returns the exit code.
func (r *Report) Finish() int {
	// vacuity
	for rule, min := range r.minCount {
		if r.seen[rule] < min {
			r.add(Obligation{Rule: rule, Construct: "instance-count", Status: "violation", Nontrivial: true,
				Detail: fmt.Sprintf("rule matched %d instances, fewer than the %d confirmed by hand on the pinned tree (vacuous pass refused)", r.seen[rule], min)})
		}
	}
	// known findings
	for i := range r.Obs {
		o := &r.Obs[i]
		if o.Status != "violation" {
			continue
		}
		for _, k := range r.Known {
			if k.Status == "known" && k.Property == r.Property && k.Rule == o.Rule && k.Construct == o.Construct {
				o.Status = "known"
			}
		}
	}
	sort.SliceStable(r.Obs, func(i, j int) bool {
		if r.Obs[i].Rule != r.Obs[j].Rule {
			return r.Obs[i].Rule < r.Obs[j].Rule
		}
		return r.Obs[i].Construct < r.Obs[j].Construct
	})

	violations, known, discharged, nontrivial := 0, 0, 0, 0
	distinct := map[string]bool{}
	vdir := filepath.Join(evidenceDir(), "violations")
	os.MkdirAll(vdir, 0o755)
	old, _ := filepath.Glob(filepath.Join(vdir, r.Property+"-*.json"))
	for _, f := range old {
		os.Remove(f)
	}
	printedKnown := map[string]bool{}
	for _, o := range r.Obs {
		key := o.Rule + "|" + o.Construct
		switch o.Status {
		case "ok":
			discharged++
		case "known":
			known++
			if !printedKnown[key] {
				printedKnown[key] = true
				fmt.Printf("KNOWN-FINDING: property=%s rule=%s construct=%s %s\n", r.Property, o.Rule, o.Construct, o.Detail)
			}
		case "violation":
			violations++
			path := filepath.Join(vdir, fmt.Sprintf("%s-%d.json", r.Property, violations))
			b, _ := json.MarshalIndent(map[string]any{"property": r.Property, "obligation": o, "rule_statement": r.ruleDoc[o.Rule]}, "", " ")
			os.WriteFile(path, b, 0o644)
			fmt.Printf("%s: [%s] %s: %s\n", o.Pos, o.Rule, o.Construct, o.Detail)
			fmt.Printf("VIOLATION property=%s replay=%s\n", r.Property, path)
		}
		if o.Nontrivial && !distinct[key] {
			distinct[key] = true
			nontrivial++
		}
	}

	// samples: a few obligations of each rule
	samples := []any{}
	perRule := map[string]int{}
	for _, o := range r.Obs {
		if perRule[o.Rule] < 3 || o.Status != "ok" {
			perRule[o.Rule]++
			samples = append(samples, o)
		}
		if len(samples) >= 80 {
			break
		}
	}
	rules := map[string]any{}
	for id, doc := range r.ruleDoc {
		rules[id] = map[string]any{"statement": doc, "instances": r.seen[id], "min_instances": r.minCount[id]}
	}
	cov := map[string]any{
		"explanation":         r.Explanation,
		"obligations":         len(r.Obs),
		"discharged":          discharged,
		"evaluations":         len(r.Obs),
		"distinct_nontrivial": nontrivial,
		"rule":                "one obligation per (rule, construct) instance found in /repo's current source; non-trivial = its discharge needed a property of the construct beyond existence (layout arithmetic, dataflow, path or table comparison); distinct = distinct rule+construct keys",
		"samples":             samples,
		"analysed":            r.Analysed,
		"rules":               rules,
		"known_findings":      known,
		"exhaustive":          r.Exhaustive,
	}
	for k, v := range r.Extra {
		cov[k] = v
	}
	if r.Level == "proof" {
		cov["checker_cmd"] = fmt.Sprintf("/verif/bin/uhlint check %s --tier %s", r.Property, r.Tier)
		if _, ok := cov["trusted_base"]; !ok {
			cov["trusted_base"] = r.Assumptions
		}
	}
	if r.Assumptions == nil {
		r.Assumptions = []string{}
	}
	ev := map[string]any{
		"property_id": r.Property,
		"tier":        r.Tier,
		"seed":        seedFromEnv(),
		"level":       r.Level,
		"coverage":    cov,
		"assumptions": r.Assumptions,
		"wall_s":      time.Since(r.Start).Seconds(),
		"violations":  violations,
	}
	os.MkdirAll(evidenceDir(), 0o755)
	b, _ := json.MarshalIndent(ev, "", " ")
	if err := os.WriteFile(filepath.Join(evidenceDir(), r.Property+".json"), b, 0o644); err != nil {
		fmt.Fprintln(os.Stderr, "cannot write evidence:", err)
		return 2
	}
	fmt.Printf("%s tier=%s obligations=%d discharged=%d known=%d violations=%d wall=%.1fs\n",
		r.Property, r.Tier, len(r.Obs), discharged, known, violations, time.Since(r.Start).Seconds())
	if violations > 0 {
		return 1
	}
	return 0
}

func seedFromEnv() int {
	var n int
	fmt.Sscanf(os.Getenv("VERIF_SEED"), "%d", &n)
	return n
}

// evidenceDir is /verif/evidence; the self-test scripts (which run the checks on deliberately broken
// trees) redirect it with UHLINT_EVIDENCE_DIR so that the committed evidence always stems from a run on
// /repo as it is.
func evidenceDir() string {
	if d := os.Getenv("UHLINT_EVIDENCE_DIR"); d != "" {
		return d
	}
	return "/verif/evidence"
}
