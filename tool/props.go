package main

// One check per property: which rules it runs, what they decide and what they do not.

var apiDocs = map[string]string{
	"A0":  "every path of every operation ends in a return (no panic, no unbounded loop, nothing the engine cannot follow)",
	"A1":  "every operation of the contract exists on the client interface",
	"A2":  "on every path exactly one request is handed to the send helper, or none when the call is rejected; discovery uses the broadcast helper, everything else the directed one",
	"A3":  "the request struct passed and the reply type expected both carry the operation's function code",
	"A4":  "every request byte offset carries exactly the argument/constant the protocol assigns to it, under every path condition; the controller id passed to the send helper is the first argument",
	"A5":  "a call is rejected (nothing sent, error returned) exactly under the documented conditions and for no other reason",
	"A6":  "for every reply the result leaves come from the protocol offsets, sentinels included; a send/receive error always fails the call",
	"A7":  "no operation writes through a map, slice or pointer argument",
	"IM1": "no operation writes client state",
}

func declareAPI(r *Report, ids []string, mins map[string]int) aspectSet {
	as := aspectSet{}
	for _, id := range ids {
		as[id] = true
		m := 1
		if v, ok := mins[id]; ok {
			m = v
		}
		r.Rule(id, apiDocs[id], m)
	}
	return as
}

func init() {
	checks["C01"] = func(r *Report, p *Program, tier string) {
		r.Explanation = "Decides, for all 32 request-issuing operations and all argument values at once, the structural facts the request bytes are a function of: the protocol layout of every request struct (L1-L5, L7 vs spec/wire.json), the function-code tables (L6), the wiring argument->offset incl. magic words, nil/partial maps and conditional clamps (A2-A4 vs spec/ops.json, path-sensitive over the regions cut by the comparison constants), the width/byte order/constant images of every field kind on the encode side (K1-K3), a fresh zeroed 64-byte buffer with byte 0 = 0x17 per Marshal call (K8), no package-level or client state written at run time (G1, IM1), one write per driver call (A2d). The date and time encoders format the civil fields of the instant they are given and recognise 'no date' by the instant's own zero test, whatever location it carries (Z2, Z6). The digit-to-nibble map of bcd.Encode is decided too (B1). No field with an encoder is left out and the field loop goes on after an embedded struct (K15, K22); dates are civil days in every zone (Z1, Z3). An HH:mm argument reaches its encoder as it was constructed: the constructor keeps its arguments, 24:00 included (HC1); the built-in and integer kinds write no constant in place of particular values (K23). Not decided: that bcd.Encode∘time.Format yields the right digits for every date (B1-B3 decide the digit map; digit positions and package time are trusted), nor what package net does with the bytes."
		r.Assumptions = []string{"go/packages, go/types, go/ssa (x/tools v0.29.0) represent the program faithfully", "spec/wire.json, spec/ops.json, spec/kinds.json state the UT0311-L0x protocol and API contract correctly", "time.Format emits the fixed digit counts of its layout verbs for years 0..9999", "binary.ByteOrder.PutUintNN writes exactly NN/8 bytes in that order"}
		c := NewCodec(r, p, true)
		if c == nil {
			return
		}
		RuleLayout(r, c, aspectSet{"L1": true, "L2": true, "L3": true, "L4": true, "L5": true})
		RuleRegistry(r, c, []string{"requests"}, aspectSet{"L6": true, "L7": true})
		RuleAPI(r, p, declareAPI(r, []string{"A0", "A1", "A2", "A3", "A4", "IM1"}, map[string]int{"A1": 32, "A2": 32, "A3": 60, "A4": 100, "A0": 0, "IM1": 32}), nil)
		RuleK1Shipped(r, c)
		RuleK2(r, c)
		RuleK3(r, c)
		RuleK8(r, c)
		RuleK21(r, c) // an encoder that refuses a value makes the codec send zeros for it
		RuleG1(r, p)
		RuleTransport(r, p, aspectSet{"A2d": true, "RQ": true})
		RuleFilter(r, p, aspectSet{"F1": true})
		// ... whose digits are packed by bcd.Encode: each digit to its own nibble (B1)
		r.Only = map[string]bool{"B1": true}
		RuleBCD(r, p)
		r.Only = nil
		// BCD dates and times on the wire: the encoders format the civil fields of the instant they are given (Z2)
		// and recognise 'no date' by the instant's own zero test, whatever location it carries (Z6)
		r.Only = map[string]bool{"Z1": true, "Z2": true, "Z3": true, "Z6": true}
		RuleZone(r, p, c)
		RuleInstants(r, p)
		r.Only = nil
		RuleK15(r, c) // a field with an encoder is never left out
		RuleK22(r, c) // ... nor are the fields declared after an embedded struct
		RuleK23(r, c) // ... and no constant is written in place of particular values
		RuleHC1(r, p) // an HH:mm argument reaches its encoder as it was given (24:00 is a value)
	}

	checks["C02"] = func(r *Report, p *Program, tier string) {
		r.Explanation = "Decides the reply side: 31 reply layouts and the event layout equal the protocol's (L6, L7, L7e), result wiring and the sentinel decision tables of all reply-bearing operations equal spec/ops.json on every path (A6: card 0 / 0xffffffff, echoed card or profile mismatch, event type 0xff, index 0, profile 0, status event present iff index != 0), GetStatus and the listener agree (A6s), read extents/byte order/boolean table of every kind (K1-K3), nested decode errors (K5), zero 'no value' images, none of which is an existing value (K9), no constant substituted for particular byte images of a built-in kind (K23), out-of-domain handling of BCD, calendar and HH:mm values (K10, K10a, K10b). No state is kept between decodes (G1, G2). Each message of a call is decoded into a value created for it (K20). Not decided: time.ParseInLocation's calendar validation and the positional BCD arithmetic (trusted / C12)."
		r.Assumptions = []string{"spec/wire.json and spec/ops.json state the protocol correctly", "time.ParseInLocation rejects impossible civil dates and times", "go/ssa is faithful"}
		c := NewCodec(r, p, true)
		if c == nil {
			return
		}
		RuleRegistry(r, c, []string{"responses"}, aspectSet{"L6": true, "L7": true})
		RuleEventLayout(r, c)
		RuleAPI(r, p, declareAPI(r, []string{"A0", "A3", "A6"}, map[string]int{"A3": 60, "A6": 60, "A0": 0}), nil)
		RuleK1Shipped(r, c)
		RuleK2(r, c)
		RuleK3(r, c)
		RuleK5(r, c)
		RuleK9(r, c)
		RuleK23(r, c) // a built-in kind is never decoded to a constant in place of its bytes
		RuleG1(r, p)  // what a reply decodes to is a function of that reply alone: no state is kept between decodes
		RuleK20(r, c) // ... and each message of a call is decoded into a value created for it
		RuleK10(r, p)
		RuleK10c(r, c)
		RuleBCD(r, p)
		RuleListenSibling(r, p)
		// a date-time field is the protocol decoding of its digits only if it is built as a civil time in the local zone
		RuleZone(r, p, c)
		RuleInstants(r, p)
		// the bytes decoded are the bytes received: the driver returns buffer[0:n] of its last read, unmodified
		RuleTransport(r, p, aspectSet{"T11": true})
	}

	checks["C03"] = func(r *Report, p *Program, tier string) {
		r.Explanation = "Decides the acceptance filter on all three delivery paths: in the directed send helper a reply is decoded only under len==64 and serial==addressed serial, and every value returned without error derives from that decode or is the zero value of the no-reply case (F1); the broadcast receive filter accepts iff len==64 and the serial matches (F2) and the receive loop ends only on read error or acceptance, returning the datagram just read (F3); the decoder and both dispatchers index the message only after len==64 and accept only 0x17, or 0x19 with function 0x20 (F4); request and reply types carry the operation's own function code (A3, L5, L6); the four driver send methods agree on the 0x96 no-reply case (T5). An impossible date or time of day in a reply is never normalised into another value: the decoders let package time reject it, with the layout their encoders format with (K10b, K10c). Not decided: what the kernel delivers, or deadline timing."
		r.Assumptions = []string{"go/ssa is faithful", "the codec enforces the function code of the struct it decodes into (rule F4 + L5)"}
		c := NewCodec(r, p, true)
		if c == nil {
			return
		}
		RuleFilter(r, p, aspectSet{"F1": true, "F2": true})
		RuleF3(r, p)
		RuleF4(r, p)
		RuleLayout(r, c, aspectSet{"L5": true})
		RuleRegistry(r, c, []string{"responses"}, aspectSet{"L6": true})
		RuleAPI(r, p, declareAPI(r, []string{"A0", "A3"}, map[string]int{"A3": 60, "A0": 0}), nil)
		RuleTransport(r, p, aspectSet{"T5": true, "T11": true})
		RuleReadBuffers(r, p)
		RuleBCD(r, p)
		RuleK10Only(r, p, map[string]bool{"K10a": true, "K10b": true}) // ... nor is an impossible date or time normalised into another value
		RuleK10c(r, c)
		// a malformed field makes the call fail: nested decode errors are propagated by the codec
		RuleK5(r, c)
		// a boolean byte other than 0/1 is a malformed field: the decoder rejects it (K3)
		RuleK3(r, c)
	}

	checks["C04"] = func(r *Report, p *Program, tier string) {
		r.Explanation = "Decides a closed inventory of panic-capable constructs in the library's packages: every index/slice expression (P1, each discharged by a stated bound rule), tables indexed by values that can come from the wire (P2), unchecked type assertions (P3), explicit panics (P4), divisions and constant regular expressions (P5), stores into maps reached through a receiver (J5), field kinds and offsets of every shipped layout so that the codec's panic defaults and buffer slicing are unreachable (L2, L3), nil-receiver tolerance of decoders used through pointer fields (K11), header checks before any indexing (F4), and the listener's shutdown order (LS5: the event pipe is closed only after its only sender, the driver's receive loop, has been awaited - a send on a closed channel panics). The thorough tier cross-checks the inventory against the Go compiler's list of bounds checks it could not eliminate. A channel is closed only by code that runs once for it (P6). Not decided: panics inside the standard library or reflect misuse outside these forms, stack exhaustion, general nil dereference of caller-supplied pointers."
		r.Assumptions = []string{"io contract: a read returns 0 <= n <= len(buffer)", "regexp.FindStringSubmatch returns nil or 1+groups entries", "fmt.Sprintf(\"%0Nv\") yields at least N characters", "codec.Marshal results are 64 bytes (rule K8)"}
		c := NewCodec(r, p, false)
		if c == nil {
			return
		}
		RulePanic(r, p, tier, wireReachableTypes(p))
		RuleAPI(r, p, declareAPI(r, []string{"A0"}, map[string]int{"A0": 32}), nil)
		RuleLayout(r, c, aspectSet{"L2": true, "L3": true})
		RuleK11(r, c)
		RuleK17(r, c)
		ruleNilMapsDecl(r, p)
		RuleF4(r, p)
		// a send on a closed channel panics: the pipe is closed (deferred, when Listen returns) only after the
		// driver's receive loop - the only sender - has been awaited
		RuleListenOnly(r, p, map[string]bool{"LS5": true})
	}

	checks["C05"] = func(r *Report, p *Program, tier string) {
		r.Explanation = "Decides necessary structural conditions of invertibility: per kind, encoder and decoder agree on extent, byte order and constant images (K1-K3) and handle the same kind set (K7); per layout, fields are pairwise disjoint and inside the 64 bytes, so no two fields share a byte and decoders read only their own bytes (L3, L4); the zero 'no value' date/date-time image round-trips independently of the zone and nothing else the decoder reads as 'no value' is an existing date or time (K9); the built-in kinds substitute no constant for particular values or byte images (K23); the dispatcher tables are exact and guarded (L6 both directions, F4). Field encoders are total (K21: an encoder that refuses a value makes the codec send zeros for it) and no message makes a dispatcher panic (P1/P2 sites of package messages). The two BCD digit maps are each other's inverse (B1, B2). The encoder of every non-nil field is called (K15). Not decided: value-level bijectivity of BCD∘time for every value, nor behaviour under each IANA zone (C13 covers the structural zone hazards)."
		r.Assumptions = []string{"spec/wire.json and spec/kinds.json state the protocol correctly", "go/ssa is faithful"}
		c := NewCodec(r, p, true)
		if c == nil {
			return
		}
		RuleLayout(r, c, aspectSet{"L3": true, "L4": true, "L5": true})
		RuleRegistry(r, c, []string{"requests", "responses"}, aspectSet{"L6": true})
		RuleK1Shipped(r, c)
		RuleK2(r, c)
		RuleK3(r, c)
		RuleK7(r, c)
		RuleK9(r, c)
		RuleK21(r, c) // a value the encoder refuses is sent as zeros: it shares its encoding with the zero value
		RuleK15(r, c) // ... and so is a field whose encoder is not asked
		RuleK23(r, c) // the built-in kinds never substitute a constant for particular values or byte images
		RuleF4(r, p)
		// the BCD kinds are inverse only if the two digit maps are (B1, B2)
		r.Only = map[string]bool{"B1": true, "B2": true}
		RuleBCD(r, p)
		r.Only = nil
		// "the dispatchers reject": a message that makes a dispatcher panic is not rejected - the index and slice
		// sites of package messages are discharged
		RulePanicIn(r, p, tier, "messages", map[string]int{"P1": 2, "P2": 0})
		RuleZone(r, p, c)
		RuleInstants(r, p)
		RuleK10c(r, c)
		// every in-domain HH:mm decodes (24:00 included)
		RuleK10Only(r, p, map[string]bool{"K10": true})
	}

	checks["C06"] = func(r *Report, p *Program, tier string) {
		r.Explanation = "Decides the routing decision table of the directed send helper and the destination value on each route (R1), the default broadcast address (R2), that discovery can reach only the broadcast-all transport and every other operation only broadcast-to/udp/tcp (R3, static call graph through the in-package helpers), one request per call and one write per driver call (A2, A2d, F1 single-send), the configured bind address and port as local address of every socket a path opens or tries to open (T6), stored by the constructor as it was given (CF1), and that the configuration is never written after construction (IM1). The request is written on the connection itself before the function returns or reads (T5), to an unmapped destination where the netip forms of the write are used (A2d). Not decided: kernel routing, or that no other host hears a broadcast."
		r.Assumptions = []string{"go/ssa is faithful", "net.UDPAddrFromAddrPort / TCPAddrFromAddrPort convert exactly"}
		RuleFilter(r, p, aspectSet{"F1": true, "R1": true})
		RuleR2(r, p)
		RuleR3(r, p)
		RuleAPI(r, p, declareAPI(r, []string{"A0", "A2", "IM1"}, map[string]int{"A2": 32, "A0": 0, "IM1": 32}), nil)
		RuleTransport(r, p, aspectSet{"A2d": true, "T6": true, "T5": true}) // T5: the request is written on the connection itself before the function returns or reads
		RuleCF1(r, p)                                                       // ... which is the bind address the constructor was given
		RuleImmutable(r, p)
	}

	checks["C07"] = func(r *Report, p *Program, tier string) {
		r.Explanation = "Decides, per operation, the complete rejection decision table and that nothing is sent on a rejected path (A5, A2): controller id 0 on all 31 id-taking operations and again in the send helper (F1), PutCard's sentinel card numbers and PIN bound, SetListener's address table, SetAddress's three IPv4 tests, SetDoorPasscodes' door range and the four clamps (A4), SetTimeProfile's date, missing-segment and end-before-start guards; any additional early return is reported as an undocumented rejection. The card-format predicate is decided separately (W26, W26f). Regions are cut by the comparison constants of code and contract together, so > vs >= and off-by-one bounds are distinguished exactly. The HH:mm order the segment check relies on is the lexicographic one (O2)."
		r.Assumptions = []string{"spec/ops.json states the documented rejections", "fmt.Sprintf(\"%08v\", uint32) has 8..10 characters", "go/ssa is faithful"}
		RuleAPI(r, p, declareAPI(r, []string{"A0", "A2", "A4", "A5"}, map[string]int{"A2": 32, "A4": 100, "A5": 32, "A0": 0}), nil)
		RuleFilter(r, p, aspectSet{"F1": true})
		RuleW26(r, p)
		// "a missing date": the zero test SetTimeProfile relies on
		r.Only = map[string]bool{"Z6": true}
		RuleInstants(r, p)
		r.Only = nil
		// "a segment that ends before it starts": the HH:mm order SetTimeProfile relies on
		r.Only = map[string]bool{"O2": true, "O2v": true}
		RuleOrder(r, p, tier)
		r.Only = nil
	}

	checks["C08"] = func(r *Report, p *Program, tier string) {
		r.Explanation = "Decides the structural guarantees the property rests on: every variable captured by a goroutine and written on one side is accessed on the other only under a common mutex or is of a channel/sync/atomic type (T8, all go statements of the library); a connection never escapes the call that opened it, so replies cannot cross between calls (T9); the process-wide lock is taken exactly for fixed bind ports, before the socket is opened, and released by a deferred unlock (T3); the clock feeding each deadline is read after the lock is acquired, so a call that waited its turn still gets a full timeout (T4); the client configuration and package-level state are read-only at run time (IM1, G1). What discovery gets back from the driver - a list its reader goroutine may still be appending to - is only read (T14). Not decided: absence of races in general (no whole-program may-happen-in-parallel analysis; sync and net internals trusted), nor any schedule-dependent outcome."
		r.Assumptions = []string{"sync.Mutex, channels and package net are correct", "go/ssa is faithful"}
		RuleShare(r, p, aspectSet{"T8": true})
		RuleTransport(r, p, aspectSet{"T3": true, "T4": true, "T9": true, "T10": true, "T12": true})
		RuleRepliesReadOnly(r, p) // discovery while replies are still arriving: the list is only read
		RuleImmutable(r, p)
		RuleG1(r, p)
		// the event handed from the receive loop to the dispatch goroutine is allocated per datagram: a shared one
		// is written by one goroutine while the other reads it
		// ... and the shutdown order (signal the driver, await its loop, then return and close the pipe) is what keeps
		// the close of the pipe from racing with a handler that is still sending on it
		// ... and the driver closes 'done' only after its read loop has ended (LS6): closing it earlier lets Listen
		// return, and close the pipe, while the loop can still hand an event to the handler
		r.Only = map[string]bool{"LS1": true, "LS2": true, "LS5": true, "LS6": true}
		RuleListen(r, p)
		r.Only = nil
	}

	checks["C09"] = func(r *Report, p *Program, tier string) {
		r.Explanation = "Decides acquire/close pairing of every socket on all paths to every return (T1, deferred or explicit; the listener's socket by its stop goroutine), a read deadline of exactly now+configured timeout before every blocking read (T2), that reader goroutines leave their loop on a failed read and their connection is closed by the parent (T7) and leave it ONLY then, however many datagrams arrive (RD: never gives up early), lock release (T3) and that each lock holder computes its deadline after acquiring the lock (T4). Paths are enumerated with the read loops bounded at 2 iterations; the rules are loop-invariant. One transport call per operation (F1 single-send), the broadcast-to filter accepts only what the send helper accepts (F2), no connection is turned into a raw descriptor (T13). Not decided: wall-clock durations, descriptor or goroutine counts at run time."
		r.Assumptions = []string{"a deadline on a net.Conn makes blocked reads return (package net)", "closing a socket unblocks readers", "go/ssa is faithful"}
		RuleTransport(r, p, aspectSet{"T1": true, "T2": true, "T3": true, "T4": true})
		RuleShare(r, p, aspectSet{"T7": true})
		// never gives up early: a reader leaves its loop only after a failed read (deadline, closed socket), not after
		// some number of datagrams (RD)
		RuleDelivered(r, p, false)
		RuleF3(r, p) // ... and the broadcast-to loop returns only on a failed read or an accepted datagram
		// ... on a datagram the send helper will take: the filter accepts exactly the 64-byte replies of the addressed controller
		RuleFilter(r, p, aspectSet{"F2": true})
		RuleNoRawDescriptor(r, p)
		// one timeout per operation: the send helper makes one transport call per path (a second attempt over
		// another transport doubles the wait)
		r.Only = map[string]bool{"F1": true}
		r.OnlyConstruct = "single-send"
		RuleFilter(r, p, aspectSet{"F1": true})
		r.Only = nil
		r.OnlyConstruct = ""
		// the listener's goroutines: the consumer ends on every return of Listen (LS3), the driver's two goroutines end after the stop signal (LS6)
		r.Only = map[string]bool{"LS3": true, "LS6": true}
		RuleListen(r, p)
		r.Only = nil
	}

	checks["C10"] = func(r *Report, p *Program, tier string) {
		r.Explanation = "Decides the listener's structure: per datagram exactly one of {error callback, forward}, forwarding only a 64-byte datagram with non-zero serial that decoded, as a value allocated for that datagram (LS1) whose type holds no reference into the reused receive buffer (LS2, K4); one pipe, one consumer, one event callback per element, consumer ends when the pipe is closed (LS3); connected callback once after the bind and never on a bind error (LS4); shutdown order signal -> await driver -> return nil (LS5); driver closes the socket after the signal, hands the handler exactly the bytes read and closes 'done' after the loop (LS6); the status is wired exactly like GetStatus (A6s); event layouts incl. the 0x19 start-of-message (L7e, F4); the shutdown flag shared by the two driver goroutines (T8). A field that is not valid BCD fails the decode (K10a). Nested decode errors are never dropped (K5), booleans are 0/1 (K3), the status date-time is recombined whole in the local zone (Z4, Z5). A field that is valid BCD decodes: the BCD decoder accepts every pair of decimal nibbles (B2, B3). Not decided: delivery under real scheduling beyond 'single pipe, single consumer', nor OS-level rebinding."
		r.Assumptions = []string{"Go channels deliver in order to a single receiver", "go/ssa is faithful"}
		c := NewCodec(r, p, true)
		if c == nil {
			return
		}
		RuleListen(r, p)
		RuleDelivered(r, p, true)
		RuleReadBuffers(r, p)
		RuleK4(r, c)
		RuleEventLayout(r, c)
		RuleF4(r, p)
		// every field of a delivered event is the protocol decoding of its bytes: the date/time decoders parse
		// with the layout their encoders format with (K10c)
		RuleK10c(r, c)
		// every other datagram produces an error: a field that is not valid BCD fails the decode (K10a), a nested
		// decode error is never dropped (K5), a boolean byte other than 0/1 is an error (K3)
		RuleK10Only(r, p, map[string]bool{"K10a": true})
		RuleK5(r, c)
		RuleK3(r, c)
		// ... and a field that IS valid BCD decodes: the BCD decoder accepts every byte made of two decimal
		// nibbles and yields its two digits (B2) - an event with year 2085 is an event, not an error
		r.Only = map[string]bool{"B2": true, "B3": true}
		RuleBCD(r, p)
		r.Only = nil
		// the status date-time of an event is recombined from its date and time as GetStatus does it, whole and in
		// the local zone (Z4, Z5) - A6s only compares the two sites with each other
		r.Only = map[string]bool{"Z4": true, "Z5": true}
		RuleZone(r, p, c)
		r.Only = nil
		RuleShareIn(r, p, aspectSet{"T8": true, "T7": true}, func(parent string) bool { return !returnsListName(p, parent) })
	}

	checks["C11"] = func(r *Report, p *Program, tier string) {
		r.Explanation = "Decides discovery end to end at the structural level: the collector goroutine appends every datagram until its socket is closed and the shared reply list/err are properly synchronised (T7, T8); the broadcast helper keeps a reply iff it is 64 bytes and decodes, preserves order and duplicates and never fails on a malformed reply (B11, enumerated over all accept/reject patterns of 3 replies); GetDevices maps every kept reply to its result entry with the port completed from the broadcast address (60000 by default) and the name of the matching configured controller (A4/A6 against spec/ops.json for 0, 1 and 2 replies); discovery goes out via the broadcast-all transport only (A2, R3). What the helper hands to the decoder is accepted only with the protocol id its message type allows (F4). The reply list is only read, never filtered in place (T14); a reply's date is parsed by package time with the encoder's layout, so an impossible date is not normalised into another one (K10b, K10c). Not decided: timing of arrival against the window."
		r.Assumptions = []string{"spec/ops.json states the documented mapping", "go/ssa is faithful"}
		only := map[string]bool{"GetDevices": true}
		RuleAPI(r, p, declareAPI(r, []string{"A0", "A2", "A3", "A4", "A6"}, map[string]int{"A0": 0, "A3": 2, "A4": 0}), only)
		RuleBroadcastHelper(r, p)
		// every reply received before the timeout: the call collects for exactly the configured timeout, counted from
		// the moment its reader is running (T2, the collection-window obligation only)
		r.Only = map[string]bool{"T2": true}
		r.OnlyConstruct = "collect-window"
		RuleTransport(r, p, aspectSet{"T2": true})
		r.Only = nil
		r.OnlyConstruct = ""
		RuleDelivered(r, p, false)
		RuleReadBuffers(r, p)
		RuleShareIn(r, p, aspectSet{"T8": true, "T7": true}, func(parent string) bool { return returnsListName(p, parent) })
		RuleRepliesReadOnly(r, p)
		RuleR3(r, p)
		// malformed datagrams never make the call fail: the codec (hex dump included) is handed every datagram,
		// whatever its length, by the collector goroutine - its index and slice sites are discharged
		RulePanicIn(r, p, tier, codecRel, map[string]int{"P1": 5})
		// ... and never produce an entry: what the broadcast helper hands to the decoder is accepted only with the
		// protocol id the message type allows (0x17; 0x19 for events only)
		RuleF4(r, p)
		// every field of an entry is the protocol decoding of its reply: the date of a reply is parsed by package
		// time with the encoder's layout - an impossible date is never normalised into another one (K10c, K10b)
		if c11 := NewCodec(r, p, false); c11 != nil {
			RuleK10c(r, c11)
		}
		RuleK10Only(r, p, map[string]bool{"K10b": true})
	}

	checks["C12"] = func(r *Report, p *Program, tier string) {
		r.Explanation = "Decides the per-symbol maps of the BCD coder exhaustively over the rune / nibble regions cut by the code's own constants: Encode maps exactly '0'..'9' to 0..9 and every other rune to the error result (B1); Decode maps each (high, low) pair of decimal nibbles to its two digits in that order and every byte with a nibble above 9 to the error result (B2, all 100 digit pairs and all reject regions); every decoder that calls bcd.Decode propagates its error (K10a). Not decided: the positional arithmetic (odd-length padding, two digits per byte, length ceil(n/2)): it depends on the run-time length and no structural condition is known for it that would not also fire on an equivalent rewrite."
		r.Assumptions = []string{"go/ssa is faithful", "strings.Builder appends in call order"}
		RuleBCD(r, p)
		RuleK10Only(r, p, map[string]bool{"K10a": true})
		// both functions are functions of their argument alone: no state survives a call
		RuleG1In(r, p, "encoding/bcd")
	}

	checks["C13"] = func(r *Report, p *Program, tier string) {
		r.Explanation = "Decides zone-consistency of every civil construction and parse in the types and uhppote packages (Z1: process-local zone, or a UTC value used only for its civil fields), that a BCD date/time decoder parses all its digits with its encoder's layout in one step (K10c), that encoders format the stored instant itself (Z2), that the status recombination parses with exactly the layouts it formatted with, identically in GetStatus and the listener (Z4), and the local-midnight hazard (Z3): by time's documented gap behaviour a date-only value built as local midnight lands on the previous day wherever a DST change removes 00:00, so 'no local-midnight construction without re-checking the civil day' is a necessary condition of the property. Not decided: anything per zone or per date; no IANA data is consulted."
		r.Assumptions = []string{"time.Date/ParseInLocation resolve a non-existent local time to an adjacent existing instant (documented behaviour)", "go/ssa is faithful"}
		c := NewCodec(r, p, false)
		RuleZone(r, p, c)
		RuleInstants(r, p)
		// a date-time read from a controller is the instant package time builds, in the local zone, from ALL its
		// digits at once (K10c): a date made first and the time of day added to it as a duration is an hour off
		// on the days the zone changes its offset
		if c != nil {
			RuleK10c(r, c)
		}
	}

	checks["C14"] = func(r *Report, p *Program, tier string) {
		r.Explanation = "Decides the structural side of the text/JSON round trips: every hand-written JSON encoder has a decoder (J1); writer layouts/formats are accepted by the reader (J2: date, date-time incl. the zone-abbreviation fallback, HH:mm format vs pattern, PIN width 999999 vs {0,6}); whatever JSON form the PIN reader accepts, what it stores lies in 0..999999 (J10); numeric task-type bounds agree with the 13-entry table in both parsers (J3); control-state and weekday texts map back to the value that writes them, and the empty weekday set (written as \"\") reads back (J4); decoders that store into a map behind their receiver establish it non-nil first (J5); HH:mm parsers enforce 00:00..24:00 with minutes <= 59 and read only digits (K10); the four address types delegate to their role parser and store exactly what it returned (AD0). JSON dates are civil days: parsed outside the local zone only for their civil fields and never left at a local midnight the zone may lack (Z1, Z3). No reference to a package-level table becomes part of a decoded value (G2). Not decided: value-level equality decode(encode(v)) for every value, nor encoding/json's and time's parsing of arbitrary text (zone abbreviations etc.)."
		r.Assumptions = []string{"encoding/json and package time parse as documented", "go/ssa is faithful"}
		RuleJSON(r, p)
		RuleJSONStructs(r, p)
		RuleInstants(r, p)
		RuleK10(r, p)
		RuleAddr(r, p)
		// what a text/JSON decoder produces is built from the text alone: no reference to a package-level table
		// becomes part of it (two decodes would share storage)
		RuleG2(r, p, "")
		// a date read from JSON is a civil day: parsed outside the local zone only for its civil fields (Z1), and never
		// left at a local midnight that the zone may not have (Z3)
		if c := NewCodec(r, p, false); c != nil {
			r.Only = map[string]bool{"Z1": true, "Z3": true}
			RuleZone(r, p, c)
			r.Only = nil
		}
	}

	checks["C15"] = func(r *Report, p *Program, tier string) {
		r.Explanation = "Decides, per role, the port rule as a decision table over the regions of the parsed port (AD1: accepted iff not forbidden, result exactly the parsed address:port; port-less text gets the role default or is rejected when the port is mandatory), that the port String() omits is the parser's default and not a forbidden one (AD2), that Set and UnmarshalJSON go through the role parser and, when they report success, have stored exactly what it returned (AD0), and (AD3) that the two pre-filter patterns are the unanchored dotted-quad[:port] patterns, checked on the constants' syntax trees. netip parsing is trusted for the dotted-quad/port grammar itself. Not decided: acceptance of strings with text around the dotted quad (left open by the property)."
		r.Assumptions = []string{"spec/roles.json states the documented port rules", "netip.ParseAddrPort/ParseAddr accept exactly a.b.c.d[:port] in plain decimal", "go/ssa is faithful"}
		RuleAddr(r, p)
		RuleAddrPatterns(r, p)
	}

	checks["C16"] = func(r *Report, p *Program, tier string) {
		r.Level = "proof"
		r.Exhaustive = true
		r.Explanation = "Date.Before/After/Equals and HHmm.Before/After/Equals are extracted as total functions on the finite domain of sign vectors {<,=,>}^3 resp. {<,=,>}^2 of corresponding components (the only operations these functions apply to their inputs are comparisons of corresponding components, which the check also enforces) and compared with lexicographic <, >, = on every vector: trichotomy, mirror image and transitivity follow. DateTime.Before is shown to be x.sec < y.sec by shape (O3). SetTimeProfile rejects exactly when a segment's End.Before(Start) (A5). A Date holds the civil day it was made from (Z1, Z3)."
		r.Assumptions = []string{"time.Time.Year/Month/Day and struct field reads are pure", "the path walker (tool/walk.go) and go/ssa are faithful", "spec/ops.json for the SetTimeProfile rejection table"}
		r.Extra["trusted_base"] = r.Assumptions
		RuleOrder(r, p, tier)
		RuleAPI(r, p, declareAPI(r, []string{"A0", "A5"}, map[string]int{"A0": 0}), map[string]bool{"SetTimeProfile": true})
		// the verdicts agree with (year, month, day) only if a Date holds the civil day it was made from (Z1, Z3)
		if c := NewCodec(r, p, false); c != nil {
			r.Only = map[string]bool{"Z1": true, "Z3": true}
			RuleZone(r, p, c)
			r.Only = nil
		}
	}

	checks["C17"] = func(r *Report, p *Program, tier string) {
		r.Explanation = "Decides that the client and its controller table are written only in the constructor (IM1), that Clone of a controller / card allocates every slice and map afresh and the constructor stores clones (IM2), that DeviceList returns a fresh map (IM3), that no operation stores through a reference argument, itself or through a function it hands the argument to (A7, callee summaries), that the listener's handler passes on only a value decoded from the datagram and allocated for it (LS1, LS2), that no decoder lets a view of the message buffer escape into a decoded value (K4, codec and every Unmarshaler) and that driver methods return buffers allocated in the call (T10). Results never hold a reference to a package-level map or slice (G2). Not decided: deep immutability of strings and *time.Location (immutable by language/library)."
		r.Assumptions = []string{"net.IPv4, make, composite literals and conversions allocate fresh storage", "go/ssa is faithful"}
		c := NewCodec(r, p, true)
		if c == nil {
			return
		}
		RuleImmutable(r, p)
		RuleAPI(r, p, declareAPI(r, []string{"A0", "A7", "IM1"}, map[string]int{"A7": 32, "IM1": 32, "A0": 0}), nil)
		RuleK4(r, c)
		RuleG2(r, p, "") // results never hold a reference to a package-level table (storage shared between calls)
		RuleTransport(r, p, aspectSet{"T10": true})
		// the listener's reused receive buffer is handed to the handler synchronously by the read loop (a view of it
		// that outlives the next read would change under the event being built)
		// ... and what the handler passes on is a value decoded from the datagram and allocated for it, holding no
		// reference to mutable storage (LS1, LS2): the datagram itself (a view of the reused buffer) never leaves
		// the handler
		r.Only = map[string]bool{"LS6": true, "LS1": true, "LS2": true}
		RuleListen(r, p)
		r.Only = nil
	}

	checks["C18"] = func(r *Report, p *Program, tier string) {
		r.Explanation = "Decides, per field kind and per tag form and independently of the shipped messages: buffer accesses stay inside the field's width on encode and decode (K1), no view of the input escapes (K4), nested decode errors are enforced through embedding (K5), value tags are parsed with one base that admits the hexadecimal form the tag grammar allows (K6), encoder and decoder handle the same kind set incl. value/pointer interface dispatch (K7), byte order (K2), boolean table (K3), nil-tolerant decoders for pointer kinds (K11), fresh zeroed buffer (K8), a value: tag is emitted and enforced for every value of its constant (K19), and every index, slice, assertion and explicit panic of the codec package is discharged (P1/P3/P4 restricted to that package). The BCD digit maps are inverse (B1, B2); the built-in kinds substitute no constant for particular values or images (K23); the field loop goes on after a nested walk (K22); a value created for a message reaches the field walk unwritten (K20). Not decided: round-trip equality for generated layouts (value level)."
		r.Assumptions = []string{"spec/kinds.json states the protocol encodings", "go/ssa is faithful"}
		c := NewCodec(r, p, true)
		if c == nil {
			return
		}
		RuleK1(r, c)
		RuleK2(r, c)
		RuleK3(r, c)
		RuleK4(r, c)
		RuleK5(r, c)
		RuleK6(r, c)
		RuleK19(r, c)
		RuleK20(r, c)
		RuleK22(r, c)
		RuleK9(r, c)
		RuleK21(r, c)
		RuleK23(r, c)
		// the BCD kinds decode to what was encoded only if the two digit maps are inverse (B1, B2)
		r.Only = map[string]bool{"B1": true, "B2": true}
		RuleBCD(r, p)
		r.Only = nil
		// neither panics: the index, slice, assertion and explicit-panic sites of the codec package itself
		RulePanicIn(r, p, tier, codecRel, map[string]int{"P1": 5, "P3": 0, "P4": 0})
		RuleK7(r, c)
		RuleK8(r, c)
		RuleK11(r, c)
		RuleK14(r, c)
		RuleK15(r, c)
		RuleK16(r, c)
		RuleK17(r, c)
		// decoding returns the encoded values: the HH:mm decoder accepts the whole domain of its encoder (24:00 included)
		RuleK10Only(r, p, map[string]bool{"K10": true})
	}
}

func ruleNilMapsDecl(r *Report, p *Program) {
	r.Rule("J5", "a decoder that stores into a map reached through its receiver first makes sure the map is not nil", 2)
	ruleNilMaps(r, p)
}
