package main

import (
	"fmt"
	"go/constant"
	"go/token"
	"go/types"
	"math/bits"
	"reflect"
	"strconv"
	"strings"

	"golang.org/x/tools/go/ssa"
)

// ---------------------------------------------------------------------------------------
// Type descriptors as constants. reflect.TypeOf(x) of a value whose dynamic type is known on the path,
// reflect.TypeFor[T](), and what can be read off such a descriptor (fields, tags, kind, element type) are
// compile-time facts of the program: the walker folds them like other constants (term "rtype" with the Go
// type in Dyn). Together with constant folding of a few pure text functions on constant arguments
// (StructTag.Get, strings.CutPrefix/TrimPrefix/HasPrefix, strconv.ParseUint/ParseInt/Atoi) this lets a table
// that the package initialiser derives from struct tags be evaluated (initstate.go). reflect.New(t) of a
// known descriptor allocates a zero value of that type, and Interface() on it yields the typed pointer.
// Nothing here acts on symbolic arguments: a descriptor that is not known stays an opaque call as before.
// ---------------------------------------------------------------------------------------

func rtypeTerm(t types.Type, rt types.Type) *Term {
	return &Term{Op: "rtype", Dyn: t, Typ: rt, Name: typeName(t)}
}

func structOf(t types.Type) *types.Struct {
	if t == nil {
		return nil
	}
	st, _ := t.Underlying().(*types.Struct)
	return st
}

func kindOfType(t types.Type) (reflect.Kind, bool) {
	switch u := t.Underlying().(type) {
	case *types.Basic:
		m := map[types.BasicKind]reflect.Kind{types.Bool: reflect.Bool, types.Int: reflect.Int, types.Int8: reflect.Int8, types.Int16: reflect.Int16,
			types.Int32: reflect.Int32, types.Int64: reflect.Int64, types.Uint: reflect.Uint, types.Uint8: reflect.Uint8, types.Uint16: reflect.Uint16,
			types.Uint32: reflect.Uint32, types.Uint64: reflect.Uint64, types.Uintptr: reflect.Uintptr, types.Float32: reflect.Float32,
			types.Float64: reflect.Float64, types.String: reflect.String}
		k, ok := m[u.Kind()]
		return k, ok
	case *types.Struct:
		return reflect.Struct, true
	case *types.Pointer:
		return reflect.Pointer, true
	case *types.Slice:
		return reflect.Slice, true
	case *types.Array:
		return reflect.Array, true
	case *types.Map:
		return reflect.Map, true
	case *types.Interface:
		return reflect.Interface, true
	case *types.Signature:
		return reflect.Func, true
	case *types.Chan:
		return reflect.Chan, true
	}
	return 0, false
}

func (w *Walker) structFieldTerm(st *types.Struct, i int, sft types.Type) *Term {
	f := st.Field(i)
	names := []string{"Name", "Type", "Tag", "Anonymous"}
	args := []*Term{
		mkConst(constant.MakeString(f.Name()), types.Typ[types.String]),
		rtypeTerm(f.Type(), fieldType(sft, "Type")),
		mkConst(constant.MakeString(st.Tag(i)), fieldType(sft, "Tag")),
		mkBool(f.Embedded()),
	}
	return &Term{Op: "struct", Typ: sft, FNames: names, Args: args}
}

func (w *Walker) reflectModel(name string, callee *ssa.Function, args []*Term, rt types.Type) *Term {
	constStr := func(t *Term) (string, bool) {
		if t == nil {
			return "", false
		}
		return t.StrVal()
	}
	errT := types.Universe.Lookup("error").Type()
	switch {
	case name == "reflect.TypeOf" && len(args) == 1:
		if args[0].Op == "iface" && args[0].Dyn != nil {
			return rtypeTerm(args[0].Dyn, rt)
		}
	case callee != nil && callee.Origin() != nil && callee.Origin().Name() == "TypeFor" && callee.Origin().Pkg != nil && callee.Origin().Pkg.Pkg.Path() == "reflect" && len(callee.TypeArgs()) == 1:
		return rtypeTerm(callee.TypeArgs()[0], rt)
	case strings.HasPrefix(name, "invoke:reflect.Type.") && len(args) >= 1 && args[0].Op == "rtype":
		t := args[0].Dyn
		switch strings.TrimPrefix(name, "invoke:reflect.Type.") {
		case "FieldByName":
			if st := structOf(t); st != nil && len(args) == 2 {
				if fname, ok := constStr(args[1]); ok {
					tup, _ := rt.(*types.Tuple)
					if tup == nil || tup.Len() != 2 {
						return nil
					}
					sft := tup.At(0).Type()
					for i := 0; i < st.NumFields(); i++ {
						if st.Field(i).Name() == fname {
							return &Term{Op: "tuple", Args: []*Term{w.structFieldTerm(st, i, sft), mkBool(true)}, Typ: rt}
						}
					}
					// not a direct field (promoted fields are not modelled)
					for i := 0; i < st.NumFields(); i++ {
						if st.Field(i).Embedded() {
							return nil
						}
					}
					return &Term{Op: "tuple", Args: []*Term{zeroOf(sft), mkBool(false)}, Typ: rt}
				}
			}
		case "Field":
			if st := structOf(t); st != nil && len(args) == 2 {
				if i, ok := args[1].Int64(); ok && i >= 0 && int(i) < st.NumFields() {
					return w.structFieldTerm(st, int(i), rt)
				}
			}
		case "NumField":
			if st := structOf(t); st != nil {
				return mkInt(int64(st.NumFields()), rt)
			}
		case "Kind":
			if k, ok := kindOfType(t); ok {
				return mkInt(int64(k), rt)
			}
		case "Elem":
			switch u := t.Underlying().(type) {
			case *types.Pointer:
				return rtypeTerm(u.Elem(), rt)
			case *types.Slice:
				return rtypeTerm(u.Elem(), rt)
			case *types.Array:
				return rtypeTerm(u.Elem(), rt)
			}
		case "Name":
			if nt, ok := types.Unalias(t).(*types.Named); ok {
				return mkConst(constant.MakeString(nt.Obj().Name()), rt)
			}
		}
	case name == "reflect.New" && len(args) == 1 && args[0].Op == "rtype":
		t := args[0].Dyn
		cell := w.newCell("new", t, true)
		cell.Val = zeroOf(t)
		pt := types.NewPointer(t)
		return &Term{Op: "rvalue", Args: []*Term{{Op: "ptr", Cell: cell, Typ: pt}}, Dyn: pt, Typ: rt}
	case name == "(reflect.Value).Interface" && len(args) == 1 && args[0].Op == "rvalue":
		return &Term{Op: "iface", Args: []*Term{args[0].Args[0]}, Dyn: args[0].Dyn, Typ: rt}
	case name == "(reflect.StructTag).Get" && len(args) == 2:
		if tag, ok := constStr(args[0]); ok {
			if key, ok := constStr(args[1]); ok {
				return mkConst(constant.MakeString(reflect.StructTag(tag).Get(key)), rt)
			}
		}
	case strings.HasPrefix(name, "bits.") && len(args) == 1:
		// math/bits on a constant (the width of a type computed from ^T(0))
		if v, ok := args[0].Int64(); ok && v >= 0 {
			u := uint64(v)
			switch name {
			case "bits.Len64", "bits.Len32", "bits.Len16", "bits.Len8", "bits.Len":
				return mkInt(int64(bits.Len64(u)), rt)
			case "bits.OnesCount64", "bits.OnesCount32", "bits.OnesCount16", "bits.OnesCount8", "bits.OnesCount":
				return mkInt(int64(bits.OnesCount64(u)), rt)
			case "bits.TrailingZeros64", "bits.TrailingZeros32", "bits.TrailingZeros16", "bits.TrailingZeros8", "bits.TrailingZeros":
				if u != 0 {
					return mkInt(int64(bits.TrailingZeros64(u)), rt)
				}
			}
		}
	case name == "errors.Is" && len(args) == 2:
		if v, ok := errorsIs(args[0], args[1], 0); ok {
			return mkBool(v)
		}
	case name == "strings.CutPrefix" && len(args) == 2:
		if s, ok := constStr(args[0]); ok {
			if pre, ok := constStr(args[1]); ok {
				after, found := strings.CutPrefix(s, pre)
				return &Term{Op: "tuple", Args: []*Term{mkConst(constant.MakeString(after), types.Typ[types.String]), mkBool(found)}, Typ: rt}
			}
		}
	case name == "strings.TrimPrefix" && len(args) == 2:
		if s, ok := constStr(args[0]); ok {
			if pre, ok := constStr(args[1]); ok {
				return mkConst(constant.MakeString(strings.TrimPrefix(s, pre)), rt)
			}
		}
	case name == "strings.TrimSpace" && len(args) == 1:
		if s, ok := constStr(args[0]); ok {
			return mkConst(constant.MakeString(strings.TrimSpace(s)), rt)
		}
	case (name == "strconv.ParseUint" || name == "strconv.ParseInt") && len(args) == 3:
		s, ok1 := constStr(args[0])
		base, ok2 := args[1].Int64()
		bits, ok3 := args[2].Int64()
		if ok1 && ok2 && ok3 {
			tup, _ := rt.(*types.Tuple)
			if tup == nil {
				return nil
			}
			var v int64
			var err error
			if name == "strconv.ParseUint" {
				var u uint64
				u, err = strconv.ParseUint(s, int(base), int(bits))
				v = int64(u)
				if u > 1<<62 {
					return nil
				}
			} else {
				v, err = strconv.ParseInt(s, int(base), int(bits))
			}
			if err != nil {
				e := &Term{Op: "call", Name: "errors.New", Args: []*Term{mkConst(constant.MakeString(err.Error()), types.Typ[types.String])}, Typ: errT}
				return &Term{Op: "tuple", Args: []*Term{mkInt(0, tup.At(0).Type()), e}, Typ: rt}
			}
			return &Term{Op: "tuple", Args: []*Term{mkInt(v, tup.At(0).Type()), mkNil(errT)}, Typ: rt}
		}
	}
	return nil
}

// lookupDispatch: m[k] for a table whose keys are all constants and a symbolic k: the chain
// if k == k1 {v1} else if k == k2 {v2} ... else absent (as tableLookup does for the literal form).
func (w *Walker) lookupDispatch(m, k *Term, x *ssa.Lookup) (*Term, bool) {
	if m.Op != "mapv" || k.IsConst() || len(m.Args) == 0 || len(m.Args) > 256 {
		return nil, false
	}
	// keys: all integer constants (function codes), or all type descriptors (a table from field type to kind)
	byType := true
	for i := 0; i+1 < len(m.Args); i += 2 {
		if m.Args[i].Op != "rtype" {
			byType = false
		}
	}
	if !byType {
		if !isIntType(k.Typ) {
			return nil, false
		}
		for i := 0; i+1 < len(m.Args); i += 2 {
			if !m.Args[i].IsConst() {
				return nil, false
			}
		}
	} else if k.Op == "rtype" {
		// both known: identical types
		for i := 0; i+1 < len(m.Args); i += 2 {
			if types.Identical(m.Args[i].Dyn, k.Dyn) {
				if x.CommaOk {
					return &Term{Op: "tuple", Args: []*Term{m.Args[i+1], mkBool(true)}, Typ: x.Type()}, true
				}
				return m.Args[i+1], true
			}
		}
	}
	for i := 0; i+1 < len(m.Args); i += 2 {
		switch m.Args[i+1].Op {
		case "closure", "rtype", "const":
		default:
			return nil, false
		}
	}
	vt := elemType(m.Typ)
	for i := 0; i+1 < len(m.Args); i += 2 {
		var hit bool
		if byType {
			// the same atom a comparison with a package-level type variable produces: eq(<descriptor>,<key>)
			if w.RTypes == nil {
				w.RTypes = map[string]types.Type{}
			}
			w.RTypes[m.Args[i].String()] = m.Args[i].Dyn
			hit = w.boolAtom("eq("+m.Args[i].String()+","+k.String()+")", nil)
		} else {
			hit = w.decide(w.binop(token.EQL, k, m.Args[i], types.Typ[types.Bool]))
		}
		if hit {
			if x.CommaOk {
				return &Term{Op: "tuple", Args: []*Term{m.Args[i+1], mkBool(true)}, Typ: x.Type()}, true
			}
			return m.Args[i+1], true
		}
	}
	z := zeroOf(vt)
	if x.CommaOk {
		return &Term{Op: "tuple", Args: []*Term{z, mkBool(false)}, Typ: x.Type()}, true
	}
	return z, true
}

// ---------------------------------------------------------------------------------------
// context.WithTimeout as a deadline. `ctx, cancel := context.WithTimeout(context.Background(), d)` reads the
// clock once and fixes the instant now+d: ctx.Deadline() is that instant, <-ctx.Done() (on a context nobody
// cancels before the function returns) is a wait of d like <-time.After(d), and Dialer.DialContext(ctx, ..) is
// Dialer.Dial bounded by that instant. The walker renders these in the canonical forms the transport rules
// read (a time.Now event, (time.Time).Add(now, d), time.After(d), Dial with the Deadline field set), so a
// driver written with contexts is the same program to the rules (documented behaviour of package context and
// net: part of the trusted base).
// ---------------------------------------------------------------------------------------

func (w *Walker) contextModel(name string, args []*Term, rt types.Type, in ssa.Instruction, fn *ssa.Function, depth int) *Term {
	switch {
	case (name == "context.WithTimeout" || name == "context.WithDeadline") && len(args) == 2:
		parent := args[0]
		if !(parent.Op == "call" && (parent.Name == "context.Background" || parent.Name == "context.TODO")) {
			return nil
		}
		tup, _ := rt.(*types.Tuple)
		if tup == nil || tup.Len() != 2 {
			return nil
		}
		var deadline *Term
		timeT := lookupStdType(w.P, "time", "Time")
		if name == "context.WithTimeout" {
			now := &Term{Op: "call", Name: "time.Now", Typ: timeT, Pos: in.Pos()}
			now.ID = w.fresh("call:time.Now")
			w.event(Event{Kind: "call", Name: "time.Now", Result: now, Pos: in.Pos(), Instr: in, Fn: fn, Depth: depth})
			deadline = &Term{Op: "call", Name: "(time.Time).Add", Args: []*Term{now, args[1]}, Typ: timeT}
		} else {
			deadline = args[1]
		}
		ctx := &Term{Op: "ctx", Args: []*Term{deadline, args[1]}, Typ: tup.At(0).Type(), Name: name}
		ctx.ID = w.fresh("ctx")
		cancel := &Term{Op: "fresh", Name: fmt.Sprintf("cancel@%d", ctx.ID), Typ: tup.At(1).Type()}
		return &Term{Op: "tuple", Args: []*Term{ctx, cancel}, Typ: rt}
	case name == "invoke:context.Context.Deadline" && len(args) == 1 && args[0].Op == "ctx":
		return &Term{Op: "tuple", Args: []*Term{args[0].Args[0], mkBool(true)}, Typ: rt}
	case name == "invoke:context.Context.Done" && len(args) == 1 && args[0].Op == "ctx" && args[0].Name == "context.WithTimeout":
		return &Term{Op: "call", Name: "time.After", Args: []*Term{args[0].Args[1]}, Typ: rt}
	}
	return nil
}

func lookupStdType(p *Program, pkg, name string) types.Type {
	for _, pk := range p.Pkgs {
		for _, imp := range pk.Types.Imports() {
			if imp.Path() == pkg {
				if o := imp.Scope().Lookup(name); o != nil {
					return o.Type()
				}
			}
		}
	}
	return nil
}

// errorsIs: errors.Is(err, target) for a target that is a package-level sentinel, when err's construction is
// known on the path: nil is nothing; the sentinel is itself; errors.New / fmt.Errorf without %w make a new
// error that is no sentinel; fmt.Errorf with %w is what it wraps (documented behaviour of package errors).
func errorsIs(err, target *Term, depth int) (bool, bool) {
	if err == nil || target == nil || depth > 4 {
		return false, false
	}
	for err.Op == "iface" && len(err.Args) == 1 {
		err = err.Args[0]
	}
	if err.IsNilConst() {
		return false, true
	}
	if target.Op != "global" {
		return false, false
	}
	if err.Op == "global" {
		return err.Name == target.Name, err.Name == target.Name // another sentinel may wrap or define Is: undecided
	}
	if err.Op == "call" {
		switch err.Name {
		case "errors.New":
			return false, true
		case "fmt.Errorf":
			f, ok := err.Args[0].StrVal()
			if !ok {
				return false, false
			}
			if !strings.Contains(f, "%w") {
				return false, true
			}
			// the wrapped operands
			if len(err.Args) == 2 && err.Args[1].Op == "sref" {
				els := srefElems(err.Args[1])
				vi := 0
				anyTrue, allKnown := false, true
				for i := 0; i+1 < len(f); i++ {
					if f[i] != '%' {
						continue
					}
					if f[i+1] == '%' {
						i++
						continue
					}
					// a verb: find its letter
					j := i + 1
					for j < len(f) && !((f[j] >= 'a' && f[j] <= 'z') || (f[j] >= 'A' && f[j] <= 'Z')) {
						j++
					}
					if j < len(f) && f[j] == 'w' && vi < len(els) {
						v, known := errorsIs(els[vi], target, depth+1)
						if !known {
							allKnown = false
						} else if v {
							anyTrue = true
						}
					}
					vi++
					i = j
				}
				if anyTrue {
					return true, true
				}
				if allKnown {
					return false, true
				}
			}
		}
	}
	return false, false
}
