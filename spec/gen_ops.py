#!/usr/bin/env python3
"""Writes ops.json: the API contract of the 32 request-issuing operations of uhppote-core,
stated in protocol terms (function code, byte offset <- argument, reply offset -> result leaf,
sentinel cases, rejection conditions). Hand-written from the UT0311-L0x protocol and the
documented API behaviour (properties C01, C02, C07, C11); the JSON it emits is what the checker
reads, this script only removes repetition. Leaves are written as the checker prints them:
  argN            N-th argument after the receiver        argN.Field / argN.Map[k] / argN[i]
  reply@K         the reply field at byte offset K        len(x)   has(map,key)
  u.<field>       client configuration
Nothing here names an internal identifier of the request/response structs or helper functions."""
import json

MAGIC = 0x55aaaa55
ops = {}

def op(name, code, request, result=None, reject="arg0==0", reply=None, via="directed", **kw):
    d = {"code": "0x%02x" % code, "via": via, "reject": reject,
         "request": {str(k): v for k, v in request.items()}}
    if reply is None:
        reply = [{"when": "true", "result": result}]
    d["reply"] = reply
    d.update(kw)
    ops[name] = d

def req(*pairs):
    d = {4: "arg0"}
    for k, v in pairs:
        d[k] = v
    return d

OK8 = {"r0": "reply@8"}
WEEK = lambda base, off: [(off + i, "%s[%d]" % (base, (i + 1) % 7)) for i in range(7)]  # Mon..Sun -> time.Weekday 1..6,0

op("ActivateKeypads", 0xa4, req((8, "arg1[1]"), (9, "arg1[2]"), (10, "arg1[3]"), (11, "arg1[4]")), OK8)
op("AddTask", 0xa8, req((8, "arg1.From"), (12, "arg1.To"), *WEEK("arg1.Weekdays", 16), (23, "arg1.Start"),
                        (25, "arg1.Door"), (26, "conv<uint8>(arg1.Task)"), (27, "arg1.Cards")), OK8)
op("ClearTaskList", 0xa6, req((8, str(MAGIC))), OK8)
op("ClearTimeProfiles", 0x8a, req((8, str(MAGIC))), OK8)
op("DeleteCard", 0x52, req((8, "arg1")), OK8)
op("DeleteCards", 0x54, req((8, str(MAGIC))), OK8)
op("GetCards", 0x58, req(), OK8)
op("OpenDoor", 0x40, req((8, "arg1")), {"r0.SerialNumber": "reply@4", "r0.Succeeded": "reply@8"})
op("RecordSpecialEvents", 0x8e, req((8, "arg1")), OK8)
op("RefreshTaskList", 0xac, req((8, str(MAGIC))), OK8)
op("RestoreDefaultParameters", 0xc8, req((8, str(MAGIC))), OK8)
op("SetPCControl", 0xa0, req((8, str(MAGIC)), (12, "arg1")), OK8)
op("SetInterlock", 0xa2, req((8, "arg1")), OK8)
op("SetEventIndex", 0xb2, req((8, "arg1"), (12, str(MAGIC))),
   {"r0.SerialNumber": "reply@4", "r0.Index": "arg1", "r0.Changed": "reply@8"})
op("GetEventIndex", 0xb4, req(), {"r0.SerialNumber": "reply@4", "r0.Index": "reply@8"})
DCS = {"r0.SerialNumber": "reply@4", "r0.Door": "reply@8", "r0.ControlState": "reply@9", "r0.Delay": "reply@10"}
op("SetDoorControlState", 0x80, req((8, "arg1"), (9, "conv<uint8>(arg2)"), (10, "arg3")), DCS)
op("GetDoorControlState", 0x82, req((8, "arg1")), DCS)
op("GetTime", 0x32, req(), {"r0.SerialNumber": "reply@4", "r0.DateTime": "reply@8"})
op("SetTime", 0x30, req((8, "arg1")), {"r0.SerialNumber": "reply@4", "r0.DateTime": "reply@8"})
op("GetListener", 0x92, req(), {"r0": "reply@8", "r1": "reply@14"})

op("SetListener", 0x90, req((8, "arg1"), (14, "arg2")),
   reject='arg0==0 || !(netip.AddrPort).IsValid(arg1) || (arg1 != netip.MustParseAddrPort("0.0.0.0:0") && '
          '(!(netip.Addr).Is4((netip.AddrPort).Addr(arg1)) || (netip.AddrPort).Port(arg1)==0))',
   reply=[{"when": "reply@4 != arg0", "error": True}, {"when": "true", "result": OK8}])

op("SetAddress", 0x96, req((8, "arg1"), (12, "arg2"), (16, "arg3"), (20, str(MAGIC))),
   reject="arg0==0 || (net.IP).To4(arg1)==nil || (net.IP).To4(arg2)==nil || (net.IP).To4(arg3)==nil",
   reply=[{"when": "true", "result": {"r0.SerialNumber": "arg0", "r0.Succeeded": "true"}}], no_reply=True)

CARD = {"r0.CardNumber": "reply@8", "r0.From": "reply@12", "r0.To": "reply@16",
        "r0.Doors[1]": "reply@20", "r0.Doors[2]": "reply@21", "r0.Doors[3]": "reply@22", "r0.Doors[4]": "reply@23",
        "r0.PIN": "reply@24"}
NIL = {"r0": "nil"}
op("GetCardByID", 0x5a, req((8, "arg1")),
   reply=[{"when": "reply@8==0", "result": NIL}, {"when": "reply@8 != arg1", "error": True}, {"when": "true", "result": CARD}])
op("GetCardByIndex", 0x5c, req((8, "arg1")),
   reply=[{"when": "reply@8 in {0,0xffffffff}", "result": NIL}, {"when": "true", "result": CARD}])
op("PutCard", 0x50, req((8, "arg1.CardNumber"), (12, "arg1.From"), (16, "arg1.To"), (20, "arg1.Doors[1]"), (21, "arg1.Doors[2]"),
                        (22, "arg1.Doors[3]"), (23, "arg1.Doors[4]"), (24, "arg1.PIN")), OK8,
   reject="arg0==0 || arg1.CardNumber in {0,0xffffffff,0x00ffffff} || !pred(arg1.CardNumber,arg2) || arg1.PIN>999999",
   predicates={"pred(arg1.CardNumber,arg2)": "card number matches one of the given formats (decided separately by rule W26)"})

op("GetEvent", 0xb0, req((8, "arg1")),
   reply=[{"when": "reply@12==0xff", "error": True}, {"when": "reply@8==0", "result": NIL},
          {"when": "true", "result": {"r0.SerialNumber": "reply@4", "r0.Index": "reply@8", "r0.Type": "reply@12", "r0.Granted": "reply@13",
                                      "r0.Door": "reply@14", "r0.Direction": "reply@15", "r0.CardNumber": "reply@16",
                                      "r0.Timestamp": "reply@20", "r0.Reason": "reply@27"}}])

def passcode(i):
    return "len(arg2)>%d && arg2[%d]<=999999 ? arg2[%d] : zero" % (i, i, i)
op("SetDoorPasscodes", 0x8c, req((8, "arg1"), (12, passcode(0)), (16, passcode(1)), (20, passcode(2)), (24, passcode(3))), OK8,
   reject="arg0==0 || arg1<1 || arg1>4")

SEGREQ = []
for i in (1, 2, 3):
    SEGREQ += [(24 + 4 * (i - 1), "arg1.Segments[%d].Start" % i), (26 + 4 * (i - 1), "arg1.Segments[%d].End" % i)]
op("SetTimeProfile", 0x88, req((8, "arg1.ID"), (9, "arg1.From"), (13, "arg1.To"), *WEEK("arg1.Weekdays", 17), *SEGREQ, (36, "arg1.LinkedProfileID")), OK8,
   reject="arg0==0 || (types.Date).IsZero(arg1.From) || (types.Date).IsZero(arg1.To)"
          + "".join(" || !has(arg1.Segments,%d) || (types.HHmm).Before(arg1.Segments[%d].End,arg1.Segments[%d].Start)" % (i, i, i) for i in (1, 2, 3)))

PROFILE = {"r0.ID": "reply@8", "r0.LinkedProfileID": "reply@36", "r0.From": "reply@9", "r0.To": "reply@13"}
for i in range(7):
    PROFILE["r0.Weekdays[%d]" % ((i + 1) % 7)] = "reply@%d" % (17 + i)
for i in (1, 2, 3):
    s, e = 24 + 4 * (i - 1), 26 + 4 * (i - 1)
    PROFILE["r0.Segments[%d].Start" % i] = "reply@%d==nil ? zero : *reply@%d" % (s, s)
    PROFILE["r0.Segments[%d].End" % i] = "reply@%d==nil ? zero : *reply@%d" % (e, e)
op("GetTimeProfile", 0x98, req((8, "arg1")),
   reply=[{"when": "reply@8!=0 && reply@8 != arg1", "error": True}, {"when": "reply@8==0", "result": NIL}, {"when": "true", "result": PROFILE}],
   map_entries=["r0.Segments[1]", "r0.Segments[2]", "r0.Segments[3]"])

STATUS = {"r0.SerialNumber": "reply@4", "r0.SystemError": "reply@36", "r0.SequenceId": "reply@40", "r0.SpecialInfo": "reply@48",
          "r0.RelayState": "reply@49", "r0.InputState": "reply@50",
          "r0.SystemDateTime": '(types.SystemDate).IsZero(reply@51) ? zero : fromopt{reply@51,reply@37,"2006-01-02","15:04:05"," ","2006-01-02 15:04:05",time.Local}'}
for i in range(4):
    STATUS["r0.DoorState[%d]" % (i + 1)] = "reply@%d" % (28 + i)
    STATUS["r0.DoorButton[%d]" % (i + 1)] = "reply@%d" % (32 + i)
EV = {"Index": 8, "Type": 12, "Granted": 13, "Door": 14, "Direction": 15, "CardNumber": 16, "Timestamp": 20, "Reason": 27}
for k, off in EV.items():
    STATUS["r0.Event." + k] = "reply@8==0 ? zero : reply@%d" % off
op("GetStatus", 0x20, req(), STATUS)

def device(reply, name, port):
    r = lambda off: "%s@%d" % (reply, off)
    return {"SerialNumber": r(4), "IpAddress": r(8), "SubnetMask": r(12), "Gateway": r(16), "MacAddress": r(20),
            "Version": r(26), "Date": r(28), "TimeZone": "time.Local", "Name": name,
            "Address": "netip.AddrFromSlice((net.IP).To4(%s))#1 ? from{%s,%s} : zero" % (r(8), r(8), port)}
BPORT = "(netip.AddrPort).IsValid(u.broadcastAddr.AddrPort) ? u.broadcastAddr.AddrPort : 60000"
op("GetDevice", 0x94, req(),
   {"r0." + k: v for k, v in device("reply", 'has(u.devices,arg0) ? u.devices[arg0].Name : zero',
                                    "has(u.devices,arg0) && (types.ControllerAddr).IsValid(u.devices[arg0].Address) ? u.devices[arg0].Address.AddrPort : (" + BPORT + ")").items()})
op("GetDevices", 0x94, {}, via="broadcast", reject="false",
   reply=[{"when": "true", "result_each": device("reply[{i}]", 'has(u.devices,reply[{i}]@4) ? u.devices[reply[{i}]@4].Name : zero', BPORT),
           "result_empty": {"r0": "[]"}}])

json.dump({"_doc": __doc__, "magic": MAGIC, "ops": ops}, open("/verif/spec/ops.json", "w"), indent=1)
print(len(ops), "operations")
