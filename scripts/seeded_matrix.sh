#!/bin/bash
# For every saved seeded change: apply it to /repo, run the quick check of the property it breaks, undo it.
# Prints one line per change; exits 1 if a change is not reported by its own property's check.
export UHLINT_EVIDENCE_DIR=$(mktemp -d /tmp/uhlint-ev.XXXXXX)  # never overwrite /verif/evidence from a modified tree
set -u
cd /repo
git diff --quiet || { echo "/repo working tree not clean"; exit 2; }
trap 'git -C /repo checkout -q -- . ; git -C /repo clean -fdq' EXIT
miss=0
for d in /verif/seeded/*/; do
  id=$(basename "$d"); prop=${id%%-*}
  if ! git apply "$d/patch.diff" 2>/dev/null; then echo "$id: patch does not apply to HEAD"; miss=1; continue; fi
  out=$(/verif/bin/uhlint check $prop 2>/dev/null)
  git checkout -q -- . && git clean -fdq
  if echo "$out" | grep -q '^VIOLATION'; then
    echo "$id: reported $(echo "$out" | grep -o '^[^ ]*: \[[A-Za-z0-9-]*\]' | grep -o '\[[A-Za-z0-9-]*\]' | sort -u | tr -d '\n')"
  else
    echo "$id: NOT REPORTED by $prop"; miss=1
  fi
done
exit $miss
