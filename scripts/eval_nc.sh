#!/bin/bash
# eval_nc.sh <out dir> : every <out dir>/*.diff is a behaviour-preserving change; apply each to /repo, run all
# 18 quick checks, print the alarms (there must be none), undo.
export UHLINT_EVIDENCE_DIR=$(mktemp -d /tmp/uhlint-ev.XXXXXX)
set -u
cd /repo
git diff --quiet || { echo "/repo working tree not clean"; exit 2; }
trap 'git -C /repo checkout -q -- . ; git -C /repo clean -fdq' EXIT
for d in $1/*.diff; do
  git apply "$d" || { echo "$(basename $d): does not apply"; continue; }
  echo "=== $d"
  for i in 01 02 03 04 05 06 07 08 09 10 11 12 13 14 15 16 17 18; do
    out=$(/verif/bin/uhlint check C$i 2>&1)
    if echo "$out" | grep -q -e '^VIOLATION' || ! echo "$out" | grep -q 'violations=0'; then
      echo "$out" | grep -v -e '^VIOLATION' -e WARNING | grep -e '\[' -e rror -e panic | head -${2:-3} | cut -c1-400 | sed "s/^/   C$i: /"
    fi
  done
  git checkout -q -- . && git clean -fdq
done
