#!/bin/bash
# Negative controls: behaviour-preserving refactorings of /repo (they compile; R1 renames identifiers the
# package-internal tests also use, the others keep the suite green). No check may report a violation on them.
export UHLINT_EVIDENCE_DIR=$(mktemp -d /tmp/uhlint-ev.XXXXXX)  # never overwrite /verif/evidence from a modified tree
set -u
cd /repo
git diff --quiet || { echo "/repo working tree not clean"; exit 2; }
trap 'git -C /repo checkout -q -- . ; git -C /repo clean -fdq' EXIT
bad=0
for d in /verif/refactors/*.diff; do
  git apply "$d" || { echo "$(basename $d): does not apply"; bad=1; continue; }
  alarms=""
  for i in 01 02 03 04 05 06 07 08 09 10 11 12 13 14 15 16 17 18; do
    /verif/bin/uhlint check C$i 2>/dev/null | grep -q '^VIOLATION' && alarms="$alarms C$i"
  done
  git checkout -q -- . && git clean -fdq
  echo "$(basename $d): alarms:${alarms:- none}"
  [ -n "$alarms" ] && bad=1
done
exit $bad
