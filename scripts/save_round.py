#!/usr/bin/env python3
"""save_round.py <eval file> <root> <round digit>: stores every change of an evaluation file (eval_round.sh output)
whose three confirmations hold as seeded/<Cnn>-<digit><X>/ (caught_by is filled in later from the matrix)."""
import re, subprocess, sys
ev, root, digit = sys.argv[1:4]
txt = open(ev, errors="replace").read()
for blk in re.split(r"(?m)^=== ", txt)[1:]:
    m = re.match(r"(C\d+) (\w) \(([^,]+), (.*?)\s*(-race)?\)", blk)
    if not m: print("skip", blk[:60]); continue
    c, x, pkg, pat, race = m.groups()
    ok = "1 demo on unchanged tree: PASS (ok)" in blk and "2 suite with patch: PASS (ok)" in blk and "3 demo with patch: FAIL (ok)" in blk
    if not ok:
        print("NOT CONFIRMED", c, x); continue
    args = ["python3", "/verif/scripts/save_seeded.py", c, x, pkg, pat, "(pending)"]
    if race: args.append("-race")
    args += ["--root=" + root, "--label=" + digit + x]
    subprocess.run(args, check=True)
