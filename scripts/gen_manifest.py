#!/usr/bin/env python3
"""Regenerates /verif/MANIFEST.json (kept under version control; edit here, not by hand)."""
import json
P = {
 "C01": ("other", "request layouts vs protocol table + path-sensitive argument->offset wiring extraction (go/ssa abstract interpretation over comparison regions) + per-kind encoder extents/byte order + zero-test/zone lints of the date encoders", "3 C01"),
 "C02": ("other", "reply layouts vs protocol table + path-sensitive reply->result and sentinel decision-table extraction + decoder domain rules", "3 C02"),
 "C03": ("other", "path enumeration of the send helper, broadcast filter and receive loop: decode only under len==64 and serial match; header guards of decoder and dispatchers", "3 C03"),
 "C04": ("other", "closed inventory of panic-capable SSA instructions, each discharged by a bound/guard rule; listener shutdown-order path rule (no send on a closed pipe); compiler bounds-check list as cross-reference (thorough)", "3 C04"),
 "C05": ("other", "per-kind encoder/decoder agreement facts + layout disjointness arithmetic + dispatcher table extraction", "3 C05"),
 "C06": ("other", "routing decision table by path enumeration of the send helper + static call-graph reachability to the transport seam", "3 C06"),
 "C07": ("other", "rejection decision tables by path enumeration with interval refinement, compared with the contract on the union of cut points", "3 C07"),
 "C08": ("other", "goroutine-captured-variable discipline (mutex / atomic / channel), connection escape, lock and deadline ordering on enumerated paths", "3 C08"),
 "C09": ("other", "typestate on enumerated paths: open->close pairing, deadline-before-read with value shape (one clock reading for a TCP connect and its exchange), reader-goroutine exit on and only on a failed read, lock pairing", "3 C09"),
 "C10": ("other", "listener handler/consumer/shutdown path enumeration + sibling agreement with GetStatus + aliasing rule for the reused buffer", "3 C10"),
 "C11": ("other", "broadcast helper enumerated over accept/reject patterns of 3 replies + GetDevices result wiring for 0/1/2 replies + reader-goroutine hand-over rules + protocol-id decision table of the decoder", "3 C11"),
 "C12": ("other", "abstract interpretation of Encode/Decode for one symbol with exact value-set refinement (finite powerset domain: all 256 byte values, all rune regions cut by the code's comparisons); emitted nibble/characters tabulated as expressions of the symbol; no package-level state in the bcd package", "3 C12"),
 "C13": ("other", "zone/layout dataflow lints over every civil construction and parse; local-midnight re-check rule", "3 C13"),
 "C14": ("other", "writer/reader constant agreement by context-sensitive constant flow, reader/writer maps compared per value, nil-map establishment and receiver-map dataflow, HH:mm domain regions, zone lints of the JSON date decoders", "3 C14"),
 "C15": ("other", "port-rule decision tables per role + regular-language inclusion on the constant patterns' automata + length argument for rejections no recogniser explains", "3 C15"),
 "C16": ("proof", "exhaustive evaluation of the comparison functions over the finite sign-vector domain extracted from go/ssa, compared with the lexicographic order", "3 C16"),
 "C17": ("other", "ownership lints: constructor-only writes, fresh allocation in Clone/DeviceList, no stores through arguments (callee summaries for functions not walked in line), no buffer views in decoded values, the datagram never leaves the listener's handler", "3 C17"),
 "C18": ("other", "per-kind walk of the codec's two reflection loops for one generic field (helpers and dispatch tables inlined): extents, aliasing, error propagation, tag base and tag grammar over all byte literals, kind symmetry, no silently skipped field, value tags honoured for every constant, panic inventory of the codec package (linear bound domain)", "3 C18"),
}
TEXT = {
 "C01": "Structural, complete for wiring and layout: for all 32 operations and all argument values at once, which argument or constant reaches which byte offset in which encoding, on every path. Value-level digit correctness of BCD∘time.Format is delegated (C12 decides the digit map).",
 "C02": "Structural, complete for reply wiring and sentinel tables of all 31 reply-bearing operations on every path, plus decoder domain handling. Calendar validation by package time is trusted.",
 "C03": "Structural: the acceptance conditions on all three delivery paths as dominating guards of the single decode site, and header guards of every decoding entry point. Kernel delivery and timing are out of scope.",
 "C04": "Inventory with per-site discharge: a panic-capable construct that no rule discharges is reported. Standard-library internals and general nil dereference are not covered.",
 "C05": "Necessary structural conditions of invertibility (agreeing extents/orders/constants, disjoint fields, exact dispatch tables, zero images). Value-level bijectivity is not decided.",
 "C06": "Structural: routing table, destinations, transport reachability per operation, single send, bind address. Kernel routing is out of scope.",
 "C07": "Complete for the guard structure: the set of argument regions on which each operation sends or rejects equals the contract's, exact at every comparison constant.",
 "C08": "Necessary structural conditions (shared-variable discipline, socket ownership, lock pairing and ordering). Not a general race or linearizability proof.",
 "C09": "Necessary structural conditions on every enumerated path (close, deadline, goroutine exit, lock release). Durations and resource counts are run-time quantities and not decided.",
 "C10": "Structural: exactly-one-outcome per datagram, fresh non-aliasing event values, single pipe/consumer, callback and shutdown ordering, wiring equal to GetStatus.",
 "C11": "Structural: keep/skip logic enumerated over all patterns of three replies, order and duplicates preserved, result wiring and port completion vs contract.",
 "C12": "Complete for the per-symbol maps (all rune regions, all 256 byte values by region); positional arithmetic is not decided (run-time length).",
 "C13": "Necessary structural conditions (zone consistency, layout agreement, no unguarded local-midnight construction). Nothing is evaluated per zone or per date.",
 "C14": "Structural agreement of the two sides of every text/JSON pair; value-level round-trip equality is not decided.",
 "C15": "Complete for the port rules as decision tables; pre-filter patterns decided by automata inclusion; netip's grammar is trusted.",
 "C16": "Proof by exhaustive enumeration of a finite abstract domain that is exact for comparison-only code: 3x27 + 3x9 sign vectors; DateTime.Before and the segment check by shape.",
 "C17": "Structural ownership facts: who may write the client, what Clone allocates, that arguments are never stored through, that no buffer view escapes a decoder.",
 "C18": "Per field kind and tag form, independent of shipped messages: the class of bound/aliasing/error/tag-base errors in branches no shipped message uses.",
}
NOTE = "Trusted base: go/packages+go/types+go/ssa (x/tools v0.29.0) represent /repo's current working tree faithfully; the oracles in /verif/spec/*.json state the protocol and API contract; the small std-lib model listed in DESIGN.md 1.4. No library code is executed, concretely or symbolically with a solver; paths are enumerated over the finite region/sign domains cut by the code's own comparison constants. Does not decide the run-time-quantified clauses listed per property in DESIGN.md section 3."
checks = []
for pid in sorted(P):
    level, tech, ref = P[pid]
    checks.append({
        "property_id": pid,
        "quick_cmd": "/verif/bin/uhlint check %s --tier quick" % pid,
        "thorough_cmd": "/verif/bin/uhlint check %s --tier thorough" % pid,
        "evidence_file": "/verif/evidence/%s.json" % pid,
        "replay_cmd_template": "/verif/bin/uhlint explain {path}",
        "engine": "uhlint",
        "level_claimed": {"category": level, "text": TEXT[pid], "design_ref": "DESIGN.md section " + ref},
        "level_note": NOTE,
        "technique": "static analysis: " + tech,
    })
m = {
 "version": 1,
 "setup_cmd": "cd /verif/tool && env -u GOWORK GOFLAGS=-mod=mod GOPROXY=off GOSUMDB=off GOTOOLCHAIN=local go build -o /verif/bin/uhlint .",
 "hooks": {"guard": "verif", "enable": "no hooks: the static checker reads /repo's sources directly; nothing in /repo is instrumented", "baseline_off_cmd": "cd /repo && go test -vet=off -count=1 ./...", "source_commits": [], "add_only": True},
 "engines": [{"name": "uhlint", "path": "/verif/tool", "serves_properties": sorted(P), "kind_free_text": "repository-specific static analyser: go/packages + go/types + go/ssa (x/tools v0.29.0); layout engine over struct tags, path walker (abstract interpretation over comparison regions / sign vectors), SSA dominator lints, regexp/syntax automata; oracles in /verif/spec"}],
 "checks": checks,
 "notes": "Every check loads and type-checks /repo's current working tree on each run (about 1.5 s), evaluates its rules, writes /verif/evidence/<id>.json and replay files under /verif/evidence/violations/. Genuine defects found while building were repaired by 'fix:' commits in /repo and are listed as fixed in /verif/known_findings.jsonl; scripts/revert_fix_matrix.sh shows each check firing again when a fix is reverted.",
 "not_applicable": [],
}
json.dump(m, open("/verif/MANIFEST.json", "w"), indent=1)
print("checks:", len(checks))
