#!/usr/bin/env python3
"""save_seeded.py <Cnn> <A|B> <pkg dir for the demo> <go test -run pattern> <caught-by text> [extra go test flags]
Copies a confirmed sub-agent change into /verif/seeded/<Cnn>-<X>/ with a meta.json."""
import json, os, shutil, sys, re
c, x, pkg, pat, caught = sys.argv[1:6]
flags = [f for f in sys.argv[6:] if not f.startswith("--")]
root = "/tmp/wt"
label = x
for f in sys.argv[6:]:
    if f.startswith("--root="): root = f[7:]
    if f.startswith("--label="): label = f[8:]
src = "%s/%s-out" % (root, c)
dst = "/verif/seeded/%s-%s" % (c, label)
os.makedirs(dst, exist_ok=True)
shutil.copy(src + "/%s.diff" % x, dst + "/patch.diff")
shutil.copy(src + "/%s_demo_test.go" % x, dst + "/demo_test.go")
md = open(src + "/%s.md" % x).read()
shutil.copy(src + "/%s.md" % x, dst + "/README.md")
files = sorted(set(re.findall(r'^\+\+\+ b/(\S+)', open(dst + "/patch.diff").read(), re.M)))
meta = {
 "property": c,
 "files_changed": files,
 "demonstration": {"file": "demo_test.go", "copy_to": "%s/%s_demo_test.go" % (pkg, x), "run": "go test -vet=off -count=1 %s -run '%s' ./%s/" % (" ".join(flags), pat, pkg)},
 "needs_to_manifest": (re.search(r'(?is)(what it needs[^\n]*\n.*?)(\n#|\n\*\*|\Z)', md) or re.search(r'(?is)(manifest[^\n]*\n.*?)(\n#|\Z)', md) or [None, md[:600]])[1].strip()[:900],
 "confirmed": "scripts/try_seeded.sh in a scratch worktree of /repo HEAD: demonstration passes on the unchanged tree, the repository's own suite passes with the patch, the demonstration fails with the patch; then the patch was applied to /repo, all 18 quick checks run, and undone",
 "written_by": "independent sub-agent given only the property text and a scratch worktree",
 "caught_by": caught,
}
json.dump(meta, open(dst + "/meta.json", "w"), indent=1)
print(dst)
