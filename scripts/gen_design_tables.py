#!/usr/bin/env python3
"""gen_design_tables.py : prints the generated tables of DESIGN.md (rules per property from the evidence of the
last run; seeded changes from seeded/*/meta.json; negative controls from refactors/*.md)."""
import json, glob, os, re, sys
what = sys.argv[1] if len(sys.argv) > 1 else "all"
if what in ("rules", "all"):
    print("| property | obligations | rules (instances) |\n|---|---|---|")
    for f in sorted(glob.glob("/verif/evidence/C*.json")):
        e = json.load(open(f)); c = e["coverage"]
        rs = ", ".join("%s(%d)" % (k, v["instances"]) for k, v in sorted(c["rules"].items()))
        print("| %s | %d | %s |" % (e["property_id"], c["obligations"], rs))
    print()
if what in ("seeded", "all"):
    for rnd, pat in (("round 2", "-2"), ("round 3", "-3"), ("round 4", "-4"), ("round 5", "-5"), ("round 6", "-6"), ("round 7", "-7"), ("round 8", "-8"), ("round 9", "-9"), ("round 10", "-10"), ("round 11", "-11"), ("round 12", "-12"), ("round 13", "-13"), ("round 14", "-14"), ("round 15", "-15"), ("round 16", "-16"), ("round 17", "-17")):
        print("**%s**\n\n| id | files | change | reported by |\n|---|---|---|---|" % rnd)
        for d in sorted(glob.glob("/verif/seeded/*%s?" % pat)):
            m = json.load(open(d + "/meta.json"))
            title = ""
            for l in open(d + "/README.md").read().split("\n"):
                l = l.strip().lstrip("#").strip().strip("*").strip()
                if l:
                    title = l; break
            title = re.sub(r"^(C\d+\s*/\s*)?[Cc]hange [ABC]\s*[-—:–]*\s*", "", title)
            print("| %s | %s | %s | %s |" % (os.path.basename(d), ", ".join(m["files_changed"]), title[:170].replace("|", "/"), m["caught_by"].replace("|", "/")))
        print()
if what in ("refactors", "all"):
    print("| id | transformation (author's summary) |\n|---|---|")
    for f in sorted(glob.glob("/verif/refactors/N*.md"), key=lambda s: (int(re.search(r"N(\d+)", s).group(1)), s)):
        txt = " ".join(l.strip() for l in open(f).read().split("\n") if l.strip() and not l.startswith("#"))
        print("| %s | %s |" % (os.path.basename(f)[:-3], txt[:260].replace("|", "/")))
