#!/bin/bash
# Self-test: for every "fix:" commit in /repo, apply its reverse patch to the working tree, run all
# quick checks, print which properties report a violation, and restore the tree.
# The checks must be silent on the repaired tree and fire again when a repaired defect returns.
export UHLINT_EVIDENCE_DIR=$(mktemp -d /tmp/uhlint-ev.XXXXXX)  # never overwrite /verif/evidence from a modified tree
set -u
cd /repo
git diff --quiet || { echo "/repo working tree not clean"; exit 2; }
for sha in $(git log --format=%h --grep='^fix:' --reverse); do
  subj=$(git log -1 --format=%s $sha)
  git show $sha | git apply -R || { echo "cannot reverse $sha"; continue; }
  hits=""
  for i in 01 02 03 04 05 06 07 08 09 10 11 12 13 14 15 16 17 18; do
    out=$(/verif/bin/uhlint check C$i 2>/dev/null)
    if echo "$out" | grep -q '^VIOLATION'; then
      rules=$(echo "$out" | grep -o '\[[A-Za-z0-9-]*\]' | sort -u | tr -d '\n')
      hits="$hits C$i$rules"
    fi
  done
  git checkout -q -- . && git clean -fdq
  echo "$sha | $subj | $hits"
done
