#!/bin/bash
# selftest_probes.sh: the linear bound domain (P1) must report each unsafe probe and stay silent on the safe one.
# Works on a scratch copy of /repo with selftest/p1_probe.go.txt added to package types.
set -u
copy=$(mktemp -d /tmp/uhlint-probe.XXXXXX); ev=$(mktemp -d /tmp/uhlint-probe-ev.XXXXXX)
rsync -a --exclude .git /repo/ "$copy/"
cp /verif/selftest/p1_probe.go.txt "$copy/types/zz_probe.go"
out=$(UHLINT_REPO="$copy" UHLINT_EVIDENCE_DIR="$ev" /verif/bin/uhlint check C04 2>/dev/null)
rm -rf "$copy" "$ev"
rc=0
for p in probe1 probe2 probe3 probe4 probe5 probe7 probe8 probe9 probe10; do
  echo "$out" | grep -q "types.$p:" || { echo "MISSED: $p is not reported"; rc=1; }
done
for p in probe6ok probe11ok; do
  echo "$out" | grep -q "types.$p" && { echo "FALSE ALARM: $p is reported"; rc=1; }
done
[ $rc = 0 ] && echo "probes: 9 unsafe reported, 2 safe silent"
exit $rc
