#!/usr/bin/env python3
"""matrix.py [seeded|refactors|all] [-j N] [-v] [ids...]
Self-test of the checks, in parallel, on scratch copies of /repo (never on /repo itself):
  seeded/<id>/patch.diff   a change that breaks property <id's prefix>: that property's check must report it
  refactors/<id>.diff      a behaviour-preserving change: no check may report anything
Each copy is analysed with `uhlint check ALL` (UHLINT_REPO=<copy>, evidence redirected to a scratch dir).
Exit 1 if any expectation fails."""
import os, re, subprocess, sys, tempfile, shutil, glob
from concurrent.futures import ThreadPoolExecutor
args = sys.argv[1:]
what = "all"; jobs = 12; verbose = False; only = []
i = 0
while i < len(args):
    a = args[i]
    if a in ("seeded", "refactors", "all"): what = a
    elif a == "-j": jobs = int(args[i+1]); i += 1
    elif a == "-v": verbose = True
    else: only.append(a)
    i += 1
items = []
if what in ("seeded", "all"):
    for d in sorted(glob.glob("/verif/seeded/*/patch.diff")):
        id = os.path.basename(os.path.dirname(d)); items.append(("seeded", id, d))
if what in ("refactors", "all"):
    for d in sorted(glob.glob("/verif/refactors/*.diff")):
        id = os.path.basename(d)[:-5]; items.append(("refactor", id, d))
if only: items = [it for it in items if any(it[1].startswith(o) for o in only)]
root = tempfile.mkdtemp(prefix="uhlint-mx.")
env = dict(os.environ, GOFLAGS="-mod=mod", GOPROXY="off", GOSUMDB="off", GOTOOLCHAIN="local")
env.pop("GOWORK", None)
def run(it):
    kind, id, patch = it
    d = os.path.join(root, id); ev = os.path.join(root, id + ".ev")
    subprocess.run(["rsync", "-a", "--exclude", ".git", "/repo/", d + "/"], check=True)
    r = subprocess.run(["git", "apply", patch], cwd=d, capture_output=True, text=True)
    if r.returncode != 0:
        shutil.rmtree(d, ignore_errors=True); return (it, None, "patch does not apply: " + r.stderr.strip()[:200])
    e = dict(env, UHLINT_REPO=d, UHLINT_EVIDENCE_DIR=ev)
    r = subprocess.run(["/verif/bin/uhlint", "check", "ALL"], capture_output=True, text=True, errors="replace", env=e)
    shutil.rmtree(d, ignore_errors=True); shutil.rmtree(ev, ignore_errors=True)
    hits = {}; lines = []
    cur = []
    for l in r.stdout.splitlines():
        m = re.match(r"^VIOLATION property=(C\d+)", l)
        if m:
            for c in cur:
                mm = re.search(r"\[([A-Za-z0-9-]+)\]", c)
                hits.setdefault(m.group(1), set()).add(mm.group(1) if mm else "?")
                lines.append(m.group(1) + ": " + c)
            cur = []
        elif re.match(r"^C\d+ tier=", l):
            cur = []
        elif not l.startswith("KNOWN-FINDING"):
            cur.append(l)
    if r.returncode not in (0, 1) and not hits:
        return (it, None, "uhlint exit %d: %s" % (r.returncode, (r.stderr or r.stdout)[-300:]))
    return (it, hits, lines)
bad = 0
with ThreadPoolExecutor(jobs) as ex:
    for it, hits, lines in ex.map(run, items):
        kind, id, _ = it
        if hits is None:
            print("%s: ERROR %s" % (id, lines)); bad = 1; continue
        summ = " ".join("%s[%s]" % (c, ",".join(sorted(r))) for c, r in sorted(hits.items()))
        if kind == "seeded":
            prop = id.split("-")[0]
            if prop in hits: print("%s: reported %s" % (id, summ))
            else: print("%s: NOT REPORTED by %s (others: %s)" % (id, prop, summ or "none")); bad = 1
        else:
            if hits:
                print("%s: FALSE ALARM %s" % (id, summ)); bad = 1
                if verbose:
                    seen = set()
                    for l in lines:
                        k = l.split(": ", 1)[1]
                        if k not in seen: seen.add(k); print("      " + l[:420])
            else: print("%s: silent" % id)
shutil.rmtree(root, ignore_errors=True)
sys.exit(bad)
