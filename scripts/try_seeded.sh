#!/bin/bash
# try_seeded.sh <scratch worktree> <patch.diff> <demo file> <demo destination (relative)> <go test args...>
# Confirms a seeded change in a scratch worktree of /repo (reset to /repo's HEAD): (1) the demonstration
# passes on the unchanged tree, (2) with the patch the repository builds and its own suite passes,
# (3) with the patch the demonstration fails; then (4) applies the patch to /repo, runs all 18 quick
# checks, and undoes it straight afterwards.
export UHLINT_EVIDENCE_DIR=$(mktemp -d /tmp/uhlint-ev.XXXXXX)  # never overwrite /verif/evidence from a modified tree
set -u
export GOFLAGS=-mod=mod GOPROXY=off GOSUMDB=off GOTOOLCHAIN=local; unset GOWORK
wt=$1; patch=$2; demo=$3; dest=$4; shift 4
head=$(git -C /repo rev-parse HEAD)
cd "$wt" && git checkout -q --detach "$head" && git checkout -q -- . && git clean -fdq
mkdir -p "$(dirname "$wt/$dest")"; cp "$demo" "$wt/$dest"
if go test -vet=off -count=1 "$@" >/tmp/try_demo_clean.log 2>&1; then echo "1 demo on unchanged tree: PASS (ok)"; else echo "1 demo on unchanged tree: FAIL (bad)"; tail -n 5 /tmp/try_demo_clean.log; fi
rm -f "$wt/$dest"
git apply "$patch" || { echo "patch does not apply"; exit 2; }
ok=0
for attempt in 1 2 3; do
  if go build ./... >/tmp/try_build.log 2>&1 && go test -vet=off -count=1 ./... >/tmp/try_suite.log 2>&1; then ok=1; break; fi
  grep -q 'address already in use' /tmp/try_suite.log || break
  sleep 3
done
if [ $ok = 1 ]; then echo "2 suite with patch: PASS (ok)"; else echo "2 suite with patch: FAIL (bad)"; tail -n 5 /tmp/try_build.log; grep -v '^ok' /tmp/try_suite.log | tail -n 8; fi
cp "$demo" "$wt/$dest"
if go test -vet=off -count=1 "$@" >/tmp/try_demo_patched.log 2>&1; then echo "3 demo with patch: PASS (bad)"; else echo "3 demo with patch: FAIL (ok)"; grep -m3 -e '--- FAIL' -e 'panic' -e 'DATA RACE' /tmp/try_demo_patched.log; fi
git checkout -q -- . && git clean -fdq
cd /repo
git diff --quiet || { echo "/repo not clean"; exit 2; }
trap 'git -C /repo checkout -q -- . ; git -C /repo clean -fdq' EXIT
git apply "$patch" || { echo "patch does not apply to /repo"; exit 2; }
hits=""
for i in 01 02 03 04 05 06 07 08 09 10 11 12 13 14 15 16 17 18; do
  out=$(/verif/bin/uhlint check C$i 2>/dev/null)
  if echo "$out" | grep -q '^VIOLATION'; then
    hits="$hits C$i$(echo "$out" | grep -o '^[^ ]*: \[[A-Za-z0-9-]*\]' | grep -o '\[[A-Za-z0-9-]*\]' | sort -u | tr -d '\n')"
    echo "$out" | grep -v -e '^VIOLATION' -e WARNING | grep '\[' | head -2 | cut -c1-330 | sed "s/^/     C$i: /"
  fi
done
git checkout -q -- . && git clean -fdq
echo "4 checks firing:${hits:- NONE}"
