#!/bin/bash
# try_seeded.sh <scratch worktree> <patch.diff> <demo file> <demo destination (relative)> <go test args...>
# Confirms a seeded change in a scratch worktree of /repo (reset to /repo's HEAD): (1) the demonstration
# passes on the unchanged tree, (2) with the patch the repository builds and its own suite passes,
# (3) with the patch the demonstration fails; then (4) runs all 18 quick checks on a scratch copy of /repo with the patch applied.
export UHLINT_EVIDENCE_DIR=$(mktemp -d /tmp/uhlint-ev.XXXXXX)  # never overwrite /verif/evidence from a modified tree
set -u
export GOFLAGS=-mod=mod GOPROXY=off GOSUMDB=off GOTOOLCHAIN=local; unset GOWORK
wt=$1; patch=$2; demo=$3; dest=$4; shift 4
head=$(git -C /repo rev-parse HEAD)
cd "$wt" && git checkout -q --detach "$head" && git checkout -q -- . && git clean -fdq
mkdir -p "$(dirname "$wt/$dest")"; cp "$demo" "$wt/$dest"
if go test -vet=off -count=1 "$@" >/tmp/try_demo_clean.log 2>&1; then echo "1 demo on unchanged tree: PASS (ok)"; else echo "1 demo on unchanged tree: FAIL (bad)"; tail -n 5 /tmp/try_demo_clean.log; fi
rm -f "$wt/$dest"
git apply "$patch" || { echo "patch does not apply"; exit 2; }
ok=0
for attempt in 1 2 3; do
  if go build ./... >/tmp/try_build.log 2>&1 && go test -vet=off -count=1 ./... >/tmp/try_suite.log 2>&1; then ok=1; break; fi
  grep -q 'address already in use' /tmp/try_suite.log || break
  sleep 3
done
if [ $ok = 1 ]; then echo "2 suite with patch: PASS (ok)"; else echo "2 suite with patch: FAIL (bad)"; tail -n 5 /tmp/try_build.log; grep -v '^ok' /tmp/try_suite.log | tail -n 8; fi
cp "$demo" "$wt/$dest"
if go test -vet=off -count=1 "$@" >/tmp/try_demo_patched.log 2>&1; then echo "3 demo with patch: PASS (bad)"; else echo "3 demo with patch: FAIL (ok)"; grep -m3 -e '--- FAIL' -e 'panic' -e 'DATA RACE' /tmp/try_demo_patched.log; fi
git checkout -q -- . && git clean -fdq
# (4) the checks, on a scratch copy of /repo with the patch applied (never on /repo itself)
copy=$(mktemp -d /tmp/uhlint-try.XXXXXX)
rsync -a --exclude .git /repo/ "$copy/"
( cd "$copy" && git apply "$patch" ) || { echo "patch does not apply to /repo"; rm -rf "$copy"; exit 2; }
out=$(UHLINT_REPO="$copy" /verif/bin/uhlint check ALL 2>/dev/null)
rm -rf "$copy" "$UHLINT_EVIDENCE_DIR"
hits=$(echo "$out" | awk '/^VIOLATION property=/{split($2,a,"="); p=a[2]; for(i in cur){ if (match(cur[i], /\[[A-Za-z0-9-]+\]/)) h[p]=h[p] substr(cur[i],RSTART,RLENGTH) } delete cur; n=0; next} /^C[0-9]+ tier=/{delete cur; n=0; next} {cur[n++]=$0} END{for(p in h) printf " %s%s", p, h[p]}')
echo "$out" | grep -v -e '^VIOLATION' -e WARNING -e ' tier=' | grep '\[' | sort -u | head -6 | cut -c1-330 | sed "s/^/     /"
echo "4 checks firing:${hits:- NONE}"
