#!/bin/bash
# eval_round.sh <out dir root> <scratch worktree> <Cnn> : evaluates A/B/C... of one sub-agent output directory
root=$1; wt=$2; c=$3
for diff in $root/$c-out/*.diff; do
  x=$(basename $diff .diff)
  demo=$root/$c-out/${x}_demo_test.go
  [ -f "$demo" ] || { echo "=== $c $x: no demo"; continue; }
  pk=$(grep -m1 '^package ' $demo | awk '{print $2}')
  case $pk in uhppote|uhppote_test) dir=uhppote;; types|types_test) dir=types;; messages|messages_test) dir=messages;; bcd|bcd_test) dir=encoding/bcd;; UTO311_L0x|UTO311_L0x_test) dir=encoding/UTO311-L0x;; *) dir=uhppote;; esac
  pat=$(grep -o '^func Test[A-Za-z0-9_]*' $demo | awk '{print $2}' | paste -sd'|')
  flags=""; grep -q -- '-race' $root/$c-out/$x.md 2>/dev/null && flags="-race"
  echo "=== $c $x ($dir, $pat $flags)"
  /verif/scripts/try_seeded.sh $wt $diff $demo $dir/zz_${x}_demo_test.go $flags -run "$pat" ./$dir/ 2>&1 | grep -v WARNING | cut -c1-340
done
