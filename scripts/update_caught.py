#!/usr/bin/env python3
"""update_caught.py <matrix output file>: writes the 'reported ...' summary of a matrix run into the caught_by of
each seeded change listed in it (own property first)."""
import json, re, sys
for l in open(sys.argv[1], errors="replace"):
    m = re.match(r"^(C\d+-\w+): reported (.*)$", l.strip())
    if not m: continue
    id, summ = m.groups()
    own = id.split("-")[0]
    parts = summ.split()
    parts.sort(key=lambda s: (not s.startswith(own), s))
    f = "/verif/seeded/%s/meta.json" % id
    meta = json.load(open(f))
    meta["caught_by"] = " ".join(parts)
    json.dump(meta, open(f, "w"), indent=1)
